(* Sem/CascadeFacts.v -- general facts for the proofs about the statement-classification layer
   (Sem/CascadeProofs.v): shape of rendered lines, how the chain is walked, when a pattern cannot
   match a line that begins with a given keyword, evaluation of the recognisers on rendered text. *)
From Coq Require Import ZArith NArith Lia.
From Ford Require Import Base.Str Base.StrFacts Base.StrX Base.StrXFacts Sem.Tree Sem.TypeSpec Sem.DeclSpec
     Sem.TypeSpecProofs Sem.CascadeTypes Gen.Cascade Sem.Cascade Sem.CascadeSpec.
Local Open Scope nat_scope.

(* ------------------------------------------------------------------ the model was written from these tables *)
Lemma patterns_as_modelled : patterns = modelled_patterns.
Proof. reflexivity. Qed.
Lemma cascade_as_modelled : cascade = modelled_cascade.
Proof. reflexivity. Qed.
Lemma prologue_as_modelled : prologue = modelled_prologue /\ after_loop = modelled_after_loop.
Proof. split; reflexivity. Qed.

(* ------------------------------------------------------------------ characters *)
Lemma lower_is_lower c : is_lower c = true -> lower_ch c = c.
Proof. apply lower_ch_lower. Qed.

Lemma alpha_word c : is_alpha c = true -> is_word c = true.
Proof. intros H. unfold is_word. now rewrite H. Qed.
Lemma alpha_nospace c : is_alpha c = true -> is_space c = false.
Proof. intros H. now destruct (alpha_plain c H) as (_ & _ & _ & _ & E & _). Qed.
Lemma word_nospace c : is_word c = true -> is_space c = false.
Proof. intros H. now destruct (word_plain c H) as (E & _). Qed.

Lemma is_word_lower_ch c : is_word (lower_ch c) = is_word c.
Proof.
  unfold lower_ch. destruct (is_upper c) eqn:U; [|reflexivity].
  assert (Hc : is_word c = true) by (unfold is_word, is_alpha; now rewrite U).
  rewrite Hc. unfold is_upper, code in U. apply andb_true_iff in U as [U1 U2]. apply Nat.leb_le in U1, U2.
  unfold is_word, is_alpha, is_lower, code. rewrite nat_ascii_embedding by lia.
  replace (97 <=? nat_of_ascii c + 32) with true by (symmetry; apply Nat.leb_le; lia).
  replace (nat_of_ascii c + 32 <=? 122) with true by (symmetry; apply Nat.leb_le; lia).
  now rewrite orb_true_r.
Qed.
Lemma is_space_lower_ch c : is_space (lower_ch c) = is_space c.
Proof.
  unfold lower_ch. destruct (is_upper c) eqn:U; [|reflexivity].
  assert (Hc : is_alpha c = true) by (unfold is_alpha; now rewrite U).
  rewrite (alpha_nospace c Hc).
  unfold is_upper, code in U. apply andb_true_iff in U as [U1 U2]. apply Nat.leb_le in U1, U2.
  unfold is_space, code. rewrite nat_ascii_embedding by lia.
  apply orb_false_iff. split; apply andb_false_iff; right; apply Nat.leb_gt; lia.
Qed.
Lemma is_digit_lower_ch c : is_digit (lower_ch c) = is_digit c.
Proof.
  unfold lower_ch. destruct (is_upper c) eqn:U; [|reflexivity].
  unfold is_upper, code in U. apply andb_true_iff in U as [U1 U2]. apply Nat.leb_le in U1, U2.
  unfold is_digit, code. rewrite nat_ascii_embedding by lia.
  replace (nat_of_ascii c + 32 <=? 57) with false by (symmetry; apply Nat.leb_gt; lia).
  replace (nat_of_ascii c <=? 57) with false by (symmetry; apply Nat.leb_gt; lia).
  now rewrite !andb_false_r.
Qed.

(* ------------------------------------------------------------------ prefixes, case-insensitive matching *)
Lemma match_ci_prefix w : forall x r, match_ci w x = Some r -> prefix w (lower x) = true.
Proof.
  induction w as [|a w IH]; intros x r H; [reflexivity|].
  destruct x as [|b x]; [discriminate|]. cbn [match_ci] in H. cbn [lower map prefix].
  destruct (Ascii.eqb a (lower_ch b)); [|discriminate]. now apply (IH x r).
Qed.
Lemma match_ci_none w x : prefix w (lower x) = false -> match_ci w x = None.
Proof.
  intros H. destruct (match_ci w x) eqn:E; [|reflexivity]. apply match_ci_prefix in E. congruence.
Qed.

Lemma lower_app a b : lower (a ++ b) = lower a ++ lower b.
Proof. unfold lower. apply map_app. Qed.
Lemma lower_kw m w : forallb is_lower w = true -> lower (recase m w) = w.
Proof. apply lower_recase. Qed.
Lemma lower_blanks n : lower (blanks n) = blanks n.
Proof. apply map_lower_blanks. Qed.

(* ------------------------------------------------------------------ pieces *)
Lemma denote_cons p ps : denote (p :: ps) = piece_text p ++ denote ps.
Proof. reflexivity. Qed.
Lemma denote_app a b : denote (a ++ b) = denote a ++ denote b.
Proof. induction a as [|p a IH]; [reflexivity|]. cbn [app]. rewrite !denote_cons, IH. now rewrite app_assoc. Qed.

(* what every piece must satisfy *)
Definition piece_ok (p : piece) : Prop :=
  match p with
  | PKw _ w => forallb is_lower w = true
  | PId x => ident_ok x = true
  | PCh c => printable_ch c = true /\ is_quote c = false
  | PTx x => forallb printable_ch x = true /\ existsb is_quote x = false
  | PBl _ | PGap _ => True
  end.

Lemma printable_ch_model c : Sem.Cascade.printable_ch c = (Sem.CascadeSpec.printable_ch c || (N_of_ascii c =? 9)%N).
Proof. reflexivity. Qed.

Lemma lower_printable c : is_lower c = true -> Sem.CascadeSpec.printable_ch c = true.
Proof.
  intros H. unfold is_lower, code in H. apply andb_true_iff in H as [H1 H2]. apply Nat.leb_le in H1, H2.
  unfold Sem.CascadeSpec.printable_ch. rewrite <- (ascii_nat_embedding c).
  remember (nat_of_ascii c) as n. clear Heqn.
  do 97 (destruct n as [|n]; [exfalso; lia|]).
  do 26 (destruct n as [|n]; [reflexivity|]). exfalso. lia.
Qed.

(* ------------------------------------------------------------------ shape of a rendered line *)
Notation mprintable_ch := Sem.Cascade.printable_ch.
Notation sprintable_ch := Sem.CascadeSpec.printable_ch.

Lemma N_of_ascii_nat c : N_of_ascii c = N.of_nat (nat_of_ascii c).
Proof. unfold nat_of_ascii. now rewrite N2Nat.id. Qed.

Lemma sprintable_iff c : sprintable_ch c = true <-> 32 <= nat_of_ascii c <= 126.
Proof. unfold sprintable_ch. rewrite N_of_ascii_nat, andb_true_iff, !N.leb_le. lia. Qed.
Lemma sprintable_m c : sprintable_ch c = true -> mprintable_ch c = true.
Proof. intros H. rewrite printable_ch_model, H. reflexivity. Qed.

Lemma word_sprintable c : is_word c = true -> sprintable_ch c = true.
Proof.
  intros H. apply sprintable_iff.
  unfold is_word, is_alpha, is_upper, is_lower, is_digit, code in H.
  repeat match goal with
         | H : (_ || _) = true |- _ => apply orb_true_iff in H as [H|H]
         | H : (_ && _) = true |- _ => apply andb_true_iff in H as [? ?]
         | H : (_ <=? _) = true |- _ => apply Nat.leb_le in H
         | H : (_ =? _) = true |- _ => apply Nat.eqb_eq in H
         end; lia.
Qed.
Lemma word_noquote c : is_word c = true -> is_quote c = false.
Proof.
  intros H. destruct (is_quote c) eqn:Q; [|reflexivity]. exfalso.
  unfold is_quote in Q. apply orb_true_iff in Q as [Q|Q]; apply Ascii.eqb_eq in Q; subst c; discriminate.
Qed.

Lemma words_printable x : forallb is_word x = true -> printable x = true.
Proof.
  intros H. unfold printable. apply forallb_forall. intros c Hc. rewrite forallb_forall in H.
  apply sprintable_m, word_sprintable, H, Hc.
Qed.
Lemma words_noquote x : forallb is_word x = true -> existsb is_quote x = false.
Proof.
  intros H. apply Bool.not_true_is_false. intros E. apply existsb_exists in E as (c & Hc & Q).
  rewrite forallb_forall in H. rewrite (word_noquote c (H c Hc)) in Q. discriminate.
Qed.
Lemma alphas_words x : forallb is_alpha x = true -> forallb is_word x = true.
Proof.
  intros H. apply forallb_forall. intros c Hc. rewrite forallb_forall in H. apply alpha_word, H, Hc.
Qed.
Lemma kw_words m w : forallb is_lower w = true -> forallb is_word (recase m w) = true.
Proof. intros H. apply alphas_words, alpha_recase, H. Qed.
Lemma ident_words x : ident_ok x = true -> forallb is_word x = true.
Proof. intros H. now destruct (ident_ok_inv x H) as (c & r & _ & _ & W). Qed.

Lemma printable_blanks n : printable (blanks n) = true.
Proof. induction n as [|n IH]; [reflexivity|]. exact IH. Qed.
Lemma noquote_blanks n : existsb is_quote (blanks n) = false.
Proof. induction n as [|n IH]; [reflexivity|]. exact IH. Qed.

Lemma piece_printable p : piece_ok p -> printable (piece_text p) = true /\ existsb is_quote (piece_text p) = false.
Proof.
  destruct p as [m w|n|n|x|c|x]; cbn [piece_ok piece_text]; intros H.
  - split; [apply words_printable|apply words_noquote]; now apply kw_words.
  - split; [apply printable_blanks|apply noquote_blanks].
  - split; [apply (printable_blanks (S n))|apply (noquote_blanks (S n))].
  - split; [apply words_printable|apply words_noquote]; now apply ident_words.
  - destruct H as [P Q]. split; cbn; [now rewrite (sprintable_m c P)|now rewrite Q].
  - destruct H as [P Q]. split; [|exact Q]. unfold printable. apply forallb_forall. intros c Hc.
    rewrite forallb_forall in P. apply sprintable_m, P, Hc.
Qed.

Lemma printable_denote ps : Forall piece_ok ps ->
  printable (denote ps) = true /\ existsb is_quote (denote ps) = false.
Proof.
  induction 1 as [|p ps Hp _ IH]; [split; reflexivity|].
  rewrite denote_cons. destruct (piece_printable p Hp) as [A B]. destruct IH as [C D].
  unfold printable in *. rewrite forallb_app, existsb_app, A, B, C, D. split; reflexivity.
Qed.

Lemma mask_go_noquote f : forall x acc, existsb is_quote x = false -> mask_go f x acc [] = (rev acc ++ x, []).
Proof.
  induction f as [|f IH]; intros x acc H; [reflexivity|].
  destruct x as [|c r]; cbn [mask_go]; [now rewrite app_nil_r|].
  cbn [existsb] in H. apply orb_false_iff in H as [Hc Hr]. rewrite Hc, (IH r (c :: acc) Hr).
  cbn [rev]. now rewrite <- app_assoc.
Qed.
Lemma mask_line_noquote x : existsb is_quote x = false -> mask_line x = (x, []).
Proof. intros H. unfold mask_line. now rewrite mask_go_noquote. Qed.

(* the first and the last character *)
Definition ends_nonspace (x : str) : Prop := exists t d, x = t ++ [d] /\ is_space d = false.
Definition starts_alnum (x : str) : Prop := exists c r, x = c :: r /\ is_word c = true.

Lemma ends_nonspace_app a b : ends_nonspace b -> ends_nonspace (a ++ b).
Proof. intros (t & d & -> & H). exists (a ++ t), d. now rewrite app_assoc. Qed.
Lemma starts_alnum_app a b : starts_alnum a -> starts_alnum (a ++ b).
Proof. intros (c & r & -> & H). exists c, (r ++ b). auto. Qed.

Lemma words_ends x : x <> [] -> forallb is_word x = true -> ends_nonspace x.
Proof.
  intros N W. destruct (exists_last N) as (t & d & ->). exists t, d. split; [reflexivity|].
  rewrite forallb_app in W. apply andb_true_iff in W as [_ W]. cbn in W. rewrite andb_true_r in W.
  now apply word_nospace.
Qed.
Lemma kw_nonempty m w : w <> [] -> recase m w <> [].
Proof. destruct w; [congruence|]. destruct m; discriminate. Qed.
Lemma ident_nonempty x : ident_ok x = true -> x <> [].
Proof. destruct x; [discriminate|discriminate]. Qed.

Lemma kw_starts m w : w <> [] -> forallb is_lower w = true -> starts_alnum (recase m w).
Proof.
  intros N L. pose proof (kw_words m w L) as W. pose proof (kw_nonempty m w N) as N'.
  destruct (recase m w) as [|c r]; [congruence|]. exists c, r. split; [reflexivity|].
  cbn in W. now apply andb_true_iff in W as [W _].
Qed.
Lemma ident_starts x : ident_ok x = true -> starts_alnum x.
Proof. intros H. destruct (ident_ok_inv x H) as (c & r & -> & A & _). exists c, r. auto using alpha_word. Qed.

Lemma is_stripped_intro x : starts_alnum x -> ends_nonspace x -> is_stripped x = true /\ prefix (s "!!") x = false.
Proof.
  intros (c & r & -> & Hc) (t & d & E & Hd). split.
  - unfold is_stripped. rewrite (word_nospace c Hc). rewrite E, rev_app_distr. cbn. now rewrite Hd.
  - change (prefix (s "!!") (c :: r)) with (if Ascii.eqb "!"%char c then prefix (s "!") r else false).
    destruct (Ascii.eqb "!" c) eqn:Q; [|reflexivity]. apply Ascii.eqb_eq in Q. subst c. discriminate.
Qed.

(* the last piece of a line *)
Definition piece_ends (p : piece) : Prop :=
  match p with
  | PKw _ w => w <> []
  | PId _ => True
  | PCh c => is_space c = false
  | PTx x => ends_nonspace x
  | PBl _ | PGap _ => False
  end.
Lemma piece_ends_text p : piece_ok p -> piece_ends p -> ends_nonspace (piece_text p).
Proof.
  destruct p as [m w|n|n|x|c|x]; cbn [piece_ok piece_ends piece_text]; intros O E; try contradiction.
  - apply words_ends; [now apply kw_nonempty|now apply kw_words].
  - apply words_ends; [now apply ident_nonempty|now apply ident_words].
  - exists [], c. auto.
  - exact E.
Qed.
Lemma denote_ends init p : piece_ok p -> piece_ends p -> ends_nonspace (denote (init ++ [p])).
Proof.
  intros O E. rewrite denote_app. apply ends_nonspace_app. cbn [denote fold_right]. rewrite app_nil_r.
  now apply piece_ends_text.
Qed.

(* what [classify] does with a rendered line before the chain starts *)
Lemma classify_rendered c ps :
  Forall piece_ok ps -> starts_alnum (denote ps) -> ends_nonspace (denote ps) ->
  classify c (denote ps) = run_cascade c (denote ps) [] cascade.
Proof.
  intros O S E. unfold classify. destruct (is_stripped_intro _ S E) as [St Pd].
  destruct (printable_denote ps O) as [P Q]. rewrite Pd, P, St. cbn [negb].
  now rewrite (mask_line_noquote _ Q).
Qed.

(* ------------------------------------------------------------------ walking the chain *)
Definition misses (c : ctx) (m : str) (b : branch) : Prop :=
  is_tail (cond_key (br_cond b)) = false /\ eval_cond c m (br_cond b) = No.

Lemma run_cascade_at c m lits pre b post :
  Forall (misses c m) pre ->
  is_tail (cond_key (br_cond b)) = false -> eval_cond c m (br_cond b) = Yes ->
  run_cascade c m lits (pre ++ b :: post) = action (cond_key (br_cond b)) c m lits.
Proof.
  intros H T Y. induction H as [|b' pre [T' N'] _ IH]; cbn [app run_cascade].
  - now rewrite T, Y.
  - now rewrite T', N'.
Qed.
Lemma run_cascade_tail c m lits pre b post :
  Forall (misses c m) pre -> is_tail (cond_key (br_cond b)) = true ->
  run_cascade c m lits (pre ++ b :: post) = Fired (s "tail") SNoop.
Proof.
  intros H T. induction H as [|b' pre [T' N'] _ IH]; cbn [app run_cascade].
  - now rewrite T.
  - now rewrite T', N'.
Qed.

(* ------------------------------------------------------------------ patterns anchored at a keyword *)
Definition anchors (r : re_id) : list str :=
  match r with
  | ATTRIB_RE => s "bind" :: s "intent" :: attrib_words
  | MODPROC_RE => [s "module"; s "procedure"]
  | BLOCK_DATA_RE => [s "block"]
  | MODULE_RE => [s "module"] | SUBMODULE_RE => [s "submodule"] | PROGRAM_RE => [s "program"]
  | NAMELIST_RE => [s "namelist"] | TYPE_RE => [s "type"] | INTERFACE_RE => [s "abstract"; s "interface"]
  | ENUM_RE => [s "enum"] | BOUNDPROC_RE => [s "generic"; s "procedure"] | COMMON_RE => [s "common"]
  | FINAL_RE => [s "final"] | VARIABLE_RE => map fst variable_words | USE_RE => [s "use"]
  | _ => []
  end.
Definition anchored (r : re_id) : bool := match anchors r with [] => false | _ => true end.

Definition none_prefix (ws : list str) (y : str) : bool := negb (existsb (fun w => prefix w y) ws).

Lemma attrib_alts_none ws x : none_prefix ws (lower x) = true -> attrib_alts ws x = None.
Proof.
  unfold none_prefix. induction ws as [|w ws IH]; intros H; [reflexivity|].
  cbn [existsb] in H. apply negb_true_iff, orb_false_iff in H as [H1 H2].
  cbn [attrib_alts]. rewrite (match_ci_none w x H1). apply IH. now rewrite H2.
Qed.

Lemma match_two_none w1 w2 x : prefix w1 (lower x) = false -> match_two w1 w2 x = None.
Proof. intros H. unfold match_two. now rewrite (match_ci_none w1 x H). Qed.

Lemma variable_re_alts_none alts x :
  none_prefix (map fst alts) (lower x) = true -> variable_re_alts alts x = false.
Proof.
  unfold none_prefix. induction alts as [|[w1 w2] alts IH]; intros H; [reflexivity|].
  cbn [map fst existsb] in H. apply negb_true_iff, orb_false_iff in H as [H1 H2].
  cbn [variable_re_alts].
  assert (E : match w2 with None => match_ci w1 x | Some w => match_two w1 w x end = None).
  { destruct w2; [now apply match_two_none|now apply match_ci_none]. }
  rewrite E. apply IH. now rewrite H2.
Qed.

Lemma anchored_miss r x : anchored r = true -> none_prefix (anchors r) (lower x) = true -> re_match r x = No.
Proof.
  intros A H. unfold none_prefix in H. apply negb_true_iff in H.
  destruct r; try discriminate A; cbn [anchors existsb] in H;
    repeat match type of H with (_ || _) = false => apply orb_false_iff in H as [? H] end;
    cbn [re_match].
  - (* ATTRIB_RE *)
    unfold attrib_match. rewrite (match_ci_none (s "bind") x) by assumption.
    unfold attrib_re. rewrite (match_ci_none (s "bind") x) by assumption.
    unfold match_intent. rewrite (match_ci_none (s "intent") x) by assumption.
    rewrite attrib_alts_none; [reflexivity|]. unfold none_prefix. now rewrite H.
  - unfold modproc_re. rewrite (match_ci_none (s "module") x) by assumption.
    now rewrite (match_ci_none (s "procedure") x).
  - unfold block_data_re. now rewrite (match_ci_none (s "block") x).
  - unfold unit_name_re. now rewrite (match_ci_none (s "module") x).
  - unfold submodule_re. now rewrite (match_ci_none (s "submodule") x).
  - unfold unit_name_re. now rewrite (match_ci_none (s "program") x).
  - unfold namelist_re. now rewrite (match_ci_none (s "namelist") x).
  - unfold type_re. now rewrite (match_ci_none (s "type") x).
  - unfold interface_re. rewrite (match_ci_none (s "abstract") x) by assumption.
    now rewrite (match_ci_none (s "interface") x).
  - unfold enum_re. now rewrite (match_ci_none (s "enum") x).
  - unfold boundproc_re. rewrite (match_ci_none (s "generic") x) by assumption.
    now rewrite (match_ci_none (s "procedure") x).
  - unfold common_re. now rewrite (match_ci_none (s "common") x).
  - unfold final_re. now rewrite (match_ci_none (s "final") x).
  - unfold is_declaration. rewrite variable_re_alts_none; [reflexivity|].
    unfold none_prefix. apply negb_true_iff. exact H.
  - unfold use_re. now rewrite (match_ci_none (s "use") x).
Qed.

(* FORMAT_RE starts with a digit *)
Lemma format_miss x : (match lower x with c :: _ => is_digit c | [] => false end) = false -> re_match FORMAT_RE x = No.
Proof.
  intros H. cbn [re_match]. unfold format_re. destruct x as [|c r]; [reflexivity|].
  cbn [lower map] in H. rewrite is_digit_lower_ch in H. cbn [take_while]. now rewrite H.
Qed.

(* END_RE: an optional statement label, then "end" *)
Lemma end_miss x : (match lower x with c :: _ => is_digit c | [] => false end) = false ->
  prefix (s "end") (lower x) = false -> re_match END_RE x = No.
Proof.
  intros D P. cbn [re_match]. unfold end_re. destruct x as [|c r]; [reflexivity|].
  cbn [lower map] in D. rewrite is_digit_lower_ch in D. cbn [take_while]. rewrite D.
  unfold end_core. now rewrite (match_ci_none (s "end") (c :: r) P).
Qed.

(* ------------------------------------------------------------------ the two unanchored patterns *)
Lemma prefix_has_sub w x : prefix w x = true -> has_sub w x = true.
Proof. destruct x as [|c x]; cbn [has_sub]; [destruct w; [reflexivity|discriminate]|]. now intros ->. Qed.
Lemma has_sub_tail w c x : has_sub w x = true -> has_sub w (c :: x) = true.
Proof. intros H. cbn [has_sub]. now destruct (prefix w (c :: x)). Qed.

Lemma fun_scan_none x : has_sub (s "function") (lower x) = false -> fun_scan x = None /\ fun_here x = None.
Proof.
  induction x as [|c x IH]; intros H.
  - split; [reflexivity|]. unfold fun_here. reflexivity.
  - assert (Hh : fun_here (c :: x) = None).
    { unfold fun_here. rewrite match_ci_none; [reflexivity|].
      destruct (prefix (s "function") (lower (c :: x))) eqn:P; [|reflexivity].
      apply prefix_has_sub in P. congruence. }
    split; [|exact Hh]. cbn [fun_scan]. rewrite Hh. apply IH.
    destruct (has_sub (s "function") (lower x)) eqn:E; [|reflexivity].
    apply (has_sub_tail _ (lower_ch c)) in E. cbn [lower map] in H. unfold lower in E. congruence.
Qed.
Lemma function_miss x : has_sub (s "function") (lower x) = false -> re_match FUNCTION_RE x = No.
Proof.
  intros H. cbn [re_match]. unfold function_re. destruct x as [|c x]; [reflexivity|].
  destruct (fun_scan_none (c :: x) H) as [_ Hh].
  assert (Hx : has_sub (s "function") (lower x) = false).
  { destruct (has_sub (s "function") (lower x)) eqn:E; [|reflexivity].
    apply (has_sub_tail _ (lower_ch c)) in E. cbn [lower map] in H. unfold lower in E. congruence. }
  destruct (fun_scan_none x Hx) as [Hs _]. now rewrite Hs, Hh.
Qed.

Lemma sub_scan_none x : forall b, has_sub (s "subroutine") (lower x) = false -> sub_scan b x = None.
Proof.
  induction x as [|c x IH]; intros b H; [reflexivity|].
  cbn [sub_scan].
  assert (Hm : match_ci (s "subroutine") (c :: x) = None).
  { apply match_ci_none. destruct (prefix (s "subroutine") (lower (c :: x))) eqn:P; [|reflexivity].
    apply prefix_has_sub in P. congruence. }
  rewrite Hm. destruct b; apply IH;
    (destruct (has_sub (s "subroutine") (lower x)) eqn:E; [|reflexivity];
     apply (has_sub_tail _ (lower_ch c)) in E; cbn [lower map] in H; unfold lower in E; congruence).
Qed.
Lemma subroutine_miss x : has_sub (s "subroutine") (lower x) = false -> re_match SUBROUTINE_RE x = No.
Proof.
  intros H. cbn [re_match]. unfold subroutine_re. destruct x as [|c x]; [reflexivity|].
  assert (Hm : match_ci (s "subroutine") (c :: x) = None).
  { apply match_ci_none. destruct (prefix (s "subroutine") (lower (c :: x))) eqn:P; [|reflexivity].
    apply prefix_has_sub in P. congruence. }
  assert (Hx : has_sub (s "subroutine") (lower x) = false).
  { destruct (has_sub (s "subroutine") (lower x)) eqn:E; [|reflexivity].
    apply (has_sub_tail _ (lower_ch c)) in E. cbn [lower map] in H. unfold lower in E. congruence. }
  now rewrite (sub_scan_none x (is_space c) Hx), Hm.
Qed.

(* a word that is made of other characters than the separators cannot straddle them *)
Definition char_in (c : ascii) (w : str) : bool := existsb (Ascii.eqb c) w.

Lemma prefix_app_sep w : forall a c b, char_in c w = false -> w <> [] -> prefix w (a ++ c :: b) = prefix w a.
Proof.
  induction w as [|x w IH]; intros a c b H N; [congruence|].
  cbn [char_in existsb] in H. apply orb_false_iff in H as [H1 H2].
  destruct a as [|y a]; cbn [app prefix].
  - rewrite Ascii.eqb_sym, H1. reflexivity.
  - destruct (Ascii.eqb x y); [|reflexivity].
    destruct w as [|x' w']; [reflexivity|]. apply IH; [exact H2|discriminate].
Qed.
Lemma has_sub_nil w : w <> [] -> has_sub w [] = false.
Proof. destruct w; [congruence|reflexivity]. Qed.
Lemma has_sub_app_sep w a c b : char_in c w = false -> w <> [] ->
  has_sub w (a ++ c :: b) = has_sub w a || has_sub w b.
Proof.
  intros H N. induction a as [|y a IH]; cbn [app].
  - rewrite (has_sub_nil w N). cbn [has_sub orb].
    replace (prefix w (c :: b)) with (prefix w ([] ++ c :: b)) by reflexivity.
    rewrite (prefix_app_sep w [] c b H N). destruct w; [congruence|reflexivity].
  - cbn [has_sub]. change (y :: a ++ c :: b) with ((y :: a) ++ c :: b).
    rewrite (prefix_app_sep w (y :: a) c b H N). destruct (prefix w (y :: a)); [reflexivity|exact IH].
Qed.
Lemma has_sub_cons_sep w c y : char_in c w = false -> w <> [] -> has_sub w (c :: y) = has_sub w y.
Proof.
  intros H N. change (c :: y) with ([] ++ c :: y). now rewrite (has_sub_app_sep w [] c y H N), (has_sub_nil w N).
Qed.
Lemma has_sub_blanks w n y : char_in c_sp w = false -> w <> [] -> has_sub w (blanks n ++ y) = has_sub w y.
Proof.
  intros H N. induction n as [|n IH]; [reflexivity|].
  change (blanks (S n) ++ y) with ([] ++ c_sp :: (blanks n ++ y)).
  rewrite (has_sub_app_sep w [] c_sp _ H N), (has_sub_nil w N). exact IH.
Qed.

(* pieces that carry letters, and what must separate them *)
Definition letter_piece (p : piece) : bool :=
  match p with PKw _ _ | PId _ | PTx _ => true | _ => false end.
Fixpoint starts_sep (w : str) (ps : list piece) : bool :=
  match ps with
  | [] => true
  | PGap _ :: _ => true
  | PCh c :: _ => negb (char_in (lower_ch c) w)
  | PBl _ :: ps' => starts_sep w ps'
  | _ => false
  end.
Fixpoint sep_ok (w : str) (ps : list piece) : bool :=
  match ps with
  | [] => true
  | p :: ps' =>
    (match p with
     | PKw _ _ | PId _ | PTx _ => starts_sep w ps'
     | PCh c => negb (char_in (lower_ch c) w)
     | _ => true
     end) && sep_ok w ps'
  end.
Definition piece_free (w : str) (p : piece) : Prop :=
  match p with
  | PKw _ k => has_sub w k = false
  | PId x | PTx x => has_sub w (lower x) = false
  | _ => True
  end.

Lemma starts_sep_split w t ps : char_in c_sp w = false -> w <> [] -> starts_sep w ps = true ->
  has_sub w (t ++ lower (denote ps)) = has_sub w t || has_sub w (lower (denote ps)).
Proof.
  intros Hs N. induction ps as [|p ps IH]; intros H.
  - cbn [denote fold_right lower map]. rewrite app_nil_r, (has_sub_nil w N). now rewrite orb_false_r.
  - destruct p as [m k|n|n|x|c|x]; cbn [starts_sep] in H; try discriminate.
    + (* PBl *) rewrite denote_cons, lower_app. cbn [piece_text]. rewrite lower_blanks.
      rewrite (has_sub_blanks w n _ Hs N).
      induction n as [|n IHn]; [exact (IH H)|].
      change (t ++ blanks (S n) ++ lower (denote ps)) with (t ++ c_sp :: (blanks n ++ lower (denote ps))).
      rewrite (has_sub_app_sep w t c_sp _ Hs N). rewrite (has_sub_blanks w n _ Hs N).
      reflexivity.
    + (* PGap *) rewrite denote_cons, lower_app. cbn [piece_text]. rewrite lower_blanks.
      change (t ++ blanks (S n) ++ lower (denote ps)) with (t ++ c_sp :: (blanks n ++ lower (denote ps))).
      rewrite (has_sub_app_sep w t c_sp _ Hs N).
      change (blanks (S n) ++ lower (denote ps)) with ([] ++ c_sp :: (blanks n ++ lower (denote ps))).
      rewrite (has_sub_app_sep w [] c_sp _ Hs N), (has_sub_nil w N). reflexivity.
    + (* PCh *) apply negb_true_iff in H. rewrite denote_cons, lower_app. cbn [piece_text].
      change (lower [c]) with [lower_ch c]. cbn [app].
      rewrite (has_sub_app_sep w t _ _ H N), (has_sub_cons_sep w _ _ H N). reflexivity.
Qed.

Lemma pieces_free w ps : char_in c_sp w = false -> w <> [] -> sep_ok w ps = true ->
  Forall piece_ok ps -> Forall (piece_free w) ps ->
  has_sub w (lower (denote ps)) = false.
Proof.
  intros Hs N. induction ps as [|p ps IH]; intros S O F; [now apply has_sub_nil|].
  cbn [sep_ok] in S. apply andb_true_iff in S as [S1 S2].
  inversion F as [|? ? Fp Fps]; subst. inversion O as [|? ? Op Ops]; subst.
  specialize (IH S2 Ops Fps). rewrite denote_cons, lower_app.
  destruct p as [m k|n|n|x|c|x]; cbn [piece_text piece_free piece_ok] in *.
  - rewrite (starts_sep_split w _ ps Hs N S1), IH, orb_false_r. now rewrite (lower_kw m k Op).
  - rewrite lower_blanks, (has_sub_blanks w n _ Hs N). exact IH.
  - rewrite lower_blanks, (has_sub_blanks w (S n) _ Hs N). exact IH.
  - now rewrite (starts_sep_split w _ ps Hs N S1), IH, Fp.
  - apply negb_true_iff in S1. change (lower [c]) with [lower_ch c]. cbn [app].
    now rewrite (has_sub_cons_sep w _ _ S1 N), IH.
  - now rewrite (starts_sep_split w _ ps Hs N S1), IH, Fp.
Qed.

(* ------------------------------------------------------------------ construct labels: BLOCK_RE, ASSOCIATE_RE *)
Lemma skip_ws_words x y : x <> [] -> forallb is_word x = true -> skip_ws (x ++ y) = x ++ y.
Proof.
  intros N W. destruct x as [|c r]; [congruence|]. cbn in W. apply andb_true_iff in W as [Wc _].
  cbn [app skip_ws]. now rewrite (word_nospace c Wc).
Qed.
Lemma skip_ws_alnum x : starts_alnum x -> skip_ws x = x.
Proof. intros (c & r & -> & W). cbn [skip_ws]. now rewrite (word_nospace c W). Qed.
Lemma lit_alnum d x : is_word d = false -> starts_alnum x -> lit d x = None.
Proof.
  intros D (c & r & -> & W). cbn [lit]. destruct (Ascii.eqb c d) eqn:E; [|reflexivity].
  apply Ascii.eqb_eq in E. subst. congruence.
Qed.

(* the first character behind a keyword is not a word character *)
Fixpoint fnw (ps : list piece) : bool :=
  match ps with
  | [] => true
  | PGap _ :: _ => true
  | PCh c :: _ => negb (is_word c)
  | PBl _ :: ps' => fnw ps'
  | _ => false
  end.
Definition first_nonword (x : str) : bool := match x with c :: _ => negb (is_word c) | [] => true end.
Lemma fnw_denote ps : fnw ps = true -> first_nonword (denote ps) = true.
Proof.
  induction ps as [|p ps IH]; [reflexivity|]. destruct p as [m k|n|n|x|c|x]; cbn [fnw]; try discriminate; intros H.
  - rewrite denote_cons. cbn [piece_text]. destruct n; [exact (IH H)|reflexivity].
  - reflexivity.
  - rewrite denote_cons. cbn [piece_text app first_nonword]. exact H.
Qed.

Lemma take_while_word_kw m k y : forallb is_lower k = true -> first_nonword y = true ->
  take_while is_word (recase m k ++ y) = (recase m k, y).
Proof.
  intros L F. destruct y as [|c r].
  - rewrite app_nil_r. apply take_while_end. now apply kw_words.
  - apply take_while_all; [now apply kw_words|]. cbn in F. now apply negb_true_iff in F.
Qed.

Lemma label_prefix_kw m k y : k <> [] -> forallb is_lower k = true -> first_nonword y = true ->
  label_prefix (recase m k ++ y) = lit c_colon (skip_ws y).
Proof.
  intros N L F. unfold label_prefix, word. rewrite (take_while_word_kw m k y L F).
  pose proof (kw_nonempty m k N) as N'. destruct (recase m k); [congruence|reflexivity].
Qed.

(* the pieces behind "keyword [blanks] :" when the keyword is followed by a colon *)
Fixpoint label_after (ps : list piece) : option (list piece) :=
  match ps with
  | PBl _ :: ps' | PGap _ :: ps' => label_after ps'
  | PCh c :: ps' => if Ascii.eqb c c_colon then Some ps' else None
  | _ => None
  end.
(* the piece at which the search for the colon stops must not begin with white space *)
Fixpoint stop_ok (ps : list piece) : Prop :=
  match ps with
  | [] => True
  | PBl _ :: ps' | PGap _ :: ps' => stop_ok ps'
  | PCh c :: _ => is_space c = false
  | p :: _ => starts_alnum (piece_text p)
  end.
Lemma lit_colon_after ps : stop_ok ps ->
  lit c_colon (skip_ws (denote ps)) = match label_after ps with Some r => Some (denote r) | None => None end.
Proof.
  induction ps as [|p ps IH]; intros St; [reflexivity|].
  destruct p as [m k|n|n|x|c|x]; cbn [stop_ok label_after] in *; rewrite denote_cons; cbn [piece_text].
  - rewrite skip_ws_alnum by now apply starts_alnum_app. apply lit_alnum; [reflexivity|now apply starts_alnum_app].
  - rewrite skip_ws_bl. exact (IH St).
  - rewrite (skip_ws_bl (S n)). exact (IH St).
  - rewrite skip_ws_alnum by now apply starts_alnum_app. apply lit_alnum; [reflexivity|now apply starts_alnum_app].
  - cbn [app skip_ws]. rewrite St. cbn [lit]. now destruct (Ascii.eqb c c_colon).
  - rewrite skip_ws_alnum by now apply starts_alnum_app. apply lit_alnum; [reflexivity|now apply starts_alnum_app].
Qed.

(* what stands behind the colon is neither "block" nor "associate" *)
Definition label_safe (ps : list piece) : bool :=
  match label_after ps with
  | None => true
  | Some (PCh c :: _) =>
    negb (is_space c) && negb (Ascii.eqb (lower_ch c) "b"%char) && negb (Ascii.eqb (lower_ch c) "a"%char)
  | Some _ => false
  end.

Lemma match_ci_head_ne w0 w c y : Ascii.eqb w0 (lower_ch c) = false -> match_ci (w0 :: w) (c :: y) = None.
Proof. intros H. cbn [match_ci]. now rewrite H. Qed.

Lemma block_assoc_miss m k rest :
  k <> [] -> forallb is_lower k = true -> fnw rest = true -> stop_ok rest -> label_safe rest = true ->
  prefix (s "block") k = false -> prefix (s "associate") k = false ->
  prefix k (s "block") = false -> prefix k (s "associate") = false ->
  re_match BLOCK_RE (denote (PKw m k :: rest)) = No /\ re_match ASSOCIATE_RE (denote (PKw m k :: rest)) = No.
Proof.
  intros N L F S LS P1 P2 Q1 Q2. rewrite denote_cons. cbn [piece_text re_match].
  pose proof (fnw_denote rest F) as F'.
  assert (Hs : skip_ws (recase m k ++ denote rest) = recase m k ++ denote rest).
  { apply skip_ws_words; [now apply kw_nonempty|now apply kw_words]. }
  assert (Hlow : lower (recase m k ++ denote rest) = k ++ lower (denote rest)).
  { now rewrite lower_app, (lower_kw m k L). }
  assert (prefix_mis : forall w, prefix w k = false -> prefix k w = false -> prefix w (k ++ lower (denote rest)) = false).
  { clear. intros w. revert k. induction w as [|a w IH]; intros k H1 H2; [discriminate|].
    destruct k as [|b k]; [discriminate|]. cbn [app prefix] in *.
    destruct (Ascii.eqb a b) eqn:E; [|reflexivity]. apply Ascii.eqb_eq in E. subst b.
    rewrite Ascii.eqb_refl in H2. now apply IH. }
  assert (Hb : match_ci (s "block") (recase m k ++ denote rest) = None).
  { apply match_ci_none. rewrite Hlow. now apply prefix_mis. }
  assert (Ha : match_ci (s "associate") (recase m k ++ denote rest) = None).
  { apply match_ci_none. rewrite Hlow. now apply prefix_mis. }
  unfold block_re, associate_re, block_tail, assoc_tail. rewrite Hs, Hb, Ha.
  rewrite (label_prefix_kw m k _ N L F'), (lit_colon_after rest S).
  unfold label_safe in LS. destruct (label_after rest) as [r|]; [|split; reflexivity].
  destruct r as [|p r]; [discriminate|]. destruct p as [? ?|?|?|?|c|?]; try discriminate.
  apply andb_true_iff in LS as [LS La]. apply andb_true_iff in LS as [Lsp Lb].
  apply negb_true_iff in Lsp, Lb, La.
  rewrite denote_cons. cbn [piece_text app skip_ws]. rewrite Lsp.
  change (s "block") with ("b"%char :: s "lock"). change (s "associate") with ("a"%char :: s "ssociate").
  rewrite !match_ci_head_ne by assumption. split; reflexivity.
Qed.

(* ------------------------------------------------------------------ the comparisons with literals *)
Lemma seqb_prefix a b : seqb a b = true -> prefix b a = true.
Proof.
  revert b. induction a as [|x a IH]; intros [|y b]; cbn [seqb prefix]; try discriminate; auto.
  intros H. destruct (Ascii.eqb x y) eqn:E; [|discriminate]. rewrite Ascii.eqb_sym, E. now apply IH.
Qed.
Lemma lits_miss c x : none_prefix [s "contains"; s "public"; s "private"; s "protected"; s "sequence"] (lower x) = true ->
  eval_cond c x (CEqLower (s "contains")) = No /\
  eval_cond c x (CInLower [s "public"; s "private"; s "protected"]) = No /\
  eval_cond c x (CEqLower (s "sequence")) = No.
Proof.
  unfold none_prefix. cbn [existsb]. intros H. apply negb_true_iff in H.
  repeat match type of H with (_ || _) = false => apply orb_false_iff in H as [? H] end.
  assert (G : forall l, prefix l (lower x) = false -> seqb (lower x) l = false).
  { intros l P. destruct (seqb (lower x) l) eqn:E; [|reflexivity]. apply seqb_prefix in E. congruence. }
  cbn [eval_cond sin]. rewrite !G by assumption. repeat split; reflexivity.
Qed.

(* ------------------------------------------------------------------ exclusion by the first keyword *)
(* two words that differ at a position both have *)
Definition conflict (w k : str) : bool := negb (prefix w k) && negb (prefix k w).
Lemma conflict_prefix w : forall k y, conflict w k = true -> prefix w (k ++ y) = false.
Proof.
  unfold conflict. induction w as [|a w IH]; intros k y H; [discriminate|].
  destruct k as [|b k]; [cbn in H; discriminate|].
  cbn [app prefix] in *. destruct (Ascii.eqb a b) eqn:E; [|reflexivity].
  apply Ascii.eqb_eq in E. subst b. rewrite Ascii.eqb_refl in H. now apply IH.
Qed.

Definition kw_excludes (k : str) (r : re_id) : bool :=
  match r with
  | FORMAT_RE => match k with c :: _ => negb (is_digit c) | [] => false end
  | END_RE => match k with c :: _ => negb (is_digit c) && conflict (s "end") k | [] => false end
  | _ => anchored r && forallb (fun w => conflict w k) (anchors r)
  end.

Lemma lower_kw_line m k rest : forallb is_lower k = true ->
  lower (denote (PKw m k :: rest)) = k ++ lower (denote rest).
Proof. intros L. rewrite denote_cons, lower_app. cbn [piece_text]. now rewrite (lower_kw m k L). Qed.

Lemma kw_excludes_miss m k rest r : forallb is_lower k = true -> kw_excludes k r = true ->
  re_match r (denote (PKw m k :: rest)) = No.
Proof.
  intros L H.
  assert (G : anchored r = true -> forallb (fun w => conflict w k) (anchors r) = true ->
              re_match r (denote (PKw m k :: rest)) = No).
  { intros A F. apply anchored_miss; [exact A|]. rewrite (lower_kw_line m k rest L).
    unfold none_prefix. apply negb_true_iff. induction (anchors r) as [|w ws IH]; [reflexivity|].
    cbn [forallb] in F. apply andb_true_iff in F as [F1 F2]. cbn [existsb].
    now rewrite (conflict_prefix w k _ F1), (IH F2). }
  destruct r; cbn [kw_excludes] in H;
    try (apply andb_true_iff in H as [A F]; exact (G A F)).
  - (* FORMAT_RE *)
    apply format_miss. rewrite (lower_kw_line m k rest L). destruct k as [|c k]; [discriminate|].
    cbn [app]. now apply negb_true_iff.
  - (* END_RE *)
    destruct k as [|c k]; [discriminate|]. apply andb_true_iff in H as [D C]. apply negb_true_iff in D.
    apply end_miss; rewrite (lower_kw_line m (c :: k) rest L); [exact D|now apply conflict_prefix].
Qed.

(* a branch that cannot fire on a line beginning with the keyword k, for any of these reasons: the
   literal it compares with or the keyword of its pattern conflicts with k; its pattern is one of
   those known (by other arguments) not to match *)
Definition cond_pattern (cd : cond) : option re_id :=
  match cd with
  | CMatch r | CAnd (CMatch r) _ => Some r
  | _ => None
  end.
Definition re_eqb (a b : re_id) : bool := seqb (re_name a) (re_name b).
Definition re_in (r : re_id) (l : list re_id) : bool := existsb (re_eqb r) l.
Lemma re_eqb_eq a b : re_eqb a b = true -> a = b.
Proof. destruct a, b; try reflexivity; discriminate. Qed.

Definition branch_excluded (k : str) (known : list re_id) (b : branch) : bool :=
  negb (is_tail (cond_key (br_cond b))) &&
  match br_cond b with
  | CEqLower l => conflict l k
  | CInLower ls => forallb (fun l => conflict l k) ls
  | cd => match cond_pattern cd with
          | Some r => if kw_excludes k r then true else re_in r known
          | None => false
          end
  end.

Lemma branch_excluded_misses c m k rest known b :
  forallb is_lower k = true ->
  (forall r, re_in r known = true -> re_match r (denote (PKw m k :: rest)) = No) ->
  branch_excluded k known b = true -> misses c (denote (PKw m k :: rest)) b.
Proof.
  intros L K H. unfold branch_excluded in H. apply andb_true_iff in H as [T H]. apply negb_true_iff in T.
  split; [exact T|].
  assert (Hseq : forall l, conflict l k = true -> seqb (lower (denote (PKw m k :: rest))) l = false).
  { intros l C. destruct (seqb _ l) eqn:E; [|reflexivity]. apply seqb_prefix in E.
    rewrite (lower_kw_line m k rest L), (conflict_prefix l k _ C) in E. discriminate. }
  assert (Hre : forall r, (if kw_excludes k r then true else re_in r known) = true ->
                          re_match r (denote (PKw m k :: rest)) = No).
  { intros r Hr. destruct (kw_excludes k r) eqn:E; [now apply kw_excludes_miss|now apply K]. }
  destruct (br_cond b) as [l|ls|r|r| | |r g|cls|a b'|a b']; cbn [cond_pattern] in H; try discriminate.
  - cbn [eval_cond]. now rewrite (Hseq l H).
  - cbn [eval_cond].
    assert (Hs : sin (lower (denote (PKw m k :: rest))) ls = false).
    { clear T. induction ls as [|l ls IH]; [reflexivity|].
      cbn [forallb] in H. apply andb_true_iff in H as [H1 H2]. cbn [sin]. rewrite (Hseq l H1). now apply IH. }
    now rewrite Hs.
  - cbn [eval_cond]. now apply Hre.
  - destruct a; try discriminate. cbn [eval_cond]. now rewrite (Hre r H).
Qed.

(* the chain on a line that begins with the keyword k: the branch at position i fires when every
   earlier branch is excluded *)
Lemma dispatch_kw c m k rest known i b :
  forallb is_lower k = true ->
  (forall r, re_in r known = true -> re_match r (denote (PKw m k :: rest)) = No) ->
  nth_error cascade i = Some b ->
  forallb (branch_excluded k known) (firstn i cascade) = true ->
  is_tail (cond_key (br_cond b)) = false ->
  eval_cond c (denote (PKw m k :: rest)) (br_cond b) = Yes ->
  run_cascade c (denote (PKw m k :: rest)) [] cascade
  = action (cond_key (br_cond b)) c (denote (PKw m k :: rest)) [].
Proof.
  intros L K N F T Y.
  assert (E : cascade = firstn i cascade ++ b :: skipn (S i) cascade).
  { clear - N. revert i N. generalize cascade. induction l as [|x l IH]; intros [|i] N; try discriminate.
    - injection N as ->. reflexivity.
    - cbn [firstn skipn app]. f_equal. now apply IH. }
  rewrite E at 1. apply run_cascade_at; [|exact T|exact Y].
  apply Forall_forall. intros b' Hb'. rewrite forallb_forall in F.
  now apply (branch_excluded_misses c m k rest known b' L K (F b' Hb')).
Qed.
Lemma dispatch_kw_tail c m k rest known i b :
  forallb is_lower k = true ->
  (forall r, re_in r known = true -> re_match r (denote (PKw m k :: rest)) = No) ->
  nth_error cascade i = Some b ->
  forallb (branch_excluded k known) (firstn i cascade) = true ->
  is_tail (cond_key (br_cond b)) = true ->
  run_cascade c (denote (PKw m k :: rest)) [] cascade = Fired (s "tail") SNoop.
Proof.
  intros L K N F T.
  assert (E : cascade = firstn i cascade ++ b :: skipn (S i) cascade).
  { clear - N. revert i N. generalize cascade. induction l as [|x l IH]; intros [|i] N; try discriminate.
    - injection N as ->. reflexivity.
    - cbn [firstn skipn app]. f_equal. now apply IH. }
  rewrite E at 1. apply run_cascade_tail; [|exact T].
  apply Forall_forall. intros b' Hb'. rewrite forallb_forall in F.
  now apply (branch_excluded_misses c m k rest known b' L K (F b' Hb')).
Qed.

(* ------------------------------------------------------------------ evaluating the recognisers on rendered text *)
Lemma ws1_gap b y : ws1 (blanks (S b) ++ y) = Some (skip_ws y).
Proof.
  unfold ws1. change (blanks (S b) ++ y) with (c_sp :: (blanks b ++ y)).
  cbn [skip_ws]. replace (is_space c_sp) with true by reflexivity. now rewrite skip_ws_bl.
Qed.
Lemma ws1_nonspace c y : is_space c = false -> ws1 (c :: y) = None.
Proof. intros H. unfold ws1. now rewrite H. Qed.
Lemma ws1_nil : ws1 [] = None.
Proof. reflexivity. Qed.

Lemma word_words x y : x <> [] -> forallb is_word x = true -> first_nonword y = true -> word (x ++ y) = Some (x, y).
Proof.
  intros N W F. unfold word.
  assert (E : take_while is_word (x ++ y) = (x, y)).
  { destruct y as [|c r]; [rewrite app_nil_r; now apply take_while_end|].
    apply take_while_all; [exact W|]. cbn in F. now apply negb_true_iff in F. }
  rewrite E. destruct x; [congruence|reflexivity].
Qed.
Lemma word_ident x y : ident_ok x = true -> first_nonword y = true -> word (x ++ y) = Some (x, y).
Proof. intros I F. apply word_words; [now apply ident_nonempty|now apply ident_words|exact F]. Qed.
Lemma word_ident_end x : ident_ok x = true -> word x = Some (x, []).
Proof. intros I. rewrite <- (app_nil_r x) at 1. now apply word_ident. Qed.
Lemma skip_ws_ident x y : ident_ok x = true -> skip_ws (x ++ y) = x ++ y.
Proof. intros I. apply skip_ws_words; [now apply ident_nonempty|now apply ident_words]. Qed.
Lemma skip_ws_kw m k y : k <> [] -> forallb is_lower k = true -> skip_ws (recase m k ++ y) = recase m k ++ y.
Proof. intros N L. apply skip_ws_words; [now apply kw_nonempty|now apply kw_words]. Qed.
Lemma match_ci_kw m k y : forallb is_lower k = true -> match_ci k (recase m k ++ y) = Some y.
Proof. apply match_ci_recase. Qed.

Lemma plain_ident_ok x : plain_ident x = true -> ident_ok x = true.
Proof. unfold plain_ident. intros H. now apply andb_true_iff in H as [H _]. Qed.
Lemma plain_ident_free x : plain_ident x = true ->
  has_sub (s "function") (lower x) = false /\ has_sub (s "subroutine") (lower x) = false.
Proof.
  unfold plain_ident, no_proc_word. intros H. apply andb_true_iff in H as [_ H].
  apply andb_true_iff in H as [A B]. now apply negb_true_iff in A, B.
Qed.

(* a module statement is no module-procedure statement: the name has no white space and no colon *)
Lemma match_ci_words w : forall x r, match_ci w x = Some r -> forallb is_word x = true -> forallb is_word r = true.
Proof.
  induction w as [|a w IH]; intros x r H W; [now injection H as <-|].
  destruct x as [|b x]; [discriminate|]. cbn [match_ci] in H. destruct (Ascii.eqb a (lower_ch b)); [|discriminate].
  cbn in W. apply andb_true_iff in W as [_ W]. now apply (IH x r).
Qed.
Lemma modproc_tail_words wm r : forallb is_word r = true -> modproc_tail wm r = None.
Proof.
  intros W. unfold modproc_tail. destruct r as [|c r]; [reflexivity|]. cbn in W. apply andb_true_iff in W as [Wc Wr].
  cbn [skip_ws]. rewrite (word_nospace c Wc). cbn zeta.
  replace (prefix (s "::") (c :: r)) with false; [reflexivity|].
  symmetry. change (prefix (s "::") (c :: r)) with (if Ascii.eqb ":"%char c then prefix (s ":") r else false).
  destruct (Ascii.eqb ":" c) eqn:E; [|reflexivity]. apply Ascii.eqb_eq in E. subst c. discriminate.
Qed.

Lemma module_line_not_modproc m b name : ident_ok name = true ->
  re_match MODPROC_RE (denote [PKw m (s "module"); PGap b; PId name]) = No.
Proof.
  intros I. cbn [re_match denote fold_right piece_text]. rewrite app_nil_r. unfold modproc_re.
  rewrite match_ci_kw by reflexivity. rewrite ws1_gap, (skip_ws_alnum name (ident_starts name I)).
  destruct (match_ci (s "procedure") name) as [r|] eqn:E; [|reflexivity].
  pose proof (match_ci_words _ _ _ E (ident_words name I)) as W.
  now rewrite (modproc_tail_words true r W).
Qed.

Lemma unit_name_kw m k b name : forallb is_lower k = true -> ident_ok name = true ->
  unit_name_re k (recase m k ++ blanks (S b) ++ name) = Some (Some name).
Proof.
  intros L I. unfold unit_name_re. rewrite (match_ci_kw m k _ L).
  rewrite (ws1_gap b name), (skip_ws_alnum name (ident_starts name I)).
  rewrite (word_ident_end name I). pose proof (kw_nonempty m k) as N.
  destruct (blanks (S b) ++ name) eqn:E; [discriminate E|reflexivity].
Qed.


(* ------------------------------------------------------------------ the whole of [classify] on a keyword line *)
Definition br (i : nat) : branch := nth i cascade (mkbranch CLevel0 [] [] [] []).
Lemma br_nth i : (i <? length cascade) = true -> nth_error cascade i = Some (br i).
Proof.
  intros H. apply Nat.ltb_lt in H. unfold br. generalize cascade, i, H. clear.
  induction l as [|x l IH]; intros [|i] H; cbn in *; try lia; [reflexivity|]. apply IH. lia.
Qed.

Theorem classify_kw c m k rest known i key st :
  Forall piece_ok (PKw m k :: rest) -> k <> [] ->
  ends_nonspace (denote (PKw m k :: rest)) ->
  (forall r, re_in r known = true -> re_match r (denote (PKw m k :: rest)) = No) ->
  (i <? length cascade) = true ->
  forallb (branch_excluded k known) (firstn i cascade) = true ->
  is_tail (cond_key (br_cond (br i))) = false ->
  eval_cond c (denote (PKw m k :: rest)) (br_cond (br i)) = Yes ->
  action (cond_key (br_cond (br i))) c (denote (PKw m k :: rest)) [] = Fired key st ->
  classify c (denote (PKw m k :: rest)) = Fired key st.
Proof.
  intros O N E K I F T Y A. inversion O as [|? ? Ok Or]; subst. cbn [piece_ok] in Ok.
  rewrite classify_rendered; [|exact O| |exact E].
  - rewrite (dispatch_kw c m k rest known i (br i) Ok K (br_nth i I) F T Y). exact A.
  - rewrite denote_cons. apply starts_alnum_app. cbn [piece_text]. now apply kw_starts.
Qed.
Theorem classify_kw_tail c m k rest known i :
  Forall piece_ok (PKw m k :: rest) -> k <> [] ->
  ends_nonspace (denote (PKw m k :: rest)) ->
  (forall r, re_in r known = true -> re_match r (denote (PKw m k :: rest)) = No) ->
  (i <? length cascade) = true ->
  forallb (branch_excluded k known) (firstn i cascade) = true ->
  is_tail (cond_key (br_cond (br i))) = true ->
  classify c (denote (PKw m k :: rest)) = Fired (s "tail") SNoop.
Proof.
  intros O N E K I F T. inversion O as [|? ? Ok Or]; subst. cbn [piece_ok] in Ok.
  rewrite classify_rendered; [|exact O| |exact E].
  - exact (dispatch_kw_tail c m k rest known i (br i) Ok K (br_nth i I) F T).
  - rewrite denote_cons. apply starts_alnum_app. cbn [piece_text]. now apply kw_starts.
Qed.

(* ------------------------------------------------------------------ the standard facts about a line *)
Lemma re_in_app r l1 l2 : re_in r (l1 ++ l2) = re_in r l1 || re_in r l2.
Proof. unfold re_in. apply existsb_app. Qed.
Lemma known_app x l1 l2 :
  (forall r, re_in r l1 = true -> re_match r x = No) -> (forall r, re_in r l2 = true -> re_match r x = No) ->
  forall r, re_in r (l1 ++ l2) = true -> re_match r x = No.
Proof. intros H1 H2 r H. rewrite re_in_app in H. apply orb_true_iff in H as [H|H]; auto. Qed.
Lemma known_nil x : forall r, re_in r [] = true -> re_match r x = No.
Proof. intros r H. discriminate. Qed.
Lemma known_one x a : re_match a x = No -> forall r, re_in r [a] = true -> re_match r x = No.
Proof.
  intros H r Hr. cbn [re_in existsb] in Hr. apply orb_true_iff in Hr as [Hr|Hr]; [|discriminate].
  apply re_eqb_eq in Hr. now subst.
Qed.

Definition kw_label_ok (k : str) : bool := conflict (s "block") k && conflict (s "associate") k.
Lemma known_labels m k rest :
  k <> [] -> forallb is_lower k = true -> fnw rest = true -> stop_ok rest -> label_safe rest = true ->
  kw_label_ok k = true ->
  forall r, re_in r [BLOCK_RE; ASSOCIATE_RE] = true -> re_match r (denote (PKw m k :: rest)) = No.
Proof.
  intros N L F S LS KL. unfold kw_label_ok, conflict in KL.
  apply andb_true_iff in KL as [K1 K2]. apply andb_true_iff in K1 as [A1 A2]. apply andb_true_iff in K2 as [B1 B2].
  apply negb_true_iff in A1, A2, B1, B2.
  destruct (block_assoc_miss m k rest N L F S LS A1 B1 A2 B2) as [Hb Ha].
  change [BLOCK_RE; ASSOCIATE_RE] with ([BLOCK_RE] ++ [ASSOCIATE_RE]). apply known_app; now apply known_one.
Qed.

Definition w_function : str := s "function".
Definition w_subroutine : str := s "subroutine".
Lemma known_procs ps :
  Forall piece_ok ps ->
  sep_ok w_function ps = true -> sep_ok w_subroutine ps = true ->
  Forall (piece_free w_function) ps -> Forall (piece_free w_subroutine) ps ->
  forall r, re_in r [SUBROUTINE_RE; FUNCTION_RE] = true -> re_match r (denote ps) = No.
Proof.
  intros O S1 S2 F1 F2.
  change [SUBROUTINE_RE; FUNCTION_RE] with ([SUBROUTINE_RE] ++ [FUNCTION_RE]). apply known_app; apply known_one.
  - apply subroutine_miss. apply pieces_free; try assumption; [reflexivity|discriminate].
  - apply function_miss. apply pieces_free; try assumption; [reflexivity|discriminate].
Qed.

(* ------------------------------------------------------------------ lists of identifiers *)
Lemma Forall_sep_by {A} (P : A -> Prop) sep l : Forall P sep -> Forall (Forall P) l -> Forall P (sep_by sep l).
Proof.
  intros Hs H. induction H as [|x l Hx Hl IH]; [constructor|].
  destruct l as [|y l']; [exact Hx|]. cbn [sep_by]. apply Forall_app. split; [exact Hx|].
  apply Forall_app. split; [exact Hs|exact IH].
Qed.
Lemma Forall_comma_ids (P : piece -> Prop) b names :
  P (PCh c_comma) -> P (PBl b) -> Forall (fun x => P (PId x)) names -> Forall P (comma_ids b names).
Proof.
  intros Hc Hb H. unfold comma_ids. apply Forall_sep_by; [repeat constructor; assumption|].
  induction H; constructor; [repeat constructor; assumption|assumption].
Qed.

Lemma comma_ids_cons b x names : names <> [] ->
  comma_ids b (x :: names) = PId x :: PCh c_comma :: PBl b :: comma_ids b names.
Proof. destruct names; [congruence|reflexivity]. Qed.

Lemma comma_ids_ends b names pre : names <> [] -> Forall (fun x => ident_ok x = true) names ->
  ends_nonspace (denote (pre ++ comma_ids b names)).
Proof.
  intros N H. rewrite denote_app. apply ends_nonspace_app. clear pre.
  induction H as [|x l Hx Hl IH]; [congruence|].
  destruct l as [|y l'].
  - cbn [comma_ids map sep_by denote fold_right piece_text]. rewrite app_nil_r.
    apply words_ends; [now apply ident_nonempty|now apply ident_words].
  - rewrite comma_ids_cons by discriminate. rewrite !denote_cons. repeat apply ends_nonspace_app.
    apply IH. discriminate.
Qed.

(* separators: a list of pieces that ends behind a definite separator may be continued at will *)
Fixpoint starts_sep_strict (w : str) (ps : list piece) : bool :=
  match ps with
  | PGap _ :: _ => true
  | PCh c :: _ => negb (char_in (lower_ch c) w)
  | PBl _ :: ps' => starts_sep_strict w ps'
  | _ => false
  end.
Fixpoint sep_closed (w : str) (ps : list piece) : bool :=
  match ps with
  | [] => true
  | p :: ps' =>
    (match p with
     | PKw _ _ | PId _ | PTx _ => starts_sep_strict w ps'
     | PCh c => negb (char_in (lower_ch c) w)
     | _ => true
     end) && sep_closed w ps'
  end.
Lemma starts_sep_strict_app w a b : starts_sep_strict w a = true -> starts_sep w (a ++ b) = true.
Proof.
  induction a as [|p a IH]; [discriminate|]. destruct p; cbn [starts_sep_strict starts_sep app]; auto; discriminate.
Qed.
Lemma sep_closed_app w a b : sep_closed w a = true -> sep_ok w b = true -> sep_ok w (a ++ b) = true.
Proof.
  induction a as [|p a IH]; intros A B; [exact B|].
  cbn [sep_closed] in A. apply andb_true_iff in A as [A1 A2]. cbn [app sep_ok]. rewrite (IH A2 B), andb_true_r.
  destruct p; try exact A1; now apply starts_sep_strict_app.
Qed.
Lemma sep_ok_comma_ids w b names : char_in c_comma w = false -> sep_ok w (comma_ids b names) = true.
Proof.
  intros H. induction names as [|x l IH]; [reflexivity|].
  destruct l as [|y l']; [reflexivity|]. rewrite comma_ids_cons by discriminate.
  cbn [sep_ok starts_sep]. change (lower_ch c_comma) with c_comma. rewrite H. cbn [negb andb]. exact IH.
Qed.

Lemma forallb_Forall {A} (f : A -> bool) l : forallb f l = true -> Forall (fun x => f x = true) l.
Proof. intros H. apply Forall_forall. now apply forallb_forall. Qed.

(* ------------------------------------------------------------------ more evaluation lemmas *)
Lemma first_nonword_bl n c y : is_word c = false -> first_nonword (blanks n ++ c :: y) = true.
Proof. intros H. destruct n; cbn; [now rewrite H|reflexivity]. Qed.
Lemma first_nonword_gap n y : first_nonword (blanks (S n) ++ y) = true.
Proof. reflexivity. Qed.
Lemma skip_ws_bl_ch n c y : is_space c = false -> skip_ws (blanks n ++ c :: y) = c :: y.
Proof. intros H. rewrite skip_ws_bl. cbn [skip_ws]. now rewrite H. Qed.
Lemma lit_same c y : lit c (c :: y) = Some y.
Proof. cbn [lit]. now rewrite Ascii.eqb_refl. Qed.
Lemma lit_bl_same n c y : is_space c = false -> lit c (skip_ws (blanks n ++ c :: y)) = Some y.
Proof. intros H. rewrite (skip_ws_bl_ch n c y H). apply lit_same. Qed.

Lemma prefix_dcolon_alnum x : starts_alnum x -> prefix (s "::") x = false.
Proof.
  intros (c & r & -> & W). change (prefix (s "::") (c :: r)) with (if Ascii.eqb ":"%char c then prefix (s ":") r else false).
  destruct (Ascii.eqb ":" c) eqn:E; [|reflexivity]. apply Ascii.eqb_eq in E. subst c. discriminate.
Qed.
Lemma prefix_dcolon (y : str) : prefix (s "::") (c_colon :: c_colon :: y) = true.
Proof. reflexivity. Qed.
Lemma starts_word_alnum x : starts_alnum x -> starts_word x = true.
Proof. intros (c & r & -> & W). exact W. Qed.
Lemma starts_alnum_ident_app x y : ident_ok x = true -> starts_alnum (x ++ y).
Proof. intros I. apply starts_alnum_app. now apply ident_starts. Qed.

(* ------------------------------------------------------------------ comma separated names *)
Lemma strip_words x : forallb is_word x = true -> strip x = x.
Proof.
  intros W. destruct x as [|c r]; [reflexivity|]. apply stripped_strip. unfold stripped.
  rewrite forallb_forall in W. rewrite (word_nospace c (W c (or_introl eq_refl))). cbn [negb andb].
  apply negb_true_iff, word_nospace, W.
  destruct (exists_last (l := c :: r) ltac:(discriminate)) as (t & d & E). rewrite E, last_last.
  apply in_or_app. right. now left.
Qed.
Lemma words_nocomma x : forallb is_word x = true -> existsb (Ascii.eqb c_comma) x = false.
Proof.
  intros W. apply Bool.not_true_is_false. intros E. apply existsb_exists in E as (c & Hc & Q).
  apply Ascii.eqb_eq in Q. subst c. rewrite forallb_forall in W. specialize (W _ Hc). discriminate.
Qed.
Lemma blanks_nocomma n : existsb (Ascii.eqb c_comma) (blanks n) = false.
Proof. induction n; [reflexivity|exact IHn]. Qed.

Lemma split_on_go_sep c x : forall cur y, existsb (Ascii.eqb c) x = false ->
  split_on_go c (x ++ c :: y) cur = (rev cur ++ x) :: split_on_go c y [].
Proof.
  induction x as [|d x IH]; intros cur y H.
  - cbn [app split_on_go]. rewrite Ascii.eqb_refl. now rewrite app_nil_r.
  - cbn [existsb] in H. apply orb_false_iff in H as [H1 H2]. cbn [app split_on_go].
    rewrite Ascii.eqb_sym, H1. rewrite (IH (d :: cur) y H2). cbn [rev]. now rewrite <- app_assoc.
Qed.

Lemma comma_pieces_ids b names : names <> [] -> Forall (fun x => ident_ok x = true) names ->
  forall k, comma_pieces (blanks k ++ denote (comma_ids b names)) = names.
Proof.
  intros N H. induction H as [|x l Hx Hl IH]; [congruence|]. intros k.
  pose proof (ident_words x Hx) as Wx.
  destruct l as [|y l'].
  - cbn [comma_ids map sep_by denote fold_right piece_text]. rewrite app_nil_r.
    unfold comma_pieces. rewrite split_on_none.
    + cbn [map]. now rewrite strip_bl, (strip_words x Wx).
    + rewrite existsb_app, blanks_nocomma, (words_nocomma x Wx). reflexivity.
  - rewrite comma_ids_cons by discriminate. rewrite !denote_cons. cbn [piece_text app].
    unfold comma_pieces, split_on. rewrite app_assoc.
    rewrite split_on_go_sep by (rewrite existsb_app, blanks_nocomma, (words_nocomma x Wx); reflexivity).
    cbn [rev app map]. rewrite strip_bl, (strip_words x Wx). f_equal.
    apply (IH ltac:(discriminate) b).
Qed.
Lemma comma_pieces_ids0 b names : names <> [] -> Forall (fun x => ident_ok x = true) names ->
  comma_pieces (denote (comma_ids b names)) = names.
Proof. intros N H. exact (comma_pieces_ids b names N H 0). Qed.

Lemma comma_ids_starts b names y : names <> [] -> Forall (fun x => ident_ok x = true) names ->
  starts_alnum (denote (comma_ids b names) ++ y).
Proof.
  intros N H. apply starts_alnum_app. destruct H as [|x l Hx Hl]; [congruence|].
  destruct l; [cbn [comma_ids map sep_by denote fold_right piece_text]|rewrite comma_ids_cons by discriminate; rewrite denote_cons];
    apply starts_alnum_app; now apply ident_starts.
Qed.

(* ------------------------------------------------------------------ lists of identifiers: more *)
Lemma sep_closed_ok w a b : sep_closed w a = true -> sep_ok w b = true -> sep_ok w (a ++ b) = true.
Proof. apply sep_closed_app. Qed.

Lemma ids_no_char d b names : is_word d = false -> Ascii.eqb d c_comma = false -> Ascii.eqb d c_sp = false ->
  Forall (fun x => ident_ok x = true) names -> has_ch d (denote (comma_ids b names)) = false.
Proof.
  intros Wd Cd Sd H. unfold has_ch.
  assert (Hw : forall x, ident_ok x = true -> existsb (Ascii.eqb d) x = false).
  { intros x Ix. apply Bool.not_true_is_false. intros E. apply existsb_exists in E as (c & Hc & Q).
    apply Ascii.eqb_eq in Q. subst c. pose proof (ident_words x Ix) as W. rewrite forallb_forall in W.
    rewrite (W _ Hc) in Wd. discriminate. }
  assert (Hb : forall n, existsb (Ascii.eqb d) (blanks n) = false).
  { induction n as [|n IHn]; [reflexivity|]. cbn. rewrite Sd. exact IHn. }
  induction H as [|x l Hx Hl IH]; [reflexivity|].
  destruct l as [|y l'].
  - cbn [comma_ids map sep_by denote fold_right piece_text]. rewrite app_nil_r. now apply Hw.
  - rewrite comma_ids_cons by discriminate. rewrite !denote_cons. cbn [piece_text].
    rewrite !existsb_app. rewrite (Hw x Hx), Hb, IH. cbn. now rewrite Cd.
Qed.

(* ------------------------------------------------------------------ the prefix of a function statement *)
(* what is left of a prefix made of keywords is parsed as a type without any exception other than
   ValueError (which the constructor tolerates) *)
Lemma match_alts_suffix alts : forall x r, match_alts alts x = Some r -> exists p, x = p ++ r.
Proof.
  induction alts as [|[w1 [w2|]] alts IH]; intros x r H; [discriminate| |].
  - cbn [match_alts] in H. destruct (match_two w1 w2 x) as [r'|] eqn:E; [|now apply IH].
    injection H as <-. unfold match_two in E. destruct (match_ci w1 x) as [r1|] eqn:E1; [|discriminate].
    destruct (match_ci_suffix w1 x r1 E1) as (p1 & ->). destruct (match_ci_suffix w2 _ _ E) as (p2 & E2).
    destruct (skip_ws_suffix r1) as (p3 & E3). exists (p1 ++ p3 ++ p2). rewrite <- !app_assoc, <- E2, <- E3. reflexivity.
  - cbn [match_alts] in H. destruct (match_ci w1 x) as [r'|] eqn:E; [|now apply IH].
    injection H as <-. now apply (match_ci_suffix w1).
Qed.

Lemma forallb_rev {A} (f : A -> bool) l : forallb f (rev l) = forallb f l.
Proof.
  induction l as [|x l IH]; [reflexivity|]. cbn [rev forallb]. rewrite forallb_app, IH. cbn. rewrite andb_true_r.
  apply andb_comm.
Qed.
Lemma get_parens_words x : forall acc, forallb is_word x = true -> forallb is_word acc = true ->
  exists k, get_parens_go x 0%Z 0%Z acc = Some k /\ forallb is_word k = true.
Proof.
  induction x as [|c x IH]; intros acc W A.
  - exists (rev acc). split; [reflexivity|]. now rewrite forallb_rev.
  - cbn in W. apply andb_true_iff in W as [Wc Wx]. destruct (word_plain c Wc) as (_ & P1 & P2 & P3 & P4 & _).
    cbn [get_parens_go]. rewrite P1, P2, P3, P4. cbn [andb Z.eqb].
    destruct (stops_parens c).
    + exists (rev acc). split; [reflexivity|]. now rewrite forallb_rev.
    + apply IH; [exact Wx|]. cbn. now rewrite Wc.
Qed.

Lemma varkind_search_words k : forallb is_word k = true -> varkind_search k = VKNone.
Proof.
  induction k as [|c k IH]; intros W; [reflexivity|]. cbn in W. apply andb_true_iff in W as [Wc Wk].
  destruct (word_plain c Wc) as (_ & P1 & _ & _ & _ & _ & _ & P8). cbn [varkind_search]. rewrite P1, P8. now apply IH.
Qed.

Lemma parse_type_words y : forallb is_word y = true ->
  (exists p, parse_type y = Ok p) \/ parse_type y = Err (s "ValueError").
Proof.
  intros W. unfold parse_type, match_vartype.
  destruct (match_alts type_words y) as [after|] eqn:E; [|now right].
  destruct (match_alts_suffix _ _ _ E) as (p & Ey).
  assert (Wa : forallb is_word after = true).
  { rewrite Ey, forallb_app in W. now apply andb_true_iff in W as [_ W]. }
  unfold after_type. rewrite (strip_words after Wa).
  assert (Es : star_space after = after).
  { destruct after as [|c r]; [reflexivity|]. cbn in Wa. apply andb_true_iff in Wa as [Wc _].
    destruct (word_plain c Wc) as (_ & _ & _ & _ & _ & _ & _ & P8). cbn [star_space]. now rewrite P8. }
  rewrite Es. destruct (get_parens_words after [] Wa eq_refl) as (k & Ek & Wk). unfold get_parens. rewrite Ek.
  destruct ((length k <? 3) && negb (one_of _ [s "type"; s "class"; s "character"]) && negb (prefix [c_star] k));
    [left; eexists; reflexivity|].
  rewrite (varkind_search_words k Wk). destruct (seqb _ (s "character")); [left; eexists; reflexivity|now right].
Qed.

Lemma lstrip_forall (P : ascii -> bool) x : forallb P x = true -> forallb P (lstrip x) = true.
Proof.
  induction x as [|c x IH]; intros H; [reflexivity|]. cbn [lstrip]. destruct (is_space c); [|exact H].
  cbn in H. apply andb_true_iff in H as [_ H]. now apply IH.
Qed.
Lemma rstrip_forall (P : ascii -> bool) x : forallb P x = true -> forallb P (rstrip x) = true.
Proof. intros H. unfold rstrip. rewrite forallb_rev. apply lstrip_forall. now rewrite forallb_rev. Qed.

Lemma remove_word_fuel_forall (P : ascii -> bool) f w : forall x pw, forallb P x = true ->
  forallb P (snd (remove_word_fuel f w x pw)) = true.
Proof.
  induction f as [|f IH]; intros x pw H; [exact H|].
  destruct x as [|c r]; [reflexivity|]. cbn [remove_word_fuel].
  assert (Hr : forallb P r = true) by (cbn in H; now apply andb_true_iff in H as [_ H]).
  assert (Hc : P c = true) by (cbn in H; now apply andb_true_iff in H as [H _]).
  set (hit := if pw then None else _).
  destruct hit as [rest|] eqn:Eh.
  - assert (Hrest : forallb P rest = true).
    { unfold hit in Eh. destruct pw; [discriminate|].
      destruct (match_ci w (c :: r)) as [rest'|] eqn:Em; [|discriminate].
      destruct (match_ci_suffix w _ _ Em) as (p & Ep).
      assert (Hs : forallb P rest' = true).
      { rewrite Ep, forallb_app in H. now apply andb_true_iff in H as [_ H]. }
      destruct rest' as [|d r']; [now injection Eh as <-|]. destruct (is_word d); [discriminate|now injection Eh as <-]. }
    specialize (IH rest true Hrest). destruct (remove_word_fuel f w rest true). exact IH.
  - specialize (IH r (is_word c) Hr). destruct (remove_word_fuel f w r (is_word c)). cbn [snd] in *. cbn. now rewrite Hc.
Qed.

Definition word_or_blank (c : ascii) : bool := is_word c || is_blank c.
Lemma procedure_attributes_words attrs : forallb word_or_blank attrs = true ->
  forallb is_word (snd (procedure_attributes (Some attrs))) = true.
Proof.
  intros H. unfold procedure_attributes. destruct attrs as [|c0 a0]; [reflexivity|].
  set (a := c0 :: a0) in *.
  assert (G : forall ws (acc : list str * str), forallb word_or_blank (snd acc) = true ->
              forallb word_or_blank
                (snd (fold_left (fun acc w => let (found, rest) := remove_word w (snd acc) in
                                              if found then (fst acc ++ [w], rest) else acc) ws acc)) = true).
  { induction ws as [|w ws IHw]; intros acc Ha; [exact Ha|]. cbn [fold_left]. apply IHw.
    unfold remove_word. pose proof (remove_word_fuel_forall word_or_blank (S (length (snd acc))) w (snd acc) false Ha) as R.
    revert R. destruct (remove_word_fuel (S (length (snd acc))) w (snd acc) false) as [found rest]. cbn [snd]. intros R.
    destruct found; cbv iota beta; cbn [snd]; assumption. }
  specialize (G proc_keywords ([], a) H). cbn [snd].
  unfold remove_blanks. apply forallb_forall. intros c Hc. apply filter_In in Hc as [Hin Hnb].
  rewrite forallb_forall in G. specialize (G c Hin). unfold word_or_blank in G.
  apply negb_true_iff in Hnb. rewrite Hnb, orb_false_r in G. exact G.
Qed.

Lemma last_bind_none x : has_sub (s "bind") (lower x) = false -> last_bind x = None.
Proof.
  induction x as [|c x IH]; intros H; [reflexivity|]. cbn [last_bind].
  assert (Hx : has_sub (s "bind") (lower x) = false).
  { destruct (has_sub (s "bind") (lower x)) eqn:E; [|reflexivity].
    apply (has_sub_tail _ (lower_ch c)) in E. cbn [lower map] in H. unfold lower in E. congruence. }
  rewrite (IH Hx). rewrite match_ci_none; [reflexivity|].
  destruct (prefix (s "bind") (lower (c :: x))) eqn:P; [|reflexivity]. apply prefix_has_sub in P. congruence.
Qed.

(* ------------------------------------------------------------------ characters that do not occur *)
Lemma no_char_words d x : is_word d = false -> forallb is_word x = true -> existsb (Ascii.eqb d) x = false.
Proof.
  intros D W. apply Bool.not_true_is_false. intros E. apply existsb_exists in E as (c & Hc & Q).
  apply Ascii.eqb_eq in Q. subst c. rewrite forallb_forall in W. rewrite (W _ Hc) in D. discriminate.
Qed.
Lemma no_char_blanks d n : Ascii.eqb d c_sp = false -> existsb (Ascii.eqb d) (blanks n) = false.
Proof. intros H. induction n as [|n IH]; [reflexivity|]. cbn. now rewrite H. Qed.


(* right-nested appends, singletons as conses *)
Ltac norm_app := repeat (progress (cbn [app]; rewrite <- ?app_assoc, ?app_nil_r)).

(* texts joined by a comma and b blanks *)
Fixpoint joined (b : nat) (ts : list str) : str :=
  match ts with
  | [] => []
  | [x] => x
  | x :: ts' => x ++ c_comma :: blanks b ++ joined b ts'
  end.
Lemma split_on_joined b ts : ts <> [] -> Forall (fun x => existsb (Ascii.eqb c_comma) x = false) ts ->
  forall k, split_on c_comma (blanks k ++ joined b ts)
            = match ts with
              | [] => []
              | x :: ts' => (blanks k ++ x) :: map (fun y => blanks b ++ y) ts'
              end.
Proof.
  intros N H. induction H as [|x l Hx Hl IH]; [congruence|]. intros k.
  destruct l as [|y l'].
  - cbn [joined map]. apply split_on_none. now rewrite existsb_app, blanks_nocomma, Hx.
  - change (joined b (x :: y :: l')) with (x ++ c_comma :: blanks b ++ joined b (y :: l')). unfold split_on. rewrite app_assoc.
    rewrite split_on_go_sep by (now rewrite existsb_app, blanks_nocomma, Hx).
    specialize (IH ltac:(discriminate) b). unfold split_on in IH. rewrite IH. reflexivity.
Qed.

