(* Sem/CallsExact.v — C08_exact: on units without ASSOCIATE constructs whose statements reach
   _add_procedure_calls, and outside the recorded defect regions, what the model leaves in
   unit.calls is, as a set, what the Spec says the unit invokes. *)
From Coq Require Import ZArith Lia.
From Ford Require Import Base.Str Base.StrFacts Gen.Intrinsics Sem.Calls Sem.CallsSpec Sem.CallsDefs Sem.CallsStrip Sem.CallsScan
  Sem.CallsStmt Sem.CallsProofs Sem.CallsBridge Sem.CallsGate Sem.CallsAssoc.

(* ------------------------------------------------------------------ the filter-and-append loop *)
Lemma str_in_In x l : str_in x l = true <-> In x l.
Proof.
  induction l as [|y l IH]; cbn [str_in In]; [split; [discriminate|contradiction]|].
  rewrite orb_true_iff, IH, str_eqb_eq. split; intros [H|H]; auto.
Qed.

Lemma chain_eqb_eq (a b : chain) : list_eqb str_eqb a b = true <-> a = b.
Proof. apply list_eqb_eq. exact str_eqb_eq. Qed.

Lemma chain_in_In ch c : existsb (list_eqb str_eqb ch) c = true <-> In ch c.
Proof.
  rewrite existsb_exists. split.
  - intros (x & Hin & E). apply chain_eqb_eq in E. now subst.
  - intros H. exists ch. split; [exact H|now apply chain_eqb_eq].
Qed.

Definition keep (ch : chain) : bool := negb (str_in (last_of ch) INTRINSICS).

Lemma append_calls_app c a b : append_calls c (a ++ b) = append_calls (append_calls c a) b.
Proof.
  revert c. induction a as [|x a IH]; intros c; [reflexivity|]. cbn [app append_calls].
  destruct (str_in (last_of x) INTRINSICS || existsb (list_eqb str_eqb x) c); apply IH.
Qed.

Lemma append_calls_old c new ch : In ch c -> In ch (append_calls c new).
Proof.
  revert c. induction new as [|x new IH]; intros c H; [exact H|]. cbn [append_calls].
  destruct (str_in (last_of x) INTRINSICS || existsb (list_eqb str_eqb x) c); apply IH; [exact H|].
  apply in_or_app. now left.
Qed.

Lemma append_calls_in c new ch : In ch (append_calls c new) -> In ch c \/ (In ch new /\ keep ch = true).
Proof.
  revert c. induction new as [|x new IH]; intros c H; [now left|]. cbn [append_calls] in H.
  destruct (str_in (last_of x) INTRINSICS) eqn:Ei; cbn [orb] in H.
  - destruct (IH c H) as [H1|[H1 H2]]; [now left|right; split; [now right|exact H2]].
  - destruct (existsb (list_eqb str_eqb x) c).
    + destruct (IH c H) as [H1|[H1 H2]]; [now left|right; split; [now right|exact H2]].
    + destruct (IH _ H) as [H1|[H1 H2]].
      * apply in_app_iff in H1 as [H1|[<-|[]]]; [now left|]. right. split; [now left|]. unfold keep. now rewrite Ei.
      * right. split; [now right|exact H2].
Qed.

(* every chain that does not end in an INTRINSICS entry is kept (once) *)
Lemma append_calls_cover c new ch : In ch new -> keep ch = true -> In ch (append_calls c new).
Proof.
  revert c. induction new as [|x new IH]; intros c H Hk; [contradiction|]. cbn [append_calls].
  destruct H as [->|H].
  - unfold keep in Hk. apply negb_true_iff in Hk. rewrite Hk. cbn [orb].
    destruct (existsb (list_eqb str_eqb ch) c) eqn:Ec.
    + apply append_calls_old. now apply chain_in_In.
    + apply append_calls_old, in_or_app. right. now left.
  - destruct (str_in (last_of x) INTRINSICS || existsb (list_eqb str_eqb x) c); now apply IH.
Qed.

(* no chain twice in unit.calls, none ending in an entry of INTRINSICS *)
Definition calls_inv (c : list chain) : Prop :=
  NoDup c /\ forall ch, In ch c -> keep ch = true.

Lemma nodup_snoc {A} (l : list A) x : NoDup l -> ~ In x l -> NoDup (l ++ [x]).
Proof.
  induction l as [|a l IH]; intros Hn Hx; cbn [app]; [constructor; [intros []|constructor]|].
  inversion Hn as [|? ? Ha Hl]; subst. constructor.
  - intros Hin. apply in_app_iff in Hin as [Hin|[<-|[]]]; [contradiction|]. apply Hx. now left.
  - apply IH; [exact Hl|]. intros Hin. apply Hx. now right.
Qed.

Lemma append_calls_inv c new : calls_inv c -> calls_inv (append_calls c new).
Proof.
  revert c. induction new as [|x new IH]; intros c Hc; [exact Hc|]. cbn [append_calls].
  destruct (str_in (last_of x) INTRINSICS) eqn:Ei; cbn [orb]; [now apply IH|].
  destruct (existsb (list_eqb str_eqb x) c) eqn:Ec; [now apply IH|].
  apply IH. destruct Hc as [Hn Hk]. split.
  - apply nodup_snoc; [exact Hn|]. intros Hin. apply chain_in_In in Hin. congruence.
  - intros ch Hin. apply in_app_iff in Hin as [Hin|[<-|[]]]; [now apply Hk|]. unfold keep. now rewrite Ei.
Qed.

(* the candidates *)
Lemma append_named_app c a b : append_named c (a ++ b) = append_named (append_named c a) b.
Proof.
  revert c. induction a as [|x a IH]; intros c; [reflexivity|]. cbn [app append_named].
  destruct (str_in (last_of x) INTRINSICS && negb (existsb (list_eqb str_eqb x) c)); apply IH.
Qed.

Lemma append_named_old c new ch : In ch c -> In ch (append_named c new).
Proof.
  revert c. induction new as [|x new IH]; intros c H; [exact H|]. cbn [append_named].
  destruct (str_in (last_of x) INTRINSICS && negb (existsb (list_eqb str_eqb x) c)); apply IH; [|exact H].
  apply in_or_app. now left.
Qed.

Lemma append_named_in c new ch : In ch (append_named c new) -> In ch c \/ (In ch new /\ keep ch = false).
Proof.
  revert c. induction new as [|x new IH]; intros c H; [now left|]. cbn [append_named] in H.
  destruct (str_in (last_of x) INTRINSICS) eqn:Ei; cbn [andb] in H.
  - destruct (existsb (list_eqb str_eqb x) c); cbn [negb] in H.
    + destruct (IH c H) as [H1|[H1 H2]]; [now left|right; split; [now right|exact H2]].
    + destruct (IH _ H) as [H1|[H1 H2]].
      * apply in_app_iff in H1 as [H1|[<-|[]]]; [now left|]. right. split; [now left|]. unfold keep. now rewrite Ei.
      * right. split; [now right|exact H2].
  - destruct (IH c H) as [H1|[H1 H2]]; [now left|right; split; [now right|exact H2]].
Qed.

Lemma append_named_cover c new ch : In ch new -> keep ch = false -> In ch (append_named c new).
Proof.
  revert c. induction new as [|x new IH]; intros c H Hk; [contradiction|]. cbn [append_named].
  destruct H as [->|H].
  - unfold keep in Hk. apply negb_false_iff in Hk. rewrite Hk. cbn [andb].
    destruct (existsb (list_eqb str_eqb ch) c) eqn:Ec; cbn [negb].
    + apply append_named_old. now apply chain_in_In.
    + apply append_named_old, in_or_app. right. now left.
  - destruct (str_in (last_of x) INTRINSICS && negb (existsb (list_eqb str_eqb x) c)); now apply IH.
Qed.

(* ------------------------------------------------------------------ the cascade *)
Fixpoint run_lines_gen (upd : appender) (st : assocs * list chain) (lines : list str) : option (assocs * list chain) :=
  match lines with
  | [] => Some st
  | x :: rest => match line_step_gen upd st x with Some st' => run_lines_gen upd st' rest | None => None end
  end.

Fixpoint run_lines (st : assocs * list chain) (lines : list str) : option (assocs * list chain) :=
  match lines with
  | [] => Some st
  | x :: rest => match line_step st x with Some st' => run_lines st' rest | None => None end
  end.

Lemma run_stmts_lines st srcs : run_stmts st srcs = run_lines st (map mask_quotes srcs).
Proof.
  revert st. induction srcs as [|x srcs IH]; intros st; [reflexivity|]. cbn [run_stmts map run_lines].
  unfold stmt_step. destruct (line_step st (mask_quotes x)); [apply IH|reflexivity].
Qed.

Lemma run_lines_eq st lines : run_lines st lines = run_lines_gen append_calls st lines.
Proof.
  revert st. induction lines as [|x lines IH]; intros st; [reflexivity|]. cbn [run_lines run_lines_gen].
  change (line_step st x) with (line_step_gen append_calls st x). destruct (line_step_gen append_calls st x); [apply IH|reflexivity].
Qed.

Lemma run_named_lines st srcs : run_named st srcs = run_lines_gen append_named st (map mask_quotes srcs).
Proof.
  revert st. induction srcs as [|x srcs IH]; intros st; [reflexivity|]. cbn [run_named map run_lines_gen].
  destruct (line_step_gen append_named st (mask_quotes x)); [apply IH|reflexivity].
Qed.

Lemma raw_calls_subst (a : assocs) line : raw_calls a line = subst_chains a (map norm_chain (chain_texts line)).
Proof.
  unfold raw_calls, subst_chains. induction (chain_texts line) as [|x l IH]; [reflexivity|].
  cbn [flat_map map]. now rewrite subst_head_expand, IH.
Qed.

(* one statement of the unit under the associations [a] in force *)
Lemma line_step_stmt_gen (upd : appender) (a : assocs) st calls : (forall c, upd c [] = c) ->
  wf_stmt st = true -> plain_ok st = true -> step_ok st = true ->
  (st = SEndAssoc -> a <> []) ->
  line_step_gen upd (a, calls) (render_stmt st) = Some (env_after a st, upd calls (subst_chains a (unit_chains st))).
Proof.
  intros Hnil Hwf Hplain Hstep Hend. unfold unit_chains.
  assert (Hseg : seg_stmt st = true -> cascade_ok (render_stmt st) = true ->
                 line_step_gen upd (a, calls) (render_stmt st) = Some (a, upd calls (subst_chains a (stmt_chains st)))).
  { intros Hs Hc. pose proof (gate_stmt st Hs Hwf) as Hg. unfold cascade_ok in Hc.
    apply andb_true_iff in Hc as [Hc H4]. apply andb_true_iff in Hc as [Hc H3]. apply andb_true_iff in Hc as [H1 H2].
    apply negb_true_iff in H1, H2. unfold line_step_gen. rewrite H1, H2.
    destruct (associate_re (render_stmt st)); [discriminate|].
    destruct (goto_rewrite false [] (render_stmt st)); [discriminate|].
    pose proof (raw_stmt st Hs Hwf Hplain) as Hraw.
    destruct (call_gate (render_stmt st)).
    - unfold add_gen. now rewrite raw_calls_subst, Hraw.
    - destruct Hg as [Hg|Hg]; [discriminate|]. rewrite Hg. cbn [subst_chains flat_map]. now rewrite Hnil. }
  destruct st as [lab sp f|lab d|lab sp c d|sp pairs| |lab sp body|labels e]; cbn [seg_stmt step_ok env_after] in *;
    try (apply Hseg; [reflexivity|exact Hstep]).
  - (* ASSOCIATE *)
    rewrite (assoc_step_gen upd a calls sp pairs Hwf Hstep). unfold add_gen.
    rewrite raw_calls_subst, (raw_stmt (SAssoc sp pairs) eq_refl Hwf Hplain). reflexivity.
  - (* END ASSOCIATE *)
    rewrite end_assoc_step. cbn [subst_chains flat_map]. rewrite Hnil.
    destruct (rev a) as [|x ra] eqn:Er.
    + exfalso. apply (Hend eq_refl). apply (f_equal (@rev _)) in Er. now rewrite rev_involutive in Er.
    + now rewrite (rev_removelast a x ra Er).
  - (* FORMAT *) cbn [subst_chains flat_map]. rewrite Hnil. cbn [wf_stmt] in Hwf.
    apply andb_true_iff in Hwf as [Hwf Hnl]. apply andb_true_iff in Hwf as [Hl _]. apply negb_true_iff in Hnl.
    exact (format_inert_gen upd lab sp body (a, calls) Hl Hnl).
  - (* computed GO TO *)
    apply andb_true_iff in Hstep as [Hc Hg]. apply andb_true_iff in Hc as [Hc H3]. apply andb_true_iff in Hc as [H1 H2].
    apply negb_true_iff in H1, H2. unfold line_step_gen. rewrite H1, H2.
    destruct (associate_re (render_stmt (SGoto labels e))); [discriminate|].
    destruct (goto_rewrite false [] (render_stmt (SGoto labels e))) as [line'|]; [|discriminate].
    apply str_eqb_eq in Hg. subst line'.
    cbn [wf_stmt] in Hwf. apply andb_true_iff in Hwf as [_ Hsegs].
    pose proof (raw_goto e Hsegs) as Hraw. pose proof (gate_goto e Hsegs) as Hgate.
    destruct (call_gate (render_segs (goto_segs e))).
    + unfold add_gen. rewrite raw_calls_subst, Hraw. reflexivity.
    + destruct Hgate as [Hgate|Hgate]; [discriminate|]. unfold stmt_chains. rewrite Hgate. cbn [subst_chains flat_map]. now rewrite Hnil.
Qed.

Lemma line_step_stmt (a : assocs) st calls : wf_stmt st = true -> plain_ok st = true -> step_ok st = true ->
  (st = SEndAssoc -> a <> []) ->
  line_step (a, calls) (render_stmt st) = Some (env_after a st, append_calls calls (subst_chains a (unit_chains st))).
Proof. exact (line_step_stmt_gen append_calls a st calls (fun c => eq_refl)). Qed.

(* C08_raw under ASSOCIATE: with the associations [a] in force the chains collected from a statement are
   those of C08_raw with a leading associate name replaced by its selector's chain (the rest
   appended), and without the chains headed by the name of an expression value *)
Theorem raw_assoc (a : assocs) st : seg_stmt st = true -> wf_stmt st = true -> plain_ok st = true ->
  raw_calls a (render_stmt st) = subst_chains a (stmt_chains st).
Proof. intros Hs Hwf Hp. now rewrite raw_calls_subst, (raw_stmt st Hs Hwf Hp). Qed.

(* the chains the model collects from a unit, statement by statement, under the associations in force *)
Fixpoint model_chains (a : aenv) (ss : list stmt) : list chain :=
  match ss with
  | [] => []
  | st :: r => subst_chains a (unit_chains st) ++ model_chains (env_after a st) r
  end.

Lemma removelast_length {A} (l : list A) : length (removelast l) = length l - 1.
Proof.
  induction l as [|x l IH]; [reflexivity|]. destruct l as [|y l]; [reflexivity|].
  change (removelast (x :: y :: l)) with (x :: removelast (y :: l)). cbn [length] in *. lia.
Qed.

Lemma run_unit_gen (upd : appender) : (forall c, upd c [] = c) -> (forall c x y, upd c (x ++ y) = upd (upd c x) y) ->
  forall ss (a : assocs) calls,
  forallb wf_stmt ss = true -> forallb plain_ok ss = true -> forallb step_ok ss = true -> nest_ok (length a) ss = true ->
  run_lines_gen upd (a, calls) (map render_stmt ss) = Some (fold_left env_after ss a, upd calls (model_chains a ss)).
Proof.
  intros Hnil Happ.
  induction ss as [|st ss IH]; intros a calls Hwf Hp Hs Hn; [cbn [map run_lines_gen model_chains fold_left]; now rewrite Hnil|].
  cbn [forallb] in *. apply andb_true_iff in Hwf as [Hw Hwf]. apply andb_true_iff in Hp as [Hp1 Hp].
  apply andb_true_iff in Hs as [Hs1 Hs]. cbn [map run_lines_gen model_chains].
  assert (Hend : st = SEndAssoc -> a <> []).
  { intros -> E. subst a. cbn in Hn. discriminate. }
  pose proof (line_step_stmt_gen upd a st calls Hnil Hw Hp1 Hs1 Hend) as Hstep.
  assert (Hn' : nest_ok (length (env_after a st)) ss = true).
  { destruct st; cbn [env_after nest_ok] in *; try exact Hn.
    - rewrite app_length. cbn [length]. now rewrite Nat.add_1_r.
    - pose proof (removelast_length a) as Hl. unfold assocs, batch, aenv in *. destruct (length a) as [|n] eqn:El; [discriminate|].
      replace (length (removelast a)) with n by lia. exact Hn. }
  pose proof (IH (env_after a st) (upd calls (subst_chains a (unit_chains st))) Hwf Hp Hs Hn') as E.
  rewrite Hstep. cbv beta iota. rewrite Happ. exact E.
Qed.

Lemma run_unit ss : forall (a : assocs) calls,
  forallb wf_stmt ss = true -> forallb plain_ok ss = true -> forallb step_ok ss = true -> nest_ok (length a) ss = true ->
  run_lines (a, calls) (map render_stmt ss) = Some (fold_left env_after ss a, append_calls calls (model_chains a ss)).
Proof.
  intros a calls. rewrite run_lines_eq. exact (run_unit_gen append_calls (fun c => eq_refl) append_calls_app ss a calls).
Qed.

(* ------------------------------------------------------------------ resolution *)
Lemma labels_get_absent k l found : str_in k (map fst l) = false -> labels_get k l found = found.
Proof.
  revert found. induction l as [|[k' v] l IH]; intros found H; [reflexivity|]. cbn [map fst str_in] in H.
  apply orb_false_iff in H as [H1 H2]. cbn [labels_get]. rewrite H1. now apply IH.
Qed.

Lemma labels_get_unique k l : keys_unique l = true -> labels_get k l None = assoc_get k l.
Proof.
  induction l as [|[k' v] l IH]; intros H; [reflexivity|]. cbn [keys_unique] in H. apply andb_true_iff in H as [H1 H2].
  cbn [labels_get assoc_get]. destruct (str_eqb k k') eqn:E.
  - apply str_eqb_eq in E. subst k'. apply negb_true_iff in H1. now apply labels_get_absent.
  - now apply IH.
Qed.

Lemma assoc_get_in {V} k (l : list (str * V)) v : assoc_get k l = Some v -> In (k, v) l.
Proof.
  induction l as [|[k' v'] l IH]; [discriminate|]. cbn [assoc_get]. destruct (str_eqb k k') eqn:E.
  - apply str_eqb_eq in E. subst k'. intros H. injection H as <-. now left.
  - intros H. right. now apply IH.
Qed.

Definition found_den (r : option entity) : den :=
  match r with Some e => ent_den e | None => DUnknown end.

Lemma find_denote tb : tb_ok tb = true -> forall ch ctx, labels_ok ctx = true ->
  found_den (find_chain tb ctx ch) = denote tb ctx ch.
Proof.
  intros Htb. unfold tb_ok in Htb. apply andb_true_iff in Htb as [_ Hty].
  assert (Hctx : forall t c, type_ctx tb t = Some c -> labels_ok c = true).
  { intros t c H. unfold type_ctx in H. apply assoc_get_in in H. rewrite forallb_forall in Hty. exact (Hty _ H). }
  induction ch as [|x rest IH]; intros ctx Hok; [reflexivity|].
  unfold labels_ok in Hok. apply andb_true_iff in Hok as [Hu Hf].
  cbn [find_chain denote]. rewrite (labels_get_unique x ctx Hu).
  destruct rest as [|y rest].
  - destruct (assoc_get x ctx); reflexivity.
  - destruct (assoc_get x ctx) as [e|] eqn:Ex; [|reflexivity].
    pose proof (assoc_get_in x ctx e Ex) as Hin. rewrite forallb_forall in Hf. specialize (Hf _ Hin). cbn [snd] in Hf.
    unfold type_ctx in *.
    destruct e as [id t|id|t pt sc|t]; cbn [ent_flags_ok] in Hf;
      try (apply andb_true_iff in Hf as [Hf _]); subst; try reflexivity;
      (destruct (assoc_get t (st_types tb)) as [c|] eqn:Et; [|reflexivity]; apply IH; now apply (Hctx t)).
Qed.

(* what a chain resolves to comes out of a table: its flags are in order *)
Lemma find_chain_flags tb : tb_ok tb = true -> forall ch ctx e, labels_ok ctx = true ->
  find_chain tb ctx ch = Some e -> ent_flags_ok e = true.
Proof.
  intros Htb. unfold tb_ok in Htb. apply andb_true_iff in Htb as [_ Hty].
  assert (Hctx : forall t c, type_ctx tb t = Some c -> labels_ok c = true).
  { intros t c H. unfold type_ctx in H. apply assoc_get_in in H. rewrite forallb_forall in Hty. exact (Hty _ H). }
  induction ch as [|x rest IH]; intros ctx e Hok H; [discriminate|].
  pose proof Hok as Hok'. unfold labels_ok in Hok. apply andb_true_iff in Hok as [Hu Hf].
  cbn [find_chain] in H. rewrite (labels_get_unique x ctx Hu) in H.
  assert (Hget : forall e0, assoc_get x ctx = Some e0 -> ent_flags_ok e0 = true).
  { intros e0 E0. rewrite forallb_forall in Hf. exact (Hf _ (assoc_get_in x ctx e0 E0)). }
  destruct rest as [|y rest]; [now apply Hget|].
  destruct (assoc_get x ctx) as [e0|]; [|discriminate].
  destruct e0 as [id t|id|t pt sc|t]; try discriminate;
    try (destruct pt; [|discriminate]);
    (destruct (type_ctx tb t) as [c|] eqn:Et; [|discriminate]; exact (IH c e (Hctx t c Et) H)).
Qed.

(* what a recorded chain contributes after correlate, as the Spec reads the tables *)
Definition den_names (tb : symtab) (ch : chain) : list str :=
  match denote tb (st_scope tb) ch with
  | DProc id => [id]
  | DUnknown => [unresolved_name tb ch]
  | DVar => []
  | DType => []
  end.

Lemma resolve_one_den tb ch : tb_ok tb = true ->
  resolve_one tb ch = match den_names tb ch with [] => None | n :: _ => Some n end.
Proof.
  intros Htb. pose proof Htb as Htb'. unfold tb_ok in Htb'. apply andb_true_iff in Htb' as [Hs _].
  pose proof (find_denote tb Htb ch (st_scope tb) Hs) as H. unfold resolve_one, den_names. rewrite <- H.
  assert (Ec : find_call tb ch = find_chain tb (st_scope tb) ch).
  { unfold find_call. destruct (find_chain tb (st_scope tb) ch) as [e|] eqn:Ef; [|reflexivity].
    pose proof (find_chain_flags tb Htb ch (st_scope tb) e Hs Ef) as Hfl.
    destruct e as [id t|id|t pt sc|t]; try reflexivity. cbn [ent_flags_ok] in Hfl. apply andb_true_iff in Hfl as [_ Hsc].
    apply negb_true_iff in Hsc. subst sc. now destruct ch as [|x [|y r]]. }
  rewrite Ec.
  destruct (find_chain tb (st_scope tb) ch) as [e|]; [destruct e; reflexivity|reflexivity].
Qed.

Lemma resolve_loop_in tb calls : forall acc p,
  In p (resolve_loop tb calls acc) <-> In p acc \/ exists ch, In ch calls /\ resolve_one tb ch = Some p.
Proof.
  induction calls as [|c calls IH]; intros acc p; cbn [resolve_loop].
  - split; [now left|intros [H|(ch & [] & _)]; exact H].
  - destruct (resolve_one tb c) as [n|] eqn:E.
    + destruct (str_in n acc) eqn:Ea.
      * rewrite IH. split.
        -- intros [H|(ch & Hin & Hr)]; [now left|right; exists ch; split; [now right|exact Hr]].
        -- intros [H|(ch & [<-|Hin] & Hr)]; [now left| |right; eauto].
           left. rewrite E in Hr. injection Hr as <-. now apply str_in_In.
      * rewrite IH, in_app_iff. split.
        -- intros [[H|[<-|[]]]|(ch & Hin & Hr)]; [now left|right; exists c; split; [now left|exact E]|right; exists ch; split; [now right|exact Hr]].
        -- intros [H|(ch & [<-|Hin] & Hr)]; [left; now left| |right; eauto].
           left. right. rewrite E in Hr. injection Hr as <-. now left.
    + rewrite IH. split.
      * intros [H|(ch & Hin & Hr)]; [now left|right; exists ch; split; [now right|exact Hr]].
      * intros [H|(ch & [<-|Hin] & Hr)]; [now left|congruence|right; eauto].
Qed.

Lemma resolve_loop_nodup tb calls : forall acc, NoDup acc -> NoDup (resolve_loop tb calls acc).
Proof.
  induction calls as [|c calls IH]; intros acc H; cbn [resolve_loop]; [exact H|].
  destruct (resolve_one tb c) as [n|]; [|now apply IH].
  destruct (str_in n acc) eqn:Ea; [now apply IH|]. apply IH. apply nodup_snoc; [exact H|].
  intros Hin. apply str_in_In in Hin. congruence.
Qed.

Lemma lower_keywords : forall k, In k grammar_keywords -> lower k = k.
Proof.
  assert (H : forallb (fun k => str_eqb (lower k) k) grammar_keywords = true) by (vm_compute; reflexivity).
  intros k Hk. rewrite forallb_forall in H. apply str_eqb_eq. exact (H k Hk).
Qed.

Lemma keyword_not_kept kw : In kw grammar_keywords -> keep [lower kw] = false.
Proof.
  intros H. unfold keep, last_of. cbn [last]. rewrite (lower_keywords kw H), (keywords_in_intrinsics kw H). reflexivity.
Qed.

Lemma deep_heads_sub d es es' ch : (forall e, In e es -> In e es') -> In ch (deep_heads d es) -> In ch (deep_heads d es').
Proof.
  intros Hsub H. destruct (deep_heads_ex d es ch H) as (e & Hin & Hch). exact (deep_heads_in d es' e ch (Hsub e Hin) Hch).
Qed.

(* (1) for segments *)
Lemma segs_bridge1 gs n ch :
  (forall kw, In kw (flat_map seg_kw gs) -> In kw grammar_keywords) ->
  In ch (flat_map seg_heads0 gs ++ level_heads (flat_map subs_seg gs) n) ->
  (exists kw, In kw grammar_keywords /\ ch = [kw]) \/ In ch (flat_map seg_refs gs).
Proof.
  intros Hkw H. apply in_app_iff in H as [H|H].
  - apply in_flat_map in H as (g & Hg & Hch). destruct g as [w|kw sp c|e]; cbn [seg_heads0] in Hch.
    + contradiction.
    + destruct Hch as [<-|[]]. left.
      assert (Hk : In kw grammar_keywords) by (apply Hkw, in_flat_map; exists (GKw kw sp c); split; [exact Hg|now left]).
      exists kw. split; [exact Hk|]. now rewrite (lower_keywords kw Hk).
    + right. apply in_flat_map. exists (GExpr e). split; [exact Hg|]. cbn [seg_refs]. now apply (proj1 heads0_refs).
  - right. apply in_level_heads in H as (d & _ & Hd). destruct (deep_heads_refs d _ ch Hd) as (e' & Hin & Hr).
    apply in_flat_map in Hin as (g & Hg & He'). apply in_flat_map. exists g. split; [exact Hg|]. exact (seg_sub_refs g e' ch He' Hr).
Qed.

Lemma deep_heads_bound gs k ch : forallb wf_seg gs = true -> In ch (deep_heads k (flat_map subs_seg gs)) ->
  k < length (render_segs gs).
Proof.
  intros Hall H. pose proof (scan_deep k (flat_map subs_seg gs) (wf_segs_subs gs Hall)) as Hs.
  assert (Hne : deep k (tree_segs gs) <> []).
  { rewrite deep_deepG, tree_segs_groups. intros E. rewrite E in Hs. cbn in Hs. rewrite <- Hs in H. contradiction. }
  pose proof (deep_len k _ Hne) as Hl. rewrite tree_segs_flat in Hl. lia.
Qed.

(* (2) for segments *)
Lemma segs_bridge2 gs ch : forallb wf_seg gs = true -> In ch (flat_map seg_refs gs) ->
  In ch (flat_map seg_inner gs) \/
  In ch (flat_map seg_heads0 gs ++ level_heads (flat_map subs_seg gs) (length (render_segs gs))).
Proof.
  intros Hall H. apply in_flat_map in H as (g & Hg & Hch).
  assert (Hlevel : forall k e', In e' (subs_seg g) -> In ch (deep_heads k [e']) ->
                   In ch (level_heads (flat_map subs_seg gs) (length (render_segs gs)))).
  { intros k e' He' Hk. assert (Hin : In ch (deep_heads k (flat_map subs_seg gs))).
    { apply (deep_heads_in k _ e' ch); [|exact Hk]. apply in_flat_map. eauto. }
    apply in_level_heads. exists k. split; [exact (deep_heads_bound gs k ch Hall Hin)|exact Hin]. }
  destruct g as [w|kw sp c|e]; cbn [seg_refs] in Hch.
  - contradiction.
  - destruct (proj1 refs_heads c ch Hch) as [Hi|(k & Hk)].
    + left. apply in_flat_map. exists (GKw kw sp c). split; [exact Hg|exact Hi].
    + right. apply in_app_iff. right. apply (Hlevel k c); [now left|exact Hk].
  - destruct (proj1 refs_heads e ch Hch) as [Hi|(k & Hk)].
    + left. apply in_flat_map. exists (GExpr e). split; [exact Hg|exact Hi].
    + right. apply in_app_iff. destruct k as [|k].
      * left. cbn [deep_heads flat_map] in Hk. rewrite app_nil_r in Hk. apply in_flat_map. exists (GExpr e). split; [exact Hg|exact Hk].
      * right. rewrite deep_heads_S in Hk. destruct (deep_heads_ex k _ ch Hk) as (e' & He' & Hk').
        apply (Hlevel k e'); [exact He'|exact Hk'].
Qed.

Lemma self_refs_inner d : forall pre,
  self_refs_d pre d = inner_refs_d pre d ++ (if last_has_args d then [pre ++ names_d d] else []).
Proof.
  induction d as [x|x a|x r IH|x a r IH]; intros pre; cbn [self_refs_d inner_refs_d names_d].
  - reflexivity.
  - reflexivity.
  - change (last_has_args (DPart0 x r)) with (last_has_args r). rewrite IH.
    destruct (last_has_args r); [|reflexivity]. now rewrite <- app_assoc.
  - change (last_has_args (DPartA x a r)) with (last_has_args r). rewrite IH. cbn [app].
    destruct (last_has_args r); [|reflexivity]. now rewrite <- app_assoc.
Qed.


Lemma lab_segs_refs lab gs : flat_map seg_refs (lab_segs lab ++ gs) = flat_map seg_refs gs.
Proof. destruct lab; reflexivity. Qed.
Lemma lab_segs_kw lab gs : flat_map seg_kw (lab_segs lab ++ gs) = flat_map seg_kw gs.
Proof. destruct lab; reflexivity. Qed.
Lemma lab_segs_inner lab gs : flat_map seg_inner (lab_segs lab ++ gs) = flat_map seg_inner gs.
Proof. destruct lab; reflexivity. Qed.

Lemma stmt_keywords st kw : In kw (flat_map seg_kw (stmt_segs st)) -> In kw grammar_keywords.
Proof.
  destruct st as [lab sp f|lab d|lab sp c d|sp pairs| | |]; cbn [stmt_segs]; rewrite ?lab_segs_kw; intros H.
  - exact (form_keywords sp f kw H).
  - contradiction.
  - destruct H as [<-|[]]. cbn. tauto.
  - destruct H as [<-|[]]. cbn. tauto.
  - contradiction.
  - contradiction.
  - contradiction.
Qed.

Lemma inner_self_refs d ch : In ch (inner_self d) -> In ch (inner_refs_d [] d).
Proof.
  unfold inner_self. rewrite self_refs_inner. destruct (last_has_args d).
  - rewrite removelast_last. auto.
  - rewrite app_nil_r. apply in_removelast.
Qed.

Lemma refs_assoc_list pairs : refs_e (assoc_list pairs) = flat_map (fun p => refs_e (snd p)) pairs.
Proof.
  induction pairs as [|[n e] pairs IH]; [reflexivity|]. destruct pairs as [|q pairs].
  - cbn [assoc_list refs_e refs_d flat_map snd app]. now rewrite app_nil_r.
  - change (assoc_list ((n, e) :: q :: pairs)) with (EBin (EBin (EDes (DLast0 n)) (s " => ") e) (s ", ") (assoc_list (q :: pairs))).
    cbn [refs_e refs_d app]. rewrite IH. reflexivity.
Qed.

(* (1) per statement *)
Lemma stmt_bridge1 st ch : seg_stmt st = true -> wf_stmt st = true ->
  In ch (stmt_chains st) -> (exists kw, In kw grammar_keywords /\ ch = [kw]) \/ In ch (stmt_refs st).
Proof.
  intros Hs Hwf H.
  assert (Hgen : forall n, In ch (flat_map seg_heads0 (stmt_segs st) ++ level_heads (flat_map subs_seg (stmt_segs st)) n) ->
                 (exists kw, In kw grammar_keywords /\ ch = [kw]) \/ In ch (flat_map seg_refs (stmt_segs st))).
  { intros n. apply segs_bridge1. intros kw. apply stmt_keywords. }
  assert (Hd : forall d, In ch (refs_d [] d) -> In ch (names_d d :: inner_refs_d [] d ++ arg_refs_d d)).
  { intros d Hr. apply (proj2 refs_d_split) in Hr as [Hr|Hr].
    - rewrite self_refs_inner in Hr. apply in_app_iff in Hr as [Hr|Hr].
      + right. apply in_app_iff. now left.
      + destruct (last_has_args d); [|contradiction]. destruct Hr as [<-|[]]. now left.
    - right. apply in_app_iff. now right. }
  destruct st as [lab sp f|lab d|lab sp c d|sp pairs| | |]; try discriminate; cbn [stmt_refs].
  - unfold stmt_chains in H. destruct (Hgen _ H) as [Hk|Hr]; [now left|right].
    cbn [stmt_segs] in Hr. now rewrite lab_segs_refs in Hr.
  - unfold stmt_chains in H. destruct H as [<-|H]; [right; now left|].
    assert (H' : In ch (flat_map seg_heads0 (stmt_segs (SCall lab d)) ++
                        level_heads (flat_map subs_seg (stmt_segs (SCall lab d))) (S (length (render_stmt (SCall lab d))))))
      by (apply in_app_iff; now right).
    destruct (Hgen _ H') as [Hk|Hr]; [now left|right].
    cbn [stmt_segs] in Hr. rewrite lab_segs_refs in Hr.
    cbn [flat_map seg_refs refs_e app] in Hr. rewrite app_nil_r in Hr. now apply Hd.
  - unfold stmt_chains in H. destruct H as [<-|H]; [right; apply in_app_iff; right; now left|].
    assert (H' : In ch (flat_map seg_heads0 (stmt_segs (SIfCall lab sp c d)) ++
                        level_heads (flat_map subs_seg (stmt_segs (SIfCall lab sp c d))) (S (length (render_stmt (SIfCall lab sp c d))))))
      by (apply in_app_iff; now right).
    destruct (Hgen _ H') as [Hk|Hr]; [now left|right].
    cbn [stmt_segs] in Hr. rewrite lab_segs_refs in Hr.
    cbn [flat_map seg_refs refs_e app] in Hr. rewrite app_nil_r in Hr.
    apply in_app_iff in Hr as [Hr|Hr]; apply in_app_iff; [now left|right; now apply Hd].
  - unfold stmt_chains in H. destruct (Hgen _ H) as [Hk|Hr]; [now left|right].
    cbn [stmt_segs flat_map seg_refs] in Hr. rewrite app_nil_r, refs_assoc_list in Hr. exact Hr.
Qed.

Lemma wf_stmt_all st : seg_stmt st = true -> wf_stmt st = true -> forallb wf_seg (stmt_segs st) = true.
Proof. intros Hs Hwf. apply wf_segs_all. exact (proj1 (wf_stmt_segs st Hs Hwf)). Qed.

(* (2) per statement *)
Lemma stmt_bridge2 st ch : seg_stmt st = true -> wf_stmt st = true ->
  In ch (stmt_refs st) -> In ch (stmt_inner st) \/ In ch (stmt_chains st).
Proof.
  intros Hs Hwf H. pose proof Hs as Hseg.
  pose proof (wf_stmt_all st Hseg Hwf) as Hall.
  assert (Hrender : render_stmt st = render_segs (stmt_segs st)) by (destruct st; try discriminate; reflexivity).
  assert (Hlevel : forall k e' n, length (render_stmt st) <= n -> In e' (flat_map subs_seg (stmt_segs st)) ->
                   In ch (deep_heads k [e']) -> In ch (level_heads (flat_map subs_seg (stmt_segs st)) n)).
  { intros k e' n Hn He' Hk. pose proof (deep_heads_in k _ e' ch He' Hk) as Hin.
    apply in_level_heads. exists k. split; [|exact Hin].
    pose proof (deep_heads_bound (stmt_segs st) k ch Hall Hin) as Hb. rewrite <- Hrender in Hb. lia. }
  assert (Hargs : forall d n, length (render_stmt st) <= n ->
                  (forall a, In a (subs_d d) -> In a (flat_map subs_seg (stmt_segs st))) ->
                  In ch (arg_refs_d d) ->
                  In ch (inner_args d) \/ In ch (level_heads (flat_map subs_seg (stmt_segs st)) n)).
  { intros d n Hn Hsub Ha. destruct (proj2 refs_heads d ch Ha) as [Hi|(k & a & Hin & Hk)]; [now left|right].
    exact (Hlevel k a n Hn (Hsub a Hin) Hk). }
  destruct st as [lab sp f|lab d|lab sp c d|sp pairs| | |]; try discriminate; cbn [stmt_refs stmt_inner] in *.
  - rewrite <- (lab_segs_refs lab) in H. change (lab_segs lab ++ segs_of sp f) with (stmt_segs (SForm lab sp f)) in H.
    destruct (segs_bridge2 _ ch Hall H) as [Hi|Hc]; [now left|right]. unfold stmt_chains. now rewrite Hrender.
  - assert (Hsub : forall a, In a (subs_d d) -> In a (flat_map subs_seg (stmt_segs (SCall lab d)))).
    { intros a Ha. cbn [stmt_segs]. rewrite flat_map_app. apply in_app_iff. right. cbn [flat_map subs_seg subs_e]. now rewrite app_nil_r. }
    destruct H as [<-|H]; [right; unfold stmt_chains; now left|].
    apply in_app_iff in H as [H|H]; [left; apply in_app_iff; now left|].
    unfold stmt_chains.
    destruct (Hargs d (S (length (render_stmt (SCall lab d)))) (le_S _ _ (le_n _)) Hsub H) as [Hi|Hl];
      [left; apply in_app_iff; now right|right; now right].
  - assert (Hsub : forall a, In a (subs_d d) -> In a (flat_map subs_seg (stmt_segs (SIfCall lab sp c d)))).
    { intros a Ha. cbn [stmt_segs]. rewrite flat_map_app. apply in_app_iff. right. cbn [flat_map subs_seg subs_e]. rewrite app_nil_r. now right. }
    assert (Hc : In c (flat_map subs_seg (stmt_segs (SIfCall lab sp c d)))).
    { cbn [stmt_segs]. rewrite flat_map_app. apply in_app_iff. right. cbn [flat_map subs_seg]. now left. }
    apply in_app_iff in H as [H|H].
    + destruct (proj1 refs_heads c ch H) as [Hi|(k & Hk)]; [left; apply in_app_iff; now left|right].
      unfold stmt_chains. right. exact (Hlevel k c _ (le_S _ _ (le_n _)) Hc Hk).
    + destruct H as [<-|H]; [right; unfold stmt_chains; now left|].
      apply in_app_iff in H as [H|H]; [left; apply in_app_iff; right; apply in_app_iff; now left|].
      unfold stmt_chains.
      destruct (Hargs d (S (length (render_stmt (SIfCall lab sp c d)))) (le_S _ _ (le_n _)) Hsub H) as [Hi|Hl];
        [left; apply in_app_iff; right; apply in_app_iff; now right|right; now right].
  - assert (H' : In ch (flat_map seg_refs (stmt_segs (SAssoc sp pairs))))
      by (cbn [stmt_segs flat_map seg_refs]; rewrite app_nil_r, refs_assoc_list; exact H).
    destruct (segs_bridge2 _ ch Hall H') as [Hi|Hc]; [left; exact Hi|right]. unfold stmt_chains. now rewrite Hrender.
Qed.

(* ------------------------------------------------------------------ C08_exact *)
Lemma goto_segs_all e : wf_segs (goto_segs e) = true -> forallb wf_seg (goto_segs e) = true.
Proof. apply wf_segs_all. Qed.

Lemma unit_chains_refs st ch : wf_stmt st = true -> step_ok st = true -> In ch (unit_chains st) ->
  (exists kw, In kw grammar_keywords /\ ch = [kw]) \/ In ch (stmt_refs st).
Proof.
  intros Hwf Hs H. unfold unit_chains in H.
  destruct st as [lab sp f|lab d|lab sp c d|sp pairs| | |labels e]; cbn [seg_stmt] in H; try contradiction;
    try now apply stmt_bridge1.
  unfold stmt_chains in H. cbn [stmt_refs].
  destruct (segs_bridge1 (goto_segs e) _ ch (fun kw (Hk : In kw (flat_map seg_kw (goto_segs e))) => match Hk with end) H) as [Hk|Hr];
    [now left|right]. cbn [goto_segs flat_map seg_refs app] in Hr. now rewrite app_nil_r in Hr.
Qed.

Lemma stmt_refs_chains st ch : wf_stmt st = true -> step_ok st = true ->
  In ch (stmt_refs st) -> In ch (stmt_inner st) \/ In ch (unit_chains st).
Proof.
  intros Hwf Hs H. unfold unit_chains.
  destruct st as [lab sp f|lab d|lab sp c d|sp pairs| | |labels e]; cbn [seg_stmt stmt_refs] in *; try contradiction;
    try now apply stmt_bridge2.
  cbn [wf_stmt] in Hwf. apply andb_true_iff in Hwf as [_ Hsegs].
  assert (H' : In ch (flat_map seg_refs (goto_segs e))) by (cbn [goto_segs flat_map seg_refs app]; now rewrite app_nil_r).
  destruct (segs_bridge2 (goto_segs e) ch (goto_segs_all e Hsegs) H') as [Hi|Hc].
  - left. cbn [stmt_inner]. cbn [goto_segs flat_map seg_inner app] in Hi. now rewrite app_nil_r in Hi.
  - right. exact Hc.
Qed.

Lemma classify0_keep tb ch : keep ch = true -> classify0 tb ch = den_names tb ch.
Proof.
  unfold keep, classify0, den_names. intros H. apply negb_true_iff in H. rewrite H. reflexivity.
Qed.

(* references of the unit under the associations in force where they stand *)
Definition opt_list {A} (o : option A) : list A := match o with Some c => [c] | None => [] end.
Fixpoint env_refs (env : aenv) (ss : list stmt) : list chain :=
  match ss with
  | [] => []
  | st :: r => subst_chains env (stmt_refs st) ++ env_refs (env_after env st) r
  end.

Lemma subst_chains_in env l ch' : In ch' (subst_chains env l) <-> exists ch, In ch l /\ expand env ch = Some ch'.
Proof.
  unfold subst_chains. rewrite in_flat_map. split.
  - intros (ch & Hin & H). exists ch. split; [exact Hin|]. destruct (expand env ch); [destruct H as [<-|[]]; reflexivity|contradiction].
  - intros (ch & Hin & H). exists ch. split; [exact Hin|]. rewrite H. now left.
Qed.

Lemma some_refs_env env ss :
  flat_map (fun o => match o with Some c => [c] | None => [] end) (unit_refs env ss) = env_refs env ss.
Proof.
  revert env. induction ss as [|st ss IH]; intros env; [reflexivity|]. cbn [unit_refs env_refs].
  rewrite flat_map_app, flat_map_map. unfold subst_chains at 1.
  f_equal. destruct st; cbn [env_after]; apply IH.
Qed.

Lemma calls_of_env tb env ss : calls_of_stmts tb env ss = flat_map (classify0 tb) (env_refs env ss).
Proof.
  revert env. induction ss as [|st ss IH]; intros env; [reflexivity|]. cbn [calls_of_stmts env_refs].
  rewrite flat_map_app.
  assert (E : flat_map (classify tb env) (stmt_refs st) = flat_map (classify0 tb) (subst_chains env (stmt_refs st))).
  { unfold subst_chains. rewrite flat_map_flat_map. apply flat_map_ext. intros ch. unfold classify, classify0.
    destruct (expand env ch); [cbn [flat_map]; now rewrite app_nil_r|reflexivity]. }
  rewrite E. f_equal. destruct st; cbn [env_after]; apply IH.
Qed.

(* no ASSOCIATE name in force is a keyword of the grammar *)
Definition env_kw_free (env : aenv) : Prop :=
  forall b k v, In b env -> In (k, v) b -> ~ In k grammar_keywords.

Lemma aenv_get_absent k rb : (forall b v, In b rb -> ~ In (k, v) b) -> aenv_get k rb = None.
Proof.
  induction rb as [|b rb IH]; intros H; [reflexivity|]. cbn [aenv_get].
  destruct (assoc_get k (rev b)) as [v|] eqn:E.
  - exfalso. apply assoc_get_in in E. apply (H b v); [now left|]. now apply in_rev.
  - apply IH. intros b' v Hb. apply H. now right.
Qed.

Lemma expand_keyword env kw : env_kw_free env -> In kw grammar_keywords -> expand env [kw] = Some [kw].
Proof.
  intros Hf Hk. cbn [expand]. rewrite aenv_get_absent; [reflexivity|].
  intros b v Hb Hin. apply (Hf b kw v); [now apply in_rev|exact Hin|exact Hk].
Qed.

Lemma env_after_kw_free env st : env_kw_free env ->
  match st with SAssoc _ pairs => forallb (fun p => negb (str_in (lower (fst p)) grammar_keywords)) pairs = true | _ => True end ->
  env_kw_free (env_after env st).
Proof.
  intros Hf Hst. destruct st as [| | |sp pairs| | |]; cbn [env_after]; try exact Hf.
  - intros b k v Hb Hin. apply in_app_iff in Hb as [Hb|[<-|[]]]; [exact (Hf b k v Hb Hin)|].
    unfold new_batch in Hin. apply in_map_iff in Hin as (p & E & Hp). injection E as <- _.
    rewrite forallb_forall in Hst. specialize (Hst p Hp). apply negb_true_iff in Hst. intros Hk. apply str_in_In in Hk. congruence.
  - intros b k v Hb Hin. apply in_removelast in Hb. exact (Hf b k v Hb Hin).
Qed.

(* the candidates after correlate *)
Definition proc_id (r : option entity) : option str :=
  match r with Some (EFunc id _) => Some id | Some (EProc id) => Some id | _ => None end.

Lemma resolve_named_in tb named : forall acc p,
  In p (resolve_named tb named acc) <->
  In p acc \/ exists ch, In ch named /\ proc_id (find_chain tb (st_scope tb) ch) = Some p.
Proof.
  induction named as [|c named IH]; intros acc p; cbn [resolve_named].
  - split; [now left|intros [H|(ch & [] & _)]; exact H].
  - assert (Skip : proc_id (find_chain tb (st_scope tb) c) = None ->
                   (In p (resolve_named tb named acc) <->
                    In p acc \/ exists ch, In ch (c :: named) /\ proc_id (find_chain tb (st_scope tb) ch) = Some p)).
    { intros En. rewrite IH. split.
      - intros [H|(ch & Hin & Hr)]; [now left|right; exists ch; split; [now right|exact Hr]].
      - intros [H|(ch & [<-|Hin] & Hr)]; [now left|congruence|right; eauto]. }
    assert (Take : forall id, proc_id (find_chain tb (st_scope tb) c) = Some id ->
                   (In p (if str_in id acc then resolve_named tb named acc else resolve_named tb named (acc ++ [id])) <->
                    In p acc \/ exists ch, In ch (c :: named) /\ proc_id (find_chain tb (st_scope tb) ch) = Some p)).
    { intros id E. destruct (str_in id acc) eqn:Ea.
      - rewrite IH. split.
        + intros [H|(ch & Hin & Hr)]; [now left|right; exists ch; split; [now right|exact Hr]].
        + intros [H|(ch & [<-|Hin] & Hr)]; [now left| |right; eauto].
          left. rewrite E in Hr. injection Hr as <-. now apply str_in_In.
      - rewrite IH, in_app_iff. split.
        + intros [[H|[<-|[]]]|(ch & Hin & Hr)]; [now left|right; exists c; split; [now left|exact E]|right; exists ch; split; [now right|exact Hr]].
        + intros [H|(ch & [<-|Hin] & Hr)]; [left; now left| |right; eauto].
          left. right. rewrite E in Hr. injection Hr as <-. now left. }
    destruct (find_chain tb (st_scope tb) c) as [[id t|id|t pt sc|t]|]; cbn [proc_id] in Skip, Take;
      [exact (Take id eq_refl)|exact (Take id eq_refl)|exact (Skip eq_refl)|exact (Skip eq_refl)|exact (Skip eq_refl)].
Qed.

Lemma resolve_named_nodup tb named : forall acc, NoDup acc -> NoDup (resolve_named tb named acc).
Proof.
  induction named as [|c named IH]; intros acc H; cbn [resolve_named]; [exact H|].
  assert (Take : forall id, NoDup (if str_in id acc then resolve_named tb named acc else resolve_named tb named (acc ++ [id]))).
  { intros id. destruct (str_in id acc) eqn:Ea; [now apply IH|]. apply IH. apply nodup_snoc; [exact H|].
    intros Hin. apply str_in_In in Hin. congruence. }
  destruct (find_chain tb (st_scope tb) c) as [[id t|id|t pt sc|t]|]; [apply Take|apply Take|now apply IH|now apply IH|now apply IH].
Qed.

(* a chain resolves to a procedure exactly when it denotes one *)
Lemma proc_id_den tb ch p : tb_ok tb = true ->
  (proc_id (find_chain tb (st_scope tb) ch) = Some p <-> denote tb (st_scope tb) ch = DProc p).
Proof.
  intros Htb. pose proof Htb as Htb'. unfold tb_ok in Htb'. apply andb_true_iff in Htb' as [Hs _].
  rewrite <- (find_denote tb Htb ch (st_scope tb) Hs).
  destruct (find_chain tb (st_scope tb) ch) as [[id t|id|t pt sc|t]|]; cbn [proc_id found_den ent_den];
    split; intros H; try discriminate; injection H as <-; reflexivity.
Qed.

Theorem exact tb ss srcs :
  map mask_quotes srcs = map render_stmt ss -> resolvable tb ss = true ->
  exists l, recorded tb srcs = Some l /\ NoDup l /\ forall p, In p l <-> In p (calls_of tb ss).
Proof.
  intros Hsrc Hres. unfold resolvable in Hres.
  repeat match goal with H : _ && _ = true |- _ => apply andb_true_iff in H as [H ?] end.
  rename H into Hinner, H0 into Hkw, H1 into Htb, H2 into Hnames, H3 into Hnest, H4 into Hstep, H5 into Hplain.
  rename Hres into Hwf.
  apply negb_true_iff in Hkw.
  pose proof (run_unit ss [] [] Hwf Hplain Hstep Hnest) as Hrun.
  pose proof (run_unit_gen append_named (fun c => eq_refl) append_named_app ss [] [] Hwf Hplain Hstep Hnest) as Hrunn.
  unfold recorded, unit_raw_calls, unit_named_calls. rewrite run_stmts_lines, run_named_lines, Hsrc.
  change (run_lines ([], []) (map render_stmt ss)) with (run_lines (([] : assocs), []) (map render_stmt ss)).
  change (run_lines_gen append_named ([], []) (map render_stmt ss))
    with (run_lines_gen append_named (([] : assocs), []) (map render_stmt ss)).
  cbn [length] in Hrun, Hrunn. rewrite Hrun, Hrunn.
  eexists. split; [reflexivity|]. split; [apply resolve_named_nodup, resolve_loop_nodup; constructor|].
  unfold calls_of. rewrite calls_of_env.
  (* the two bridges on the whole unit, under the associations in force *)
  assert (B : forall ss env, forallb wf_stmt ss = true -> forallb step_ok ss = true -> assoc_names_ok ss = true -> env_kw_free env ->
              (forall ch, In ch (model_chains env ss) -> (exists kw, In kw grammar_keywords /\ ch = [kw]) \/ In ch (env_refs env ss)) /\
              (forall ch, In ch (env_refs env ss) -> In ch (env_inner env ss) \/ In ch (model_chains env ss))).
  { clear. induction ss as [|st ss IH]; intros env Hwf Hstep Hnames Hfree; [split; intros ch []|].
    cbn [forallb assoc_names_ok] in *. apply andb_true_iff in Hwf as [Hw Hwf]. apply andb_true_iff in Hstep as [Hs Hstep].
    apply andb_true_iff in Hnames as [Hn Hnames].
    assert (Hfree' : env_kw_free (env_after env st)) by (apply env_after_kw_free; [exact Hfree|destruct st; try exact I; exact Hn]).
    destruct (IH (env_after env st) Hwf Hstep Hnames Hfree') as [I1 I2]. cbn [model_chains env_refs env_inner]. split.
    - intros ch' Hin. apply in_app_iff in Hin as [Hin|Hin].
      + apply subst_chains_in in Hin as (ch & Hch & He).
        destruct (unit_chains_refs st ch Hw Hs Hch) as [(kw & Hkw & ->)|Hr].
        * rewrite (expand_keyword env kw Hfree Hkw) in He. injection He as <-. left. eauto.
        * right. apply in_app_iff. left. apply subst_chains_in. eauto.
      + destruct (I1 ch' Hin) as [Hk|Hr]; [now left|right; apply in_app_iff; now right].
    - intros ch' Hin. apply in_app_iff in Hin as [Hin|Hin].
      + apply subst_chains_in in Hin as (ch & Hch & He).
        destruct (stmt_refs_chains st ch Hw Hs Hch) as [Hi|Hc].
        * left. apply in_app_iff. left. apply subst_chains_in. eauto.
        * right. apply in_app_iff. left. apply subst_chains_in. eauto.
      + destruct (I2 ch' Hin) as [Hi|Hc]; [left|right]; apply in_app_iff; now right. }
  assert (Hfree0 : env_kw_free []) by (intros b k v []).
  destruct (B ss [] Hwf Hstep Hnames Hfree0) as [B1' B2'].
  set (chains := model_chains [] ss) in *. set (refs := env_refs [] ss) in *.
  (* a keyword of the grammar denotes no procedure (region 3 excluded) *)
  assert (K : forall kw, In kw grammar_keywords -> is_proc_den (denote tb (st_scope tb) [kw]) = false).
  { intros kw Hk. unfold region_keyword_named in Hkw.
    destruct (is_proc_den (denote tb (st_scope tb) [kw])) eqn:E; [|reflexivity].
    assert (Ht : existsb (fun kw => is_proc_den (denote tb (st_scope tb) [kw])) grammar_keywords = true)
      by (apply existsb_exists; exists kw; split; [exact Hk|exact E]).
    congruence. }
  assert (B1 : forall ch, In ch chains -> keep ch = true -> In ch refs).
  { intros ch Hin Hk. destruct (B1' ch Hin) as [(kw & Hkw' & ->)|Hr]; [|exact Hr].
    pose proof (keyword_not_kept kw Hkw') as Hnk. rewrite (lower_keywords kw Hkw') in Hnk. congruence. }
  assert (B2 : forall ch, In ch refs -> classify0 tb ch <> [] -> In ch chains).
  { intros ch Hin Hne. destruct (B2' ch Hin) as [Hi|Hc]; [|exact Hc]. exfalso. apply Hne.
    rewrite forallb_forall in Hinner. specialize (Hinner ch Hi). destruct (classify0 tb ch); [reflexivity|discriminate]. }
  intros p. unfold resolve_calls. rewrite resolve_named_in, resolve_loop_in, in_flat_map. split.
  - intros [[[]|(ch & Hin & Hr)]|(ch & Hin & Hr)].
    + apply append_calls_in in Hin as [[]|[Hin Hk]].
      exists ch. split; [now apply B1|]. rewrite (classify0_keep tb ch Hk).
      rewrite (resolve_one_den tb ch Htb) in Hr. destruct (den_names tb ch) as [|n l] eqn:E; [discriminate|].
      injection Hr as <-. now left.
    + apply append_named_in in Hin as [[]|[Hin Hk]]. apply (proc_id_den tb ch p Htb) in Hr.
      destruct (B1' ch Hin) as [(kw & Hkw' & ->)|Href].
      * pose proof (K kw Hkw') as Hf. rewrite Hr in Hf. discriminate.
      * exists ch. split; [exact Href|]. unfold classify0. rewrite Hr. now left.
  - intros (ch & Hin & Hp).
    assert (Hne : classify0 tb ch <> []) by (intros E; rewrite E in Hp; contradiction).
    pose proof (B2 ch Hin Hne) as Hc.
    destruct (keep ch) eqn:Hk.
    + left. right. exists ch. split; [now apply append_calls_cover|].
      rewrite (resolve_one_den tb ch Htb). rewrite (classify0_keep tb ch Hk) in Hp.
      unfold den_names in *. destruct (denote tb (st_scope tb) ch); cbn in Hp |- *; try contradiction;
        destruct Hp as [<-|[]]; reflexivity.
    + right. exists ch. split; [now apply append_named_cover|]. apply (proc_id_den tb ch p Htb).
      unfold keep in Hk. apply negb_false_iff in Hk. unfold classify0 in Hp. rewrite Hk in Hp.
      destruct (denote tb (st_scope tb) ch); cbn in Hp; try contradiction. destruct Hp as [<-|[]]. reflexivity.
Qed.
