(* Sem/CallsExact.v — C08_exact: on units without ASSOCIATE constructs whose statements reach
   _add_procedure_calls, and outside the recorded defect regions, what the model leaves in
   unit.calls is, as a set, what the Spec says the unit invokes. *)
From Coq Require Import ZArith Lia.
From Ford Require Import Base.Str Base.StrFacts Gen.Intrinsics Sem.Calls Sem.CallsSpec Sem.CallsDefs Sem.CallsStrip Sem.CallsScan
  Sem.CallsStmt Sem.CallsProofs.

(* ------------------------------------------------------------------ level order against pre-order *)
Lemma deep_heads_app d : forall l1 l2, deep_heads d (l1 ++ l2) = deep_heads d l1 ++ deep_heads d l2.
Proof.
  induction d as [|d IH]; intros l1 l2; cbn [deep_heads]; [apply flat_map_app|].
  rewrite flat_map_app. apply IH.
Qed.

Lemma deep_heads_in d es e ch : In e es -> In ch (deep_heads d [e]) -> In ch (deep_heads d es).
Proof.
  intros Hin Hch. apply in_split in Hin as (l1 & l2 & ->).
  change (l1 ++ e :: l2) with (l1 ++ [e] ++ l2). rewrite !deep_heads_app, !in_app_iff. tauto.
Qed.

Lemma deep_heads_ex d es ch : In ch (deep_heads d es) -> exists e, In e es /\ In ch (deep_heads d [e]).
Proof.
  induction es as [|e es IH]; intros H.
  - exfalso. revert H. clear. induction d; cbn; auto.
  - change (e :: es) with ([e] ++ es) in H. rewrite deep_heads_app, in_app_iff in H. destruct H as [H|H].
    + exists e. split; [now left|exact H].
    + destruct (IH H) as (e' & Hin & Hch). exists e'. split; [now right|exact Hch].
Qed.

Lemma deep_heads_S d e : deep_heads (S d) [e] = deep_heads d (subs_e e).
Proof. cbn [deep_heads flat_map]. now rewrite app_nil_r. Qed.


Lemma refs_d_split :
  (forall e : expr, True) /\
  (forall d pre ch, In ch (refs_d pre d) <-> In ch (self_refs_d pre d) \/ In ch (arg_refs_d d)).
Proof.
  split; [trivial|]. induction d as [x|x a|x r IH|x a r IH]; intros pre ch; cbn [refs_d self_refs_d arg_refs_d].
  - tauto.
  - cbn [In]. tauto.
  - apply IH.
  - cbn [In]. rewrite !in_app_iff, IH. tauto.
Qed.

(* the head the model finds is the last of these *)
Lemma head_chain_last d : forall pre c, d_head_chain d = Some c -> self_refs_d pre d <> [] /\ last (self_refs_d pre d) [] = pre ++ c.
Proof.
  induction d as [x|x a|x r IH|x a r IH]; intros pre c H; cbn [d_head_chain self_refs_d] in *.
  - discriminate.
  - injection H as <-. split; [discriminate|reflexivity].
  - destruct (d_head_chain r) as [c'|]; [|discriminate]. injection H as <-.
    destruct (IH (pre ++ [lower x]) c' eq_refl) as [Hn Hl]. split; [exact Hn|]. rewrite Hl, <- app_assoc. reflexivity.
  - injection H as <-. destruct (d_head_chain r) as [c'|] eqn:E.
    + destruct (IH (pre ++ [lower x]) c' eq_refl) as [Hn Hl]. split; [discriminate|].
      destruct (self_refs_d (pre ++ [lower x]) r) eqn:Es; [contradiction|]. cbn [last] in *. rewrite Hl, <- app_assoc. reflexivity.
    + split; [discriminate|].
      assert (Hnil : forall p, self_refs_d p r = []).
      { clear -E. induction r as [y|y b|y r' IHr|y b r' IHr]; intros p; cbn [d_head_chain self_refs_d] in *;
          try reflexivity; try discriminate. destruct (d_head_chain r'); [discriminate|]. now apply IHr. }
      rewrite Hnil. reflexivity.
Qed.

Lemma head_chain_none d : d_head_chain d = None -> forall pre, self_refs_d pre d = [].
Proof.
  induction d as [y|y b|y r' IHr|y b r' IHr]; intros E p; cbn [d_head_chain self_refs_d] in *;
    try reflexivity; try discriminate. destruct (d_head_chain r'); [discriminate|]. now apply IHr.
Qed.



Lemma in_removelast_or {A} (l : list A) (d x : A) : In x l -> In x (removelast l) \/ x = last l d.
Proof.
  induction l as [|a l IH]; intros H; [contradiction|].
  destruct l as [|b l]; [destruct H as [<-|[]]; now right|].
  destruct H as [<-|H]; [left; now left|]. destruct (IH H) as [H1|H1]; [left; now right|right; exact H1].
Qed.

Lemma in_removelast {A} (l : list A) x : In x (removelast l) -> In x l.
Proof.
  induction l as [|a l IH]; intros H; [contradiction|]. destruct l as [|b l]; [contradiction|].
  destruct H as [<-|H]; [now left|right; now apply IH].
Qed.

Lemma d_heads0_in d ch : In ch (d_heads0 d) <-> d_head_chain d = Some ch.
Proof. unfold d_heads0. destruct (d_head_chain d); cbn; split; intros H; try tauto; try discriminate.
  - destruct H as [<-|[]]. reflexivity. - injection H as <-. now left. Qed.

(* arguments of a designator are its parenthesised parts *)
Lemma arg_refs_subs d ch : In ch (arg_refs_d d) <-> exists a, In a (subs_d d) /\ In ch (refs_e a).
Proof.
  induction d as [x|x a|x r IH|x a r IH]; cbn [arg_refs_d subs_d].
  - split; [contradiction|intros (a & [] & _)].
  - split; [intros H; exists a; split; [now left|exact H]|intros (a' & [<-|[]] & H); exact H].
  - exact IH.
  - rewrite in_app_iff, IH. split.
    + intros [H|(a' & Hin & H)]; [exists a; split; [now left|exact H]|exists a'; split; [now right|exact H]].
    + intros (a' & [<-|Hin] & H); [now left|right; eauto].
Qed.
Lemma inner_args_subs d ch : In ch (inner_args d) <-> exists a, In a (subs_d d) /\ In ch (inner_e a).
Proof.
  induction d as [x|x a|x r IH|x a r IH]; cbn [inner_args subs_d].
  - split; [contradiction|intros (a & [] & _)].
  - split; [intros H; exists a; split; [now left|exact H]|intros (a' & [<-|[]] & H); exact H].
  - exact IH.
  - rewrite in_app_iff, IH. split.
    + intros [H|(a' & Hin & H)]; [exists a; split; [now left|exact H]|exists a'; split; [now right|exact H]].
    + intros (a' & [<-|Hin] & H); [now left|right; eauto].
Qed.

(* (1) every head the model finds at some level is a reference of the Spec *)
Lemma heads0_refs :
  (forall e ch, In ch (e_heads0 e) -> In ch (refs_e e)) /\ (forall d : desig, True).
Proof.
  split; [|trivial]. induction e as [t|d|e IH|op e IH|a IHa op b IHb]; intros ch H; cbn [e_heads0 refs_e] in *.
  - contradiction.
  - apply d_heads0_in in H. apply (proj2 refs_d_split). left.
    destruct (head_chain_last d [] ch H) as [Hn Hl]. cbn [app] in Hl.
    destruct (exists_last Hn) as (l' & z & E). rewrite E in Hl |- *. rewrite last_last in Hl. subst z.
    apply in_or_app. right. now left.
  - contradiction.
  - now apply IH.
  - apply in_app_iff in H. apply in_app_iff. destruct H; [left; now apply IHa|right; now apply IHb].
Qed.

Lemma subs_refs :
  (forall e e' ch, In e' (subs_e e) -> In ch (refs_e e') -> In ch (refs_e e)) /\ (forall d : desig, True).
Proof.
  split; [|trivial]. induction e as [t|d|e IH|op e IH|a IHa op b IHb]; intros e' ch Hs Hr; cbn [subs_e refs_e] in *.
  - contradiction.
  - apply (proj2 refs_d_split). right. apply arg_refs_subs. eauto.
  - destruct Hs as [<-|[]]. exact Hr.
  - eapply IH; eauto.
  - apply in_app_iff in Hs. apply in_app_iff. destruct Hs; [left; eapply IHa; eauto|right; eapply IHb; eauto].
Qed.

Lemma deep_heads_refs d : forall es ch, In ch (deep_heads d es) -> exists e, In e es /\ In ch (refs_e e).
Proof.
  induction d as [|d IH]; intros es ch H; cbn [deep_heads] in H.
  - apply in_flat_map in H as (e & Hin & Hch). exists e. split; [exact Hin|now apply (proj1 heads0_refs)].
  - destruct (IH _ _ H) as (e' & Hin & Hch). apply in_flat_map in Hin as (e & He & He').
    exists e. split; [exact He|]. exact (proj1 subs_refs e e' ch He' Hch).
Qed.

(* (2) every reference of the Spec is found at some level, or is an inner part of a designator *)
Lemma refs_heads :
  (forall e ch, In ch (refs_e e) -> In ch (inner_e e) \/ exists d, In ch (deep_heads d [e])) /\
  (forall d ch, In ch (arg_refs_d d) -> In ch (inner_args d) \/ exists k a, In a (subs_d d) /\ In ch (deep_heads k [a])).
Proof.
  apply expr_desig_ind.
  - intros t ch H. contradiction.
  - intros d IH ch H. cbn [refs_e inner_e] in *. apply (proj2 refs_d_split) in H. destruct H as [H|H].
    + destruct (d_head_chain d) as [c|] eqn:E.
      * destruct (head_chain_last d [] c E) as [Hn Hl]. cbn [app] in Hl.
        destruct (in_removelast_or _ [] ch H) as [Hi|He].
        -- left. apply in_app_iff. left. exact Hi.
        -- right. exists 0. cbn [deep_heads flat_map e_heads0]. rewrite app_nil_r. apply d_heads0_in. rewrite E. f_equal. subst ch. symmetry. exact Hl.
      * rewrite (head_chain_none d E []) in H. contradiction.
    + destruct (IH ch H) as [Hi|(k & a & Ha & Hk)].
      * left. apply in_app_iff. now right.
      * right. exists (S k). rewrite deep_heads_S. cbn [subs_e]. exact (deep_heads_in k _ a ch Ha Hk).
  - intros e IH ch H. cbn [refs_e inner_e] in *. destruct (IH ch H) as [Hi|(k & Hk)]; [now left|].
    right. exists (S k). rewrite deep_heads_S. cbn [subs_e]. exact Hk.
  - intros op e IH ch H. cbn [refs_e inner_e] in *. destruct (IH ch H) as [Hi|(k & Hk)]; [now left|].
    right. exists k. destruct k; [exact Hk|]. rewrite deep_heads_S in *. exact Hk.
  - intros a IHa op b IHb ch H. cbn [refs_e inner_e] in *. apply in_app_iff in H. destruct H as [H|H].
    + destruct (IHa ch H) as [Hi|(k & Hk)]; [left; apply in_app_iff; now left|].
      right. exists k. destruct k.
      * cbn [deep_heads flat_map e_heads0] in *. rewrite app_nil_r in *. apply in_app_iff. now left.
      * rewrite deep_heads_S in *. cbn [subs_e]. rewrite deep_heads_app. apply in_app_iff. now left.
    + destruct (IHb ch H) as [Hi|(k & Hk)]; [left; apply in_app_iff; now right|].
      right. exists k. destruct k.
      * cbn [deep_heads flat_map e_heads0] in *. rewrite app_nil_r in *. apply in_app_iff. now right.
      * rewrite deep_heads_S in *. cbn [subs_e]. rewrite deep_heads_app. apply in_app_iff. now right.
  - intros x ch H. contradiction.
  - intros x a IH ch H. cbn [arg_refs_d inner_args subs_d] in *. destruct (IH ch H) as [Hi|(k & Hk)]; [now left|].
    right. exists k, a. split; [now left|exact Hk].
  - intros x r IH ch H. cbn [arg_refs_d inner_args subs_d] in *. exact (IH ch H).
  - intros x a IHa r IHr ch H. cbn [arg_refs_d inner_args subs_d] in *. apply in_app_iff in H. destruct H as [H|H].
    + destruct (IHa ch H) as [Hi|(k & Hk)]; [left; apply in_app_iff; now left|].
      right. exists k, a. split; [now left|exact Hk].
    + destruct (IHr ch H) as [Hi|(k & a' & Ha' & Hk)]; [left; apply in_app_iff; now right|].
      right. exists k, a'. split; [now right|exact Hk].
Qed.

(* ------------------------------------------------------------------ the filter-and-append loop *)
Lemma str_in_In x l : str_in x l = true <-> In x l.
Proof.
  induction l as [|y l IH]; cbn [str_in In]; [split; [discriminate|contradiction]|].
  rewrite orb_true_iff, IH, str_eqb_eq. split; intros [H|H]; auto.
Qed.

Lemma chain_eqb_eq (a b : chain) : list_eqb str_eqb a b = true <-> a = b.
Proof. apply list_eqb_eq. exact str_eqb_eq. Qed.

Lemma chain_in_In ch c : existsb (list_eqb str_eqb ch) c = true <-> In ch c.
Proof.
  rewrite existsb_exists. split.
  - intros (x & Hin & E). apply chain_eqb_eq in E. now subst.
  - intros H. exists ch. split; [exact H|now apply chain_eqb_eq].
Qed.

Definition keep (ch : chain) : bool := negb (str_in (last_of ch) INTRINSICS).

Lemma append_calls_app c a b : append_calls c (a ++ b) = append_calls (append_calls c a) b.
Proof.
  revert c. induction a as [|x a IH]; intros c; [reflexivity|]. cbn [app append_calls].
  destruct (str_in (last_of x) INTRINSICS || existsb (list_eqb str_eqb x) c); apply IH.
Qed.

Lemma append_calls_old c new ch : In ch c -> In ch (append_calls c new).
Proof.
  revert c. induction new as [|x new IH]; intros c H; [exact H|]. cbn [append_calls].
  destruct (str_in (last_of x) INTRINSICS || existsb (list_eqb str_eqb x) c); apply IH; [exact H|].
  apply in_or_app. now left.
Qed.

Lemma append_calls_in c new ch : In ch (append_calls c new) -> In ch c \/ (In ch new /\ keep ch = true).
Proof.
  revert c. induction new as [|x new IH]; intros c H; [now left|]. cbn [append_calls] in H.
  destruct (str_in (last_of x) INTRINSICS) eqn:Ei; cbn [orb] in H.
  - destruct (IH c H) as [H1|[H1 H2]]; [now left|right; split; [now right|exact H2]].
  - destruct (existsb (list_eqb str_eqb x) c).
    + destruct (IH c H) as [H1|[H1 H2]]; [now left|right; split; [now right|exact H2]].
    + destruct (IH _ H) as [H1|[H1 H2]].
      * apply in_app_iff in H1 as [H1|[<-|[]]]; [now left|]. right. split; [now left|]. unfold keep. now rewrite Ei.
      * right. split; [now right|exact H2].
Qed.

(* every chain that does not end in an INTRINSICS entry is kept (once) *)
Lemma append_calls_cover c new ch : In ch new -> keep ch = true -> In ch (append_calls c new).
Proof.
  revert c. induction new as [|x new IH]; intros c H Hk; [contradiction|]. cbn [append_calls].
  destruct H as [->|H].
  - unfold keep in Hk. apply negb_true_iff in Hk. rewrite Hk. cbn [orb].
    destruct (existsb (list_eqb str_eqb ch) c) eqn:Ec.
    + apply append_calls_old. now apply chain_in_In.
    + apply append_calls_old, in_or_app. right. now left.
  - destruct (str_in (last_of x) INTRINSICS || existsb (list_eqb str_eqb x) c); now apply IH.
Qed.

(* no chain twice in unit.calls, none ending in an entry of INTRINSICS *)
Definition calls_inv (c : list chain) : Prop :=
  NoDup c /\ forall ch, In ch c -> keep ch = true.

Lemma nodup_snoc {A} (l : list A) x : NoDup l -> ~ In x l -> NoDup (l ++ [x]).
Proof.
  induction l as [|a l IH]; intros Hn Hx; cbn [app]; [constructor; [intros []|constructor]|].
  inversion Hn as [|? ? Ha Hl]; subst. constructor.
  - intros Hin. apply in_app_iff in Hin as [Hin|[<-|[]]]; [contradiction|]. apply Hx. now left.
  - apply IH; [exact Hl|]. intros Hin. apply Hx. now right.
Qed.

Lemma append_calls_inv c new : calls_inv c -> calls_inv (append_calls c new).
Proof.
  revert c. induction new as [|x new IH]; intros c Hc; [exact Hc|]. cbn [append_calls].
  destruct (str_in (last_of x) INTRINSICS) eqn:Ei; cbn [orb]; [now apply IH|].
  destruct (existsb (list_eqb str_eqb x) c) eqn:Ec; [now apply IH|].
  apply IH. destruct Hc as [Hn Hk]. split.
  - apply nodup_snoc; [exact Hn|]. intros Hin. apply chain_in_In in Hin. congruence.
  - intros ch Hin. apply in_app_iff in Hin as [Hin|[<-|[]]]; [now apply Hk|]. unfold keep. now rewrite Ei.
Qed.

(* ------------------------------------------------------------------ the cascade *)
Fixpoint run_lines (st : assocs * list chain) (lines : list str) : option (assocs * list chain) :=
  match lines with
  | [] => Some st
  | x :: rest => match line_step st x with Some st' => run_lines st' rest | None => None end
  end.

Lemma run_stmts_lines st srcs : run_stmts st srcs = run_lines st (map mask_quotes srcs).
Proof.
  revert st. induction srcs as [|x srcs IH]; intros st; [reflexivity|]. cbn [run_stmts map run_lines].
  unfold stmt_step. destruct (line_step st (mask_quotes x)); [apply IH|reflexivity].
Qed.

Lemma subst_head_nil ch : subst_head [] ch = Some ch.
Proof. destruct ch; reflexivity. Qed.

Lemma raw_calls_nil line : raw_calls [] line = map norm_chain (chain_texts line).
Proof.
  unfold raw_calls. induction (chain_texts line) as [|x l IH]; [reflexivity|].
  cbn [flat_map map]. now rewrite subst_head_nil, IH.
Qed.

Lemma line_step_stmt st calls : wf_stmt st = true -> plain_ok st = true -> step_ok st = true ->
  line_step ([], calls) (render_stmt st) = Some ([], append_calls calls (unit_chains st)).
Proof.
  intros Hwf Hplain Hstep. unfold unit_chains.
  assert (Hseg : seg_stmt st = true -> cascade_ok (render_stmt st) && (call_gate (render_stmt st) || is_nil (stmt_chains st)) = true ->
                 line_step ([], calls) (render_stmt st) = Some ([], append_calls calls (stmt_chains st))).
  { intros Hs H. apply andb_true_iff in H as [Hc Hg]. unfold cascade_ok in Hc.
    apply andb_true_iff in Hc as [Hc H4]. apply andb_true_iff in Hc as [Hc H3]. apply andb_true_iff in Hc as [H1 H2].
    apply negb_true_iff in H1, H2. unfold line_step. rewrite H1, H2.
    destruct (associate_re (render_stmt st)); [discriminate|].
    destruct (goto_rewrite false [] (render_stmt st)); [discriminate|].
    pose proof (raw_stmt st Hs Hwf Hplain) as Hraw.
    destruct (call_gate (render_stmt st)).
    - unfold add_calls. now rewrite raw_calls_nil, Hraw.
    - cbn [orb] in Hg. destruct (stmt_chains st); [reflexivity|discriminate]. }
  destruct st as [lab sp f|lab d|lab sp c d|sp pairs| |lab sp body|labels e]; cbn [seg_stmt step_ok] in *;
    try discriminate; try (apply Hseg; [reflexivity|exact Hstep]).
  - (* FORMAT *) cbn [append_calls]. unfold line_step. now rewrite Hstep.
  - (* computed GO TO *)
    apply andb_true_iff in Hstep as [Hc Hg]. apply andb_true_iff in Hc as [Hc H3]. apply andb_true_iff in Hc as [H1 H2].
    apply negb_true_iff in H1, H2. unfold line_step. rewrite H1, H2.
    destruct (associate_re (render_stmt (SGoto labels e))); [discriminate|].
    destruct (goto_rewrite false [] (render_stmt (SGoto labels e))) as [line'|]; [|discriminate].
    apply andb_true_iff in Hg as [He Hg]. apply str_eqb_eq in He. subst line'.
    cbn [wf_stmt] in Hwf. apply andb_true_iff in Hwf as [_ Hsegs].
    pose proof (raw_goto e Hsegs) as Hraw.
    destruct (call_gate (render_segs (goto_segs e))).
    + unfold add_calls. rewrite raw_calls_nil, Hraw. reflexivity.
    + cbn [orb] in Hg. unfold stmt_chains in Hg |- *.
      destruct (flat_map seg_heads0 (goto_segs e) ++ _); [reflexivity|discriminate].
Qed.

Lemma run_unit ss : forall calls,
  forallb wf_stmt ss = true -> forallb plain_ok ss = true -> forallb step_ok ss = true ->
  run_lines ([], calls) (map render_stmt ss) = Some ([], append_calls calls (flat_map unit_chains ss)).
Proof.
  induction ss as [|st ss IH]; intros calls Hwf Hp Hs; [reflexivity|].
  cbn [forallb] in *. apply andb_true_iff in Hwf as [Hw Hwf]. apply andb_true_iff in Hp as [Hp1 Hp].
  apply andb_true_iff in Hs as [Hs1 Hs]. cbn [map run_lines flat_map].
  rewrite (line_step_stmt st calls Hw Hp1 Hs1). rewrite (IH _ Hwf Hp Hs). now rewrite append_calls_app.
Qed.

(* ------------------------------------------------------------------ resolution *)
Lemma labels_get_absent k l found : str_in k (map fst l) = false -> labels_get k l found = found.
Proof.
  revert found. induction l as [|[k' v] l IH]; intros found H; [reflexivity|]. cbn [map fst str_in] in H.
  apply orb_false_iff in H as [H1 H2]. cbn [labels_get]. rewrite H1. now apply IH.
Qed.

Lemma labels_get_unique k l : keys_unique l = true -> labels_get k l None = assoc_get k l.
Proof.
  induction l as [|[k' v] l IH]; intros H; [reflexivity|]. cbn [keys_unique] in H. apply andb_true_iff in H as [H1 H2].
  cbn [labels_get assoc_get]. destruct (str_eqb k k') eqn:E.
  - apply str_eqb_eq in E. subst k'. apply negb_true_iff in H1. now apply labels_get_absent.
  - now apply IH.
Qed.

Lemma assoc_get_in {V} k (l : list (str * V)) v : assoc_get k l = Some v -> In (k, v) l.
Proof.
  induction l as [|[k' v'] l IH]; [discriminate|]. cbn [assoc_get]. destruct (str_eqb k k') eqn:E.
  - apply str_eqb_eq in E. subst k'. intros H. injection H as <-. now left.
  - intros H. right. now apply IH.
Qed.

Definition found_den (r : option entity) : den :=
  match r with Some e => ent_den e | None => DUnknown end.

Lemma find_denote tb : tb_ok tb = true -> forall ch ctx, labels_ok ctx = true ->
  found_den (find_chain tb ctx ch) = denote tb ctx ch.
Proof.
  intros Htb. unfold tb_ok in Htb. apply andb_true_iff in Htb as [_ Hty].
  assert (Hctx : forall t c, type_ctx tb t = Some c -> labels_ok c = true).
  { intros t c H. unfold type_ctx in H. apply assoc_get_in in H. rewrite forallb_forall in Hty. exact (Hty _ H). }
  induction ch as [|x rest IH]; intros ctx Hok; [reflexivity|].
  unfold labels_ok in Hok. apply andb_true_iff in Hok as [Hu Hf].
  cbn [find_chain denote]. rewrite (labels_get_unique x ctx Hu).
  destruct rest as [|y rest].
  - destruct (assoc_get x ctx); reflexivity.
  - destruct (assoc_get x ctx) as [e|] eqn:Ex; [|reflexivity].
    pose proof (assoc_get_in x ctx e Ex) as Hin. rewrite forallb_forall in Hf. specialize (Hf _ Hin). cbn [snd] in Hf.
    unfold type_ctx in *.
    destruct e as [id t|id|t pt|t]; cbn [ent_flags_ok] in Hf; subst; try reflexivity;
      (destruct (assoc_get t (st_types tb)) as [c|] eqn:Et; [|reflexivity]; apply IH; now apply (Hctx t)).
Qed.

(* what a recorded chain contributes after correlate, as the Spec reads the tables *)
Definition den_names (tb : symtab) (ch : chain) : list str :=
  match denote tb (st_scope tb) ch with
  | DProc id => [id]
  | DUnknown => [unresolved_name tb ch]
  | DVar => []
  | DType => []
  end.

Lemma resolve_one_den tb ch : tb_ok tb = true ->
  resolve_one tb ch = match den_names tb ch with [] => None | n :: _ => Some n end.
Proof.
  intros Htb. pose proof Htb as Htb'. unfold tb_ok in Htb'. apply andb_true_iff in Htb' as [Hs _].
  pose proof (find_denote tb Htb ch (st_scope tb) Hs) as H. unfold resolve_one, den_names. rewrite <- H.
  destruct (find_chain tb (st_scope tb) ch) as [e|]; [destruct e; reflexivity|reflexivity].
Qed.

Lemma resolve_loop_in tb calls : forall acc p,
  In p (resolve_loop tb calls acc) <-> In p acc \/ exists ch, In ch calls /\ resolve_one tb ch = Some p.
Proof.
  induction calls as [|c calls IH]; intros acc p; cbn [resolve_loop].
  - split; [now left|intros [H|(ch & [] & _)]; exact H].
  - destruct (resolve_one tb c) as [n|] eqn:E.
    + destruct (str_in n acc) eqn:Ea.
      * rewrite IH. split.
        -- intros [H|(ch & Hin & Hr)]; [now left|right; exists ch; split; [now right|exact Hr]].
        -- intros [H|(ch & [<-|Hin] & Hr)]; [now left| |right; eauto].
           left. rewrite E in Hr. injection Hr as <-. now apply str_in_In.
      * rewrite IH, in_app_iff. split.
        -- intros [[H|[<-|[]]]|(ch & Hin & Hr)]; [now left|right; exists c; split; [now left|exact E]|right; exists ch; split; [now right|exact Hr]].
        -- intros [H|(ch & [<-|Hin] & Hr)]; [left; now left| |right; eauto].
           left. right. rewrite E in Hr. injection Hr as <-. now left.
    + rewrite IH. split.
      * intros [H|(ch & Hin & Hr)]; [now left|right; exists ch; split; [now right|exact Hr]].
      * intros [H|(ch & [<-|Hin] & Hr)]; [now left|congruence|right; eauto].
Qed.

Lemma resolve_loop_nodup tb calls : forall acc, NoDup acc -> NoDup (resolve_loop tb calls acc).
Proof.
  induction calls as [|c calls IH]; intros acc H; cbn [resolve_loop]; [exact H|].
  destruct (resolve_one tb c) as [n|]; [|now apply IH].
  destruct (str_in n acc) eqn:Ea; [now apply IH|]. apply IH. apply nodup_snoc; [exact H|].
  intros Hin. apply str_in_In in Hin. congruence.
Qed.

Lemma lower_keywords : forall k, In k grammar_keywords -> lower k = k.
Proof.
  assert (H : forallb (fun k => str_eqb (lower k) k) grammar_keywords = true) by (vm_compute; reflexivity).
  intros k Hk. rewrite forallb_forall in H. apply str_eqb_eq. exact (H k Hk).
Qed.

Lemma keyword_not_kept kw : In kw grammar_keywords -> keep [lower kw] = false.
Proof.
  intros H. unfold keep, last_of. cbn [last]. rewrite (lower_keywords kw H), (keywords_in_intrinsics kw H). reflexivity.
Qed.

Lemma deep_heads_sub d es es' ch : (forall e, In e es -> In e es') -> In ch (deep_heads d es) -> In ch (deep_heads d es').
Proof.
  intros Hsub H. destruct (deep_heads_ex d es ch H) as (e & Hin & Hch). exact (deep_heads_in d es' e ch (Hsub e Hin) Hch).
Qed.

Lemma seg_sub_refs g e' ch : In e' (subs_seg g) -> In ch (refs_e e') -> In ch (seg_refs g).
Proof.
  destruct g as [w|kw sp c|e]; cbn [subs_seg seg_refs]; intros Hs Hr.
  - contradiction.
  - destruct Hs as [<-|[]]. exact Hr.
  - exact (proj1 subs_refs e e' ch Hs Hr).
Qed.

(* (1) for segments *)
Lemma segs_bridge1 gs n ch :
  (forall kw, In kw (flat_map seg_kw gs) -> In kw grammar_keywords) ->
  In ch (flat_map seg_heads0 gs ++ level_heads (flat_map subs_seg gs) n) ->
  keep ch = false \/ In ch (flat_map seg_refs gs).
Proof.
  intros Hkw H. apply in_app_iff in H as [H|H].
  - apply in_flat_map in H as (g & Hg & Hch). destruct g as [w|kw sp c|e]; cbn [seg_heads0] in Hch.
    + contradiction.
    + destruct Hch as [<-|[]]. left. apply keyword_not_kept, Hkw. apply in_flat_map. exists (GKw kw sp c). split; [exact Hg|now left].
    + right. apply in_flat_map. exists (GExpr e). split; [exact Hg|]. cbn [seg_refs]. now apply (proj1 heads0_refs).
  - right. apply in_level_heads in H as (d & _ & Hd). destruct (deep_heads_refs d _ ch Hd) as (e' & Hin & Hr).
    apply in_flat_map in Hin as (g & Hg & He'). apply in_flat_map. exists g. split; [exact Hg|]. exact (seg_sub_refs g e' ch He' Hr).
Qed.

Lemma deep_heads_bound gs k ch : forallb wf_seg gs = true -> In ch (deep_heads k (flat_map subs_seg gs)) ->
  k < length (render_segs gs).
Proof.
  intros Hall H. pose proof (scan_deep k (flat_map subs_seg gs) (wf_segs_subs gs Hall)) as Hs.
  assert (Hne : deep k (tree_segs gs) <> []).
  { rewrite deep_deepG, tree_segs_groups. intros E. rewrite E in Hs. cbn in Hs. rewrite <- Hs in H. contradiction. }
  pose proof (deep_len k _ Hne) as Hl. rewrite tree_segs_flat in Hl. lia.
Qed.

(* (2) for segments *)
Lemma segs_bridge2 gs ch : forallb wf_seg gs = true -> In ch (flat_map seg_refs gs) ->
  In ch (flat_map seg_inner gs) \/
  In ch (flat_map seg_heads0 gs ++ level_heads (flat_map subs_seg gs) (length (render_segs gs))).
Proof.
  intros Hall H. apply in_flat_map in H as (g & Hg & Hch).
  assert (Hlevel : forall k e', In e' (subs_seg g) -> In ch (deep_heads k [e']) ->
                   In ch (level_heads (flat_map subs_seg gs) (length (render_segs gs)))).
  { intros k e' He' Hk. assert (Hin : In ch (deep_heads k (flat_map subs_seg gs))).
    { apply (deep_heads_in k _ e' ch); [|exact Hk]. apply in_flat_map. eauto. }
    apply in_level_heads. exists k. split; [exact (deep_heads_bound gs k ch Hall Hin)|exact Hin]. }
  destruct g as [w|kw sp c|e]; cbn [seg_refs] in Hch.
  - contradiction.
  - destruct (proj1 refs_heads c ch Hch) as [Hi|(k & Hk)].
    + left. apply in_flat_map. exists (GKw kw sp c). split; [exact Hg|exact Hi].
    + right. apply in_app_iff. right. apply (Hlevel k c); [now left|exact Hk].
  - destruct (proj1 refs_heads e ch Hch) as [Hi|(k & Hk)].
    + left. apply in_flat_map. exists (GExpr e). split; [exact Hg|exact Hi].
    + right. apply in_app_iff. destruct k as [|k].
      * left. cbn [deep_heads flat_map] in Hk. rewrite app_nil_r in Hk. apply in_flat_map. exists (GExpr e). split; [exact Hg|exact Hk].
      * right. rewrite deep_heads_S in Hk. destruct (deep_heads_ex k _ ch Hk) as (e' & He' & Hk').
        apply (Hlevel k e'); [exact He'|exact Hk'].
Qed.

Lemma self_refs_inner d : forall pre,
  self_refs_d pre d = inner_refs_d pre d ++ (if last_has_args d then [pre ++ names_d d] else []).
Proof.
  induction d as [x|x a|x r IH|x a r IH]; intros pre; cbn [self_refs_d inner_refs_d names_d].
  - reflexivity.
  - reflexivity.
  - change (last_has_args (DPart0 x r)) with (last_has_args r). rewrite IH.
    destruct (last_has_args r); [|reflexivity]. now rewrite <- app_assoc.
  - change (last_has_args (DPartA x a r)) with (last_has_args r). rewrite IH. cbn [app].
    destruct (last_has_args r); [|reflexivity]. now rewrite <- app_assoc.
Qed.


Lemma lab_segs_refs lab gs : flat_map seg_refs (lab_segs lab ++ gs) = flat_map seg_refs gs.
Proof. destruct lab; reflexivity. Qed.
Lemma lab_segs_kw lab gs : flat_map seg_kw (lab_segs lab ++ gs) = flat_map seg_kw gs.
Proof. destruct lab; reflexivity. Qed.
Lemma lab_segs_inner lab gs : flat_map seg_inner (lab_segs lab ++ gs) = flat_map seg_inner gs.
Proof. destruct lab; reflexivity. Qed.

Lemma stmt_keywords st kw : In kw (flat_map seg_kw (stmt_segs st)) -> In kw grammar_keywords.
Proof.
  destruct st as [lab sp f|lab d|lab sp c d|sp pairs| | |]; cbn [stmt_segs]; rewrite ?lab_segs_kw; intros H.
  - exact (form_keywords sp f kw H).
  - contradiction.
  - destruct H as [<-|[]]. cbn. tauto.
  - destruct H as [<-|[]]. cbn. tauto.
  - contradiction.
  - contradiction.
  - contradiction.
Qed.

Lemma inner_self_refs d ch : In ch (inner_self d) -> In ch (inner_refs_d [] d).
Proof.
  unfold inner_self. rewrite self_refs_inner. destruct (last_has_args d).
  - rewrite removelast_last. auto.
  - rewrite app_nil_r. apply in_removelast.
Qed.

Definition seg_stmt_noassoc (st : stmt) : bool :=
  match st with SForm _ _ _ | SCall _ _ | SIfCall _ _ _ _ => true | _ => false end.

(* (1) per statement *)
Lemma stmt_bridge1 st ch : seg_stmt_noassoc st = true -> wf_stmt st = true ->
  In ch (stmt_chains st) -> keep ch = false \/ In ch (stmt_refs st).
Proof.
  intros Hs Hwf H.
  assert (Hgen : forall n, In ch (flat_map seg_heads0 (stmt_segs st) ++ level_heads (flat_map subs_seg (stmt_segs st)) n) ->
                 keep ch = false \/ In ch (flat_map seg_refs (stmt_segs st))).
  { intros n. apply segs_bridge1. intros kw. apply stmt_keywords. }
  assert (Hd : forall d, In ch (refs_d [] d) -> In ch (names_d d :: inner_refs_d [] d ++ arg_refs_d d)).
  { intros d Hr. apply (proj2 refs_d_split) in Hr as [Hr|Hr].
    - rewrite self_refs_inner in Hr. apply in_app_iff in Hr as [Hr|Hr].
      + right. apply in_app_iff. now left.
      + destruct (last_has_args d); [|contradiction]. destruct Hr as [<-|[]]. now left.
    - right. apply in_app_iff. now right. }
  destruct st as [lab sp f|lab d|lab sp c d|sp pairs| | |]; try discriminate; cbn [stmt_refs].
  - unfold stmt_chains in H. destruct (Hgen _ H) as [Hk|Hr]; [now left|right].
    cbn [stmt_segs] in Hr. now rewrite lab_segs_refs in Hr.
  - unfold stmt_chains in H. destruct H as [<-|H]; [right; now left|].
    assert (H' : In ch (flat_map seg_heads0 (stmt_segs (SCall lab d)) ++
                        level_heads (flat_map subs_seg (stmt_segs (SCall lab d))) (S (length (render_stmt (SCall lab d))))))
      by (apply in_app_iff; now right).
    destruct (Hgen _ H') as [Hk|Hr]; [now left|right].
    cbn [stmt_segs] in Hr. rewrite lab_segs_refs in Hr.
    cbn [flat_map seg_refs refs_e app] in Hr. rewrite app_nil_r in Hr. now apply Hd.
  - unfold stmt_chains in H. destruct H as [<-|H]; [right; apply in_app_iff; right; now left|].
    assert (H' : In ch (flat_map seg_heads0 (stmt_segs (SIfCall lab sp c d)) ++
                        level_heads (flat_map subs_seg (stmt_segs (SIfCall lab sp c d))) (S (length (render_stmt (SIfCall lab sp c d))))))
      by (apply in_app_iff; now right).
    destruct (Hgen _ H') as [Hk|Hr]; [now left|right].
    cbn [stmt_segs] in Hr. rewrite lab_segs_refs in Hr.
    cbn [flat_map seg_refs refs_e app] in Hr. rewrite app_nil_r in Hr.
    apply in_app_iff in Hr as [Hr|Hr]; apply in_app_iff; [now left|right; now apply Hd].
Qed.

Lemma wf_stmt_all st : seg_stmt st = true -> wf_stmt st = true -> forallb wf_seg (stmt_segs st) = true.
Proof. intros Hs Hwf. apply wf_segs_all. exact (proj1 (wf_stmt_segs st Hs Hwf)). Qed.

(* (2) per statement *)
Lemma stmt_bridge2 st ch : seg_stmt_noassoc st = true -> wf_stmt st = true ->
  In ch (stmt_refs st) -> In ch (stmt_inner st) \/ In ch (stmt_chains st).
Proof.
  intros Hs Hwf H.
  assert (Hseg : seg_stmt st = true) by (destruct st; try discriminate; reflexivity).
  pose proof (wf_stmt_all st Hseg Hwf) as Hall.
  assert (Hrender : render_stmt st = render_segs (stmt_segs st)) by (destruct st; try discriminate; reflexivity).
  assert (Hlevel : forall k e' n, length (render_stmt st) <= n -> In e' (flat_map subs_seg (stmt_segs st)) ->
                   In ch (deep_heads k [e']) -> In ch (level_heads (flat_map subs_seg (stmt_segs st)) n)).
  { intros k e' n Hn He' Hk. pose proof (deep_heads_in k _ e' ch He' Hk) as Hin.
    apply in_level_heads. exists k. split; [|exact Hin].
    pose proof (deep_heads_bound (stmt_segs st) k ch Hall Hin) as Hb. rewrite <- Hrender in Hb. lia. }
  assert (Hargs : forall d n, length (render_stmt st) <= n ->
                  (forall a, In a (subs_d d) -> In a (flat_map subs_seg (stmt_segs st))) ->
                  In ch (arg_refs_d d) ->
                  In ch (inner_args d) \/ In ch (level_heads (flat_map subs_seg (stmt_segs st)) n)).
  { intros d n Hn Hsub Ha. destruct (proj2 refs_heads d ch Ha) as [Hi|(k & a & Hin & Hk)]; [now left|right].
    exact (Hlevel k a n Hn (Hsub a Hin) Hk). }
  destruct st as [lab sp f|lab d|lab sp c d|sp pairs| | |]; try discriminate; cbn [stmt_refs stmt_inner] in *.
  - rewrite <- (lab_segs_refs lab) in H. change (lab_segs lab ++ segs_of sp f) with (stmt_segs (SForm lab sp f)) in H.
    destruct (segs_bridge2 _ ch Hall H) as [Hi|Hc]; [now left|right]. unfold stmt_chains. now rewrite Hrender.
  - assert (Hsub : forall a, In a (subs_d d) -> In a (flat_map subs_seg (stmt_segs (SCall lab d)))).
    { intros a Ha. cbn [stmt_segs]. rewrite flat_map_app. apply in_app_iff. right. cbn [flat_map subs_seg subs_e]. now rewrite app_nil_r. }
    destruct H as [<-|H]; [right; unfold stmt_chains; now left|].
    apply in_app_iff in H as [H|H]; [left; apply in_app_iff; now left|].
    unfold stmt_chains.
    destruct (Hargs d (S (length (render_stmt (SCall lab d)))) (le_S _ _ (le_n _)) Hsub H) as [Hi|Hl];
      [left; apply in_app_iff; now right|right; now right].
  - assert (Hsub : forall a, In a (subs_d d) -> In a (flat_map subs_seg (stmt_segs (SIfCall lab sp c d)))).
    { intros a Ha. cbn [stmt_segs]. rewrite flat_map_app. apply in_app_iff. right. cbn [flat_map subs_seg subs_e]. rewrite app_nil_r. now right. }
    assert (Hc : In c (flat_map subs_seg (stmt_segs (SIfCall lab sp c d)))).
    { cbn [stmt_segs]. rewrite flat_map_app. apply in_app_iff. right. cbn [flat_map subs_seg]. now left. }
    apply in_app_iff in H as [H|H].
    + destruct (proj1 refs_heads c ch H) as [Hi|(k & Hk)]; [left; apply in_app_iff; now left|right].
      unfold stmt_chains. right. exact (Hlevel k c _ (le_S _ _ (le_n _)) Hc Hk).
    + destruct H as [<-|H]; [right; unfold stmt_chains; now left|].
      apply in_app_iff in H as [H|H]; [left; apply in_app_iff; right; apply in_app_iff; now left|].
      unfold stmt_chains.
      destruct (Hargs d (S (length (render_stmt (SIfCall lab sp c d)))) (le_S _ _ (le_n _)) Hsub H) as [Hi|Hl];
        [left; apply in_app_iff; right; apply in_app_iff; now right|right; now right].
Qed.

(* ------------------------------------------------------------------ C08_exact *)
Lemma expand_nil ch : expand [] ch = Some ch.
Proof. destruct ch; reflexivity. Qed.

Lemma step_ok_free st : step_ok st = true -> assoc_free_stmt st = true.
Proof. destruct st; cbn; intros H; try reflexivity; discriminate. Qed.

Lemma unit_refs_free ss : forallb assoc_free_stmt ss = true -> unit_refs [] ss = map Some (flat_map stmt_refs ss).
Proof.
  induction ss as [|st ss IH]; intros H; [reflexivity|]. cbn [forallb] in H. apply andb_true_iff in H as [H1 H2].
  cbn [unit_refs flat_map]. rewrite map_app.
  assert (E : map (expand []) (stmt_refs st) = map Some (stmt_refs st)) by (apply map_ext; intros ch; apply expand_nil).
  rewrite E. destruct st; try discriminate; now rewrite (IH H2).
Qed.

Lemma some_refs_free ss : forallb assoc_free_stmt ss = true -> some_refs ss = flat_map stmt_refs ss.
Proof.
  intros H. unfold some_refs. rewrite (unit_refs_free ss H), flat_map_map.
  induction (flat_map stmt_refs ss) as [|c l IH]; [reflexivity|]. cbn [flat_map app]. now rewrite IH.
Qed.

Lemma calls_of_free tb ss : forallb assoc_free_stmt ss = true ->
  calls_of tb ss = flat_map (classify0 tb) (flat_map stmt_refs ss).
Proof.
  unfold calls_of. induction ss as [|st ss IH]; intros H; [reflexivity|]. cbn [forallb] in H. apply andb_true_iff in H as [H1 H2].
  cbn [calls_of_stmts flat_map]. rewrite flat_map_app.
  assert (E : flat_map (classify tb []) (stmt_refs st) = flat_map (classify0 tb) (stmt_refs st)).
  { induction (stmt_refs st) as [|c l IHl]; [reflexivity|]. cbn [flat_map]. rewrite IHl. f_equal.
    unfold classify, classify0. now rewrite expand_nil. }
  rewrite E. destruct st; try discriminate; now rewrite (IH H2).
Qed.

Lemma goto_segs_all e : wf_segs (goto_segs e) = true -> forallb wf_seg (goto_segs e) = true.
Proof. apply wf_segs_all. Qed.

Lemma unit_chains_refs st ch : wf_stmt st = true -> step_ok st = true -> In ch (unit_chains st) ->
  keep ch = false \/ In ch (stmt_refs st).
Proof.
  intros Hwf Hs H. unfold unit_chains in H.
  destruct st as [lab sp f|lab d|lab sp c d|sp pairs| | |labels e]; cbn [seg_stmt] in H; try contradiction; try discriminate;
    try now apply stmt_bridge1.
  unfold stmt_chains in H. cbn [stmt_refs].
  destruct (segs_bridge1 (goto_segs e) _ ch (fun kw (Hk : In kw (flat_map seg_kw (goto_segs e))) => match Hk with end) H) as [Hk|Hr];
    [now left|right]. cbn [goto_segs flat_map seg_refs app] in Hr. now rewrite app_nil_r in Hr.
Qed.

Lemma stmt_refs_chains st ch : wf_stmt st = true -> step_ok st = true ->
  In ch (stmt_refs st) -> In ch (stmt_inner st) \/ In ch (unit_chains st).
Proof.
  intros Hwf Hs H. unfold unit_chains.
  destruct st as [lab sp f|lab d|lab sp c d|sp pairs| | |labels e]; cbn [seg_stmt stmt_refs] in *; try contradiction; try discriminate;
    try now apply stmt_bridge2.
  cbn [wf_stmt] in Hwf. apply andb_true_iff in Hwf as [_ Hsegs].
  assert (H' : In ch (flat_map seg_refs (goto_segs e))) by (cbn [goto_segs flat_map seg_refs app]; now rewrite app_nil_r).
  destruct (segs_bridge2 (goto_segs e) ch (goto_segs_all e Hsegs) H') as [Hi|Hc].
  - left. cbn [stmt_inner]. cbn [goto_segs flat_map seg_inner app] in Hi. now rewrite app_nil_r in Hi.
  - right. exact Hc.
Qed.

Lemma classify0_keep tb ch : keep ch = true -> classify0 tb ch = den_names tb ch.
Proof.
  unfold keep, classify0, den_names. intros H. apply negb_true_iff in H. rewrite H. reflexivity.
Qed.

Theorem exact tb ss srcs :
  map mask_quotes srcs = map render_stmt ss -> resolvable tb ss = true ->
  exists l, recorded tb srcs = Some l /\ NoDup l /\ forall p, In p l <-> In p (calls_of tb ss).
Proof.
  intros Hsrc Hres. unfold resolvable in Hres.
  repeat match goal with H : _ && _ = true |- _ => apply andb_true_iff in H as [H ?] end.
  rename H into Hinner, H0 into Hintr, H1 into Htb, H2 into Hstep, H3 into Hplain.
  rename Hres into Hwf.
  apply negb_true_iff in Hintr.
  assert (Hfree : forallb assoc_free_stmt ss = true).
  { rewrite forallb_forall in Hstep |- *. intros st Hin. apply step_ok_free. now apply Hstep. }
  unfold recorded, unit_raw_calls. rewrite run_stmts_lines, Hsrc, (run_unit ss [] Hwf Hplain Hstep).
  eexists. split; [reflexivity|]. split; [apply resolve_loop_nodup; constructor|].
  rewrite (calls_of_free tb ss Hfree).
  set (chains := flat_map unit_chains ss). set (refs := flat_map stmt_refs ss).
  assert (B1 : forall ch, In ch chains -> keep ch = true -> In ch refs).
  { intros ch Hin Hk. apply in_flat_map in Hin as (st & Hst & Hch).
    rewrite forallb_forall in Hwf, Hstep.
    destruct (unit_chains_refs st ch (Hwf st Hst) (Hstep st Hst) Hch) as [Hk'|Hr]; [congruence|].
    apply in_flat_map. eauto. }
  assert (B2 : forall ch, In ch refs -> classify0 tb ch <> [] -> In ch chains).
  { intros ch Hin Hne. apply in_flat_map in Hin as (st & Hst & Hch).
    rewrite forallb_forall in Hwf, Hstep.
    destruct (stmt_refs_chains st ch (Hwf st Hst) (Hstep st Hst) Hch) as [Hi|Hc].
    - exfalso. apply Hne. rewrite forallb_forall in Hinner.
      assert (Hin' : In ch (flat_map stmt_inner ss)) by (apply in_flat_map; eauto).
      specialize (Hinner ch Hin'). destruct (classify0 tb ch); [reflexivity|discriminate].
    - apply in_flat_map. eauto. }
  assert (R2 : forall ch, In ch refs -> classify0 tb ch <> [] -> keep ch = true).
  { intros ch Hin Hne. unfold keep. destruct (str_in (last_of ch) INTRINSICS) eqn:Ei; [|reflexivity]. exfalso.
    unfold classify0 in Hne. rewrite Ei in Hne.
    destruct (denote tb (st_scope tb) ch) as [id| | |] eqn:Ed; try (now apply Hne).
    unfold region_intrinsic_named in Hintr. rewrite (some_refs_free ss Hfree) in Hintr. fold refs in Hintr.
    assert (Ht : existsb (fun ch => is_proc_den (denote tb (st_scope tb) ch) && str_in (last_of ch) INTRINSICS) refs = true).
    { apply existsb_exists. exists ch. split; [exact Hin|]. now rewrite Ed, Ei. }
    congruence. }
  intros p. unfold resolve_calls. rewrite resolve_loop_in, in_flat_map. split.
  - intros [[]|(ch & Hin & Hr)]. apply append_calls_in in Hin as [[]|[Hin Hk]].
    exists ch. split; [now apply B1|]. rewrite (classify0_keep tb ch Hk).
    rewrite (resolve_one_den tb ch Htb) in Hr. destruct (den_names tb ch) as [|n l] eqn:E; [discriminate|].
    injection Hr as <-. now left.
  - intros (ch & Hin & Hp). right.
    assert (Hne : classify0 tb ch <> []) by (intros E; rewrite E in Hp; contradiction).
    pose proof (R2 ch Hin Hne) as Hk. pose proof (B2 ch Hin Hne) as Hc.
    exists ch. split; [now apply append_calls_cover|].
    rewrite (resolve_one_den tb ch Htb). rewrite (classify0_keep tb ch Hk) in Hp.
    unfold den_names in *. destruct (denote tb (st_scope tb) ch); cbn in Hp |- *; try contradiction;
      destruct Hp as [<-|[]]; reflexivity.
Qed.
