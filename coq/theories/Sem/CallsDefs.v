(* Sem/CallsDefs.v — executable definitions shared by the C08 proofs and by the judge (Corr/C08.v):
   the text of one nesting level of a rendered expression / statement, the reference heads of a
   level, the chains the model collects from a statement ([stmt_chains]), and the decidable
   hypothesis of C08_exact ([resolvable]).  Definitions only. *)
From Ford Require Import Base.Str Gen.Intrinsics Sem.Calls Sem.CallsSpec.

(* the text of one level: argument lists and parenthesised operands emptied *)
Fixpoint sh_d (d : desig) : str :=
  match d with
  | DLast0 x => x
  | DLastA x _ => x ++ [lpar; rpar]
  | DPart0 x r => x ++ pct :: sh_d r
  | DPartA x _ r => x ++ lpar :: rpar :: pct :: sh_d r
  end.

Fixpoint sh_e (e : expr) : str :=
  match e with
  | ELit t => t
  | EDes d => sh_d d
  | EPar _ => [lpar; rpar]
  | EUn op e' => op ++ sh_e e'
  | EBin a op b => sh_e a ++ op ++ sh_e b
  end.

(* the parenthesised parts one level down, left to right *)
Fixpoint subs_d (d : desig) : list expr :=
  match d with
  | DLast0 _ => []
  | DLastA _ a => [a]
  | DPart0 _ r => subs_d r
  | DPartA _ a r => a :: subs_d r
  end.

Fixpoint subs_e (e : expr) : list expr :=
  match e with
  | ELit _ => []
  | EDes d => subs_d d
  | EPar e' => [e']
  | EUn _ e' => subs_e e'
  | EBin a _ b => subs_e a ++ subs_e b
  end.

Definition lstrip_s (x : str) : str := snd (span is_space x).

(* ------------------------------------------------------------------ designators *)
Definition par2 : str := [lpar; rpar].

(* the chain of names up to the last part with an argument list *)
Fixpoint d_head_chain (d : desig) : option chain :=
  match d with
  | DLast0 _ => None
  | DLastA x _ => Some [lower x]
  | DPart0 x r => match d_head_chain r with Some c => Some (lower x :: c) | None => None end
  | DPartA x _ r => Some (lower x :: match d_head_chain r with Some c => c | None => [] end)
  end.

(* reference heads of one level, as chains *)
Definition d_heads0 (d : desig) : list chain := match d_head_chain d with Some c => [c] | None => [] end.

Fixpoint e_heads0 (e : expr) : list chain :=
  match e with
  | ELit _ => []
  | EDes d => d_heads0 d
  | EPar _ => []
  | EUn _ e' => e_heads0 e'
  | EBin a _ b => e_heads0 a ++ e_heads0 b
  end.

(* ------------------------------------------------------------------ segments *)
Definition kw_sp (sp : bool) : str := if sp then [space] else [].

Definition sh_seg (g : seg) : str :=
  match g with
  | GWord w => w
  | GKw kw sp _ => kw ++ kw_sp sp ++ par2
  | GExpr e => sh_e e
  end.

Definition sh_segs (gs : list seg) : str := join [space] (map sh_seg gs).

Definition subs_seg (g : seg) : list expr :=
  match g with GWord _ => [] | GKw _ _ c => [c] | GExpr e => subs_e e end.

Definition seg_heads0 (g : seg) : list chain :=
  match g with GWord _ => [] | GKw kw _ _ => [[lower kw]] | GExpr e => e_heads0 e end.

(* reference heads in the slices (d+1) levels below the parenthesised expressions es *)
Fixpoint deep_heads (d : nat) (es : list expr) : list chain :=
  match d with
  | 0 => flat_map e_heads0 es
  | S d' => deep_heads d' (flat_map subs_e es)
  end.

(* ------------------------------------------------------------------ statements scanned by CALL_RE only *)
(* no CALL keyword where SUBCALL_RE looks for it: at the start, or behind a closing parenthesis
   of a statement that starts with IF *)
Fixpoint close_call_free (x : str) : bool :=
  match x with
  | [] => true
  | c :: x' => (if Ascii.eqb c rpar then negb (starts_ci (s "call") (lstrip_s x')) else true) && close_call_free x'
  end.

Definition plain_text (x : str) : bool :=
  negb (starts_ci (s "call") x) && (negb (starts_ci (s "if") x) || close_call_free x).

Definition level_heads (es : list expr) (n : nat) : list chain :=
  flat_map (fun d => deep_heads d es) (seq 0 n).

Definition seg_stmt (st : stmt) : bool :=
  match st with SForm _ _ _ | SCall _ _ | SIfCall _ _ _ _ | SAssoc _ _ => true | _ => false end.

Definition stmt_lab (st : stmt) : option str :=
  match st with SForm l _ _ | SCall l _ | SIfCall l _ _ _ => l | _ => None end.

(* the chains the model collects from a statement, in its order: the CALL target first (when
   SUBCALL_RE applies), then the heads of every nesting level *)
Definition stmt_chains (st : stmt) : list chain :=
  let n := length (render_stmt st) in
  match st with
  | SCall _ d => names_d d :: level_heads (flat_map subs_seg (stmt_segs st)) (S n)
  | SIfCall _ _ _ d => names_d d :: level_heads (flat_map subs_seg (stmt_segs st)) (S n)
  | SForm _ _ _ | SAssoc _ _ =>
    flat_map seg_heads0 (stmt_segs st) ++ level_heads (flat_map subs_seg (stmt_segs st)) n
  | SGoto _ e =>     (* scanned without its label list *)
    flat_map seg_heads0 (goto_segs e) ++ level_heads (flat_map subs_seg (goto_segs e)) (length (render_segs (goto_segs e)))
  | _ => []
  end.

(* where SUBCALL_RE must not see a CALL: forms (behind their label) and ASSOCIATE headers *)
Definition plain_ok (st : stmt) : bool :=
  match st with
  | SForm _ _ _ => plain_text (strip_label (sh_segs (stmt_segs st)))
  | SAssoc _ _ => plain_text (strip_label (sh_segs (stmt_segs st)))
  | _ => true
  end.

(* the references of a designator: one chain per part that has an argument list *)
Fixpoint self_refs_d (pre : chain) (d : desig) : list chain :=
  match d with
  | DLast0 _ => []
  | DLastA x _ => [pre ++ [lower x]]
  | DPart0 x r => self_refs_d (pre ++ [lower x]) r
  | DPartA x _ r => (pre ++ [lower x]) :: self_refs_d (pre ++ [lower x]) r
  end.

(* references the model does not record by themselves: every  name(args)  part of a designator
   but the last one *)
Definition inner_self (d : desig) : list chain := removelast (self_refs_d [] d).

Fixpoint inner_e (e : expr) : list chain :=
  match e with
  | ELit _ => []
  | EDes d => inner_self d ++ inner_args d
  | EPar e' => inner_e e'
  | EUn _ e' => inner_e e'
  | EBin a _ b => inner_e a ++ inner_e b
  end
with inner_args (d : desig) : list chain :=
  match d with
  | DLast0 _ => []
  | DLastA _ a => inner_e a
  | DPart0 _ r => inner_args r
  | DPartA _ a r => inner_e a ++ inner_args r
  end.

Definition is_none {A} (o : option A) : bool := match o with None => true | Some _ => false end.

(* ------------------------------------------------------------------ ASSOCIATE constructs *)
Fixpoint arrow_free (x : str) : bool :=
  match x with
  | a :: x' => match x' with
               | b :: _ => negb (Ascii.eqb a "="%char && Ascii.eqb b ">"%char) && arrow_free x'
               | [] => true
               end
  | [] => true
  end.
Definition nosep (x : str) : bool :=
  forallb (fun c => negb (Ascii.eqb c comma || Ascii.eqb c lbrk || Ascii.eqb c rbrk)) x.

(* the selector of an ASSOCIATE: a designator, or an expression whose level-0 text holds no ",", "[",
   "]" or "=>" and is not of the form FORD takes for a designator (words joined by "%" once "()" and
   blanks are removed) *)
Definition sel_ok (e : expr) : bool :=
  match e with
  | EDes _ => true
  | _ => nosep (sh_e e) && arrow_free (sh_e e) && is_none (assoc_target (space :: sh_e e))
  end.

(* the batch an ASSOCIATE statement adds, given the associations in force *)
Definition new_batch (env : aenv) (pairs : list (str * expr)) : list (str * option chain) :=
  map (fun p => (lower (fst p), selector_chain env (snd p))) pairs.

(* the associations in force behind each statement of a unit *)
Definition env_after (env : aenv) (st : stmt) : aenv :=
  match st with
  | SAssoc _ pairs => env ++ [new_batch env pairs]
  | SEndAssoc => removelast env
  | _ => env
  end.

(* END ASSOCIATE only where a construct is open *)
Fixpoint nest_ok (depth : nat) (ss : list stmt) : bool :=
  match ss with
  | [] => true
  | SAssoc _ _ :: r => nest_ok (S depth) r
  | SEndAssoc :: r => match depth with S d => nest_ok d r | 0 => false end
  | _ :: r => nest_ok depth r
  end.

(* the statement falls through the earlier branches of the cascade *)
Definition cascade_ok (line : str) : bool :=
  negb (format_re line) && negb (end_associate_re line) && is_none (associate_re line)
  && is_none (goto_rewrite false [] line).

Definition unit_chains (st : stmt) : list chain :=
  match st with SGoto _ _ => stmt_chains st | _ => if seg_stmt st then stmt_chains st else [] end.

(* the statement falls through the branches of the cascade in front of the CALL_RE/SUBCALL_RE gate
   (decided by evaluating the recognisers of those branches on the rendered text; that the gate itself
   opens whenever there is something to record is proved: C08_gate); a FORMAT is skipped; a computed
   GO TO is scanned without its label list *)
Definition step_ok (st : stmt) : bool :=
  match st with
  | SFormat _ _ _ => true                                         (* that FORMAT_RE matches is proved *)
  | SGoto _ e =>
    let line := render_stmt st in
    negb (format_re line) && negb (end_associate_re line) && is_none (associate_re line)
    && match goto_rewrite false [] line with
       | Some line' => str_eqb line' (render_segs (goto_segs e))
       | None => false
       end
  | SAssoc _ pairs => forallb (fun p => sel_ok (snd p)) pairs     (* that ASSOCIATE_RE matches is proved *)
  | SEndAssoc => true
  | _ => cascade_ok (render_stmt st)
  end.

Definition assoc_free_stmt (st : stmt) : bool := match st with SAssoc _ _ | SEndAssoc => false | _ => true end.

(* ------------------------------------------------------------------ resolution *)
Definition ent_flags_ok (e : entity) : bool :=
  match e with EVar _ pt sc => pt && negb sc | _ => true end.

Fixpoint keys_unique (l : labels) : bool :=
  match l with
  | [] => true
  | (k, _) :: l' => negb (str_in k (map fst l')) && keys_unique l'
  end.

Definition labels_ok (l : labels) : bool := keys_unique l && forallb (fun p => ent_flags_ok (snd p)) l.

(* the tables are what a correct name resolution delivers: one meaning per name in every scope,
   every object fully correlated *)
Definition tb_ok (tb : symtab) : bool :=
  labels_ok (st_scope tb) && forallb (fun p => labels_ok (snd p)) (st_types tb).

(* ------------------------------------------------------------------ model chains against Spec references *)
Definition seg_inner (g : seg) : list chain :=
  match g with GWord _ => [] | GKw _ _ c => inner_e c | GExpr e => inner_e e end.

(* references the model does not record by themselves, per statement *)
Definition stmt_inner (st : stmt) : list chain :=
  match st with
  | SCall _ d => inner_refs_d [] d ++ inner_args d
  | SIfCall _ _ c d => inner_e c ++ inner_refs_d [] d ++ inner_args d
  | SGoto _ e => inner_e e
  | _ => flat_map seg_inner (stmt_segs st)
  end.

(* a chain list under the associations in force: leading associate names replaced, chains headed by
   the name of an expression value dropped *)
Definition subst_chains (env : aenv) (l : list chain) : list chain :=
  flat_map (fun ch => match expand env ch with Some c => [c] | None => [] end) l.

(* inner designator parts of the unit, under the associations in force where they stand *)
Fixpoint env_inner (env : aenv) (ss : list stmt) : list chain :=
  match ss with
  | [] => []
  | st :: r => subst_chains env (stmt_inner st) ++ env_inner (env_after env st) r
  end.

(* no ASSOCIATE name is spelled like a keyword the grammar writes in front of "(" *)
Definition assoc_names_ok (ss : list stmt) : bool :=
  forallb (fun st => match st with
                     | SAssoc _ pairs => forallb (fun p => negb (str_in (lower (fst p)) grammar_keywords)) pairs
                     | _ => true
                     end) ss.

(* the hypotheses of exactness *)
Definition resolvable (tb : symtab) (ss : list stmt) : bool :=
  forallb wf_stmt ss && forallb plain_ok ss && forallb step_ok ss     (* well formed; earlier cascade branches do not apply *)
  && nest_ok 0 ss && assoc_names_ok ss                                (* ASSOCIATE constructs properly closed *)
  && tb_ok tb                                                         (* correct name tables (C07) *)
  && negb (region_keyword_named tb)                                   (* region 3 *)
  && forallb (fun ch => is_nil (classify0 tb ch)) (env_inner [] ss).  (* inner parts of designators are variables *)
