(* Sem/CallsGate.v — the gate of the cascade derived from the grammar: the rendered text of a
   statement matches CALL_RE or SUBCALL_RE whenever the statement holds a reference or a keyword in
   front of "(" (so that [_add_procedure_calls] is reached exactly when there is something to record). *)
From Coq Require Import Lia.
From Ford Require Import Base.Str Base.StrFacts Gen.Intrinsics Sem.Calls Sem.CallsSpec Sem.CallsDefs Sem.CallsStrip
  Sem.CallsScan Sem.CallsStmt Sem.CallsProofs Sem.CallsBridge.

(* ------------------------------------------------------------------ a word in front of "(" is matched *)
Definition no_nl (x : str) : bool := negb (existsb (Ascii.eqb nl) x).

Lemma no_nl_app a b : no_nl (a ++ b) = no_nl a && no_nl b.
Proof. unfold no_nl. rewrite existsb_app. now rewrite negb_orb. Qed.
Lemma no_nl_cons c x : no_nl (c :: x) = negb (Ascii.eqb nl c) && no_nl x.
Proof. unfold no_nl. cbn [existsb]. now rewrite negb_orb. Qed.

Lemma span_to_rpar_in z : no_nl z = true -> In rpar z ->
  exists u v, span (fun d => negb (Ascii.eqb d rpar || Ascii.eqb d nl)) z = (u, rpar :: v).
Proof.
  unfold no_nl. induction z as [|c z IH]; intros Hn Hin; [contradiction|].
  cbn [existsb] in Hn. apply negb_true_iff, orb_false_iff in Hn as [Hc Hn]. cbn [span].
  destruct (Ascii.eqb c rpar) eqn:Er.
  - apply Ascii.eqb_eq in Er. subst c. cbn [orb negb]. eauto.
  - rewrite Ascii.eqb_sym in Hc. rewrite Hc. cbn [orb negb].
    destruct Hin as [->|Hin]; [rewrite Ascii.eqb_refl in Er; discriminate|].
    destruct (IH (proj2 (negb_true_iff _) Hn) Hin) as (u & v & E). rewrite E. eauto.
Qed.

Lemma fallback_some pre its b : fallback pre its (Some b) <> None.
Proof.
  revert pre b. induction its as [|[[hp h] w] its IH]; intros pre b; cbn [fallback]; [discriminate|].
  destruct hp; apply IH.
Qed.

Lemma hd_not_word_ws_lpar ws y : forallb is_space ws = true -> hd_not is_word (ws ++ lpar :: y).
Proof. apply hd_not_word_ws. Qed.

(* w ws ( z  with a ")" further on: CALL_RE matches at w *)
Lemma match_call_paren w ws z : wordy w -> forallb is_space ws = true -> no_nl z = true -> In rpar z ->
  match_call (w ++ ws ++ lpar :: z) <> None.
Proof.
  intros Hw Hs Hn Hin.
  assert (Hreq : match_req (w ++ ws ++ lpar :: z) <> None).
  { unfold match_req. rewrite (span_app is_word w _ (proj1 Hw) (hd_not_word_ws ws _ Hs)).
    destruct w as [|c0 w0]; [destruct Hw; contradiction|]. cbn [is_nil].
    rewrite (span_app is_space ws (lpar :: z) Hs) by reflexivity.
    change (Ascii.eqb lpar lpar) with true. cbn iota.
    destruct (span_to_rpar_in z Hn Hin) as (u & v & E). rewrite E. rewrite Ascii.eqb_refl. discriminate. }
  unfold match_call.
  destruct (parse_items (length (w ++ ws ++ lpar :: z)) (w ++ ws ++ lpar :: z)) as [its r] eqn:Ep.
  destruct (length (w ++ ws ++ lpar :: z)) as [|fuel] eqn:El.
  { destruct w as [|c0 w0]; [destruct Hw; contradiction|discriminate]. }
  cbn [parse_items] in Ep.
  destruct (parse_item (w ++ ws ++ lpar :: z)) as [[[[hp head] whole] rest]|] eqn:Ei.
  - (* an iteration was read: it carries "()" *)
    assert (Hhp : hp = true).
    { unfold parse_item in Ei. rewrite (span_space_word w _ Hw) in Ei. cbn [app] in Ei.
      rewrite (span_app is_word w _ (proj1 Hw) (hd_not_word_ws ws _ Hs)) in Ei.
      destruct w as [|c0 w0]; [destruct Hw; contradiction|]. cbn [is_nil] in Ei.
      rewrite (span_app is_space ws (lpar :: z) Hs) in Ei by reflexivity.
      destruct z as [|b z'].
      - cbn [span] in Ei. change (is_space lpar) with false in Ei. cbn iota in Ei. discriminate.
      - change (Ascii.eqb lpar lpar) with true in Ei. cbn [andb] in Ei.
        destruct (Ascii.eqb b rpar).
        + cbn beta iota zeta in Ei. destruct (span is_space z') as [ws3 x5]. destruct x5 as [|c x6]; [discriminate|].
          destruct (Ascii.eqb c pct); [|discriminate]. destruct (span is_space x6). injection Ei as E1 _ _ _. now symmetry.
        + cbn beta iota zeta in Ei. cbn [span] in Ei. change (is_space lpar) with false in Ei. cbn iota in Ei.
          change (Ascii.eqb lpar pct) with false in Ei. discriminate. }
    subst hp. destruct (parse_items fuel rest) as [its' r'] eqn:Ep'. cbn beta iota zeta in Ep. injection Ep as <- <-.
    destruct (match_req r') as [[m0 rest0]|]; [discriminate|].
    cbn [fallback].
    match goal with |- context [fallback ?a ?b (Some ?c)] =>
      pose proof (fallback_some a b c) as Hf; destruct (fallback a b (Some c)) as [m1|] eqn:Ef end;
      [discriminate|exfalso; exact (Hf Ef)].
  - injection Ep as <- <-. cbn [map concat app].
    destruct (match_req (w ++ ws ++ lpar :: z)) as [[m rest]|]; [discriminate|contradiction].
Qed.

(* the scan arrives at every word that follows a non-word character, unless it has matched before *)
Lemma scan_reaches_n n : forall p y, length p <= n -> (p = [] \/ last_nonword p = true) ->
  (exists c y', y = c :: y' /\ is_word c = true) -> match_call y <> None -> call_scan 0 (p ++ y) <> [].
Proof.
  induction n as [|n IH]; intros p y Hlen Hp (c & y' & -> & Hc) Hm.
  - destruct p; [|cbn in Hlen; lia]. cbn [app call_scan]. rewrite Hc.
    destruct (match_call (c :: y')) as [[m r]|]; [discriminate|contradiction].
  - destruct p as [|a p1].
    + cbn [app call_scan]. rewrite Hc. destruct (match_call (c :: y')) as [[m r]|]; [discriminate|contradiction].
    + destruct Hp as [Hp|Hp]; [discriminate|].
      destruct (is_word a) eqn:Wa.
      * (* a word inside p: it ends inside p *)
        cbn [app call_scan]. rewrite Wa.
        change (a :: p1 ++ c :: y') with ((a :: p1) ++ c :: y').
        destruct (match_call ((a :: p1) ++ c :: y')) as [[m r]|]; [discriminate|].
        pose proof (span_eq is_word (a :: p1)) as Ep. pose proof (span_fst_all is_word (a :: p1)) as Hw0.
        pose proof (span_snd_hd is_word (a :: p1)) as Hp2.
        assert (Hw0ne : fst (span is_word (a :: p1)) <> [])
          by (cbn [span]; rewrite Wa; destruct (span is_word p1); discriminate).
        destruct (span is_word (a :: p1)) as [w0 p2]. cbn [fst snd] in *.
        assert (Hne : p2 <> []).
        { intros E. rewrite E, app_nil_r in Ep. rewrite Ep in Hp.
          rewrite (last_nonword_wordy w0 (conj Hw0 Hw0ne)) in Hp. discriminate. }
        assert (Es : span is_word ((a :: p1) ++ c :: y') = (w0, p2 ++ c :: y')).
        { rewrite Ep, <- app_assoc. apply span_app; [exact Hw0|]. destruct p2; [contradiction|exact Hp2]. }
        rewrite Es. cbn [fst].
        destruct w0 as [|a' w1]; [contradiction|]. cbn [app] in Ep. injection Ep as <- Ep1.
        replace (length (a :: w1) - 1) with (length w1) by (cbn [length]; lia).
        rewrite Ep1, <- app_assoc, call_scan_skip.
        apply IH.
        -- rewrite Ep1 in Hlen. cbn [length] in Hlen. rewrite app_length in Hlen. lia.
        -- right. rewrite Ep1 in Hp. change (a :: w1 ++ p2) with ((a :: w1) ++ p2) in Hp.
           now rewrite last_nonword_app in Hp.
        -- eauto.
        -- exact Hm.
      * cbn [app]. rewrite (call_scan_nonword a _ Wa). apply IH.
        -- cbn [length] in Hlen. lia.
        -- destruct p1 as [|b p1']; [now left|right].
           change (a :: b :: p1') with ([a] ++ b :: p1') in Hp. now rewrite last_nonword_app in Hp.
        -- eauto.
        -- exact Hm.
Qed.

(* a place in a text where CALL_RE finds a match: a word right behind a non-word character (or at
   the start) with "(" behind it and a ")" further on *)
Definition site (x : str) : Prop :=
  exists p w ws z, x = p ++ w ++ ws ++ lpar :: z /\ wordy w /\ forallb is_space ws = true /\
                   (p = [] \/ last_nonword p = true) /\ In rpar z.

Lemma site_matches x : no_nl x = true -> site x -> call_matches x <> [].
Proof.
  intros Hn (p & w & ws & z & -> & Hw & Hs & Hp & Hin). unfold call_matches.
  destruct (wordy_hd w Hw) as (c & w' & Ew & Hc).
  apply (scan_reaches_n (length p) p _ (le_n _) Hp).
  - exists c, (w' ++ ws ++ lpar :: z). subst w. split; [reflexivity|exact Hc].
  - apply match_call_paren; try assumption.
    rewrite !no_nl_app, no_nl_cons in Hn. repeat (apply andb_true_iff in Hn as [? Hn]). exact Hn.
Qed.

Lemma site_prefix a x : (a = [] \/ last_nonword a = true) -> site x -> site (a ++ x).
Proof.
  intros Ha (p & w & ws & z & -> & Hw & Hs & Hp & Hin).
  exists (a ++ p), w, ws, z. split; [now rewrite <- app_assoc|]. split; [exact Hw|]. split; [exact Hs|]. split; [|exact Hin].
  destruct p as [|c p].
  - rewrite app_nil_r. exact Ha.
  - right. destruct Hp as [Hp|Hp]; [discriminate|]. now rewrite last_nonword_app by discriminate.
Qed.

Lemma site_suffix x b : site x -> site (x ++ b).
Proof.
  intros (p & w & ws & z & -> & Hw & Hs & Hp & Hin).
  exists p, w, ws, (z ++ b). split; [rewrite <- !app_assoc; reflexivity|]. split; [exact Hw|]. split; [exact Hs|].
  split; [exact Hp|]. apply in_or_app. now left.
Qed.

Lemma site_word_paren w ws z : wordy w -> forallb is_space ws = true -> site (w ++ ws ++ lpar :: z ++ [rpar]).
Proof.
  intros Hw Hs. exists [], w, ws, (z ++ [rpar]). split; [reflexivity|]. split; [exact Hw|]. split; [exact Hs|].
  split; [now left|]. apply in_or_app. right. now left.
Qed.

Lemma op_last op : op_ok op = true -> last_nonword op = true.
Proof. unfold op_ok. intros H. apply andb_true_iff in H as [H _]. now apply andb_true_iff in H as [_ H]. Qed.
Lemma unop_last op : unop_ok op = true -> last_nonword op = true.
Proof. unfold unop_ok. intros H. repeat (apply andb_true_iff in H as [H ?]). assumption. Qed.
Lemma op_nonempty op : op_ok op = true -> op <> [].
Proof. intros H E. subst. discriminate. Qed.

(* every reference of an expression is such a place *)
Lemma site_e_d :
  (forall e, wf_e e = true -> refs_e e <> [] -> site (render_e e)) /\
  (forall d, wf_d d = true -> forall pre, refs_d pre d <> [] -> site (render_d d)).
Proof.
  apply expr_desig_ind.
  - intros t _ H. now contradiction H.
  - intros d IH Hwf H. cbn [wf_e refs_e render_e] in *. exact (IH Hwf [] H).
  - intros e IH Hwf H. cbn [wf_e refs_e render_e] in *.
    change (lpar :: render_e e ++ [rpar]) with ([lpar] ++ render_e e ++ [rpar]).
    apply site_prefix; [now right|]. apply site_suffix. now apply IH.
  - intros op e IH Hwf H. cbn [wf_e refs_e render_e] in *. apply andb_true_iff in Hwf as [Hop He].
    apply site_prefix; [right; now apply unop_last|]. now apply IH.
  - intros a IHa op b IHb Hwf H. cbn [wf_e refs_e render_e] in *.
    apply andb_true_iff in Hwf as [Hwf Hb]. apply andb_true_iff in Hwf as [Ha Hop].
    destruct (refs_e a) eqn:Ea.
    + cbn [app] in H. rewrite app_assoc. apply site_prefix; [|now apply IHb].
      right. rewrite last_nonword_app by now apply op_nonempty. now apply op_last.
    + apply site_suffix. apply IHa; [exact Ha|discriminate].
  - intros x Hwf pre H. now contradiction H.
  - intros x a IH Hwf pre H. cbn [wf_d render_d] in *. apply andb_true_iff in Hwf as [Hx _].
    change (x ++ lpar :: render_e a ++ [rpar]) with (x ++ [] ++ lpar :: render_e a ++ [rpar]).
    apply site_word_paren; [now apply name_wordy|reflexivity].
  - intros x r IH Hwf pre H. cbn [wf_d refs_d render_d] in *. apply andb_true_iff in Hwf as [Hx Hr].
    change (x ++ pct :: render_d r) with (x ++ [pct] ++ render_d r). rewrite app_assoc.
    apply site_prefix; [right; rewrite last_nonword_app by discriminate; reflexivity|]. exact (IH Hr _ H).
  - intros x a IHa r IHr Hwf pre H. cbn [wf_d render_d] in *.
    apply andb_true_iff in Hwf as [Hwf _]. apply andb_true_iff in Hwf as [Hx _].
    change (x ++ lpar :: render_e a ++ rpar :: pct :: render_d r)
      with (x ++ [] ++ lpar :: render_e a ++ [rpar] ++ pct :: render_d r).
    replace (x ++ [] ++ lpar :: render_e a ++ [rpar] ++ pct :: render_d r)
      with ((x ++ [] ++ lpar :: render_e a ++ [rpar]) ++ pct :: render_d r)
      by (rewrite <- !app_assoc; cbn [app]; rewrite <- !app_assoc; reflexivity).
    apply site_suffix. apply site_word_paren; [now apply name_wordy|reflexivity].
Qed.

(* ------------------------------------------------------------------ rendered text holds no newline *)
Lemma inert_no_nl b t : inert_from b t = true -> no_nl t = true.
Proof.
  revert b. induction t as [|c t IH]; intros b H; [reflexivity|]. cbn [inert_from] in H. rewrite no_nl_cons.
  destruct (is_word c) eqn:W.
  - rewrite (IH _ H), andb_true_r. rewrite Ascii.eqb_sym, (word_not_nl c W). reflexivity.
  - destruct (bad_char c) eqn:B; [discriminate|]. destruct (bad_cases c B) as (_ & _ & _ & B4).
    rewrite Ascii.eqb_sym, B4. cbn [negb andb]. destruct (b && is_space c); [discriminate|]. exact (IH _ H).
Qed.
Lemma word_no_nl x : forallb is_word x = true -> no_nl x = true.
Proof.
  induction x as [|c x IH]; intros H; [reflexivity|]. cbn [forallb] in H. apply andb_true_iff in H as [W H].
  rewrite no_nl_cons, (IH H), andb_true_r. rewrite Ascii.eqb_sym, (word_not_nl c W). reflexivity.
Qed.

Lemma render_no_nl :
  (forall e, wf_e e = true -> no_nl (render_e e) = true) /\ (forall d, wf_d d = true -> no_nl (render_d d) = true).
Proof.
  apply expr_desig_ind; intros; cbn [wf_e wf_d render_e render_d] in *;
    repeat match goal with H : _ && _ = true |- _ => apply andb_true_iff in H as [? ?] end;
    rewrite ?no_nl_app, ?no_nl_cons, ?no_nl_app, ?no_nl_cons;
    repeat match goal with
           | H : lit_ok _ = true |- _ => apply lit_ok_inert, inert_no_nl in H
           | H : op_ok _ = true |- _ => apply op_ok_inert, inert_no_nl in H
           | H : unop_ok _ = true |- _ => apply unop_ok_inert, inert_no_nl in H
           | H : name_ok _ = true |- _ => apply name_ok_word in H as [H _]; apply word_no_nl in H
           end;
    repeat match goal with H : ?a = true -> _, H' : ?a = true |- _ => specialize (H H') end;
    repeat match goal with H : _ = true |- _ => rewrite H; clear H end; reflexivity.
Qed.

Lemma seg_no_nl g : wf_seg g = true -> no_nl (render_seg g) = true.
Proof.
  destruct g as [w|kw sp c|e]; cbn [wf_seg render_seg]; intros H.
  - unfold word_ok in H. apply andb_true_iff in H as [H _]. apply andb_true_iff in H as [H _].
    exact (inert_no_nl false w (lit_ok_inert w H)).
  - apply andb_true_iff in H as [Hk Hc]. rewrite !no_nl_app, no_nl_cons, no_nl_app.
    rewrite (word_no_nl kw (proj1 (name_wordy kw Hk))), (proj1 render_no_nl c Hc). destruct sp; reflexivity.
  - apply andb_true_iff in H as [H _]. now apply (proj1 render_no_nl).
Qed.

Lemma render_segs_cons g g' gs : render_segs (g :: g' :: gs) = render_seg g ++ space :: render_segs (g' :: gs).
Proof. reflexivity. Qed.

Lemma segs_no_nl gs : forallb wf_seg gs = true -> no_nl (render_segs gs) = true.
Proof.
  induction gs as [|g gs IH]; intros H; [reflexivity|]. cbn [forallb] in H. apply andb_true_iff in H as [Hg H].
  destruct gs as [|g' gs]; [unfold render_segs; cbn [map join]; now apply seg_no_nl|].
  rewrite render_segs_cons, no_nl_app, no_nl_cons, (seg_no_nl g Hg), (IH H). reflexivity.
Qed.

(* ------------------------------------------------------------------ segments *)
Lemma site_seg g : wf_seg g = true -> (seg_kw g <> [] \/ seg_refs g <> []) -> site (render_seg g).
Proof.
  destruct g as [w|kw sp c|e]; cbn [wf_seg seg_kw seg_refs render_seg]; intros Hwf H.
  - destruct H as [H|H]; now contradiction H.
  - apply andb_true_iff in Hwf as [Hk _]. apply site_word_paren; [now apply name_wordy|destruct sp; reflexivity].
  - apply andb_true_iff in Hwf as [He _]. destruct H as [H|H]; [now contradiction H|]. now apply (proj1 site_e_d).
Qed.

Lemma site_segs gs : forallb wf_seg gs = true -> (flat_map seg_kw gs <> [] \/ flat_map seg_refs gs <> []) ->
  site (render_segs gs).
Proof.
  induction gs as [|g gs IH]; intros Hwf H; [destruct H as [H|H]; now contradiction H|].
  cbn [forallb] in Hwf. apply andb_true_iff in Hwf as [Hg Hgs].
  assert (Hcase : (seg_kw g <> [] \/ seg_refs g <> []) \/ (flat_map seg_kw gs <> [] \/ flat_map seg_refs gs <> [])).
  { cbn [flat_map] in H. destruct (seg_kw g) eqn:Ek; [|left; left; discriminate].
    destruct (seg_refs g) eqn:Er; [|left; right; discriminate]. right. exact H. }
  destruct gs as [|g' gs].
  - unfold render_segs. cbn [map join]. destruct Hcase as [Hc|[Hc|Hc]]; [now apply site_seg|now contradiction Hc|now contradiction Hc].
  - rewrite render_segs_cons. destruct Hcase as [Hc|Hc].
    + apply site_suffix. now apply site_seg.
    + change (render_seg g ++ space :: render_segs (g' :: gs)) with (render_seg g ++ [space] ++ render_segs (g' :: gs)).
      rewrite app_assoc. apply site_prefix; [right; now rewrite last_nonword_app by discriminate|]. now apply IH.
Qed.

(* a statement without a keyword in front of "(" and without a reference has nothing to record *)
Lemma nil_of_no_member {A} (l : list A) : (forall x, ~ In x l) -> l = [].
Proof. destruct l as [|a l]; [reflexivity|]. intros H. exfalso. apply (H a). now left. Qed.

Lemma segs_chains_nil gs n : flat_map seg_kw gs = [] -> flat_map seg_refs gs = [] ->
  flat_map seg_heads0 gs ++ level_heads (flat_map subs_seg gs) n = [].
Proof.
  intros Hk Hr. apply nil_of_no_member. intros ch Hin.
  assert (Hkw : forall kw, In kw (flat_map seg_kw gs) -> In kw grammar_keywords) by (rewrite Hk; intros kw []).
  apply in_app_iff in Hin as [Hin|Hin].
  - apply in_flat_map in Hin as (g & Hg & Hch). destruct g as [w|kw sp c|e]; cbn [seg_heads0] in Hch.
    + contradiction.
    + assert (Hin : In kw (flat_map seg_kw gs)) by (apply in_flat_map; exists (GKw kw sp c); split; [exact Hg|now left]).
      rewrite Hk in Hin. contradiction.
    + assert (Hin : In ch (flat_map seg_refs gs)).
      { apply in_flat_map. exists (GExpr e). split; [exact Hg|]. now apply (proj1 heads0_refs). }
      rewrite Hr in Hin. contradiction.
  - apply in_level_heads in Hin as (d & _ & Hd). destruct (deep_heads_refs d _ ch Hd) as (e' & He' & Hre).
    apply in_flat_map in He' as (g & Hg & He').
    assert (Hin : In ch (flat_map seg_refs gs)) by (apply in_flat_map; exists g; split; [exact Hg|exact (seg_sub_refs g e' ch He' Hre)]).
    rewrite Hr in Hin. contradiction.
Qed.

(* the gate for statements made of segments: CALL_RE matches the text whenever there is anything to record *)
Theorem gate_segs gs n : wf_segs gs = true ->
  negb (is_nil (call_matches (render_segs gs))) = true \/
  flat_map seg_heads0 gs ++ level_heads (flat_map subs_seg gs) n = [].
Proof.
  intros Hwf. pose proof (wf_segs_all gs Hwf) as Hall.
  destruct (flat_map seg_kw gs) eqn:Ek; [destruct (flat_map seg_refs gs) eqn:Er|].
  - right. now apply segs_chains_nil.
  - left. assert (Hs : site (render_segs gs)) by (apply site_segs; [exact Hall|right; rewrite Er; discriminate]).
    pose proof (site_matches _ (segs_no_nl gs Hall) Hs) as Hm. destruct (call_matches (render_segs gs)); [contradiction|reflexivity].
  - left. assert (Hs : site (render_segs gs)) by (apply site_segs; [exact Hall|left; rewrite Ek; discriminate]).
    pose proof (site_matches _ (segs_no_nl gs Hall) Hs) as Hm. destruct (call_matches (render_segs gs)); [contradiction|reflexivity].
Qed.

(* ------------------------------------------------------------------ CALL statements: SUBCALL_RE on the full text *)
Definition word_head (y : str) : Prop := exists c y', y = c :: y' /\ is_word c = true.

Lemma final_name_some z : word_head z -> final_name z <> None.
Proof.
  intros (c & z' & -> & Hc). unfold final_name. cbn [span]. rewrite Hc.
  destruct (span is_word z') as [w z1]. cbn [is_nil]. destruct (span is_space z1) as [ws z2].
  destruct z2 as [|a [|b z3]]; try discriminate. destruct (Ascii.eqb a lpar && Ascii.eqb b rpar); discriminate.
Qed.

Lemma last_pct_word_head y : forall pre best,
  match best with Some (_, z) => word_head z | None => True end ->
  match last_pct pre y best with Some (_, z) => word_head z | None => True end.
Proof.
  induction y as [|c y IH]; intros pre best Hb; cbn [last_pct]; [exact Hb|].
  destruct (Ascii.eqb c nl); [exact Hb|]. destruct (Ascii.eqb c pct); [|now apply IH].
  destruct (span is_space y) as [ws z]. destruct z as [|d z']; [now apply IH|].
  destruct (is_word d) eqn:Wd; [|now apply IH]. apply IH. exists d, z'. now split.
Qed.

Lemma chain_text_some y : word_head y -> chain_text y <> None.
Proof.
  intros Hy. unfold chain_text. pose proof (last_pct_word_head y [] None I) as H.
  destruct (last_pct [] y None) as [[pre z]|].
  - pose proof (final_name_some z H) as Hf. destruct (final_name z); [discriminate|contradiction].
  - now apply final_name_some.
Qed.

Lemma call_kw_some y : word_head y -> call_kw (s "call" ++ space :: y) <> None.
Proof.
  intros Hy. unfold call_kw.
  assert (E1 : starts_ci (s "call") (s "call" ++ space :: y) = true) by reflexivity. rewrite E1.
  change (skipn 4 (s "call" ++ space :: y)) with (space :: y).
  destruct Hy as (c & y' & -> & Hc).
  assert (E2 : span is_space (space :: c :: y') = ([space], c :: y')).
  { change (span is_space (space :: c :: y')) with (let (a, b) := span is_space (c :: y') in (space :: a, b)).
    rewrite (span_nil is_space (c :: y')) by (cbn; now apply word_not_space). reflexivity. }
  rewrite E2. cbn [is_nil]. apply chain_text_some. exists c, y'. now split.
Qed.

Lemma lcc_keeps y : forall c, last_close_call y (Some c) <> None.
Proof.
  induction y as [|a y IH]; intros c; cbn [last_close_call]; [discriminate|].
  destruct (Ascii.eqb a nl); [discriminate|]. destruct (Ascii.eqb a rpar); [|apply IH].
  destruct (call_kw (snd (span is_space y))); apply IH.
Qed.

Lemma lcc_finds u v : forall best, no_nl u = true -> call_kw (lstrip_s v) <> None ->
  last_close_call (u ++ rpar :: v) best <> None.
Proof.
  induction u as [|a u IH]; intros best Hn Hk.
  - cbn [app]. rewrite lcc_rpar. destruct (call_kw (lstrip_s v)) as [ch|]; [apply lcc_keeps|contradiction].
  - rewrite no_nl_cons in Hn. apply andb_true_iff in Hn as [Ha Hn]. apply negb_true_iff in Ha. rewrite Ascii.eqb_sym in Ha.
    cbn [app last_close_call]. rewrite Ha. destruct (Ascii.eqb a rpar); [|now apply IH].
    destruct (call_kw (snd (span is_space (u ++ rpar :: v)))); now apply IH.
Qed.

Lemma render_d_word_head d y : wf_d d = true -> word_head (render_d d ++ y).
Proof.
  intros H. destruct (render_d_fns d y H) as (c & Ef & Wc).
  pose proof (wf_d_name d H) as Hn.
  assert (Hx : forall x z, name_ok x = true -> word_head (x ++ z)).
  { intros x z Hx. destruct (wordy_hd x (name_wordy x Hx)) as (c1 & w & -> & W1). exists c1, (w ++ z). now split. }
  destruct d as [x|x a|x r|x a r]; cbn [render_d]; rewrite <- ?app_assoc.
  - now apply Hx.
  - destruct Hn as [Hn _]. now apply Hx.
  - destruct Hn as [Hn _]. now apply Hx.
  - destruct Hn as [Hn _]. now apply Hx.
Qed.

Lemma subcall_full_call d : wf_d d = true -> subcall_core (s "call" ++ space :: render_d d) <> None.
Proof.
  intros Hd. unfold subcall_core.
  assert (E : starts_ci (s "if") (s "call" ++ space :: render_d d) = false) by reflexivity. rewrite E.
  apply call_kw_some. rewrite <- (app_nil_r (render_d d)). now apply render_d_word_head.
Qed.

Lemma subcall_full_ifcall sp c d : wf_e c = true -> wf_d d = true ->
  subcall_core (s "if" ++ kw_sp sp ++ lpar :: render_e c ++ [rpar] ++ space :: s "call" ++ space :: render_d d) <> None.
Proof.
  intros Hc Hd. unfold subcall_core.
  assert (E : starts_ci (s "if") (s "if" ++ kw_sp sp ++ lpar :: render_e c ++ [rpar] ++ space :: s "call" ++ space :: render_d d) = true)
    by reflexivity.
  rewrite E.
  assert (E2 : snd (span is_space (skipn 2 (s "if" ++ kw_sp sp ++ lpar :: render_e c ++ [rpar] ++ space :: s "call" ++ space :: render_d d)))
               = lpar :: render_e c ++ rpar :: space :: s "call" ++ space :: render_d d) by (destruct sp; reflexivity).
  rewrite E2. change (Ascii.eqb lpar lpar) with true. cbn iota.
  pose proof (lcc_finds (render_e c) (space :: s "call" ++ space :: render_d d) None (proj1 render_no_nl c Hc)) as H.
  assert (E3 : lstrip_s (space :: s "call" ++ space :: render_d d) = s "call" ++ space :: render_d d) by reflexivity.
  rewrite E3 in H.
  assert (Hk : call_kw (s "call" ++ space :: render_d d) <> None).
  { apply call_kw_some. rewrite <- (app_nil_r (render_d d)). now apply render_d_word_head. }
  specialize (H Hk).
  destruct (last_close_call (render_e c ++ rpar :: space :: s "call" ++ space :: render_d d) None); [discriminate|contradiction].
Qed.

Lemma render_segs_lab l gs : gs <> [] -> render_segs (GWord l :: gs) = l ++ space :: render_segs gs.
Proof. destruct gs; [contradiction|reflexivity]. Qed.

(* the gate for CALL and IF ... CALL, labelled or not: SUBCALL_RE matches the text *)
Theorem gate_call st : wf_stmt st = true ->
  match st with SCall _ _ | SIfCall _ _ _ _ => subcall_match (render_stmt st) <> None | _ => True end.
Proof.
  intros Hwf. destruct st as [lab sp f|lab d|lab sp c d|sp pairs| | |]; try exact I.
  - cbn [wf_stmt] in Hwf. apply andb_true_iff in Hwf as [Hl Hsegs].
    assert (Hd : wf_d d = true) by (apply (wf_d_of_segs lab [GWord (s "call")] d); exact Hsegs).
    change (render_stmt (SCall lab d)) with (render_segs (lab_segs lab ++ [GWord (s "call"); GExpr (EDes d)])).
    unfold subcall_match. destruct lab as [l|]; cbn [lab_segs app].
    + rewrite render_segs_lab by discriminate.
      rewrite (strip_label_lab l _ Hl) by reflexivity. now apply subcall_full_call.
    + now apply subcall_full_call.
  - cbn [wf_stmt] in Hwf. apply andb_true_iff in Hwf as [Hl Hsegs].
    assert (Hd : wf_d d = true) by (apply (wf_d_of_segs lab [GKw (s "if") sp c; GWord (s "call")] d); exact Hsegs).
    assert (Hc : wf_e c = true).
    { apply wf_segs_all in Hsegs. cbn [stmt_segs] in Hsegs. rewrite forallb_app in Hsegs. apply andb_true_iff in Hsegs as [_ Hs].
      cbn [forallb wf_seg] in Hs. apply andb_true_iff in Hs as [Hs _]. now apply andb_true_iff in Hs as [_ Hs]. }
    change (render_stmt (SIfCall lab sp c d)) with (render_segs (lab_segs lab ++ [GKw (s "if") sp c; GWord (s "call"); GExpr (EDes d)])).
    assert (Er : render_segs [GKw (s "if") sp c; GWord (s "call"); GExpr (EDes d)]
                 = s "if" ++ kw_sp sp ++ lpar :: render_e c ++ [rpar] ++ space :: s "call" ++ space :: render_d d).
    { unfold render_segs. cbn [map join render_seg render_e]. unfold kw_sp. rewrite <- !app_assoc. cbn [app].
      rewrite <- !app_assoc. reflexivity. }
    unfold subcall_match. destruct lab as [l|]; cbn [lab_segs app].
    + rewrite render_segs_lab by discriminate. rewrite Er.
      rewrite (strip_label_lab l _ Hl) by reflexivity.
      now apply subcall_full_ifcall.
    + rewrite Er.
      change (strip_label (s "if" ++ kw_sp sp ++ lpar :: render_e c ++ [rpar] ++ space :: s "call" ++ space :: render_d d))
        with (s "if" ++ kw_sp sp ++ lpar :: render_e c ++ [rpar] ++ space :: s "call" ++ space :: render_d d).
      now apply subcall_full_ifcall.
Qed.

(* C08_gate: for every well-formed statement written as segments, the text passes the
   `CALL_RE.search(line) or SUBCALL_RE.search(line)` gate of the cascade whenever there is a chain to
   collect from it *)
Theorem gate_stmt st : seg_stmt st = true -> wf_stmt st = true ->
  call_gate (render_stmt st) = true \/ stmt_chains st = [].
Proof.
  intros Hseg Hwf. destruct (wf_stmt_segs st Hseg Hwf) as [Hsegs _].
  pose proof (gate_call st Hwf) as Hc.
  destruct st as [lab sp f|lab d|lab sp c d|sp pairs| | |]; try discriminate; unfold call_gate.
  - change (render_stmt (SForm lab sp f)) with (render_segs (stmt_segs (SForm lab sp f))).
    destruct (gate_segs _ (length (render_segs (stmt_segs (SForm lab sp f)))) Hsegs) as [H|H]; [left; now rewrite H|right; exact H].
  - left. destruct (subcall_match (render_stmt (SCall lab d))); [apply orb_true_r|contradiction].
  - left. destruct (subcall_match (render_stmt (SIfCall lab sp c d))); [apply orb_true_r|contradiction].
  - change (render_stmt (SAssoc sp pairs)) with (render_segs (stmt_segs (SAssoc sp pairs))).
    destruct (gate_segs _ (length (render_segs (stmt_segs (SAssoc sp pairs)))) Hsegs) as [H|H]; [left; now rewrite H|right; exact H].
Qed.

Theorem gate_goto e : wf_segs (goto_segs e) = true ->
  call_gate (render_segs (goto_segs e)) = true \/
  flat_map seg_heads0 (goto_segs e) ++ level_heads (flat_map subs_seg (goto_segs e)) (length (render_segs (goto_segs e))) = [].
Proof.
  intros H. unfold call_gate. destruct (gate_segs _ (length (render_segs (goto_segs e))) H) as [Hg|Hg]; [left; now rewrite Hg|now right].
Qed.

(* ------------------------------------------------------------------ FORMAT *)
Lemma span_to_rpar x y : existsb (Ascii.eqb nl) x = false ->
  exists z, snd (span (fun d => negb (Ascii.eqb d rpar || Ascii.eqb d nl)) (x ++ rpar :: y)) = rpar :: z.
Proof.
  induction x as [|c x IH]; intros H.
  - exists y. reflexivity.
  - cbn [existsb] in H. apply orb_false_iff in H as [Hc H]. cbn [app span].
    destruct (Ascii.eqb c rpar) eqn:Er.
    + apply Ascii.eqb_eq in Er. subst c. cbn [orb negb snd]. eauto.
    + rewrite Ascii.eqb_sym in Hc. rewrite Hc. cbn [orb negb]. destruct (IH H) as (z & Hz).
      destruct (span _ (x ++ rpar :: y)). cbn [snd] in *. eauto.
Qed.

Lemma digits_not_space l : forallb is_digit l = true -> forallb is_digit_b l = true.
Proof. trivial. Qed.

Lemma span_digits l rest : forallb is_digit l = true -> span is_digit_b (l ++ space :: rest) = (l, space :: rest).
Proof. intros H. apply span_app; [exact H|reflexivity]. Qed.

(* a FORMAT statement records nothing, whatever its body, with or without a blank before "(" *)
Lemma format_inert_gen app lab sp body st : label_ok lab = true -> existsb (Ascii.eqb nl) (flat body) = false ->
  line_step_gen app st (render_stmt (SFormat lab sp body)) = Some st.
Proof.
  intros Hl Hb. unfold label_ok in Hl. apply andb_true_iff in Hl as [Hn Hd].
  assert (Hf : format_re (render_stmt (SFormat lab sp body)) = true).
  { cbn [render_stmt]. unfold format_re.
    change (lab ++ s " format" ++ (if sp then [space] else []) ++ lpar :: flat body ++ [rpar])
      with (lab ++ space :: (s "format" ++ (if sp then [space] else []) ++ lpar :: flat body ++ [rpar])).
    rewrite (span_digits lab _ Hd). destruct lab as [|c0 l0]; [discriminate|]. cbn [is_nil].
    assert (E1 : span is_space (space :: s "format" ++ (if sp then [space] else []) ++ lpar :: flat body ++ [rpar])
                 = ([space], s "format" ++ (if sp then [space] else []) ++ lpar :: flat body ++ [rpar])) by reflexivity.
    rewrite E1. cbn [is_nil].
    assert (E2 : starts_ci (s "format") (s "format" ++ (if sp then [space] else []) ++ lpar :: flat body ++ [rpar]) = true) by reflexivity.
    rewrite E2.
    assert (E3 : snd (span is_space (skipn 6 (s "format" ++ (if sp then [space] else []) ++ lpar :: flat body ++ [rpar])))
                 = lpar :: flat body ++ [rpar]) by (destruct sp; reflexivity).
    destruct (span is_space (skipn 6 (s "format" ++ (if sp then [space] else []) ++ lpar :: flat body ++ [rpar]))) as [w2 x3].
    cbn [snd] in E3. subst x3. change (Ascii.eqb lpar lpar) with true. cbn iota.
    destruct (span_to_rpar (flat body) [] Hb) as (z & Hz).
    destruct (span _ (flat body ++ [rpar])) as [u v]. cbn [snd] in Hz. subst v. reflexivity. }
  unfold line_step_gen. destruct st as [a calls]. now rewrite Hf.
Qed.

Theorem format_inert lab sp body st : label_ok lab = true -> existsb (Ascii.eqb nl) (flat body) = false ->
  line_step st (render_stmt (SFormat lab sp body)) = Some st.
Proof. exact (format_inert_gen append_calls lab sp body st). Qed.

