(* Sem/CascadeProofs.v -- proofs about the statement-classification layer: Sem/Cascade.v (model of
   the if/elif chain, interpreting the regenerated table Gen/Cascade.v) against Sem/CascadeSpec.v
   (the statements as text, in all their spellings).  General facts: Sem/CascadeFacts.v. *)
From Coq Require Import ZArith NArith Lia.
From Ford Require Import Base.Str Base.StrFacts Base.StrX Base.StrXFacts Sem.Tree Sem.TypeSpec Sem.DeclSpec
     Sem.TypeSpecProofs Sem.CascadeTypes Gen.Cascade Sem.Cascade Sem.CascadeSpec Sem.CascadeFacts Sem.CascadeDecl.
Local Open Scope nat_scope.

(* ------------------------------------------------------------------ statement by statement *)
Ltac piece_oks := repeat (apply Forall_cons || apply Forall_nil); cbn [piece_ok]; try reflexivity; auto.
Ltac nonempty_kw := discriminate.

(* the conditions of the branches, by position in the regenerated chain *)
Lemma br_conds :
  br_cond (br 0) = CEqLower (s "contains") /\
  br_cond (br 1) = CInLower [s "public"; s "private"; s "protected"] /\
  br_cond (br 2) = CEqLower (s "sequence") /\
  br_cond (br 5) = CMatch END_RE /\
  br_cond (br 10) = CMatch MODULE_RE /\
  br_cond (br 12) = CMatch PROGRAM_RE /\
  br_cond (br 23) = CMatch USE_RE.
Proof. repeat split; reflexivity. Qed.

Lemma denote1 p : denote [p] = piece_text p.
Proof. cbn [denote fold_right]. apply app_nil_r. Qed.

Lemma kw_line_ends m k : k <> [] -> forallb is_lower k = true -> ends_nonspace (denote [PKw m k]).
Proof. intros N L. rewrite denote1. apply words_ends; [now apply kw_nonempty|now apply kw_words]. Qed.

(* MODULE *)
Theorem dispatch_module c m b name : plain_ident name = true ->
  classify c (render (XModule m b name)) = Fired (s "MODULE_RE") (SUnit KModule name).
Proof.
  intros P. pose proof (plain_ident_ok name P) as I. unfold render. cbn [pieces_of].
  assert (R : unit_name_re (s "module") (denote [PKw m (s "module"); PGap b; PId name]) = Some (Some name)).
  { cbn [denote fold_right piece_text]. rewrite app_nil_r. now apply unit_name_kw. }
  apply (classify_kw c m (s "module") [PGap b; PId name] ([BLOCK_RE; ASSOCIATE_RE] ++ [MODPROC_RE]) 10);
    [piece_oks|discriminate| | |reflexivity|reflexivity|reflexivity| | ].
  - apply (denote_ends [PKw m (s "module"); PGap b] (PId name)); [exact I|exact Logic.I].
  - apply known_app; [|apply known_one; now apply module_line_not_modproc].
    apply known_labels; try reflexivity; try discriminate. cbn [stop_ok piece_text]. now apply ident_starts.
  - change (br_cond (br 10)) with (CMatch MODULE_RE). cbn [eval_cond re_match]. now rewrite R.
  - change (br_cond (br 10)) with (CMatch MODULE_RE). cbn [cond_key action key_name]. now rewrite R.
Qed.

(* CONTAINS, the access statements, SEQUENCE *)
Theorem d_contains c m : classify c (render (XContains m)) = Fired (s "contains") SContains.
Proof.
  unfold render. cbn [pieces_of].
  apply (classify_kw c m (s "contains") [] [] 0);
    [piece_oks|discriminate|now apply kw_line_ends|apply known_nil|reflexivity|reflexivity|reflexivity| |reflexivity].
  change (br_cond (br 0)) with (CEqLower (s "contains")). cbn [eval_cond].
  rewrite denote1. cbn [piece_text]. now rewrite (lower_kw m (s "contains") eq_refl).
Qed.

Theorem d_access c a m : classify c (render (XAccess a m)) = Fired (s "public") SNoop.
Proof.
  unfold render. cbn [pieces_of].
  apply (classify_kw c m (access_text a) [] [] 1);
    [destruct a; piece_oks|destruct a; discriminate|destruct a; now apply kw_line_ends|apply known_nil
     |reflexivity|destruct a; reflexivity|reflexivity| |reflexivity].
  change (br_cond (br 1)) with (CInLower [s "public"; s "private"; s "protected"]). cbn [eval_cond].
  rewrite denote1. cbn [piece_text]. destruct a; now rewrite lower_kw by reflexivity.
Qed.

Theorem d_sequence c m : classify c (render (XSequence m)) = Fired (s "sequence") SNoop.
Proof.
  unfold render. cbn [pieces_of].
  apply (classify_kw c m (s "sequence") [] [] 2);
    [piece_oks|discriminate|now apply kw_line_ends|apply known_nil|reflexivity|reflexivity|reflexivity| |reflexivity].
  change (br_cond (br 2)) with (CEqLower (s "sequence")). cbn [eval_cond].
  rewrite denote1. cbn [piece_text]. now rewrite (lower_kw m (s "sequence") eq_refl).
Qed.

(* ------------------------------------------------------------------ END *)
Lemma match_ci_conflict w m k y : forallb is_lower k = true -> conflict w k = true ->
  match_ci w (recase m k ++ y) = None.
Proof.
  intros L C. apply match_ci_none. rewrite lower_app, (lower_kw m k L). now apply conflict_prefix.
Qed.

Lemma end_alts_skip pre rest m k tail : forallb is_lower k = true ->
  forallb (fun a => conflict (fst (fst a)) k) pre = true ->
  end_alts (pre ++ rest) (recase m k ++ tail) = end_alts rest (recase m k ++ tail).
Proof.
  intros L. induction pre as [|[[w w2] e] pre IH]; intros H; [reflexivity|].
  cbn [forallb fst] in H. apply andb_true_iff in H as [H1 H2].
  cbn [app end_alts]. unfold end_alt. rewrite (match_ci_conflict w m k tail L H1). now apply IH.
Qed.

Lemma starts_word_ident x y : ident_ok x = true -> starts_word (x ++ y) = true.
Proof. intros I. destruct (ident_ok_inv x I) as (c & r & -> & A & _). cbn. now apply alpha_word. Qed.

Lemma end_tail_opt_name name : match name with Some (_, n) => ident_ok n = true | None => True end ->
  end_tail (denote (opt_name name)) = true.
Proof.
  destruct name as [[b n]|]; intros H; [|reflexivity].
  cbn [opt_name denote fold_right piece_text]. rewrite app_nil_r. unfold end_tail.
  rewrite ws1_gap, (skip_ws_alnum n (ident_starts n H)).
  change (blanks (S b) ++ n) with (c_sp :: (blanks b ++ n)). cbn iota.
  rewrite <- (app_nil_r n). now apply starts_word_ident.
Qed.

Lemma nonempty_match {A} (y : str) (a : A) (f : str -> A) : y <> [] ->
  match y with [] => a | r' => f r' end = f y.
Proof. destruct y; [congruence|reflexivity]. Qed.

(* without a statement label *)
Lemma end_re_kw_line m y : end_re (recase m (s "end") ++ y) = end_core (recase m (s "end") ++ y).
Proof.
  unfold end_re. pose proof (kw_words m (s "end") eq_refl) as W. pose proof (kw_nonempty m (s "end") ltac:(discriminate)) as N.
  pose proof (alpha_recase m (s "end") eq_refl) as A.
  destruct (recase m (s "end")) as [|c r]; [congruence|]. cbn in A. apply andb_true_iff in A as [Ac _].
  cbn [app take_while].
  assert (D : is_digit c = false).
  { unfold is_alpha, is_upper, is_lower, is_digit, code in *.
    destruct (nat_of_ascii c <=? 57) eqn:D; [|now rewrite andb_false_r].
    apply Nat.leb_le in D. apply orb_true_iff in Ac as [Ac | Ac]; apply andb_true_iff in Ac as [A1 A2];
      apply Nat.leb_le in A1; lia. }
  now rewrite D.
Qed.
Lemma end_core_kw m b y : y <> [] -> skip_ws y = y ->
  end_core (recase m (s "end") ++ blanks b ++ y) = end_alts end_alts_table y.
Proof.
  intros N S. unfold end_core. rewrite (match_ci_kw m (s "end") _ eq_refl), skip_ws_bl, S.
  destruct y; [congruence|reflexivity].
Qed.
Lemma end_re_kw m b y : y <> [] -> skip_ws y = y ->
  end_re (recase m (s "end") ++ blanks b ++ y) = end_alts end_alts_table y.
Proof. intros N S. rewrite end_re_kw_line. now apply end_core_kw. Qed.
(* with a statement label *)
Lemma end_re_label digits b y : digits <> [] -> forallb is_digit digits = true ->
  end_re (digits ++ blanks (S b) ++ y) = end_core (skip_ws y).
Proof.
  intros N D. unfold end_re. change (blanks (S b) ++ y) with (c_sp :: (blanks b ++ y)).
  rewrite (take_while_all is_digit digits c_sp (blanks b ++ y) D eq_refl).
  destruct digits; [congruence|]. change (c_sp :: (blanks b ++ y)) with (blanks (S b) ++ y). now rewrite ws1_gap.
Qed.

Definition opt_name_ok (name : option (nat * str)) : Prop :=
  match name with Some (_, n) => plain_ident n = true | None => True end.
Lemma opt_name_pieces name : opt_name_ok name -> Forall piece_ok (opt_name name).
Proof. destruct name as [[b n]|]; intros H; [|constructor]. piece_oks. now apply plain_ident_ok. Qed.
Lemma opt_name_ident name : opt_name_ok name -> match name with Some (_, n) => ident_ok n = true | None => True end.
Proof. destruct name as [[b n]|]; [apply plain_ident_ok|trivial]. Qed.

Lemma ends_opt_name pre p name : piece_ok p -> piece_ends p -> opt_name_ok name ->
  ends_nonspace (denote ((pre ++ [p]) ++ opt_name name)).
Proof.
  intros O E H. destruct name as [[b n]|].
  - cbn [opt_name]. change [PGap b; PId n] with ([PGap b] ++ [PId n]). rewrite app_assoc.
    apply denote_ends; [cbn; now apply plain_ident_ok|exact I].
  - cbn [opt_name]. rewrite app_nil_r. now apply denote_ends.
Qed.

(* the first five branches on a line that begins with "end" *)
Lemma end_excluded : forallb (branch_excluded (s "end") []) (firstn 5 cascade) = true.
Proof. reflexivity. Qed.

Lemma classify_end c m rest e :
  Forall piece_ok (PKw m (s "end") :: rest) -> ends_nonspace (denote (PKw m (s "end") :: rest)) ->
  end_re (denote (PKw m (s "end") :: rest)) = Some e ->
  (e = EndAssociate -> has_calls (cx_kind c) = true) ->
  classify c (denote (PKw m (s "end") :: rest)) = Fired (s "END_RE") (SEnd e).
Proof.
  intros O E R A.
  apply (classify_kw c m (s "end") rest [] 5);
    [exact O|discriminate|exact E|apply known_nil|reflexivity|exact end_excluded|reflexivity| | ].
  - change (br_cond (br 5)) with (CMatch END_RE). cbn [eval_cond re_match]. now rewrite R.
  - change (br_cond (br 5)) with (CMatch END_RE). cbn [cond_key action key_name]. rewrite R.
    destruct e; try reflexivity. now rewrite (A eq_refl).
Qed.

(* a line that begins with a statement label: the five branches before END_RE do not fire *)
Lemma digit_cases d : is_digit d = true ->
  In d ["0"; "1"; "2"; "3"; "4"; "5"; "6"; "7"; "8"; "9"]%char.
Proof. destruct d as [[] [] [] [] [] [] [] []]; intros H; try discriminate H; cbn; tauto. Qed.

Lemma label_line_misses c d y : is_digit d = true -> format_re (d :: y) = false ->
  Forall (misses c (d :: y)) (firstn 5 cascade).
Proof.
  intros D F. apply digit_cases in D. cbn [firstn cascade].
  assert (A : re_match ATTRIB_RE (d :: y) = No).
  { apply (anchored_miss ATTRIB_RE _ eq_refl). cbn [lower map].
    cbn [In] in D. repeat (destruct D as [<- | D]; [reflexivity|]). destruct D. }
  repeat constructor; try reflexivity; cbn [br_cond eval_cond re_match]; try (now rewrite F); try (now rewrite A);
    cbn [lower map]; cbn [In] in D; repeat (destruct D as [<- | D]; [reflexivity|]); destruct D.
Qed.

Lemma classify_end_label c digits b m rest e :
  digits <> [] -> forallb is_digit digits = true ->
  Forall piece_ok (PKw m (s "end") :: rest) -> ends_nonspace (denote (PKw m (s "end") :: rest)) ->
  end_re (denote (PKw m (s "end") :: rest)) = Some e ->
  (e = EndAssociate -> has_calls (cx_kind c) = true) ->
  classify c (denote (PTx digits :: PGap b :: PKw m (s "end") :: rest)) = Fired (s "END_RE") (SEnd e).
Proof.
  intros N D O E R A.
  assert (Od : Forall piece_ok (PTx digits :: PGap b :: PKw m (s "end") :: rest)).
  { constructor; [|constructor; [exact I|exact O]]. cbn [piece_ok]. split.
    - apply forallb_forall. intros x Hx. rewrite forallb_forall in D. specialize (D x Hx).
      apply digit_cases in D. cbn [In] in D. repeat (destruct D as [<- | D]; [reflexivity|]). destruct D.
    - apply Bool.not_true_is_false. intros H. apply existsb_exists in H as (x & Hx & Q).
      rewrite forallb_forall in D. specialize (D x Hx).
      apply digit_cases in D. cbn [In] in D. repeat (destruct D as [<- | D]; [discriminate Q|]). destruct D. }
  set (tl := denote (PKw m (s "end") :: rest)) in *.
  assert (Ex : denote (PTx digits :: PGap b :: PKw m (s "end") :: rest) = digits ++ blanks (S b) ++ tl) by reflexivity.
  assert (Etl : tl = recase m (s "end") ++ denote rest) by reflexivity.
  rewrite classify_rendered; [|exact Od| |].
  2:{ rewrite Ex. destruct digits as [|d ds]; [congruence|]. exists d, (ds ++ blanks (S b) ++ tl). split; [reflexivity|].
      cbn [forallb] in D. apply andb_true_iff in D as [D _]. apply digit_cases in D. cbn [In] in D.
      repeat (destruct D as [<- | D]; [reflexivity|]). destruct D. }
  2:{ rewrite Ex. apply ends_nonspace_app. apply ends_nonspace_app. exact E. }
  assert (Re : end_re (digits ++ blanks (S b) ++ tl) = Some e).
  { rewrite (end_re_label digits b tl N D), Etl, (skip_ws_kw m (s "end") _ ltac:(discriminate) eq_refl).
    rewrite <- end_re_kw_line, <- Etl. exact R. }
  assert (Fm : format_re (digits ++ blanks (S b) ++ tl) = false).
  { unfold format_re. change (blanks (S b) ++ tl) with (c_sp :: (blanks b ++ tl)).
    rewrite (take_while_all is_digit digits c_sp (blanks b ++ tl) D eq_refl).
    destruct digits as [|d ds]; [congruence|]. change (c_sp :: (blanks b ++ tl)) with (blanks (S b) ++ tl).
    rewrite ws1_gap, Etl, (skip_ws_kw m (s "end") _ ltac:(discriminate) eq_refl).
    now rewrite (match_ci_conflict' (s "format") m (s "end") _ eq_refl eq_refl). }
  rewrite Ex. change cascade with (firstn 5 cascade ++ br 5 :: skipn 6 cascade).
  rewrite run_cascade_at; [| |reflexivity|].
  - change (br_cond (br 5)) with (CMatch END_RE). cbn [cond_key action key_name]. rewrite Re.
    destruct e; try reflexivity. now rewrite (A eq_refl).
  - destruct digits as [|d ds]; [congruence|]. cbn [forallb] in D. apply andb_true_iff in D as [D _].
    now apply label_line_misses.
  - change (br_cond (br 5)) with (CMatch END_RE). cbn [eval_cond re_match]. now rewrite Re.
Qed.

Lemma label_ok_inv digits b : label_ok (Some (digits, b)) = true -> digits <> [] /\ forallb is_digit digits = true.
Proof. cbn [label_ok]. intros H. apply andb_true_iff in H as [N D]. split; [now destruct digits|exact D]. Qed.

Lemma classify_end_lab c lab m rest e :
  label_ok lab = true ->
  Forall piece_ok (PKw m (s "end") :: rest) -> ends_nonspace (denote (PKw m (s "end") :: rest)) ->
  end_re (denote (PKw m (s "end") :: rest)) = Some e ->
  (e = EndAssociate -> has_calls (cx_kind c) = true) ->
  classify c (denote (label_pieces lab ++ PKw m (s "end") :: rest)) = Fired (s "END_RE") (SEnd e).
Proof.
  intros L O E R A. destruct lab as [[digits b]|]; cbn [label_pieces app].
  - destruct (label_ok_inv digits b L) as [N D]. now apply classify_end_label.
  - now apply classify_end.
Qed.

Theorem d_end c lab m : label_ok lab = true -> classify c (render (XEnd lab m)) = Fired (s "END_RE") (SEnd EndPlain).
Proof.
  intros L. unfold render. cbn [pieces_of].
  apply classify_end_lab; [exact L|piece_oks|now apply kw_line_ends| |discriminate].
  rewrite denote1. cbn [piece_text]. rewrite <- (app_nil_r (recase m (s "end"))), end_re_kw_line. unfold end_core.
  now rewrite (match_ci_kw m (s "end") [] eq_refl).
Qed.

Definition eword_kw (w : eword) : str :=
  match w with
  | EModule => s "module" | ESubmodule => s "submodule" | ESubroutine => s "subroutine" | EFunction => s "function"
  | EProcedure => s "procedure" | EProgram => s "program" | EType => s "type" | EInterface => s "interface"
  | EEnum => s "enum" | EBlockData => s "block"
  end.

Lemma end_alts_hit n m k tail e : forallb is_lower k = true ->
  forallb (fun a => conflict (fst (fst a)) k) (firstn n end_alts_table) = true ->
  nth_error end_alts_table n = Some (k, None, e) -> end_tail tail = true ->
  end_alts end_alts_table (recase m k ++ tail) = Some e.
Proof.
  intros L C N T.
  assert (E : end_alts_table = firstn n end_alts_table ++ (k, None, e) :: skipn (S n) end_alts_table).
  { clear - N. revert n N. generalize end_alts_table. induction l as [|x l IH]; intros [|n] N; try discriminate.
    - injection N as ->. reflexivity.
    - cbn [firstn skipn app]. f_equal. now apply IH. }
  rewrite E at 1. rewrite (end_alts_skip _ _ m k tail L C). cbn [end_alts]. unfold end_alt.
  now rewrite (match_ci_kw m k tail L), T.
Qed.

Lemma end_alts_unit m w tail : w <> EBlockData -> end_tail tail = true ->
  end_alts end_alts_table (recase m (eword_kw w) ++ tail) = Some EndPlain.
Proof.
  intros N T.
  destruct w; try congruence; cbn [eword_kw].
  - now apply (end_alts_hit 0 m _ tail EndPlain).
  - now apply (end_alts_hit 1 m _ tail EndPlain).
  - now apply (end_alts_hit 2 m _ tail EndPlain).
  - now apply (end_alts_hit 3 m _ tail EndPlain).
  - now apply (end_alts_hit 4 m _ tail EndPlain).
  - now apply (end_alts_hit 5 m _ tail EndPlain).
  - now apply (end_alts_hit 6 m _ tail EndPlain).
  - now apply (end_alts_hit 7 m _ tail EndPlain).
  - now apply (end_alts_hit 8 m _ tail EndPlain).
Qed.

Lemma end_alts_blockdata m bd m' tail : end_tail tail = true ->
  end_alts end_alts_table (recase m (s "block") ++ blanks bd ++ recase m' (s "data") ++ tail) = Some EndPlain.
Proof.
  intros T.
  change end_alts_table with (firstn 9 end_alts_table ++ skipn 9 end_alts_table).
  rewrite (end_alts_skip (firstn 9 end_alts_table) (skipn 9 end_alts_table) m (s "block") _ eq_refl eq_refl).
  cbn [end_alts_table skipn]. cbn [end_alts]. unfold end_alt at 1.
  rewrite (match_ci_kw m (s "block") _ eq_refl).
  rewrite skip_ws_bl, (skip_ws_kw m' (s "data") _ ltac:(discriminate) eq_refl).
  rewrite (match_ci_kw m' (s "data") tail eq_refl). now rewrite T.
Qed.

Theorem d_end_unit c lab m1 m2 b bd w name : label_ok lab = true -> opt_name_ok name ->
  classify c (render (XEndUnit lab m1 m2 b bd w name)) = Fired (s "END_RE") (SEnd EndPlain).
Proof.
  intros L Hn. unfold render. cbn [pieces_of].
  change ([PKw m1 (s "end"); PBl b] ++ eword_pieces m2 bd w ++ opt_name name)
    with (PKw m1 (s "end") :: PBl b :: eword_pieces m2 bd w ++ opt_name name).
  pose proof (opt_name_pieces name Hn) as On.
  assert (Ow : Forall piece_ok (eword_pieces m2 bd w)) by (destruct w; piece_oks).
  apply classify_end_lab; [exact L|constructor; [reflexivity|]; constructor; [exact I|]; now apply Forall_app| | |discriminate].
  - change (PKw m1 (s "end") :: PBl b :: eword_pieces m2 bd w ++ opt_name name)
      with ([PKw m1 (s "end"); PBl b] ++ eword_pieces m2 bd w ++ opt_name name).
    rewrite app_assoc.
    destruct w; cbn [eword_pieces];
      try (match goal with |- ends_nonspace (denote ((?pre ++ [?p]) ++ _)) =>
                           apply (ends_opt_name pre p name); [reflexivity|discriminate|exact Hn] end).
    change ([PKw m1 (s "end"); PBl b] ++ [PKw m2 (s "block"); PBl bd; PKw (skipn 5 m2) (s "data")])
      with ([PKw m1 (s "end"); PBl b; PKw m2 (s "block"); PBl bd] ++ [PKw (skipn 5 m2) (s "data")]).
    apply ends_opt_name; [reflexivity|discriminate|exact Hn].
  - rewrite !denote_cons, denote_app. cbn [piece_text].
    pose proof (end_tail_opt_name name (opt_name_ident name Hn)) as T.
    destruct w; cbn [eword_pieces];
      try (rewrite denote1; cbn [piece_text];
           rewrite end_re_kw; [|intros E; apply app_eq_nil in E as [E _]; revert E; now apply kw_nonempty
                                |now apply skip_ws_kw];
           match goal with |- end_alts _ (recase _ ?k ++ _) = _ =>
             first [ exact (end_alts_unit m2 EModule _ ltac:(discriminate) T)
                   | exact (end_alts_unit m2 ESubmodule _ ltac:(discriminate) T)
                   | exact (end_alts_unit m2 ESubroutine _ ltac:(discriminate) T)
                   | exact (end_alts_unit m2 EFunction _ ltac:(discriminate) T)
                   | exact (end_alts_unit m2 EProcedure _ ltac:(discriminate) T)
                   | exact (end_alts_unit m2 EProgram _ ltac:(discriminate) T)
                   | exact (end_alts_unit m2 EType _ ltac:(discriminate) T)
                   | exact (end_alts_unit m2 EInterface _ ltac:(discriminate) T)
                   | exact (end_alts_unit m2 EEnum _ ltac:(discriminate) T) ] end).
    rewrite !denote_cons. cbn [piece_text denote fold_right]. rewrite app_nil_r.
    rewrite <- !app_assoc.
    rewrite end_re_kw; [now apply end_alts_blockdata| |now apply skip_ws_kw].
    intros E. apply app_eq_nil in E as [E _]. revert E. now apply kw_nonempty.
Qed.

Lemma match_ci_all w : forall x, match_ci w x = Some [] -> lower x = w.
Proof.
  induction w as [|a w IH]; intros x H; [now injection H as ->|].
  destruct x as [|b x]; [discriminate|]. cbn [match_ci] in H. destruct (Ascii.eqb a (lower_ch b)) eqn:E; [|discriminate].
  apply Ascii.eqb_eq in E. cbn [lower map]. rewrite <- E. f_equal. now apply IH.
Qed.
Lemma end_tail_words r : r <> [] -> forallb is_word r = true -> end_tail r = false.
Proof.
  intros N W. destruct r as [|c r]; [congruence|]. cbn in W. apply andb_true_iff in W as [Wc _].
  unfold end_tail. now rewrite (ws1_nonspace c r (word_nospace c Wc)).
Qed.

Theorem d_end_block c m1 m2 b name : opt_name_ok name ->
  match name with Some (_, n) => seqb (lower n) (s "data") = false | None => True end ->
  classify c (render (XEndBlock m1 m2 b name)) = Fired (s "END_RE") (SEnd EndBlock).
Proof.
  intros Hn Hd. unfold render. cbn [pieces_of app].
  pose proof (opt_name_pieces name Hn) as On.
  apply classify_end; [repeat (constructor; [try reflexivity; exact I|]); exact On| | |discriminate].
  - change (PKw m1 (s "end") :: PBl b :: PKw m2 (s "block") :: opt_name name)
      with (([PKw m1 (s "end"); PBl b] ++ [PKw m2 (s "block")]) ++ opt_name name).
    apply ends_opt_name; [reflexivity|discriminate|exact Hn].
  - rewrite !denote_cons. cbn [piece_text].
    pose proof (end_tail_opt_name name (opt_name_ident name Hn)) as T.
    rewrite end_re_kw; [| |now apply skip_ws_kw].
    2:{ intros E. apply app_eq_nil in E as [E _]. revert E. now apply kw_nonempty. }
    change end_alts_table with (firstn 9 end_alts_table ++ skipn 9 end_alts_table).
    rewrite (end_alts_skip (firstn 9 end_alts_table) (skipn 9 end_alts_table) m2 (s "block") _ eq_refl eq_refl).
    cbn [end_alts_table skipn]. cbn [end_alts]. unfold end_alt.
    rewrite (match_ci_kw m2 (s "block") _ eq_refl).
    assert (E : match_ci (s "data") (skip_ws (denote (opt_name name))) = None \/
                exists r2, match_ci (s "data") (skip_ws (denote (opt_name name))) = Some r2 /\ end_tail r2 = false).
    { destruct name as [[b' n]|]; [|left; reflexivity].
      cbn [opt_name denote fold_right piece_text]. rewrite app_nil_r.
      rewrite (skip_ws_bl (S b')), (skip_ws_alnum n (ident_starts n (plain_ident_ok n Hn))).
      destruct (match_ci (s "data") n) as [r2|] eqn:E; [|now left]. right.
      exists r2. split; [reflexivity|].
      pose proof (match_ci_words _ _ _ E (ident_words n (plain_ident_ok n Hn))) as W.
      apply end_tail_words; [|exact W]. intros ->. apply match_ci_all in E.
      rewrite E in Hd. discriminate Hd. }
    destruct E as [E|(r2 & E & E2)]; rewrite E; [|rewrite E2]; now rewrite T.
Qed.

Theorem d_end_associate c m1 m2 b name : opt_name_ok name -> has_calls (cx_kind c) = true ->
  classify c (render (XEndAssociate m1 m2 b name)) = Fired (s "END_RE") (SEnd EndAssociate).
Proof.
  intros Hn Hc. unfold render. cbn [pieces_of app].
  pose proof (opt_name_pieces name Hn) as On.
  apply classify_end; [repeat (constructor; [try reflexivity; exact I|]); exact On| | |intros _; exact Hc].
  - change (PKw m1 (s "end") :: PBl b :: PKw m2 (s "associate") :: opt_name name)
      with (([PKw m1 (s "end"); PBl b] ++ [PKw m2 (s "associate")]) ++ opt_name name).
    apply ends_opt_name; [reflexivity|discriminate|exact Hn].
  - rewrite !denote_cons. cbn [piece_text].
    pose proof (end_tail_opt_name name (opt_name_ident name Hn)) as T.
    rewrite end_re_kw; [| |now apply skip_ws_kw].
    2:{ intros E. apply app_eq_nil in E as [E _]. revert E. now apply kw_nonempty. }
    now apply (end_alts_hit 11 m2 (s "associate") _ EndAssociate).
Qed.

(* ------------------------------------------------------------------ PROGRAM, USE *)
Lemma opt_name_shape name : opt_name_ok name ->
  fnw (opt_name name) = true /\ stop_ok (opt_name name) /\ label_safe (opt_name name) = true.
Proof.
  destruct name as [[b n]|]; intros H; repeat split.
  cbn [opt_name stop_ok piece_text]. apply ident_starts. now apply plain_ident_ok.
Qed.

Theorem d_program c m name : opt_name_ok name ->
  classify c (render (XProgram m name)) = Fired (s "PROGRAM_RE") (SUnit KProgram (name_or_empty name)).
Proof.
  intros Hn. unfold render. cbn [pieces_of].
  pose proof (opt_name_pieces name Hn) as On. destruct (opt_name_shape name Hn) as (F & St & LS).
  assert (R : unit_name_re (s "program") (denote (PKw m (s "program") :: opt_name name))
              = Some (match name with Some (_, n) => Some n | None => None end)).
  { rewrite denote_cons. cbn [piece_text]. destruct name as [[b n]|].
    - cbn [opt_name denote fold_right piece_text]. rewrite app_nil_r.
      apply unit_name_kw; [reflexivity|now apply plain_ident_ok].
    - cbn [opt_name denote fold_right]. unfold unit_name_re. now rewrite (match_ci_kw m (s "program") [] eq_refl). }
  apply (classify_kw c m (s "program") (opt_name name) [BLOCK_RE; ASSOCIATE_RE] 12);
    [constructor; [reflexivity|exact On]|discriminate| |now apply known_labels|reflexivity|reflexivity|reflexivity| | ].
  - change (PKw m (s "program") :: opt_name name) with (([] ++ [PKw m (s "program")]) ++ opt_name name).
    apply ends_opt_name; [reflexivity|discriminate|exact Hn].
  - change (br_cond (br 12)) with (CMatch PROGRAM_RE). cbn [eval_cond re_match]. now rewrite R.
  - change (br_cond (br 12)) with (CMatch PROGRAM_RE). cbn [cond_key action key_name]. rewrite R.
    now destruct name as [[b n]|].
Qed.

Lemma ident_free x : plain_ident x = true -> piece_free w_function (PId x) /\ piece_free w_subroutine (PId x).
Proof. intros H. destruct (plain_ident_free x H). split; assumption. Qed.

Theorem d_use c m b name : plain_ident name = true ->
  classify c (render (XUse m b name)) = Fired (s "USE_RE") (SLeaf LUse [name]).
Proof.
  intros P. pose proof (plain_ident_ok name P) as I. destruct (ident_free name P) as [F1 F2].
  unfold render. cbn [pieces_of].
  assert (O : Forall piece_ok [PKw m (s "use"); PGap b; PId name]) by piece_oks.
  assert (R : use_re (denote [PKw m (s "use"); PGap b; PId name]) = Some name).
  { cbn [denote fold_right piece_text]. rewrite app_nil_r. unfold use_re.
    rewrite (match_ci_kw m (s "use") _ eq_refl), (skip_ws_bl (S b)), (skip_ws_alnum name (ident_starts name I)).
    unfold use_nature. rewrite (lit_alnum c_comma name eq_refl (ident_starts name I)).
    rewrite (prefix_dcolon_alnum name (ident_starts name I)), ws1_gap, (skip_ws_alnum name (ident_starts name I)).
    unfold use_name. now rewrite (word_ident_end name I). }
  apply (classify_kw c m (s "use") [PGap b; PId name] ([BLOCK_RE; ASSOCIATE_RE] ++ [SUBROUTINE_RE; FUNCTION_RE]) 23);
    [exact O|discriminate| | |reflexivity|reflexivity|reflexivity| | ].
  - apply (denote_ends [PKw m (s "use"); PGap b] (PId name)); [exact I|exact Logic.I].
  - apply known_app.
    + apply known_labels; try reflexivity; try discriminate. cbn [stop_ok piece_text]. now apply ident_starts.
    + apply known_procs; try exact O; try reflexivity; repeat constructor; assumption.
  - change (br_cond (br 23)) with (CMatch USE_RE). cbn [eval_cond re_match]. now rewrite R.
  - change (br_cond (br 23)) with (CMatch USE_RE). cbn [cond_key action key_name]. now rewrite R.
Qed.

(* ------------------------------------------------------------------ BLOCK DATA, MODULE PROCEDURE *)
Lemma take_while_ident_end x : ident_ok x = true -> take_while is_word x = (x, []).
Proof. intros I. apply take_while_end. now apply ident_words. Qed.

Theorem d_block_data c m1 m2 b1 name : opt_name_ok name ->
  classify c (render (XBlockData m1 m2 b1 name)) = Fired (s "BLOCK_DATA_RE") (SUnit KBlockData (name_or_empty name)).
Proof.
  intros Hn. unfold render. cbn [pieces_of app].
  pose proof (opt_name_pieces name Hn) as On.
  assert (R : block_data_re (denote (PKw m1 (s "block") :: PBl b1 :: PKw m2 (s "data") :: opt_name name))
              = Some (name_or_empty name)).
  { rewrite !denote_cons. cbn [piece_text]. unfold block_data_re.
    rewrite (match_ci_kw m1 (s "block") _ eq_refl), skip_ws_bl, (skip_ws_kw m2 (s "data") _ ltac:(discriminate) eq_refl).
    rewrite (match_ci_kw m2 (s "data") _ eq_refl).
    destruct name as [[b n]|]; cbn [opt_name denote fold_right piece_text name_or_empty]; [|reflexivity].
    rewrite app_nil_r, (skip_ws_bl (S b)), (skip_ws_alnum n (ident_starts n (plain_ident_ok n Hn))).
    now rewrite (take_while_ident_end n (plain_ident_ok n Hn)). }
  apply (classify_kw c m1 (s "block") (PBl b1 :: PKw m2 (s "data") :: opt_name name) [] 7);
    [repeat (constructor; [try reflexivity; exact I|]); exact On|discriminate| |apply known_nil
     |reflexivity|reflexivity|reflexivity| | ].
  - change (PKw m1 (s "block") :: PBl b1 :: PKw m2 (s "data") :: opt_name name)
      with (([PKw m1 (s "block"); PBl b1] ++ [PKw m2 (s "data")]) ++ opt_name name).
    apply ends_opt_name; [reflexivity|discriminate|exact Hn].
  - change (br_cond (br 7)) with (CMatch BLOCK_DATA_RE). cbn [eval_cond re_match]. now rewrite R.
  - change (br_cond (br 7)) with (CMatch BLOCK_DATA_RE). cbn [cond_key action key_name]. now rewrite R.
Qed.

Lemma modproc_tail_gap wm b y : starts_alnum y -> modproc_tail wm (blanks (S b) ++ y) = Some (wm, y).
Proof.
  intros Sy. unfold modproc_tail. rewrite (skip_ws_bl (S b)), (skip_ws_alnum y Sy).
  rewrite (prefix_dcolon_alnum y Sy). change (blanks (S b) ++ y) with (c_sp :: (blanks b ++ y)). cbn iota.
  replace (is_space c_sp) with true by reflexivity. now rewrite (starts_word_alnum y Sy).
Qed.
Lemma modproc_tail_dcolon wm c1 c2 y : starts_alnum y ->
  modproc_tail wm (blanks c1 ++ c_colon :: c_colon :: blanks c2 ++ y) = Some (wm, y).
Proof.
  intros Sy. unfold modproc_tail. rewrite (skip_ws_bl_ch c1 c_colon _ eq_refl). rewrite prefix_dcolon.
  cbn [skipn]. rewrite skip_ws_bl, (skip_ws_alnum y Sy). now rewrite (starts_word_alnum y Sy).
Qed.

Lemma modproc_kw m1 m2 b1 y : 
  modproc_re (recase m1 (s "module") ++ blanks (S b1) ++ recase m2 (s "procedure") ++ y) = modproc_tail true y.
Proof.
  unfold modproc_re. rewrite (match_ci_kw m1 (s "module") _ eq_refl), ws1_gap.
  rewrite (skip_ws_kw m2 (s "procedure") _ ltac:(discriminate) eq_refl).
  now rewrite (match_ci_kw m2 (s "procedure") _ eq_refl).
Qed.

Lemma modproc_excluded : forallb (branch_excluded (s "module") []) (firstn 6 cascade) = true.
Proof. reflexivity. Qed.

Theorem d_modproc_impl c m1 m2 b1 b2 name : plain_ident name = true -> is_interface (cx_kind c) = false ->
  classify c (render (XModProcImpl m1 m2 b1 b2 name)) = Fired (s "MODPROC_RE") (SModProcImpl name).
Proof.
  intros P Hk. pose proof (plain_ident_ok name P) as I. unfold render. cbn [pieces_of].
  assert (R : modproc_re (denote [PKw m1 (s "module"); PGap b1; PKw m2 (s "procedure"); PGap b2; PId name])
              = Some (true, name)).
  { cbn [denote fold_right piece_text]. rewrite app_nil_r, modproc_kw. apply modproc_tail_gap. now apply ident_starts. }
  apply (classify_kw c m1 (s "module") [PGap b1; PKw m2 (s "procedure"); PGap b2; PId name] [] 6);
    [piece_oks|discriminate| |apply known_nil|reflexivity|exact modproc_excluded|reflexivity| | ].
  - apply (denote_ends [PKw m1 (s "module"); PGap b1; PKw m2 (s "procedure"); PGap b2] (PId name)); [exact I|exact Logic.I].
  - change (br_cond (br 6)) with
        (CAnd (CMatch MODPROC_RE) (COr (CGroup MODPROC_RE (s "module")) (CIsInstance (s "FortranInterface")))).
    cbn [eval_cond re_match]. rewrite R. reflexivity.
  - change (br_cond (br 6)) with
        (CAnd (CMatch MODPROC_RE) (COr (CGroup MODPROC_RE (s "module")) (CIsInstance (s "FortranInterface")))).
    cbn [cond_key action key_name]. now rewrite R, Hk.
Qed.

Definition idents_ok (names : list str) : Prop := Forall (fun x => plain_ident x = true) names.
Lemma idents_ok_ident names : idents_ok names -> Forall (fun x => ident_ok x = true) names.
Proof. intros H. eapply Forall_impl; [|exact H]. intros x. apply plain_ident_ok. Qed.
Lemma idents_pieces b names : idents_ok names -> Forall piece_ok (comma_ids b names).
Proof.
  intros H. apply Forall_comma_ids; [split; reflexivity|exact I|]. eapply Forall_impl; [|exact H].
  intros x. cbn. apply plain_ident_ok.
Qed.
Lemma idents_free w b names : (w = w_function \/ w = w_subroutine) -> idents_ok names ->
  Forall (piece_free w) (comma_ids b names).
Proof.
  intros Hw H. apply Forall_comma_ids; [exact I|exact I|]. eapply Forall_impl; [|exact H].
  intros x Px. destruct (ident_free x Px) as [F1 F2]. now destruct Hw as [-> | ->].
Qed.

Theorem d_modproc_ref c m1 m2 b1 dc b2 b3 names : names <> [] -> idents_ok names -> is_interface (cx_kind c) = true ->
  classify c (render (XModProcRef m1 m2 b1 dc b2 b3 names)) = Fired (s "MODPROC_RE") (SLeaf LModProcRef names).
Proof.
  intros N Hn Hk. pose proof (idents_ok_ident names Hn) as In. unfold render. cbn [pieces_of app].
  set (rest := PGap b1 :: PKw m2 (s "procedure") :: dc_or_gap dc b2 ++ comma_ids b3 names).
  assert (R : modproc_re (denote (PKw m1 (s "module") :: rest)) = Some (true, denote (comma_ids b3 names))).
  { unfold rest. rewrite !denote_cons, denote_app. cbn [piece_text]. rewrite modproc_kw.
    pose proof (comma_ids_starts b3 names [] N In) as Sn. rewrite app_nil_r in Sn.
    destruct dc as [[c1 c2]|]; cbn [dc_or_gap dcolon app denote fold_right piece_text].
    - rewrite app_nil_r. rewrite <- !app_assoc. cbn [app]. now apply modproc_tail_dcolon.
    - rewrite app_nil_r. now apply modproc_tail_gap. }
  apply (classify_kw c m1 (s "module") rest [] 6);
    [|discriminate| |apply known_nil|reflexivity|exact modproc_excluded|reflexivity| | ].
  - unfold rest. repeat (constructor; [try reflexivity; exact I|]). apply Forall_app. split; [|now apply idents_pieces].
    destruct dc as [[c1 c2]|]; piece_oks; split; reflexivity.
  - unfold rest.
    change (PKw m1 (s "module") :: PGap b1 :: PKw m2 (s "procedure") :: dc_or_gap dc b2 ++ comma_ids b3 names)
      with (([PKw m1 (s "module"); PGap b1; PKw m2 (s "procedure")] ++ dc_or_gap dc b2) ++ comma_ids b3 names).
    now apply comma_ids_ends.
  - change (br_cond (br 6)) with
        (CAnd (CMatch MODPROC_RE) (COr (CGroup MODPROC_RE (s "module")) (CIsInstance (s "FortranInterface")))).
    cbn [eval_cond re_match]. rewrite R. reflexivity.
  - change (br_cond (br 6)) with
        (CAnd (CMatch MODPROC_RE) (COr (CGroup MODPROC_RE (s "module")) (CIsInstance (s "FortranInterface")))).
    cbn [cond_key action key_name]. rewrite R, Hk. now rewrite (comma_pieces_ids0 b3 names N In).
Qed.

(* ------------------------------------------------------------------ SUBMODULE *)
Theorem d_submodule c m b1 b2 b3 anc parent name :
  plain_ident name = true -> plain_ident anc = true ->
  match parent with Some p => plain_ident p = true | None => True end ->
  classify c (render (XSubmodule m b1 b2 b3 anc parent name)) = Fired (s "SUBMODULE_RE") (SUnit KSubmodule name).
Proof.
  intros Pn Pa Pp. pose proof (plain_ident_ok name Pn) as In. pose proof (plain_ident_ok anc Pa) as Ia.
  unfold render. cbn [pieces_of app].
  set (par := match parent with Some p => [PBl b2; PCh c_colon; PBl b2; PId p] | None => [] end).
  set (rest := PBl b1 :: PCh c_lpar :: PBl b2 :: PId anc :: par ++ [PBl b2; PCh c_rpar; PBl b3; PId name]).
  assert (Opar : Forall piece_ok par).
  { unfold par. destruct parent as [p|]; piece_oks; try (split; reflexivity); try (now apply plain_ident_ok). }
  assert (R : submodule_re (denote (PKw m (s "submodule") :: rest)) = Some name).
  { unfold rest. rewrite !denote_cons, denote_app. cbn [piece_text app]. unfold submodule_re.
    rewrite (match_ci_kw m (s "submodule") _ eq_refl), (lit_bl_same b1 c_lpar _ eq_refl), skip_ws_bl.
    rewrite (skip_ws_ident anc _ Ia).
    assert (Tail : forall y, lit c_rpar (skip_ws (blanks b2 ++ c_rpar :: y)) = Some y)
      by (intros y; now apply lit_bl_same).
    cbn [denote fold_right piece_text]. rewrite app_nil_r. cbn [app].
    destruct parent as [p|]; unfold par; cbn [denote fold_right piece_text app]; norm_app.
    - rewrite (word_ident anc _ Ia) by (now apply first_nonword_bl).
      rewrite (skip_ws_bl_ch b2 c_colon _ eq_refl), lit_same, skip_ws_bl.
      pose proof (plain_ident_ok p Pp) as Ip. rewrite (skip_ws_ident p _ Ip).
      rewrite (word_ident p _ Ip) by (now apply first_nonword_bl).
      rewrite (skip_ws_bl_ch b2 c_rpar _ eq_refl), lit_same, skip_ws_bl.
      rewrite (skip_ws_alnum name (ident_starts name In)), (word_ident_end name In). reflexivity.
    - rewrite (word_ident anc _ Ia) by (now apply first_nonword_bl).
      rewrite (skip_ws_bl_ch b2 c_rpar _ eq_refl).
      replace (lit c_colon (c_rpar :: blanks b3 ++ name)) with (@None str) by reflexivity.
      rewrite lit_same, skip_ws_bl.
      rewrite (skip_ws_alnum name (ident_starts name In)), (word_ident_end name In). reflexivity. }
  apply (classify_kw c m (s "submodule") rest [BLOCK_RE; ASSOCIATE_RE] 11);
    [|discriminate| | |reflexivity|reflexivity|reflexivity| | ].
  - unfold rest. repeat (constructor; [try reflexivity; try exact I; try (split; reflexivity); try exact Ia|]).
    apply Forall_app. split; [exact Opar|]. piece_oks; try (split; reflexivity).
  - unfold rest.
    replace (PKw m (s "submodule") :: PBl b1 :: PCh c_lpar :: PBl b2 :: PId anc :: par ++ [PBl b2; PCh c_rpar; PBl b3; PId name])
      with (([PKw m (s "submodule"); PBl b1; PCh c_lpar; PBl b2; PId anc] ++ par ++ [PBl b2; PCh c_rpar; PBl b3]) ++ [PId name])
      by (cbn [app]; rewrite <- !app_assoc; reflexivity).
    apply denote_ends; [exact In|exact I].
  - apply known_labels; try reflexivity; discriminate.
  - change (br_cond (br 11)) with (CMatch SUBMODULE_RE). cbn [eval_cond re_match]. now rewrite R.
  - change (br_cond (br 11)) with (CMatch SUBMODULE_RE). cbn [cond_key action key_name]. now rewrite R.
Qed.

(* ------------------------------------------------------------------ INTERFACE, ABSTRACT INTERFACE, ENUM *)
Lemma kw_free m k : has_sub w_function k = false -> has_sub w_subroutine k = false ->
  piece_free w_function (PKw m k) /\ piece_free w_subroutine (PKw m k).
Proof. intros A B. split; assumption. Qed.

Theorem d_abstract c m1 m2 b : cx_level0 c = true ->
  classify c (render (XAbstract m1 m2 b)) = Fired (s "INTERFACE_RE") (SIface true []).
Proof.
  intros L0. unfold render. cbn [pieces_of].
  assert (O : Forall piece_ok [PKw m1 (s "abstract"); PGap b; PKw m2 (s "interface")]) by piece_oks.
  assert (R : interface_re (denote [PKw m1 (s "abstract"); PGap b; PKw m2 (s "interface")]) = Some (true, [])).
  { cbn [denote fold_right piece_text]. rewrite app_nil_r. unfold interface_re.
    rewrite (match_ci_kw m1 (s "abstract") _ eq_refl), ws1_gap.
    rewrite <- (app_nil_r (recase m2 (s "interface"))).
    rewrite (skip_ws_kw m2 (s "interface") [] ltac:(discriminate) eq_refl).
    now rewrite (match_ci_kw m2 (s "interface") [] eq_refl). }
  apply (classify_kw c m1 (s "abstract") [PGap b; PKw m2 (s "interface")]
                     ([BLOCK_RE; ASSOCIATE_RE] ++ [SUBROUTINE_RE; FUNCTION_RE]) 17);
    [exact O|discriminate| | |reflexivity|reflexivity|reflexivity| | ].
  - apply (denote_ends [PKw m1 (s "abstract"); PGap b] (PKw m2 (s "interface"))); [reflexivity|discriminate].
  - apply known_app.
    + apply known_labels; try reflexivity; try discriminate. cbn [stop_ok piece_text].
      apply kw_starts; [discriminate|reflexivity].
    + apply known_procs; try exact O; try reflexivity; repeat constructor.
  - change (br_cond (br 17)) with (CAnd (CMatch INTERFACE_RE) CLevel0). cbn [eval_cond re_match]. now rewrite R, L0.
  - change (br_cond (br 17)) with (CAnd (CMatch INTERFACE_RE) CLevel0). cbn [cond_key action key_name]. now rewrite R.
Qed.

Lemma generic_ok_inv n : generic_ok n = true ->
  starts_alnum n /\ ends_nonspace n /\ piece_ok (PTx n) /\ piece_free w_function (PTx n) /\ piece_free w_subroutine (PTx n).
Proof.
  unfold generic_ok. destruct n as [|c r]; [discriminate|]. intros H.
  apply andb_true_iff in H as [H Hf]. apply andb_true_iff in H as [H Hp]. apply andb_true_iff in H as [H Hq].
  apply andb_true_iff in H as [Ha Hl]. apply negb_true_iff in Hl, Hq.
  unfold no_proc_word in Hf. apply andb_true_iff in Hf as [F1 F2]. apply negb_true_iff in F1, F2.
  repeat split; try assumption.
  - exists c, r. split; [reflexivity|now apply alpha_word].
  - destruct (exists_last (l := c :: r) ltac:(discriminate)) as (t & d & E). exists t, d. split; [exact E|].
    rewrite E in Hl. now rewrite last_last in Hl.
Qed.

Theorem d_interface c m name :
  match name with Some (_, n) => generic_ok n = true | None => True end -> cx_level0 c = true ->
  classify c (render (XInterface m name)) = Fired (s "INTERFACE_RE") (SIface false (name_or_empty name)).
Proof.
  intros Hn L0. unfold render. cbn [pieces_of].
  set (rest := match name with Some (b, n) => [PGap b; PTx n] | None => [] end).
  assert (O : Forall piece_ok (PKw m (s "interface") :: rest)).
  { unfold rest. destruct name as [[b n]|]; piece_oks. now destruct (generic_ok_inv n Hn) as (_ & _ & P & _). }
  assert (R : interface_re (denote (PKw m (s "interface") :: rest)) = Some (false, name_or_empty name)).
  { rewrite denote_cons. cbn [piece_text]. unfold interface_re.
    rewrite (match_ci_conflict (s "abstract") m (s "interface") _ eq_refl eq_refl).
    rewrite (match_ci_kw m (s "interface") _ eq_refl).
    unfold rest. destruct name as [[b n]|]; cbn [denote fold_right piece_text name_or_empty]; [|reflexivity].
    rewrite app_nil_r. destruct (generic_ok_inv n Hn) as (Sn & _).
    change (blanks (S b) ++ n) with (c_sp :: (blanks b ++ n)). cbn iota.
    change (c_sp :: (blanks b ++ n)) with (blanks (S b) ++ n). rewrite ws1_gap, (skip_ws_alnum n Sn).
    now rewrite (starts_word_alnum n Sn). }
  apply (classify_kw c m (s "interface") rest ([BLOCK_RE; ASSOCIATE_RE] ++ [SUBROUTINE_RE; FUNCTION_RE]) 17);
    [exact O|discriminate| | |reflexivity|reflexivity|reflexivity| | ].
  - unfold rest. destruct name as [[b n]|].
    + destruct (generic_ok_inv n Hn) as (_ & En & Pn & _).
      apply (denote_ends [PKw m (s "interface"); PGap b] (PTx n)); [exact Pn|exact En].
    + now apply kw_line_ends.
  - apply known_app.
    + unfold rest. destruct name as [[b n]|]; apply known_labels; try reflexivity; try discriminate; try exact I.
      cbn [stop_ok piece_text]. now destruct (generic_ok_inv n Hn) as (Sn & _).
    + apply known_procs; try exact O; unfold rest; destruct name as [[b n]|]; try reflexivity;
        repeat constructor; now destruct (generic_ok_inv n Hn) as (_ & _ & _ & F1 & F2).
  - change (br_cond (br 17)) with (CAnd (CMatch INTERFACE_RE) CLevel0). cbn [eval_cond re_match]. now rewrite R, L0.
  - change (br_cond (br 17)) with (CAnd (CMatch INTERFACE_RE) CLevel0). cbn [cond_key action key_name]. rewrite R.
    cbn iota beta. reflexivity.
Qed.

Lemma rstrip_ends x : ends_nonspace x -> rstrip x = x.
Proof.
  intros (t & d & -> & H). apply rstrip_id. intros d' _. now rewrite last_last.
Qed.
Lemma last_is_ends c x : last_is c (x ++ [c]) = true.
Proof. unfold last_is. rewrite rev_app_distr. cbn. now rewrite Ascii.eqb_refl. Qed.

Theorem d_enum c m1 m2 m3 b1 b2 b3 b4 : cx_level0 c = true ->
  classify c (render (XEnum m1 m2 m3 b1 b2 b3 b4)) = Fired (s "ENUM_RE") (SUnit KEnum []).
Proof.
  intros L0. unfold render. cbn [pieces_of].
  set (rest := [PBl b1; PCh c_comma; PBl b2; PKw m2 (s "bind"); PBl b3; PCh c_lpar; PBl b4;
                PKw m3 (s "c"); PBl b4; PCh c_rpar]).
  assert (O : Forall piece_ok (PKw m1 (s "enum") :: rest)) by (unfold rest; piece_oks; split; reflexivity).
  assert (R : enum_re (denote (PKw m1 (s "enum") :: rest)) = true).
  { unfold rest. cbn [denote fold_right piece_text]. norm_app. unfold enum_re.
    rewrite (match_ci_kw m1 (s "enum") _ eq_refl), (lit_bl_same b1 c_comma _ eq_refl), skip_ws_bl.
    rewrite (skip_ws_kw m2 (s "bind") _ ltac:(discriminate) eq_refl), (match_ci_kw m2 (s "bind") _ eq_refl).
    rewrite (lit_bl_same b3 c_lpar _ eq_refl).
    replace (blanks b4 ++ recase m3 (s "c") ++ blanks b4 ++ [c_rpar])
      with ((blanks b4 ++ recase m3 (s "c") ++ blanks b4) ++ [c_rpar]) by (now rewrite <- !app_assoc).
    rewrite rstrip_ends; [apply last_is_ends|]. eexists _, c_rpar. split; reflexivity. }
  apply (classify_kw c m1 (s "enum") rest ([BLOCK_RE; ASSOCIATE_RE] ++ [SUBROUTINE_RE; FUNCTION_RE]) 18);
    [exact O|discriminate| | |reflexivity|reflexivity|reflexivity| | ].
  - unfold rest.
    apply (denote_ends [PKw m1 (s "enum"); PBl b1; PCh c_comma; PBl b2; PKw m2 (s "bind"); PBl b3; PCh c_lpar; PBl b4;
                        PKw m3 (s "c"); PBl b4] (PCh c_rpar)); [split; reflexivity|reflexivity].
  - apply known_app.
    + apply known_labels; try reflexivity; discriminate.
    + apply known_procs; try exact O; try reflexivity; unfold rest; repeat constructor.
  - change (br_cond (br 18)) with (CAnd (CMatch ENUM_RE) CLevel0). cbn [eval_cond re_match]. now rewrite R, L0.
  - reflexivity.
Qed.

(* ------------------------------------------------------------------ TYPE *)
Lemma type_name_ident name : ident_ok name = true -> type_name_part name = Some name.
Proof.
  intros I. unfold type_name_part.
  assert (E : (match match_ci (s "is") name with
               | Some r => match skip_ws r with c :: _ => Ascii.eqb c c_lpar | [] => false end
               | None => false
               end) = false).
  { destruct (match_ci (s "is") name) as [r|] eqn:E; [|reflexivity].
    pose proof (match_ci_words _ _ _ E (ident_words name I)) as W.
    destruct r as [|c r]; [reflexivity|]. cbn in W. apply andb_true_iff in W as [Wc _].
    cbn [skip_ws]. rewrite (word_nospace c Wc). destruct (Ascii.eqb c c_lpar) eqn:Q; [|reflexivity].
    apply Ascii.eqb_eq in Q. subst c. discriminate. }
  rewrite E, (word_ident_end name I). reflexivity.
Qed.

Lemma type_first_alt_punct b d y : is_word d = false -> is_space d = false ->
  Ascii.eqb "i"%char (lower_ch d) = false ->
  (match ws1 (blanks b ++ d :: y) with Some r1 => type_name_part r1 | None => None end) = None.
Proof.
  intros Wd Sd Id. destruct b as [|b].
  - cbn [blanks repeat app]. now rewrite (ws1_nonspace d y Sd).
  - rewrite ws1_gap. cbn [skip_ws]. rewrite Sd. unfold type_name_part.
    change (s "is") with ("i"%char :: s "s"). rewrite (match_ci_head_ne "i"%char (s "s") d y Id).
    unfold word. cbn [take_while]. now rewrite Wd.
Qed.

Lemma nocolon_head v : existsb (Ascii.eqb c_colon) v = false -> prefix (s "::") v = false /\ prefix (s ":") v = false.
Proof.
  destruct v as [|c v]; [split; reflexivity|]. cbn [existsb]. intros H. apply orb_false_iff in H as [H _].
  change (prefix (s "::") (c :: v)) with (if Ascii.eqb ":"%char c then prefix (s ":") v else false).
  change (prefix (s ":") (c :: v)) with (if Ascii.eqb ":"%char c then prefix [] v else false).
  change c_colon with ":"%char in H. now rewrite H.
Qed.
Lemma dcolon_last_nocolon v : existsb (Ascii.eqb c_colon) v = false -> dcolon_last v = None.
Proof.
  induction v as [|c v IH]; intros H; [reflexivity|].
  destruct (nocolon_head (c :: v) H) as [P _]. cbn [existsb] in H. apply orb_false_iff in H as [_ H].
  cbn [dcolon_last]. now rewrite (IH H), P.
Qed.
Lemma dcolon_last_found u v n : existsb (Ascii.eqb c_colon) v = false -> type_name_part (skip_ws v) = Some n ->
  dcolon_last (u ++ c_colon :: c_colon :: v) = Some n.
Proof.
  intros Hv Hn. induction u as [|c u IH].
  - cbn [app dcolon_last]. rewrite (dcolon_last_nocolon v Hv). destruct (nocolon_head v Hv) as [_ P1].
    replace (prefix (s "::") (c_colon :: v)) with (prefix (s ":") v) by reflexivity. rewrite P1.
    rewrite prefix_dcolon. cbn [skipn]. exact Hn.
  - cbn [app dcolon_last]. now rewrite IH.
Qed.
Lemma words_nocolon x : forallb is_word x = true -> existsb (Ascii.eqb c_colon) x = false.
Proof.
  intros W. apply Bool.not_true_is_false. intros E. apply existsb_exists in E as (c & Hc & Q).
  apply Ascii.eqb_eq in Q. subst c. rewrite forallb_forall in W. specialize (W _ Hc). discriminate.
Qed.
Lemma blanks_nocolon n : existsb (Ascii.eqb c_colon) (blanks n) = false.
Proof. induction n; [reflexivity|exact IHn]. Qed.

(* attribute lists *)
Definition tattr_ok (a : tattr) : Prop := match a with TExtends b => plain_ident b = true | _ => True end.
Lemma tattr_pieces_ok m a : tattr_ok a -> Forall piece_ok (tattr_pieces m a).
Proof. destruct a; intros H; piece_oks; try (split; reflexivity). now apply plain_ident_ok. Qed.
Lemma tattr_pieces_free m a : tattr_ok a ->
  Forall (piece_free w_function) (tattr_pieces m a) /\ Forall (piece_free w_subroutine) (tattr_pieces m a).
Proof.
  destruct a; intros H; split; repeat constructor; try reflexivity; now destruct (ident_free base H).
Qed.

Definition attrs_pieces b1 (attrs : list (tattr * list bool)) : list piece :=
  sep_by [PCh c_comma; PBl b1] (map (fun am => tattr_pieces (snd am) (fst am)) attrs).

Lemma attrs_pieces_Forall (P : piece -> Prop) b1 attrs :
  P (PCh c_comma) -> P (PBl b1) -> Forall (fun am => Forall P (tattr_pieces (snd am) (fst am))) attrs ->
  Forall P (attrs_pieces b1 attrs).
Proof.
  intros Hc Hb H. unfold attrs_pieces. apply Forall_sep_by; [repeat constructor; assumption|].
  induction H; constructor; assumption.
Qed.

Lemma sep_ok_tattr w m a tail : (w = w_function \/ w = w_subroutine) ->
  starts_sep w tail = true -> sep_ok w tail = true -> sep_ok w (tattr_pieces m a ++ tail) = true.
Proof.
  intros Hw S1 S2. destruct a; cbn [tattr_pieces app sep_ok starts_sep]; rewrite ?S1, ?S2;
    destruct Hw as [-> | ->]; reflexivity.
Qed.
Lemma starts_sep_comma w y : (w = w_function \/ w = w_subroutine) -> starts_sep w (PCh c_comma :: y) = true.
Proof. intros [-> | ->]; reflexivity. Qed.
Lemma sep_ok_attrs w b1 attrs tail : (w = w_function \/ w = w_subroutine) -> attrs <> [] ->
  starts_sep w tail = true -> sep_ok w tail = true -> sep_ok w (attrs_pieces b1 attrs ++ tail) = true.
Proof.
  intros Hw N S1 S2. unfold attrs_pieces. induction attrs as [|[a m] l IH]; [congruence|].
  destruct l as [|am' l'].
  - change (sep_by [PCh c_comma; PBl b1] (map (fun am => tattr_pieces (snd am) (fst am)) [(a, m)]))
      with (tattr_pieces m a).
    now apply sep_ok_tattr.
  - change (sep_by [PCh c_comma; PBl b1] (map (fun am => tattr_pieces (snd am) (fst am)) ((a, m) :: am' :: l')))
      with (tattr_pieces m a ++ [PCh c_comma; PBl b1]
            ++ sep_by [PCh c_comma; PBl b1] (map (fun am => tattr_pieces (snd am) (fst am)) (am' :: l'))).
    rewrite <- !app_assoc. apply sep_ok_tattr; [exact Hw|now apply starts_sep_comma|].
    cbn [app sep_ok]. rewrite (IH ltac:(discriminate)). destruct Hw as [-> | ->]; reflexivity.
Qed.

Lemma type_common c m rest name :
  Forall piece_ok (PKw m (s "type") :: rest) -> ends_nonspace (denote (PKw m (s "type") :: rest)) ->
  fnw rest = true -> stop_ok rest -> label_safe rest = true ->
  sep_ok w_function (PKw m (s "type") :: rest) = true -> sep_ok w_subroutine (PKw m (s "type") :: rest) = true ->
  Forall (piece_free w_function) rest -> Forall (piece_free w_subroutine) rest ->
  type_re (denote (PKw m (s "type") :: rest)) = Some name -> cx_level0 c = true ->
  classify c (denote (PKw m (s "type") :: rest)) = Fired (s "TYPE_RE") (SUnit KType name).
Proof.
  intros O E F St LS S1 S2 F1 F2 R L0.
  apply (classify_kw c m (s "type") rest ([BLOCK_RE; ASSOCIATE_RE] ++ [SUBROUTINE_RE; FUNCTION_RE]) 16);
    [exact O|discriminate|exact E| |reflexivity|reflexivity|reflexivity| | ].
  - apply known_app; [apply known_labels; try assumption; try reflexivity; discriminate|].
    apply known_procs; try assumption; constructor; try reflexivity; assumption.
  - change (br_cond (br 16)) with (CAnd (CMatch TYPE_RE) CLevel0). cbn [eval_cond re_match]. now rewrite R, L0.
  - change (br_cond (br 16)) with (CAnd (CMatch TYPE_RE) CLevel0). cbn [cond_key action key_name]. now rewrite R.
Qed.

Definition tform_ok (f : tform) : Prop :=
  match f with TAttrs _ _ _ _ attrs => Forall (fun am => tattr_ok (fst am)) attrs | _ => True end.

Theorem d_type c m f name : plain_ident name = true -> tform_ok f -> cx_level0 c = true ->
  classify c (render (XType m f name)) = Fired (s "TYPE_RE") (SUnit KType name).
Proof.
  intros P Hf L0. pose proof (plain_ident_ok name P) as I. destruct (ident_free name P) as [Fn1 Fn2].
  pose proof (type_name_ident name I) as TN. pose proof (ident_starts name I) as Sn.
  unfold render. cbn [pieces_of].
  destruct f as [b|b1 b2|b0 b1 b2 b3 attrs]; cbn [tform_pieces dcolon app].
  - (* type NAME *)
    apply type_common; try reflexivity; try assumption.
    + piece_oks.
    + apply (denote_ends [PKw m (s "type"); PGap b] (PId name)); [exact I|exact Logic.I].
    + repeat constructor; assumption.
    + repeat constructor; assumption.
    + cbn [denote fold_right piece_text]. rewrite app_nil_r. unfold type_re.
      rewrite (match_ci_kw m (s "type") _ eq_refl), ws1_gap, (skip_ws_alnum name Sn). now rewrite TN.
  - (* type :: NAME *)
    apply type_common; try reflexivity; try assumption.
    + piece_oks; split; reflexivity.
    + apply (denote_ends [PKw m (s "type"); PBl b1; PCh c_colon; PCh c_colon; PBl b2] (PId name)); [exact I|exact Logic.I].
    + repeat constructor; assumption.
    + repeat constructor; assumption.
    + cbn [denote fold_right piece_text]. norm_app. unfold type_re.
      rewrite (match_ci_kw m (s "type") _ eq_refl).
      rewrite (type_first_alt_punct b1 c_colon _ eq_refl eq_refl eq_refl).
      rewrite (skip_ws_bl_ch b1 c_colon _ eq_refl).
      replace (Ascii.eqb c_colon c_comma) with false by reflexivity. rewrite prefix_dcolon. cbn [skipn].
      now rewrite skip_ws_bl, (skip_ws_alnum name Sn).
  - (* type, ATTRS :: NAME *)
    cbn [tform_ok] in Hf. fold (attrs_pieces b1 attrs).
    set (tail := [PBl b2; PCh c_colon; PCh c_colon; PBl b3; PId name]).
    assert (Oa : Forall piece_ok (attrs_pieces b1 attrs)).
    { apply attrs_pieces_Forall; [split; reflexivity|exact Logic.I|].
      eapply Forall_impl; [|exact Hf]. intros [a m']. apply tattr_pieces_ok. }
    assert (Fa : Forall (piece_free w_function) (attrs_pieces b1 attrs) /\
                 Forall (piece_free w_subroutine) (attrs_pieces b1 attrs)).
    { split; (apply attrs_pieces_Forall; [exact Logic.I|exact Logic.I|]);
        (eapply Forall_impl; [|exact Hf]); intros [a m'] Ha; now destruct (tattr_pieces_free m' a Ha). }
    assert (Sa : forall w, w = w_function \/ w = w_subroutine -> sep_ok w (attrs_pieces b1 attrs ++ tail) = true).
    { intros w Hw. destruct attrs as [|am l].
      - unfold tail. destruct Hw as [-> | ->]; reflexivity.
      - apply sep_ok_attrs; try exact Hw; try discriminate; unfold tail; destruct Hw as [-> | ->]; reflexivity. }
    rewrite <- app_assoc. cbn [app]. fold tail.
    apply type_common; try assumption.
    + repeat (constructor; [try reflexivity; try exact Logic.I; try (split; reflexivity)|]).
      apply (proj2 (Forall_app piece_ok (attrs_pieces b1 attrs) tail)). split; [exact Oa|]. unfold tail. piece_oks; split; reflexivity.
    + replace (PKw m (s "type") :: PBl b0 :: PCh c_comma :: PBl b1 :: attrs_pieces b1 attrs ++ tail)
        with (([PKw m (s "type"); PBl b0; PCh c_comma; PBl b1] ++ attrs_pieces b1 attrs
               ++ [PBl b2; PCh c_colon; PCh c_colon; PBl b3]) ++ [PId name])
        by (unfold tail; cbn [app]; rewrite <- !app_assoc; reflexivity).
      apply denote_ends; [exact I|exact Logic.I].
    + reflexivity.
    + reflexivity.
    + reflexivity.
    + cbn [sep_ok starts_sep]. now rewrite (Sa w_function (or_introl eq_refl)).
    + cbn [sep_ok starts_sep]. now rewrite (Sa w_subroutine (or_intror eq_refl)).
    + repeat (constructor; [exact Logic.I|]).
      apply (proj2 (Forall_app (piece_free w_function) (attrs_pieces b1 attrs) tail)). split; [exact (proj1 Fa)|].
      unfold tail. repeat constructor; assumption.
    + repeat (constructor; [exact Logic.I|]).
      apply (proj2 (Forall_app (piece_free w_subroutine) (attrs_pieces b1 attrs) tail)). split; [exact (proj2 Fa)|].
      unfold tail. repeat constructor; assumption.
    + rewrite !denote_cons, denote_app. unfold tail. cbn [denote fold_right piece_text]. norm_app. unfold type_re.
      rewrite (match_ci_kw m (s "type") _ eq_refl).
      rewrite (type_first_alt_punct b0 c_comma _ eq_refl eq_refl eq_refl).
      rewrite (skip_ws_bl_ch b0 c_comma _ eq_refl).
      replace (Ascii.eqb c_comma c_comma) with true by reflexivity.
      change (c_comma :: blanks b1 ++ denote (attrs_pieces b1 attrs) ++ blanks b2 ++ c_colon :: c_colon :: blanks b3 ++ name)
        with ((c_comma :: blanks b1 ++ denote (attrs_pieces b1 attrs) ++ blanks b2) ++ c_colon :: c_colon :: blanks b3 ++ name)
        || (replace (c_comma :: blanks b1 ++ denote (attrs_pieces b1 attrs) ++ blanks b2 ++ c_colon :: c_colon :: blanks b3 ++ name)
             with ((c_comma :: blanks b1 ++ denote (attrs_pieces b1 attrs) ++ blanks b2) ++ c_colon :: c_colon :: blanks b3 ++ name)
             by (cbn [app]; rewrite <- !app_assoc; reflexivity)).
      apply dcolon_last_found.
      * rewrite existsb_app, blanks_nocolon. apply words_nocolon. now apply ident_words.
      * now rewrite skip_ws_bl, (skip_ws_alnum name Sn).
Qed.

(* ------------------------------------------------------------------ NAMELIST, COMMON, FINAL *)
Lemma known_std m k rest :
  Forall piece_ok (PKw m k :: rest) -> k <> [] -> fnw rest = true -> stop_ok rest -> label_safe rest = true ->
  kw_label_ok k = true ->
  sep_ok w_function (PKw m k :: rest) = true -> sep_ok w_subroutine (PKw m k :: rest) = true ->
  Forall (piece_free w_function) (PKw m k :: rest) -> Forall (piece_free w_subroutine) (PKw m k :: rest) ->
  forall r, re_in r ([BLOCK_RE; ASSOCIATE_RE] ++ [SUBROUTINE_RE; FUNCTION_RE]) = true ->
            re_match r (denote (PKw m k :: rest)) = No.
Proof.
  intros O N F St LS KL S1 S2 F1 F2. inversion O as [|? ? Ok _]; subst. cbn [piece_ok] in Ok.
  apply known_app; [now apply known_labels|now apply known_procs].
Qed.

Lemma idents_starts b names y : names <> [] -> idents_ok names -> starts_alnum (denote (comma_ids b names) ++ y).
Proof. intros N H. apply comma_ids_starts; [exact N|now apply idents_ok_ident]. Qed.

Theorem d_namelist c m b1 b2 b3 name vars : plain_ident name = true -> vars <> [] -> idents_ok vars ->
  classify c (render (XNamelist m b1 b2 b3 name vars)) = Fired (s "NAMELIST_RE") (SLeaf LNamelist [name]).
Proof.
  intros P N Hv. pose proof (plain_ident_ok name P) as I. destruct (ident_free name P) as [Fn1 Fn2].
  unfold render. cbn [pieces_of app].
  set (pre := [PBl b1; PCh c_slash; PId name; PCh c_slash; PBl b2]).
  change (PBl b1 :: PCh c_slash :: PId name :: PCh c_slash :: PBl b2 :: comma_ids b3 vars) with (pre ++ comma_ids b3 vars).
  assert (O : Forall piece_ok (PKw m (s "namelist") :: pre ++ comma_ids b3 vars)).
  { constructor; [reflexivity|]. apply Forall_app. split; [unfold pre; piece_oks; split; reflexivity|now apply idents_pieces]. }
  assert (R : namelist_re (denote (PKw m (s "namelist") :: pre ++ comma_ids b3 vars)) = Some name).
  { rewrite denote_cons, denote_app. unfold pre. cbn [denote fold_right piece_text]. norm_app. unfold namelist_re.
    rewrite (match_ci_kw m (s "namelist") _ eq_refl), (lit_bl_same b1 c_slash _ eq_refl).
    rewrite (word_ident name _ I) by reflexivity. rewrite lit_same, skip_ws_bl.
    pose proof (idents_starts b3 vars [] N Hv) as Sv. rewrite app_nil_r in Sv.
    now rewrite (skip_ws_alnum _ Sv), (starts_word_alnum _ Sv). }
  apply (classify_kw c m (s "namelist") (pre ++ comma_ids b3 vars) ([BLOCK_RE; ASSOCIATE_RE] ++ [SUBROUTINE_RE; FUNCTION_RE]) 14);
    [exact O|discriminate| | |reflexivity|reflexivity|reflexivity| | ].
  - change (PKw m (s "namelist") :: pre ++ comma_ids b3 vars) with ((PKw m (s "namelist") :: pre) ++ comma_ids b3 vars).
    apply comma_ids_ends; [exact N|now apply idents_ok_ident].
  - apply known_std; try exact O; try reflexivity; try discriminate.
    + change (PKw m (s "namelist") :: pre ++ comma_ids b3 vars) with ((PKw m (s "namelist") :: pre) ++ comma_ids b3 vars).
      apply sep_closed_ok; [reflexivity|now apply sep_ok_comma_ids].
    + change (PKw m (s "namelist") :: pre ++ comma_ids b3 vars) with ((PKw m (s "namelist") :: pre) ++ comma_ids b3 vars).
      apply sep_closed_ok; [reflexivity|now apply sep_ok_comma_ids].
    + constructor; [reflexivity|]. apply Forall_app. split; [unfold pre; repeat constructor; assumption|].
      apply idents_free; [now left|exact Hv].
    + constructor; [reflexivity|]. apply Forall_app. split; [unfold pre; repeat constructor; assumption|].
      apply idents_free; [now right|exact Hv].
  - change (br_cond (br 14)) with (CMatch NAMELIST_RE). cbn [eval_cond re_match]. now rewrite R.
  - change (br_cond (br 14)) with (CMatch NAMELIST_RE). cbn [cond_key action key_name]. now rewrite R.
Qed.

Theorem d_common c m b1 b2 b3 b4 name vars : plain_ident name = true -> vars <> [] -> idents_ok vars ->
  classify c (render (XCommon m b1 b2 b3 b4 name vars)) = Fired (s "COMMON_RE") (SLeaf LCommon [name]).
Proof.
  intros P N Hv. pose proof (plain_ident_ok name P) as I. destruct (ident_free name P) as [Fn1 Fn2].
  unfold render. cbn [pieces_of app].
  set (pre := [PBl b1; PCh c_slash; PBl b2; PId name; PBl b2; PCh c_slash; PBl b3]).
  change (PBl b1 :: PCh c_slash :: PBl b2 :: PId name :: PBl b2 :: PCh c_slash :: PBl b3 :: comma_ids b4 vars)
    with (pre ++ comma_ids b4 vars).
  assert (O : Forall piece_ok (PKw m (s "common") :: pre ++ comma_ids b4 vars)).
  { constructor; [reflexivity|]. apply Forall_app. split; [unfold pre; piece_oks; split; reflexivity|now apply idents_pieces]. }
  pose proof (idents_starts b4 vars [] N Hv) as Sv. rewrite app_nil_r in Sv.
  assert (R : common_re (denote (PKw m (s "common") :: pre ++ comma_ids b4 vars))
              = Some (Some name, denote (comma_ids b4 vars))).
  { rewrite denote_cons, denote_app. unfold pre. cbn [denote fold_right piece_text]. norm_app. unfold common_re.
    rewrite (match_ci_kw m (s "common") _ eq_refl), (lit_bl_same b1 c_slash _ eq_refl), skip_ws_bl.
    rewrite (skip_ws_ident name _ I). rewrite (word_ident name _ I) by (now apply first_nonword_bl).
    rewrite (lit_bl_same b2 c_slash _ eq_refl), skip_ws_bl.
    now rewrite (skip_ws_alnum _ Sv), (starts_word_alnum _ Sv). }
  apply (classify_kw c m (s "common") (pre ++ comma_ids b4 vars) ([BLOCK_RE; ASSOCIATE_RE] ++ [SUBROUTINE_RE; FUNCTION_RE]) 20);
    [exact O|discriminate| | |reflexivity|reflexivity|reflexivity| | ].
  - change (PKw m (s "common") :: pre ++ comma_ids b4 vars) with ((PKw m (s "common") :: pre) ++ comma_ids b4 vars).
    apply comma_ids_ends; [exact N|now apply idents_ok_ident].
  - apply known_std; try exact O; try reflexivity; try discriminate.
    + change (PKw m (s "common") :: pre ++ comma_ids b4 vars) with ((PKw m (s "common") :: pre) ++ comma_ids b4 vars).
      apply sep_closed_ok; [reflexivity|now apply sep_ok_comma_ids].
    + change (PKw m (s "common") :: pre ++ comma_ids b4 vars) with ((PKw m (s "common") :: pre) ++ comma_ids b4 vars).
      apply sep_closed_ok; [reflexivity|now apply sep_ok_comma_ids].
    + constructor; [reflexivity|]. apply Forall_app. split; [unfold pre; repeat constructor; assumption|].
      apply idents_free; [now left|exact Hv].
    + constructor; [reflexivity|]. apply Forall_app. split; [unfold pre; repeat constructor; assumption|].
      apply idents_free; [now right|exact Hv].
  - change (br_cond (br 20)) with (CMatch COMMON_RE). cbn [eval_cond re_match]. now rewrite R.
  - change (br_cond (br 20)) with (CMatch COMMON_RE). cbn [cond_key action key_name]. rewrite R.
    now rewrite (ids_no_char c_slash b4 vars eq_refl eq_refl eq_refl (idents_ok_ident vars Hv)).
Qed.

Lemma comma_ids_head b x l : exists Y, comma_ids b (x :: l) = PId x :: Y.
Proof. destruct l; [exists []; reflexivity|eexists; now rewrite comma_ids_cons by discriminate]. Qed.

Theorem d_final c m dc b1 b2 names : names <> [] -> idents_ok names -> cx_incontains c = true ->
  classify c (render (XFinal m dc b1 b2 names)) = Fired (s "FINAL_RE") (SLeaf LFinal names).
Proof.
  intros N Hv Hc. unfold render. cbn [pieces_of].
  set (pre := dc_or_gap dc b1).
  assert (Opre : Forall piece_ok pre) by (unfold pre; destruct dc as [[c1 c2]|]; piece_oks; split; reflexivity).
  assert (O : Forall piece_ok (PKw m (s "final") :: pre ++ comma_ids b2 names)).
  { constructor; [reflexivity|]. apply Forall_app. split; [exact Opre|now apply idents_pieces]. }
  pose proof (idents_starts b2 names [] N Hv) as Sv. rewrite app_nil_r in Sv.
  assert (R : final_re (denote (PKw m (s "final") :: pre ++ comma_ids b2 names)) = Some (denote (comma_ids b2 names))).
  { rewrite denote_cons, denote_app. unfold pre. cbn [piece_text]. unfold final_re.
    rewrite (match_ci_kw m (s "final") _ eq_refl).
    destruct dc as [[c1 c2]|]; cbn [dc_or_gap dcolon app denote fold_right piece_text]; norm_app.
    - rewrite (skip_ws_bl_ch c1 c_colon _ eq_refl), prefix_dcolon. cbn [skipn].
      now rewrite skip_ws_bl, (skip_ws_alnum _ Sv), (starts_word_alnum _ Sv).
    - rewrite (skip_ws_bl (S b1)), (skip_ws_alnum _ Sv), (prefix_dcolon_alnum _ Sv), ws1_gap, (skip_ws_alnum _ Sv).
      now rewrite (starts_word_alnum _ Sv). }
  assert (H0 : exists x Y, comma_ids b2 names = PId x :: Y /\ ident_ok x = true).
  { destruct names as [|x l]; [congruence|]. destruct (comma_ids_head b2 x l) as (Y & E). exists x, Y. split; [exact E|].
    pose proof (idents_ok_ident _ Hv) as H. now inversion H. }
  destruct H0 as (x & Y & EY & Ix).
  apply (classify_kw c m (s "final") (pre ++ comma_ids b2 names) ([BLOCK_RE; ASSOCIATE_RE] ++ [SUBROUTINE_RE; FUNCTION_RE]) 21);
    [exact O|discriminate| | |reflexivity|reflexivity|reflexivity| | ].
  - change (PKw m (s "final") :: pre ++ comma_ids b2 names) with ((PKw m (s "final") :: pre) ++ comma_ids b2 names).
    apply comma_ids_ends; [exact N|now apply idents_ok_ident].
  - apply known_std; try exact O; try discriminate; try reflexivity.
    + rewrite EY. unfold pre. destruct dc as [[c1 c2]|]; reflexivity.
    + rewrite EY. unfold pre. destruct dc as [[c1 c2]|]; cbn [dc_or_gap dcolon app stop_ok piece_text]; [reflexivity|now apply ident_starts].
    + rewrite EY. unfold pre. destruct dc as [[c1 c2]|]; reflexivity.
    + change (PKw m (s "final") :: pre ++ comma_ids b2 names) with ((PKw m (s "final") :: pre) ++ comma_ids b2 names).
      apply sep_closed_ok; [unfold pre; destruct dc as [[c1 c2]|]; reflexivity|now apply sep_ok_comma_ids].
    + change (PKw m (s "final") :: pre ++ comma_ids b2 names) with ((PKw m (s "final") :: pre) ++ comma_ids b2 names).
      apply sep_closed_ok; [unfold pre; destruct dc as [[c1 c2]|]; reflexivity|now apply sep_ok_comma_ids].
    + constructor; [reflexivity|]. apply Forall_app. split; [unfold pre; destruct dc as [[c1 c2]|]; repeat constructor|].
      apply idents_free; [now left|exact Hv].
    + constructor; [reflexivity|]. apply Forall_app. split; [unfold pre; destruct dc as [[c1 c2]|]; repeat constructor|].
      apply idents_free; [now right|exact Hv].
  - change (br_cond (br 21)) with (CAnd (CMatch FINAL_RE) CInContains). cbn [eval_cond re_match]. now rewrite R, Hc.
  - change (br_cond (br 21)) with (CAnd (CMatch FINAL_RE) CInContains). cbn [cond_key action key_name]. rewrite R.
    now rewrite (comma_pieces_ids0 b2 names N (idents_ok_ident names Hv)).
Qed.

(* ------------------------------------------------------------------ statements that declare nothing *)
Theorem d_implicit_none c m1 m2 b : classify c (render (XImplicitNone m1 m2 b)) = Fired (s "tail") SNoop.
Proof.
  unfold render. cbn [pieces_of].
  assert (O : Forall piece_ok [PKw m1 (s "implicit"); PGap b; PKw m2 (s "none")]) by piece_oks.
  apply (classify_kw_tail c m1 (s "implicit") [PGap b; PKw m2 (s "none")]
                          ([BLOCK_RE; ASSOCIATE_RE] ++ [SUBROUTINE_RE; FUNCTION_RE]) 24);
    [exact O|discriminate| | |reflexivity|reflexivity|reflexivity].
  - apply (denote_ends [PKw m1 (s "implicit"); PGap b] (PKw m2 (s "none"))); [reflexivity|discriminate].
  - apply known_std; try exact O; try reflexivity; try discriminate; try (repeat constructor; reflexivity).
    cbn [stop_ok piece_text]. apply kw_starts; [discriminate|reflexivity].
Qed.

Lemma all_ctx (P : ctx -> Prop) :
  (forall k inc l0, P (mkctx k inc l0)) -> forall c, P c.
Proof. intros H [k inc l0]. apply H. Qed.

Theorem d_exec c i : i < length exec_lines -> exists key, classify c (render (XExec i)) = Fired key SNoop.
Proof.
  intros H. unfold render. cbn [pieces_of denote fold_right piece_text]. rewrite app_nil_r.
  revert c. apply all_ctx. intros k inc l0.
  do 11 (destruct i as [|i]; [eexists; destruct k, inc, l0; vm_compute; reflexivity|]).
  cbn in H. lia.
Qed.

(* ------------------------------------------------------------------ BLOCK, ASSOCIATE *)
Lemma label_prefix_kw_line m k rest : k <> [] -> forallb is_lower k = true -> fnw rest = true -> stop_ok rest ->
  label_prefix (denote (PKw m k :: rest)) = match label_after rest with Some r => Some (denote r) | None => None end.
Proof.
  intros N L F St. rewrite denote_cons. cbn [piece_text].
  rewrite (label_prefix_kw m k _ N L (fnw_denote rest F)). now apply lit_colon_after.
Qed.

Theorem d_block c m : classify c (render (XBlock None m)) = Fired (s "BLOCK_RE") SBlock.
Proof.
  unfold render. cbn [pieces_of app].
  assert (R : block_re (denote [PKw m (s "block")]) = true).
  { unfold block_re. rewrite (label_prefix_kw_line m (s "block") [] ltac:(discriminate) eq_refl eq_refl I).
    cbn [label_after]. unfold block_tail. rewrite denote1. cbn [piece_text].
    rewrite <- (app_nil_r (recase m (s "block"))).
    rewrite (skip_ws_kw m (s "block") [] ltac:(discriminate) eq_refl).
    now rewrite (match_ci_kw m (s "block") [] eq_refl). }
  apply (classify_kw c m (s "block") [] [BLOCK_DATA_RE] 8);
    [piece_oks|discriminate|now apply kw_line_ends| |reflexivity|reflexivity|reflexivity| |reflexivity].
  - apply known_one. cbn [re_match]. rewrite denote1. cbn [piece_text]. unfold block_data_re.
    rewrite <- (app_nil_r (recase m (s "block"))). now rewrite (match_ci_kw m (s "block") [] eq_refl).
  - change (br_cond (br 8)) with (CMatch BLOCK_RE). cbn [eval_cond re_match]. now rewrite R.
Qed.

Lemma lstrip_nonspace c y : is_space c = false -> lstrip (c :: y) = c :: y.
Proof. apply lstrip_head. Qed.

Lemma count_arrows_words x : forallb is_word x = true -> count_arrows x = 0.
Proof.
  induction x as [|c x IH]; intros W; [reflexivity|]. cbn in W. apply andb_true_iff in W as [Wc Wx].
  cbn [count_arrows]. destruct x as [|d x']; [reflexivity|].
  replace (Ascii.eqb c c_eq) with false; [cbn [andb]; now apply IH|].
  symmetry. destruct (Ascii.eqb c c_eq) eqn:E; [|reflexivity]. apply Ascii.eqb_eq in E. subst c. discriminate.
Qed.
Lemma depth0_words x y : forallb is_word x = true -> depth0 (x ++ y) 0 = x ++ depth0 y 0.
Proof.
  induction x as [|c x IH]; intros W; [reflexivity|]. cbn in W. apply andb_true_iff in W as [Wc Wx].
  destruct (word_plain c Wc) as (_ & A & B & _). cbn [app depth0]. rewrite A, B. cbn [Nat.eqb]. now rewrite IH.
Qed.
Lemma depth0_words_end x : forallb is_word x = true -> depth0 x 0 = x.
Proof.
  intros W. pose proof (depth0_words x [] W) as H. rewrite app_nil_r in H. rewrite H. cbn [depth0]. apply app_nil_r.
Qed.
Lemma depth0_noparen x : forallb not_paren x = true -> depth0 x 0 = x.
Proof.
  induction x as [|c x IH]; intros H; [reflexivity|]. cbn [forallb] in H. apply andb_true_iff in H as [Hc Hx].
  unfold not_paren in Hc. cbn [depth0].
  destruct (Ascii.eqb c c_lpar); [discriminate|]. destruct (Ascii.eqb c c_rpar); [discriminate|].
  cbn [Nat.eqb]. now rewrite IH.
Qed.
Lemma words_not_paren x : forallb is_word x = true -> forallb not_paren x = true.
Proof.
  intros W. apply forallb_forall. intros c Hc. rewrite forallb_forall in W.
  destruct (word_plain c (W c Hc)) as (_ & A & B & _). unfold not_paren. now rewrite A, B.
Qed.
Lemma paren_split_words_go x : forall cur, forallb is_word x = true ->
  paren_split_go c_comma x 0%Z 0%Z cur = [rev cur ++ x].
Proof.
  induction x as [|c x IH]; intros cur W; [cbn; now rewrite app_nil_r|].
  cbn in W. apply andb_true_iff in W as [Wc Wx].
  destruct (word_plain c Wc) as (_ & A & B & C & D & E & _).
  cbn [paren_split_go]. rewrite A, B, C, D, E. cbn. rewrite (IH (c :: cur) Wx). cbn [rev]. now rewrite <- app_assoc.
Qed.

Theorem d_associate c m b a e : plain_ident a = true -> plain_ident e = true -> has_calls (cx_kind c) = true ->
  classify c (render (XAssociate m b a e)) = Fired (s "ASSOCIATE_RE") SNoop.
Proof.
  intros Pa Pe Hc. pose proof (plain_ident_ok a Pa) as Ia. pose proof (plain_ident_ok e Pe) as Ie.
  unfold render. cbn [pieces_of].
  set (rest := [PBl b; PCh c_lpar; PId a; PCh c_sp; PCh c_eq; PCh c_gt; PCh c_sp; PId e; PCh c_rpar]).
  assert (O : Forall piece_ok (PKw m (s "associate") :: rest)) by (unfold rest; piece_oks; split; reflexivity).
  assert (Lp : label_prefix (denote (PKw m (s "associate") :: rest)) = None).
  { now rewrite (label_prefix_kw_line m (s "associate") rest ltac:(discriminate) eq_refl eq_refl eq_refl). }
  assert (Tx : denote (PKw m (s "associate") :: rest)
               = recase m (s "associate") ++ blanks b ++ c_lpar :: (a ++ s " => " ++ e) ++ [c_rpar]).
  { unfold rest. cbn [denote fold_right piece_text]. norm_app. reflexivity. }
  assert (Rb : block_re (denote (PKw m (s "associate") :: rest)) = false).
  { unfold block_re. rewrite Lp. unfold block_tail. rewrite Tx.
    rewrite (skip_ws_kw m (s "associate") _ ltac:(discriminate) eq_refl).
    now rewrite (match_ci_conflict (s "block") m (s "associate") _ eq_refl eq_refl). }
  assert (Ra : associate_re (denote (PKw m (s "associate") :: rest)) = true).
  { unfold associate_re. rewrite Lp. unfold assoc_tail. rewrite Tx.
    rewrite (skip_ws_kw m (s "associate") _ ltac:(discriminate) eq_refl), (match_ci_kw m (s "associate") _ eq_refl).
    rewrite (lit_bl_same b c_lpar _ eq_refl). rewrite rev_app_distr. cbn [rev app].
    rewrite (lstrip_nonspace c_rpar _ eq_refl).
    destruct (rev (a ++ s " => " ++ e)) eqn:E; [|reflexivity].
    apply (f_equal (@length ascii)) in E. rewrite rev_length, app_length in E. cbn in E. lia. }
  assert (Ok : associations_ok (denote (PKw m (s "associate") :: rest)) = true).
  { unfold associations_ok, assoc_text. rewrite Lp, Tx.
    rewrite (skip_ws_kw m (s "associate") _ ltac:(discriminate) eq_refl), (match_ci_kw m (s "associate") _ eq_refl).
    rewrite (lit_bl_same b c_lpar _ eq_refl). rewrite rev_app_distr. cbn [rev app].
    rewrite (lstrip_nonspace c_rpar _ eq_refl), rev_involutive.
    rewrite depth0_noparen
      by (rewrite !forallb_app, (words_not_paren a (ident_words a Ia)), (words_not_paren e (ident_words e Ie)); reflexivity).
    change (s " => " ++ e) with (" "%char :: "="%char :: ">"%char :: " "%char :: e).
    unfold paren_split.
    (* no comma, no parenthesis: one piece *)
    assert (Hs : forall x y cur, forallb is_word x = true -> forallb is_word y = true ->
                 paren_split_go c_comma (x ++ " "%char :: "="%char :: ">"%char :: " "%char :: y) 0%Z 0%Z cur
                 = [rev cur ++ x ++ " "%char :: "="%char :: ">"%char :: " "%char :: y]).
    { clear. induction x as [|c0 x IH]; intros y cur Wx Wy.
      - cbn [app paren_split_go]. cbn. rewrite (paren_split_words_go y _ Wy). cbn [rev]. now rewrite <- !app_assoc.
      - cbn in Wx. apply andb_true_iff in Wx as [Wc Wx]. destruct (word_plain c0 Wc) as (_ & A & B & C & D & E & _).
        cbn [app paren_split_go]. rewrite A, B, C, D, E. cbn. rewrite (IH y (c0 :: cur) Wx Wy). cbn [rev].
        now rewrite <- app_assoc. }
    rewrite (Hs a e [] (ident_words a Ia) (ident_words e Ie)). cbn [rev app forallb]. rewrite andb_true_r.
    (* exactly one arrow *)
    assert (Hc1 : forall x y, forallb is_word x = true -> forallb is_word y = true ->
                  count_arrows (x ++ " "%char :: "="%char :: ">"%char :: " "%char :: y) = 1).
    { clear. induction x as [|c0 x IH]; intros y Wx Wy.
      - cbn [app count_arrows]. cbn. destruct y as [|d y']; [reflexivity|].
        change (count_arrows (" "%char :: d :: y')) with (count_arrows (d :: y')).
        now rewrite (count_arrows_words (d :: y') Wy).
      - cbn in Wx. apply andb_true_iff in Wx as [Wc Wx]. cbn [app count_arrows].
        destruct (x ++ " "%char :: "="%char :: ">"%char :: " "%char :: y) as [|d z] eqn:E.
        + destruct x; discriminate E.
        + replace (Ascii.eqb c0 c_eq) with false; [cbn [andb]; rewrite <- E; now apply IH|].
          symmetry. destruct (Ascii.eqb c0 c_eq) eqn:Q; [|reflexivity]. apply Ascii.eqb_eq in Q. subst c0. discriminate. }
    now rewrite (Hc1 a e (ident_words a Ia) (ident_words e Ie)). }
  apply (classify_kw c m (s "associate") rest [BLOCK_RE] 9);
    [exact O|discriminate| | |reflexivity|reflexivity|reflexivity| | ].
  - unfold rest.
    apply (denote_ends [PKw m (s "associate"); PBl b; PCh c_lpar; PId a; PCh c_sp; PCh c_eq; PCh c_gt; PCh c_sp; PId e]
                       (PCh c_rpar)); [split; reflexivity|reflexivity].
  - apply known_one. cbn [re_match]. now rewrite Rb.
  - change (br_cond (br 9)) with (CMatch ASSOCIATE_RE). cbn [eval_cond re_match]. now rewrite Ra.
  - change (br_cond (br 9)) with (CMatch ASSOCIATE_RE). cbn [cond_key action key_name]. now rewrite Hc, Ok.
Qed.

(* ------------------------------------------------------------------ SUBROUTINE *)
Lemma sub_scan_words_false w : forall b y, forallb is_word w = true ->
  sub_scan false (w ++ blanks (S b) ++ y) = sub_scan true y.
Proof.
  induction w as [|c w IH]; intros b y W.
  - cbn [app]. change (blanks (S b) ++ y) with (c_sp :: (blanks b ++ y)). cbn [sub_scan].
    replace (is_space c_sp) with true by reflexivity.
    induction b as [|b IHb]; [reflexivity|].
    change (blanks (S b) ++ y) with (c_sp :: (blanks b ++ y)). cbn [sub_scan].
    replace (match_ci (s "subroutine") (c_sp :: blanks b ++ y)) with (@None str) by reflexivity.
    replace (is_space c_sp) with true by reflexivity. exact IHb.
  - cbn in W. apply andb_true_iff in W as [Wc Ww]. cbn [app sub_scan]. rewrite (word_nospace c Wc). now apply IH.
Qed.

Lemma sub_scan_kw_true m k b y : k <> [] -> forallb is_lower k = true -> conflict (s "subroutine") k = true ->
  sub_scan true (recase m k ++ blanks (S b) ++ y) = sub_scan true y.
Proof.
  intros N L C. pose proof (kw_words m k L) as W. pose proof (kw_nonempty m k N) as N'.
  pose proof (match_ci_conflict (s "subroutine") m k (blanks (S b) ++ y) L C) as M.
  destruct (recase m k) as [|c r]; [congruence|]. cbn in W. apply andb_true_iff in W as [Wc Wr].
  cbn [app sub_scan]. cbn [app] in M. rewrite M, (word_nospace c Wc). now apply sub_scan_words_false.
Qed.

Lemma pword_conflicts p : conflict (s "subroutine") (pword_text p) = true /\ conflict (s "function") (pword_text p) = true
                          /\ conflict (s "procedure") (pword_text p) = true /\ pword_text p <> []
                          /\ forallb is_lower (pword_text p) = true.
Proof. destruct p; repeat split; try reflexivity; discriminate. Qed.

Lemma sub_scan_prefixes pre y : sub_scan true (denote (prefixes pre) ++ y) = sub_scan true y.
Proof.
  induction pre as [|[[p m] b] pre IH]; [reflexivity|].
  cbn [prefixes flat_map app]. rewrite !denote_cons. cbn [piece_text]. norm_app.
  destruct (pword_conflicts p) as (C & _ & _ & N & L).
  rewrite (sub_scan_kw_true m (pword_text p) b _ N L C). exact IH.
Qed.

Lemma name_backtrack_first ok wrev rest : wrev <> [] -> ok rest = true -> name_backtrack ok wrev rest = Some (rev wrev).
Proof. destruct wrev; [congruence|]. intros _ H. cbn [name_backtrack]. now rewrite H. Qed.

Lemma ids_not_paren b names : Forall (fun x => ident_ok x = true) names ->
  forallb not_paren (denote (comma_ids b names)) = true.
Proof.
  intros H. pose proof (ids_no_char c_lpar b names eq_refl eq_refl eq_refl H) as A.
  pose proof (ids_no_char c_rpar b names eq_refl eq_refl eq_refl H) as B. unfold has_ch in *.
  apply forallb_forall. intros c Hc. unfold not_paren.
  destruct (Ascii.eqb c c_lpar) eqn:E1.
  { apply Ascii.eqb_eq in E1. subst c. exfalso. assert (T : existsb (Ascii.eqb c_lpar) (denote (comma_ids b names)) = true)
      by (apply existsb_exists; exists c_lpar; split; [exact Hc|apply Ascii.eqb_refl]). congruence. }
  destruct (Ascii.eqb c c_rpar) eqn:E2; [|reflexivity].
  apply Ascii.eqb_eq in E2. subst c. exfalso. assert (T : existsb (Ascii.eqb c_rpar) (denote (comma_ids b names)) = true)
      by (apply existsb_exists; exists c_rpar; split; [exact Hc|apply Ascii.eqb_refl]). congruence.
Qed.

(* the text of an argument list *)
Definition args_pieces (args : option (nat * nat * list str)) : list piece :=
  match args with
  | Some (b2, b3, a) => [PBl b2; PCh c_lpar] ++ comma_ids b3 a ++ [PCh c_rpar]
  | None => []
  end.
Definition args_ok (args : option (nat * nat * list str)) : Prop :=
  match args with Some (_, _, a) => idents_ok a | None => True end.

Lemma parens_args b3 a y : Forall (fun x => ident_ok x = true) a ->
  parens (c_lpar :: denote (comma_ids b3 a) ++ c_rpar :: y) = Some y.
Proof.
  intros H. unfold parens. rewrite Ascii.eqb_refl.
  destruct a as [|x l].
  - cbn [comma_ids map sep_by denote fold_right app take_while]. replace (not_paren c_rpar) with false by reflexivity.
    apply lit_same.
  - rewrite (take_while_all not_paren _ c_rpar y (ids_not_paren b3 (x :: l) H) eq_refl). apply lit_same.
Qed.

Lemma args_text_shape args : args_ok args ->
  (denote (args_pieces args) = [] \/ first_nonword (denote (args_pieces args)) = true) /\
  sub_after_name (denote (args_pieces args)) = true /\ sub_bind_ok (denote (args_pieces args)) = true
  /\ after_args (denote (args_pieces args)) = [].
Proof.
  destruct args as [[[b2 b3] a]|]; intros H.
  - cbn [args_pieces app]. rewrite !denote_cons, denote_app. cbn [piece_text denote fold_right]. norm_app.
    pose proof (idents_ok_ident a H) as Ia.
    assert (P : parens (skip_ws (blanks b2 ++ c_lpar :: denote (comma_ids b3 a) ++ [c_rpar])) = Some []).
    { rewrite (skip_ws_bl_ch b2 c_lpar _ eq_refl). now apply parens_args. }
    repeat split.
    + right. now apply first_nonword_bl.
    + unfold sub_after_name. now rewrite P.
    + unfold sub_bind_ok, after_args. now rewrite P.
    + unfold after_args. now rewrite P.
  - cbn [args_pieces denote fold_right]. repeat split; try reflexivity. now left.
Qed.

Lemma sub_tail_rendered b name A : ident_ok name = true ->
  (A = [] \/ first_nonword A = true) -> sub_after_name A = true ->
  sub_tail (blanks (S b) ++ name ++ A) = Some (name, true, A).
Proof.
  intros I FA OK. unfold sub_tail. rewrite ws1_gap, (skip_ws_ident name A I).
  assert (W : word (name ++ A) = Some (name, A)).
  { destruct FA as [-> | FA]; [rewrite app_nil_r; now apply word_ident_end|now apply word_ident]. }
  rewrite W, (name_backtrack_first sub_after_name (rev name) A); [|intros E; apply (f_equal (@rev ascii)) in E;
    rewrite rev_involutive in E; now apply (ident_nonempty name I)|exact OK].
  now rewrite rev_involutive, Nat.eqb_refl.
Qed.

(* a procedure statement begins with a keyword followed by blanks: a prefix or the unit keyword *)
Definition proc_kw (unit_kw k : str) : Prop := k = unit_kw \/ exists p, k = pword_text p.
Lemma prefixes_shape pre m0 k0 b0 tl :
  exists mk kk bk X, prefixes pre ++ PKw m0 k0 :: PGap b0 :: tl = PKw mk kk :: PGap bk :: X /\ proc_kw k0 kk.
Proof.
  destruct pre as [|[[p mp] bp] pre'].
  - exists m0, k0, b0, tl. split; [reflexivity|now left].
  - exists mp, (pword_text p), bp, (prefixes pre' ++ PKw m0 k0 :: PGap b0 :: tl). split; [reflexivity|right; now exists p].
Qed.
Lemma prefixes_cons p m b pre : prefixes ((p, m, b) :: pre) = PKw m (pword_text p) :: PGap b :: prefixes pre.
Proof. reflexivity. Qed.
Lemma prefixes_ok pre : Forall piece_ok (prefixes pre).
Proof.
  induction pre as [|[[p m] b] pre IH]; [constructor|]. cbn [prefixes flat_map app].
  constructor; [destruct p; reflexivity|]. constructor; [exact I|exact IH].
Qed.
Lemma prefixes_free pre : Forall (piece_free w_function) (prefixes pre) /\ Forall (piece_free w_subroutine) (prefixes pre).
Proof.
  induction pre as [|[[p m] b] pre [IH1 IH2]]; [split; constructor|]. cbn [prefixes flat_map app].
  split; (constructor; [destruct p; reflexivity|]); (constructor; [exact I|assumption]).
Qed.
Lemma prefixes_closed w pre : (w = w_function \/ w = w_subroutine) -> sep_closed w (prefixes pre) = true.
Proof.
  intros Hw. induction pre as [|[[p m] b] pre IH]; [reflexivity|]. cbn [prefixes flat_map app sep_closed starts_sep_strict].
  exact IH.
Qed.

Lemma args_pieces_ok args : args_ok args -> Forall piece_ok (args_pieces args).
Proof.
  destruct args as [[[b2 b3] a]|]; intros H; [|constructor]. cbn [args_pieces app].
  constructor; [exact I|]. constructor; [split; reflexivity|]. apply Forall_app. split; [now apply idents_pieces|].
  piece_oks; try (split; reflexivity).
Qed.
Lemma args_pieces_free w args : (w = w_function \/ w = w_subroutine) -> args_ok args ->
  Forall (piece_free w) (args_pieces args) /\ sep_ok w (args_pieces args) = true /\ starts_sep w (args_pieces args) = true.
Proof.
  intros Hw. destruct args as [[[b2 b3] a]|]; intros H; [|repeat split; constructor]. cbn [args_pieces app].
  repeat split.
  - constructor; [exact I|]. constructor; [exact I|]. apply Forall_app. split; [now apply idents_free|repeat constructor].
  - cbn [sep_ok]. change (PCh c_lpar :: comma_ids b3 a ++ [PCh c_rpar]) with ([PCh c_lpar] ++ comma_ids b3 a ++ [PCh c_rpar]).
    assert (E : sep_ok w (comma_ids b3 a ++ [PCh c_rpar]) = true).
    { clear H. induction a as [|x l IH]; [destruct Hw as [-> | ->]; reflexivity|].
      destruct l as [|y l'].
      - cbn [comma_ids map sep_by app sep_ok starts_sep]. destruct Hw as [-> | ->]; reflexivity.
      - rewrite comma_ids_cons by discriminate. cbn [app sep_ok starts_sep]. rewrite IH.
        destruct Hw as [-> | ->]; reflexivity. }
    cbn [app sep_ok]. rewrite E. destruct Hw as [-> | ->]; reflexivity.
  - cbn [starts_sep]. destruct Hw as [-> | ->]; reflexivity.
Qed.
Lemma args_pieces_ends pre0 name args : ident_ok name = true -> args_ok args ->
  ends_nonspace (denote ((pre0 ++ [PId name]) ++ args_pieces args)).
Proof.
  intros I H. destruct args as [[[b2 b3] a]|].
  - cbn [args_pieces]. replace ((pre0 ++ [PId name]) ++ [PBl b2; PCh c_lpar] ++ comma_ids b3 a ++ [PCh c_rpar])
      with (((pre0 ++ [PId name]) ++ [PBl b2; PCh c_lpar] ++ comma_ids b3 a) ++ [PCh c_rpar])
      by (now rewrite <- !app_assoc).
    apply denote_ends; [split; reflexivity|reflexivity].
  - cbn [args_pieces]. rewrite app_nil_r. apply denote_ends; [exact I|exact Logic.I].
Qed.

(* "module" followed by another keyword: neither a module nor a module-procedure statement *)
Lemma module_prefix_facts mp bp mk kk bk X : kk <> [] -> forallb is_lower kk = true -> conflict (s "procedure") kk = true ->
  forall r, re_in r [MODPROC_RE; MODULE_RE] = true ->
            re_match r (denote (PKw mp (s "module") :: PGap bp :: PKw mk kk :: PGap bk :: X)) = No.
Proof.
  intros N L C. change [MODPROC_RE; MODULE_RE] with ([MODPROC_RE] ++ [MODULE_RE]).
  apply known_app; apply known_one; cbn [re_match]; rewrite !denote_cons; cbn [piece_text].
  - unfold modproc_re. rewrite (match_ci_kw mp (s "module") _ eq_refl), ws1_gap, (skip_ws_kw mk kk _ N L).
    now rewrite (match_ci_conflict (s "procedure") mk kk _ L C).
  - unfold unit_name_re. rewrite (match_ci_kw mp (s "module") _ eq_refl), ws1_gap, (skip_ws_kw mk kk _ N L).
    rewrite (word_words (recase mk kk) _ (kw_nonempty mk kk N) (kw_words mk kk L) (first_nonword_gap bk _)).
    change (blanks (S bk) ++ denote X) with (c_sp :: (blanks bk ++ denote X)).
    change (blanks (S bp) ++ recase mk kk ++ c_sp :: blanks bk ++ denote X)
      with (c_sp :: (blanks bp ++ recase mk kk ++ c_sp :: blanks bk ++ denote X)).
    reflexivity.
Qed.

Lemma sub_scan_here x r v : match_ci (s "subroutine") x = Some r -> sub_tail r = Some v -> sub_scan true x = Some v.
Proof. destruct x as [|c x']; [discriminate|]. intros M T. cbn [sub_scan]. now rewrite M, T. Qed.

Definition head_letter (X : list piece) : Prop :=
  match X with
  | PKw _ k :: _ => k <> [] /\ forallb is_lower k = true
  | PId x :: _ => ident_ok x = true
  | _ => False
  end.
Lemma head_letter_labels X b : head_letter X ->
  fnw (PGap b :: X) = true /\ stop_ok (PGap b :: X) /\ label_safe (PGap b :: X) = true.
Proof.
  destruct X as [|[mk k|?|?|x|?|?] X']; cbn [head_letter]; try contradiction; intros H; repeat split.
  - cbn [stop_ok piece_text]. destruct H. now apply kw_starts.
  - cbn [stop_ok piece_text]. now apply ident_starts.
Qed.

(* the keyword a procedure statement begins with excludes the first thirteen branches, except that
   "module" leaves MODPROC_RE and MODULE_RE to be excluded otherwise *)
Lemma proc_kw_excluded unit_kw kk : (unit_kw = s "subroutine" \/ unit_kw = s "function") -> proc_kw unit_kw kk ->
  forallb (branch_excluded kk ([BLOCK_RE; ASSOCIATE_RE] ++ [MODPROC_RE; MODULE_RE])) (firstn 13 cascade) = true
  /\ kw_label_ok kk = true /\ kk <> [] /\ forallb is_lower kk = true
  /\ (kk = s "module" \/ (kw_excludes kk MODPROC_RE = true /\ kw_excludes kk MODULE_RE = true)).
Proof.
  intros Hu [-> | [p ->]].
  - destruct Hu as [-> | ->]; repeat split; try reflexivity; try discriminate; right; split; reflexivity.
  - destruct p; repeat split; try reflexivity; try discriminate; try (right; split; reflexivity). now left.
Qed.

(* a line that begins with a prefix or the unit keyword, followed by blanks and a letter piece *)
Definition next_kw (X : list piece) : Prop :=
  exists mk' kk' bk' X', X = PKw mk' kk' :: PGap bk' :: X' /\ kk' <> [] /\ forallb is_lower kk' = true
                         /\ conflict (s "procedure") kk' = true.

Lemma sub_dispatch c mk kk bk X name A :
  proc_kw (s "subroutine") kk -> Forall piece_ok (PKw mk kk :: PGap bk :: X) -> head_letter X ->
  ends_nonspace (denote (PKw mk kk :: PGap bk :: X)) ->
  (kk = s "module" -> next_kw X) ->
  subroutine_re (denote (PKw mk kk :: PGap bk :: X)) = Some (name, true, A) -> sub_bind_ok A = true ->
  classify c (denote (PKw mk kk :: PGap bk :: X)) = Fired (s "SUBROUTINE_RE") (SUnit KSubroutine name).
Proof.
  intros Hk O HX E Hmod R BA.
  destruct (proc_kw_excluded (s "subroutine") kk (or_introl eq_refl) Hk) as (Ex & KL & Nk & Lk & Hm).
  destruct (head_letter_labels X bk HX) as (F & St & LS).
  apply (classify_kw c mk kk (PGap bk :: X) ([BLOCK_RE; ASSOCIATE_RE] ++ [MODPROC_RE; MODULE_RE]) 13);
    [exact O|exact Nk|exact E| |reflexivity|exact Ex|reflexivity| | ].
  - apply known_app; [now apply known_labels|].
    destruct Hm as [-> | [M1 M2]].
    + destruct (Hmod eq_refl) as (mk' & kk' & bk' & X' & -> & Nk' & Lk' & C'). now apply module_prefix_facts.
    + change [MODPROC_RE; MODULE_RE] with ([MODPROC_RE] ++ [MODULE_RE]).
      apply known_app; apply known_one; now apply kw_excludes_miss.
  - change (br_cond (br 13)) with (CMatch SUBROUTINE_RE). cbn [eval_cond re_match]. now rewrite R.
  - change (br_cond (br 13)) with (CMatch SUBROUTINE_RE). cbn [cond_key action key_name]. now rewrite R, BA.
Qed.

Lemma prefixes_next pre m0 k0 b0 tl : k0 <> [] -> forallb is_lower k0 = true -> conflict (s "procedure") k0 = true ->
  next_kw (prefixes pre ++ PKw m0 k0 :: PGap b0 :: tl) /\ head_letter (prefixes pre ++ PKw m0 k0 :: PGap b0 :: tl).
Proof.
  intros N L C. destruct pre as [|[[p mp] bp] pre'].
  - split; [exists m0, k0, b0, tl; repeat split; assumption|split; assumption].
  - rewrite prefixes_cons. destruct (pword_conflicts p) as (_ & _ & C' & N' & L').
    split; [eexists _, _, _, _; repeat split; eassumption|split; assumption].
Qed.

Theorem d_subroutine c pre m b name args : plain_ident name = true -> args_ok args ->
  classify c (render (XSubroutine pre m b name args)) = Fired (s "SUBROUTINE_RE") (SUnit KSubroutine name).
Proof.
  intros P Ha. pose proof (plain_ident_ok name P) as I. destruct (ident_free name P) as [Fn1 Fn2].
  unfold render. cbn [pieces_of]. fold (args_pieces args).
  set (tl := PId name :: args_pieces args).
  replace (prefixes pre ++ [PKw m (s "subroutine"); PGap b; PId name] ++ args_pieces args)
    with (prefixes pre ++ PKw m (s "subroutine") :: PGap b :: tl) by reflexivity.
  destruct (args_text_shape args Ha) as (FA & SA & BA & AA).
  assert (Otl : Forall piece_ok tl) by (unfold tl; constructor; [exact I|now apply args_pieces_ok]).
  assert (Ofull : Forall piece_ok (prefixes pre ++ PKw m (s "subroutine") :: PGap b :: tl)).
  { apply Forall_app. split; [apply prefixes_ok|]. constructor; [reflexivity|]. constructor; [exact Logic.I|exact Otl]. }
  assert (Efull : ends_nonspace (denote (prefixes pre ++ PKw m (s "subroutine") :: PGap b :: tl))).
  { unfold tl.
    replace (prefixes pre ++ PKw m (s "subroutine") :: PGap b :: PId name :: args_pieces args)
      with (((prefixes pre ++ [PKw m (s "subroutine"); PGap b]) ++ [PId name]) ++ args_pieces args)
      by (now rewrite <- !app_assoc).
    now apply args_pieces_ends. }
  assert (Rcore : sub_scan true (denote (PKw m (s "subroutine") :: PGap b :: tl))
                  = Some (name, true, denote (args_pieces args))).
  { rewrite !denote_cons. unfold tl. rewrite denote_cons. cbn [piece_text].
    apply (sub_scan_here _ _ _ (match_ci_kw m (s "subroutine") _ eq_refl)).
    now apply sub_tail_rendered. }
  destruct pre as [|[[p mp] bp] pre'].
  - (* no prefix *)
    cbn [prefixes flat_map app] in *.
    apply (sub_dispatch c m (s "subroutine") b tl name (denote (args_pieces args)));
      [now left|exact Ofull|exact I|exact Efull|discriminate| |exact BA].
    rewrite !denote_cons. cbn [piece_text].
    pose proof (kw_nonempty m (s "subroutine") ltac:(discriminate)) as N'.
    pose proof (kw_words m (s "subroutine") eq_refl) as W.
    pose proof (match_ci_kw m (s "subroutine") (blanks (S b) ++ denote tl) eq_refl) as M.
    destruct (recase m (s "subroutine")) as [|c0 r0] eqn:Er; [congruence|].
    cbn in W. apply andb_true_iff in W as [Wc Wr].
    cbn [app] in *. unfold subroutine_re. rewrite (word_nospace c0 Wc).
    rewrite (sub_scan_words_false r0 b _ Wr).
    rewrite sub_scan_none.
    + rewrite M. unfold tl. rewrite denote_cons. cbn [piece_text]. now rewrite (sub_tail_rendered b name _ I FA SA).
    + destruct (args_pieces_free w_subroutine args (or_intror eq_refl) Ha) as (F & S1 & S2).
      apply pieces_free; [reflexivity|discriminate| |exact Otl|].
      * unfold tl, w_subroutine in *.
        change (sep_ok (s "subroutine") (PId name :: args_pieces args))
          with (starts_sep (s "subroutine") (args_pieces args) && sep_ok (s "subroutine") (args_pieces args)).
        now rewrite S1, S2.
      * unfold tl. constructor; assumption.
  - (* prefixes *)
    rewrite prefixes_cons in *. cbn [app] in *.
    destruct (prefixes_next pre' m (s "subroutine") b tl ltac:(discriminate) eq_refl eq_refl) as [NK HL].
    apply (sub_dispatch c mp (pword_text p) bp _ name (denote (args_pieces args)));
      [right; now exists p|exact Ofull|exact HL|exact Efull|intros _; exact NK| |exact BA].
    rewrite !denote_cons, denote_app. cbn [piece_text].
    destruct (pword_conflicts p) as (C & _ & _ & N & L).
    pose proof (kw_nonempty mp (pword_text p) N) as N'. pose proof (kw_words mp (pword_text p) L) as W.
    destruct (recase mp (pword_text p)) as [|c0 r0] eqn:Er; [congruence|].
    cbn in W. apply andb_true_iff in W as [Wc Wr].
    cbn [app]. unfold subroutine_re. rewrite (word_nospace c0 Wc).
    rewrite (sub_scan_words_false r0 bp _ Wr), sub_scan_prefixes. now rewrite Rcore.
Qed.

(* ------------------------------------------------------------------ FUNCTION *)
Lemma prefix_app_r w a b : prefix w a = true -> prefix w (a ++ b) = true.
Proof.
  revert a. induction w as [|x w IH]; intros a H; [reflexivity|]. destruct a as [|y a]; [discriminate|].
  cbn [app prefix] in *. destruct (Ascii.eqb x y); [now apply IH|discriminate].
Qed.
Lemma has_sub_app_l w a b : has_sub w a = true -> w <> [] -> has_sub w (a ++ b) = true.
Proof.
  intros H N. induction a as [|c a IH]; [rewrite (has_sub_nil w N) in H; discriminate|].
  cbn [app has_sub] in *. destruct (prefix w (c :: a)) eqn:P.
  - change (c :: a ++ b) with ((c :: a) ++ b). now rewrite (prefix_app_r w (c :: a) b P).
  - destruct (prefix w (c :: a ++ b)); [reflexivity|now apply IH].
Qed.

Lemma fun_scan_skip u y : has_sub (s "function") (lower (u ++ [c_sp])) = false ->
  fun_scan ((u ++ [c_sp]) ++ y) = fun_scan y.
Proof.
  induction u as [|c u IH]; intros H.
  - cbn [app fun_scan]. unfold fun_here. replace (match_ci (s "function") (c_sp :: y)) with (@None str) by reflexivity.
    reflexivity.
  - assert (Hu : has_sub (s "function") (lower (u ++ [c_sp])) = false).
    { destruct (has_sub (s "function") (lower (u ++ [c_sp]))) eqn:E; [|reflexivity].
      apply (has_sub_tail _ (lower_ch c)) in E. cbn [app lower map] in H. unfold lower in E. congruence. }
    cbn [app fun_scan]. unfold fun_here at 1.
    rewrite match_ci_none; [exact (IH Hu)|].
    change (c :: (u ++ [c_sp]) ++ y) with (((c :: u) ++ [c_sp]) ++ y). rewrite <- app_assoc.
    rewrite lower_app. change (lower ([c_sp] ++ y)) with (c_sp :: lower y).
    rewrite (prefix_app_sep (s "function") (lower (c :: u)) c_sp (lower y) eq_refl ltac:(discriminate)).
    destruct (prefix (s "function") (lower (c :: u))) eqn:P; [|reflexivity].
    apply prefix_has_sub in P. apply (has_sub_app_l _ _ (lower [c_sp])) in P; [|discriminate].
    rewrite <- lower_app in P. congruence.
Qed.

Lemma function_re_scan x : x <> [] -> fun_here x = None ->
  function_re x = match fun_scan x with
                  | Some (n, len, rest) => Some (n, rstrip (firstn (length x - len) x), rest)
                  | None => None
                  end.
Proof.
  destruct x as [|c x']; [congruence|]. intros _ H. unfold function_re. cbn [fun_scan]. rewrite H.
  destruct (fun_scan x') as [[[n len] rest]|]; reflexivity.
Qed.

Lemma recase_cons m c w : recase m (c :: w) = (if hd false m then upper_ch c else c) :: recase (tl m) w.
Proof. destruct m as [|b m]; reflexivity. Qed.

Lemma fun_here_rendered m b name A : ident_ok name = true -> (A = [] \/ first_nonword A = true) ->
  fun_here (recase m (s "function") ++ blanks (S b) ++ name ++ A)
  = Some (name, length (recase m (s "function") ++ blanks (S b) ++ name ++ A), A).
Proof.
  intros I FA. unfold fun_here, fun_tail. rewrite (match_ci_kw m (s "function") _ eq_refl), ws1_gap, (skip_ws_ident name A I).
  assert (W : word (name ++ A) = Some (name, A)).
  { destruct FA as [-> | FA]; [rewrite app_nil_r; now apply word_ident_end|now apply word_ident]. }
  now rewrite W.
Qed.

(* the text of the result clause *)
Definition res_pieces (res : option (nat * list bool * nat * str)) : list piece :=
  match res with
  | Some (b4, m2, b5, r) => [PGap b4; PKw m2 (s "result"); PBl b5; PCh c_lpar; PId r; PCh c_rpar]
  | None => []
  end.
Definition res_ok (res : option (nat * list bool * nat * str)) : Prop :=
  match res with
  | Some (_, _, _, r) => plain_ident r = true /\ has_sub (s "bind") (lower r) = false
  | None => True
  end.
Lemma res_pieces_ok res : res_ok res -> Forall piece_ok (res_pieces res).
Proof.
  destruct res as [[[[b4 m2] b5] r]|]; intros H; [|constructor]. destruct H as [P _].
  piece_oks; try (split; reflexivity). now apply plain_ident_ok.
Qed.
Lemma res_pieces_free w res : (w = w_function \/ w = w_subroutine) -> res_ok res ->
  Forall (piece_free w) (res_pieces res) /\ sep_ok w (res_pieces res) = true /\ starts_sep w (res_pieces res) = true.
Proof.
  intros Hw. destruct res as [[[[b4 m2] b5] r]|]; intros H; [|repeat split; constructor]. destruct H as [P _].
  destruct (ident_free r P) as [F1 F2].
  destruct Hw as [-> | ->]; repeat split; try reflexivity; repeat constructor; assumption.
Qed.
Lemma res_bind_free res : res_ok res -> last_bind (denote (res_pieces res)) = None.
Proof.
  intros H. apply last_bind_none. destruct res as [[[[b4 m2] b5] r]|]; [|reflexivity]. destruct H as [P B].
  apply pieces_free; [reflexivity|discriminate|reflexivity| |].
  - piece_oks; try (split; reflexivity). now apply plain_ident_ok.
  - repeat constructor; try reflexivity. exact B.
Qed.

Lemma attrs_type_ok attrs : forallb word_or_blank attrs = true -> fun_attrs_check attrs = Ok tt.
Proof.
  intros H. unfold fun_attrs_check. destruct attrs as [|c a]; [reflexivity|].
  pose proof (parse_type_words _ (procedure_attributes_words (c :: a) H)) as G. unfold str in *.
  destruct G as [(p & ->) | ->]; reflexivity.
Qed.

Lemma proc_kw_excluded_fun kk : proc_kw (s "function") kk ->
  forallb (branch_excluded kk (([BLOCK_RE; ASSOCIATE_RE] ++ [MODPROC_RE; MODULE_RE]) ++ [SUBROUTINE_RE]))
          (firstn 15 cascade) = true.
Proof. intros [-> | [p ->]]; [reflexivity|destruct p; reflexivity]. Qed.

Lemma fun_dispatch c mk kk bk X name attrs A :
  proc_kw (s "function") kk -> Forall piece_ok (PKw mk kk :: PGap bk :: X) -> head_letter X ->
  ends_nonspace (denote (PKw mk kk :: PGap bk :: X)) ->
  (kk = s "module" -> next_kw X) ->
  has_sub (s "subroutine") (lower (denote (PKw mk kk :: PGap bk :: X))) = false ->
  function_re (denote (PKw mk kk :: PGap bk :: X)) = Some (name, attrs, A) ->
  forallb word_or_blank attrs = true -> fun_bind_ok A = true ->
  classify c (denote (PKw mk kk :: PGap bk :: X)) = Fired (s "FUNCTION_RE") (SUnit KFunction name).
Proof.
  intros Hk O HX E Hmod HS R Hat BA.
  destruct (proc_kw_excluded (s "function") kk (or_intror eq_refl) Hk) as (_ & KL & Nk & Lk & Hm).
  destruct (head_letter_labels X bk HX) as (F & St & LS).
  apply (classify_kw c mk kk (PGap bk :: X) (([BLOCK_RE; ASSOCIATE_RE] ++ [MODPROC_RE; MODULE_RE]) ++ [SUBROUTINE_RE]) 15);
    [exact O|exact Nk|exact E| |reflexivity|now apply proc_kw_excluded_fun|reflexivity| | ].
  - apply known_app; [|apply known_one; now apply subroutine_miss].
    apply known_app; [now apply known_labels|].
    destruct Hm as [-> | [M1 M2]].
    + destruct (Hmod eq_refl) as (mk' & kk' & bk' & X' & -> & Nk' & Lk' & C'). now apply module_prefix_facts.
    + change [MODPROC_RE; MODULE_RE] with ([MODPROC_RE] ++ [MODULE_RE]).
      apply known_app; apply known_one; now apply kw_excludes_miss.
  - change (br_cond (br 15)) with (CMatch FUNCTION_RE). cbn [eval_cond re_match]. now rewrite R.
  - change (br_cond (br 15)) with (CMatch FUNCTION_RE). cbn [cond_key action key_name]. rewrite R.
    now rewrite (attrs_type_ok attrs Hat), BA.
Qed.

Lemma prefixes_text_blank pre : pre <> [] -> exists u, denote (prefixes pre) = u ++ [c_sp].
Proof.
  induction pre as [|[[p m] b] pre IH]; [congruence|]. intros _. rewrite prefixes_cons, !denote_cons. cbn [piece_text].
  destruct pre as [|x pre'].
  - cbn [prefixes flat_map denote fold_right]. rewrite app_nil_r.
    exists (recase m (pword_text p) ++ blanks b). rewrite <- app_assoc. f_equal.
    unfold blanks. cbn [repeat]. apply repeat_cons.
  - destruct (IH ltac:(discriminate)) as (u & ->).
    exists (recase m (pword_text p) ++ blanks (S b) ++ u). now rewrite <- !app_assoc.
Qed.
Lemma prefixes_text_wb pre : forallb word_or_blank (denote (prefixes pre)) = true.
Proof.
  induction pre as [|[[p m] b] pre IH]; [reflexivity|]. rewrite prefixes_cons, !denote_cons. cbn [piece_text].
  rewrite !forallb_app, IH, andb_true_r. apply andb_true_iff. split.
  - destruct (pword_conflicts p) as (_ & _ & _ & _ & L). pose proof (kw_words m (pword_text p) L) as W.
    apply forallb_forall. intros c Hc. rewrite forallb_forall in W. unfold word_or_blank. now rewrite (W c Hc).
  - generalize (S b). clear. induction n; [reflexivity|exact IHn].
Qed.

Lemma sep_ok_ids_rpar w b3 args R : (w = w_function \/ w = w_subroutine) -> sep_ok w R = true ->
  sep_ok w (comma_ids b3 args ++ PCh c_rpar :: R) = true.
Proof.
  intros Hw Sr1. induction args as [|x l IH].
  - cbn [comma_ids map sep_by app sep_ok]. rewrite Sr1. destruct Hw as [-> | ->]; reflexivity.
  - destruct l as [|y l'].
    + cbn [comma_ids map sep_by app sep_ok starts_sep]. rewrite Sr1. destruct Hw as [-> | ->]; reflexivity.
    + rewrite comma_ids_cons by discriminate. cbn [app sep_ok starts_sep]. rewrite IH.
      destruct Hw as [-> | ->]; reflexivity.
Qed.

Theorem d_function c pre m b name b2 b3 args res : plain_ident name = true -> idents_ok args -> res_ok res ->
  classify c (render (XFunction pre m b name b2 b3 args res)) = Fired (s "FUNCTION_RE") (SUnit KFunction name).
Proof.
  intros P Ha Hr. pose proof (plain_ident_ok name P) as I. destruct (ident_free name P) as [Fn1 Fn2].
  pose proof (idents_ok_ident args Ha) as Ia.
  unfold render. cbn [pieces_of]. fold (res_pieces res).
  set (atl := PBl b2 :: PCh c_lpar :: comma_ids b3 args ++ PCh c_rpar :: res_pieces res).
  set (tl := PId name :: atl).
  replace (prefixes pre ++ [PKw m (s "function"); PGap b; PId name; PBl b2; PCh c_lpar] ++ comma_ids b3 args ++ [PCh c_rpar]
           ++ res_pieces res)
    with (prefixes pre ++ PKw m (s "function") :: PGap b :: tl) by (unfold tl, atl; cbn [app]; reflexivity).
  (* the text behind the name *)
  assert (EA : denote atl = blanks b2 ++ c_lpar :: denote (comma_ids b3 args) ++ c_rpar :: denote (res_pieces res)).
  { unfold atl. rewrite !denote_cons, denote_app, denote_cons. cbn [piece_text]. norm_app. reflexivity. }
  assert (FA : first_nonword (denote atl) = true) by (rewrite EA; now apply first_nonword_bl).
  assert (AA : after_args (denote atl) = denote (res_pieces res)).
  { unfold after_args. rewrite EA, (skip_ws_bl_ch b2 c_lpar _ eq_refl). now rewrite (parens_args b3 args _ Ia). }
  assert (BA : fun_bind_ok (denote atl) = true) by (unfold fun_bind_ok; now rewrite AA, (res_bind_free res Hr)).
  assert (Oatl : Forall piece_ok atl).
  { unfold atl. constructor; [exact Logic.I|]. constructor; [split; reflexivity|]. apply Forall_app. split; [now apply idents_pieces|].
    constructor; [split; reflexivity|now apply res_pieces_ok]. }
  assert (Otl : Forall piece_ok tl) by (unfold tl; constructor; [exact I|exact Oatl]).
  assert (Ofull : Forall piece_ok (prefixes pre ++ PKw m (s "function") :: PGap b :: tl)).
  { apply Forall_app. split; [apply prefixes_ok|]. constructor; [reflexivity|]. constructor; [exact Logic.I|exact Otl]. }
  assert (Efull : ends_nonspace (denote (prefixes pre ++ PKw m (s "function") :: PGap b :: tl))).
  { rewrite denote_app. apply ends_nonspace_app. rewrite !denote_cons. do 2 apply ends_nonspace_app.
    unfold tl. rewrite denote_cons. apply ends_nonspace_app. rewrite EA. apply ends_nonspace_app.
    change (c_lpar :: denote (comma_ids b3 args) ++ c_rpar :: denote (res_pieces res))
      with ((c_lpar :: denote (comma_ids b3 args)) ++ [c_rpar] ++ denote (res_pieces res)).
    apply ends_nonspace_app.
    destruct res as [[[[b4 m2] b5] r]|].
    - apply ends_nonspace_app. cbn [res_pieces].
      apply (denote_ends [PGap b4; PKw m2 (s "result"); PBl b5; PCh c_lpar; PId r] (PCh c_rpar)); [split; reflexivity|reflexivity].
    - cbn [res_pieces denote fold_right]. rewrite app_nil_r. exists [], c_rpar. split; reflexivity. }
  (* no "subroutine", and no "function" behind the keyword *)
  assert (Free : forall w, w = w_function \/ w = w_subroutine ->
                           Forall (piece_free w) tl /\ sep_ok w tl = true).
  { intros w Hw. destruct (res_pieces_free w res Hw Hr) as (Fr & Sr1 & Sr2).
    assert (Fi : Forall (piece_free w) (comma_ids b3 args)) by (now apply idents_free).
    split.
    - unfold tl, atl. constructor; [destruct Hw as [-> | ->]; assumption|]. constructor; [exact Logic.I|].
      constructor; [exact Logic.I|]. apply Forall_app. split; [exact Fi|]. constructor; [exact Logic.I|exact Fr].
    - unfold tl, atl.
      pose proof (sep_ok_ids_rpar w b3 args (res_pieces res) Hw Sr1) as E.
      cbn [sep_ok starts_sep]. rewrite E. destruct Hw as [-> | ->]; reflexivity. }
  assert (HS : has_sub (s "subroutine") (lower (denote (prefixes pre ++ PKw m (s "function") :: PGap b :: tl))) = false).
  { destruct (Free w_subroutine (or_intror eq_refl)) as [Ft St].
    apply pieces_free; [reflexivity|discriminate| |exact Ofull|].
    - apply sep_closed_ok; [now apply prefixes_closed; right|]. cbn [sep_ok starts_sep]. unfold w_subroutine in *. now rewrite St.
    - apply Forall_app. split; [exact (proj2 (prefixes_free pre))|]. constructor; [reflexivity|]. constructor; [exact Logic.I|exact Ft]. }
  assert (Hhere : fun_here (denote (PKw m (s "function") :: PGap b :: tl))
                  = Some (name, length (denote (PKw m (s "function") :: PGap b :: tl)), denote atl)).
  { rewrite !denote_cons. unfold tl. rewrite denote_cons. cbn [piece_text]. apply fun_here_rendered; [exact I|now right]. }
  destruct pre as [|[[p mp] bp] pre'].
  - (* no prefix *)
    cbn [prefixes flat_map app] in *.
    apply (fun_dispatch c m (s "function") b tl name [] (denote atl));
      [now left|exact Ofull|exact I|exact Efull|discriminate|exact HS| |reflexivity|exact BA].
    assert (Hx : denote (PKw m (s "function") :: PGap b :: tl) <> []).
    { rewrite denote_cons. cbn [piece_text]. intros E. apply app_eq_nil in E as [E _]. revert E. now apply kw_nonempty. }
    destruct (denote (PKw m (s "function") :: PGap b :: tl)) as [|c0 x'] eqn:Ex; [congruence|].
    unfold function_re. rewrite Hhere.
    assert (Hs : fun_scan x' = None).
    { apply fun_scan_none.
      (* x' is the line without its first character *)
      assert (Ex' : x' = denote (PKw (List.tl m) (s "unction") :: PGap b :: tl)).
      { rewrite !denote_cons in *. cbn [piece_text] in *.
        change (s "function") with ("f"%char :: s "unction") in Ex. rewrite recase_cons in Ex. cbn [app] in Ex.
        now injection Ex as _ <-. }
      rewrite Ex'. destruct (Free w_function (or_introl eq_refl)) as [Ft St].
      apply pieces_free; [reflexivity|discriminate| | |].
      - cbn [sep_ok starts_sep]. unfold w_function in *. now rewrite St.
      - constructor; [reflexivity|]. constructor; [exact Logic.I|exact Otl].
      - constructor; [reflexivity|]. constructor; [exact Logic.I|exact Ft]. }
    rewrite Hs. now rewrite Nat.sub_diag.
  - (* prefixes *)
    rewrite prefixes_cons in *. cbn [app] in *.
    destruct (prefixes_next pre' m (s "function") b tl ltac:(discriminate) eq_refl eq_refl) as [NK HL].
    set (U := denote (PKw mp (pword_text p) :: PGap bp :: prefixes pre')).
    set (Y := denote (PKw m (s "function") :: PGap b :: tl)) in *.
    assert (EX : denote (PKw mp (pword_text p) :: PGap bp :: prefixes pre' ++ PKw m (s "function") :: PGap b :: tl) = U ++ Y).
    { unfold U, Y. rewrite <- denote_app. reflexivity. }
    assert (HU : exists u, U = u ++ [c_sp]).
    { unfold U. rewrite <- (prefixes_cons p mp bp pre'). apply prefixes_text_blank. discriminate. }
    destruct HU as (u & Eu).
    assert (HUf : has_sub (s "function") (lower U) = false).
    { unfold U. apply pieces_free; [reflexivity|discriminate| | |].
      - rewrite <- (prefixes_cons p mp bp pre'). rewrite <- (app_nil_r (prefixes _)).
        apply sep_closed_ok; [now apply prefixes_closed; left|reflexivity].
      - rewrite <- (prefixes_cons p mp bp pre'). apply prefixes_ok.
      - rewrite <- (prefixes_cons p mp bp pre'). exact (proj1 (prefixes_free _)). }
    apply (fun_dispatch c mp (pword_text p) bp _ name (rstrip U) (denote atl));
      [right; now exists p|exact Ofull|exact HL|exact Efull|intros _; exact NK|exact HS| | |exact BA].
    + rewrite EX. rewrite function_re_scan.
      * rewrite Eu, fun_scan_skip by (rewrite <- Eu; exact HUf).
        assert (HY : Y <> []).
        { unfold Y. rewrite denote_cons. cbn [piece_text]. intros E. apply app_eq_nil in E as [E _]. revert E. now apply kw_nonempty. }
        destruct Y as [|c1 y'] eqn:EY; [congruence|]. cbn [fun_scan]. rewrite Hhere.
        rewrite <- Eu. now rewrite firstn_app_len.
      * rewrite Eu. intros E. apply app_eq_nil in E as [E _]. apply app_eq_nil in E as [_ E]. discriminate E.
      * unfold fun_here. rewrite match_ci_none; [reflexivity|].
        destruct (prefix (s "function") (lower (U ++ Y))) eqn:Pf; [|reflexivity].
        rewrite Eu in Pf. rewrite <- app_assoc in Pf. cbn [app] in Pf. rewrite lower_app in Pf.
        change (lower (c_sp :: Y)) with (c_sp :: lower Y) in Pf.
        rewrite (prefix_app_sep (s "function") (lower u) c_sp (lower Y) eq_refl ltac:(discriminate)) in Pf.
        apply prefix_has_sub in Pf. apply (has_sub_app_l _ _ (lower [c_sp])) in Pf; [|discriminate].
        rewrite <- lower_app, <- Eu in Pf. congruence.
    + apply rstrip_forall. unfold U. rewrite <- (prefixes_cons p mp bp pre'). apply prefixes_text_wb.
Qed.

(* ------------------------------------------------------------------ type-bound procedures *)
Definition bind_text (b3 b4 : nat) (nt : str * str) : str :=
  fst nt ++ blanks b3 ++ c_eq :: c_gt :: blanks b4 ++ snd nt.
Definition bind_pieces (b3 b4 : nat) (nt : str * str) : list piece :=
  [PId (fst nt); PBl b3; PCh c_eq; PCh c_gt; PBl b4; PId (snd nt)].
Lemma denote_bind b3 b4 nt : denote (bind_pieces b3 b4 nt) = bind_text b3 b4 nt.
Proof. unfold bind_pieces, bind_text. cbn [denote fold_right piece_text]. norm_app. reflexivity. Qed.
Lemma denote_binds b3 b4 b5 binds :
  denote (sep_by [PCh c_comma; PBl b5] (map (bind_pieces b3 b4) binds)) = joined b5 (map (bind_text b3 b4) binds).
Proof.
  induction binds as [|nt l IH]; [reflexivity|]. destruct l as [|nt' l'].
  - cbn [map sep_by joined]. apply denote_bind.
  - change (sep_by [PCh c_comma; PBl b5] (map (bind_pieces b3 b4) (nt :: nt' :: l')))
      with (bind_pieces b3 b4 nt ++ [PCh c_comma; PBl b5] ++ sep_by [PCh c_comma; PBl b5] (map (bind_pieces b3 b4) (nt' :: l'))).
    rewrite !denote_app, denote_bind, IH. cbn [denote fold_right piece_text map joined]. norm_app. reflexivity.
Qed.

Definition bind_ok (nt : str * str) : Prop := plain_ident (fst nt) = true /\ plain_ident (snd nt) = true.

Lemma bind_text_nocomma b3 b4 nt : bind_ok nt -> existsb (Ascii.eqb c_comma) (bind_text b3 b4 nt) = false.
Proof.
  intros [P1 P2]. unfold bind_text. rewrite !existsb_app. cbn [existsb]. rewrite !existsb_app.
  rewrite (no_char_words c_comma _ eq_refl (ident_words _ (plain_ident_ok _ P1))).
  rewrite (no_char_words c_comma _ eq_refl (ident_words _ (plain_ident_ok _ P2))).
  now rewrite !no_char_blanks by reflexivity.
Qed.

Lemma before_arrow_words x y : forallb is_word x = true -> before_arrow (x ++ y) = x ++ before_arrow y.
Proof.
  induction x as [|c x IH]; intros W; [reflexivity|]. cbn in W. apply andb_true_iff in W as [Wc Wx].
  cbn [app before_arrow]. replace (prefix (s "=>") (c :: x ++ y)) with false; [now rewrite IH|].
  symmetry. change (prefix (s "=>") (c :: x ++ y)) with (if Ascii.eqb "="%char c then prefix (s ">") (x ++ y) else false).
  destruct (Ascii.eqb "=" c) eqn:E; [|reflexivity]. apply Ascii.eqb_eq in E. subst c. discriminate.
Qed.
Lemma before_arrow_blanks n y : before_arrow (blanks n ++ y) = blanks n ++ before_arrow y.
Proof. induction n as [|n IH]; [reflexivity|]. change (blanks (S n) ++ y) with (c_sp :: (blanks n ++ y)). cbn [before_arrow]. now rewrite IH. Qed.
Lemma before_arrow_hit y : before_arrow (c_eq :: c_gt :: y) = [].
Proof. reflexivity. Qed.
Lemma before_arrow_bind b3 b4 nt : bind_ok nt -> before_arrow (bind_text b3 b4 nt) = fst nt ++ blanks b3.
Proof.
  intros [P1 _]. unfold bind_text. rewrite (before_arrow_words _ _ (ident_words _ (plain_ident_ok _ P1))).
  rewrite before_arrow_blanks, before_arrow_hit. now rewrite app_nil_r.
Qed.
Lemma lstrip_blanks n z : lstrip (blanks n ++ z) = lstrip z.
Proof. induction n as [|n IH]; [reflexivity|]. exact IH. Qed.
Lemma rev_blanks n : rev (blanks n) = blanks n.
Proof.
  unfold blanks. induction n as [|n IH]; [reflexivity|]. cbn [repeat rev]. rewrite IH. symmetry. apply repeat_cons.
Qed.
Lemma strip_trailing_blanks x n : forallb is_word x = true -> strip (x ++ blanks n) = x.
Proof.
  intros W. destruct x as [|c r].
  - cbn [app]. unfold strip, rstrip. rewrite <- (app_nil_r (blanks n)), lstrip_blanks. reflexivity.
  - unfold strip. cbn in W. apply andb_true_iff in W as [Wc Wr]. cbn [app lstrip]. rewrite (word_nospace c Wc).
    unfold rstrip. change (c :: r ++ blanks n) with ((c :: r) ++ blanks n).
    rewrite rev_app_distr, rev_blanks, lstrip_blanks.
    destruct (exists_last (l := c :: r) ltac:(discriminate)) as (t & d & E). rewrite E, rev_app_distr. cbn [rev app lstrip].
    assert (Wd : is_word d = true).
    { assert (W : forallb is_word (c :: r) = true) by (cbn; now rewrite Wc, Wr). rewrite E, forallb_app in W.
      apply andb_true_iff in W as [_ W]. cbn in W. now rewrite andb_true_r in W. }
    rewrite (word_nospace d Wd). cbn [rev]. now rewrite rev_involutive.
Qed.

Lemma bind_names_joined b3 b4 b5 binds : binds <> [] -> Forall bind_ok binds ->
  let pieces := split_on c_comma (joined b5 (map (bind_text b3 b4) binds)) in
  forallb (fun p => starts_word (skip_ws p)) pieces = true /\
  map (fun p => strip (before_arrow (skip_ws p))) pieces = map fst binds.
Proof.
  intros N H.
  assert (Hc : Forall (fun x => existsb (Ascii.eqb c_comma) x = false) (map (bind_text b3 b4) binds)).
  { apply Forall_forall. intros x Hx. apply in_map_iff in Hx as (nt & <- & Hin). apply bind_text_nocomma.
    rewrite Forall_forall in H. now apply H. }
  pose proof (split_on_joined b5 (map (bind_text b3 b4) binds) ltac:(destruct binds; [congruence|discriminate]) Hc 0) as E.
  cbn [blanks repeat app] in E. cbn zeta. rewrite E.
  assert (One : forall k nt, bind_ok nt ->
                  starts_word (skip_ws (blanks k ++ bind_text b3 b4 nt)) = true /\
                  strip (before_arrow (skip_ws (blanks k ++ bind_text b3 b4 nt))) = fst nt).
  { intros k nt Hnt. destruct Hnt as [P1 P2]. pose proof (plain_ident_ok _ P1) as I1.
    rewrite skip_ws_bl.
    assert (Es : skip_ws (bind_text b3 b4 nt) = bind_text b3 b4 nt) by (unfold bind_text; now apply skip_ws_ident).
    rewrite Es. split.
    - unfold bind_text. now apply starts_word_ident.
    - rewrite (before_arrow_bind b3 b4 nt (conj P1 P2)). apply strip_trailing_blanks. now apply ident_words. }
  destruct binds as [|nt l]; [congruence|]. inversion H as [|? ? Hnt Hl]; subst.
  cbn [map]. destruct (One 0 nt Hnt) as [A B]. cbn [blanks repeat app] in A, B. cbn [forallb]. rewrite A, B.
  assert (Rest : forallb (fun p => starts_word (skip_ws p)) (map (fun y => blanks b5 ++ y) (map (bind_text b3 b4) l)) = true /\
                 map (fun p => strip (before_arrow (skip_ws p))) (map (fun y => blanks b5 ++ y) (map (bind_text b3 b4) l)) = map fst l).
  { clear -Hl One. induction Hl as [|nt' l' Hnt' Hl' IH]; [split; reflexivity|].
    cbn [map forallb]. destruct (One b5 nt' Hnt') as [A B]. destruct IH as [IH1 IH2]. rewrite A, B, IH1, IH2. split; reflexivity. }
  destruct Rest as [R1 R2]. rewrite R1, R2. split; reflexivity.
Qed.

Definition binds_pieces b3 b4 b5 (binds : list (str * str)) : list piece :=
  sep_by [PCh c_comma; PBl b5] (map (bind_pieces b3 b4) binds).

Lemma binds_pieces_Forall (P : piece -> Prop) b3 b4 b5 binds :
  P (PCh c_comma) -> P (PBl b5) -> P (PBl b3) -> P (PBl b4) -> P (PCh c_eq) -> P (PCh c_gt) ->
  Forall (fun nt => P (PId (fst nt)) /\ P (PId (snd nt))) binds -> Forall P (binds_pieces b3 b4 b5 binds).
Proof.
  intros H1 H2 H3 H4 H5 H6 H. unfold binds_pieces. apply Forall_sep_by; [repeat constructor; assumption|].
  induction H as [|nt l [A B] Hl IH]; constructor; [|exact IH]. unfold bind_pieces. repeat constructor; assumption.
Qed.
Lemma binds_pieces_cons b3 b4 b5 nt nt' l :
  binds_pieces b3 b4 b5 (nt :: nt' :: l) = bind_pieces b3 b4 nt ++ [PCh c_comma; PBl b5] ++ binds_pieces b3 b4 b5 (nt' :: l).
Proof. reflexivity. Qed.
Lemma sep_ok_binds w b3 b4 b5 binds : (w = w_function \/ w = w_subroutine) -> sep_ok w (binds_pieces b3 b4 b5 binds) = true.
Proof.
  intros Hw. induction binds as [|nt l IH]; [reflexivity|]. destruct l as [|nt' l'].
  - unfold binds_pieces, bind_pieces. cbn [map sep_by sep_ok starts_sep]. destruct Hw as [-> | ->]; reflexivity.
  - rewrite binds_pieces_cons. unfold bind_pieces at 1. cbn [app sep_ok starts_sep]. rewrite IH.
    destruct Hw as [-> | ->]; reflexivity.
Qed.
Lemma binds_ends pre b3 b4 b5 binds : binds <> [] -> Forall bind_ok binds ->
  ends_nonspace (denote (pre ++ binds_pieces b3 b4 b5 binds)).
Proof.
  intros N H. rewrite denote_app. apply ends_nonspace_app. induction H as [|nt l Hnt Hl IH]; [congruence|].
  destruct l as [|nt' l'].
  - unfold binds_pieces. cbn [map sep_by]. rewrite denote_bind. unfold bind_text. do 2 apply ends_nonspace_app.
    change (c_eq :: c_gt :: blanks b4 ++ snd nt) with ([c_eq; c_gt] ++ blanks b4 ++ snd nt). do 2 apply ends_nonspace_app.
    destruct Hnt as [_ P2]. apply words_ends; [now apply ident_nonempty, plain_ident_ok|now apply ident_words, plain_ident_ok].
  - rewrite binds_pieces_cons, !denote_app. do 2 apply ends_nonspace_app. apply IH. discriminate.
Qed.

Lemma modproc_tail_comma wm b y : modproc_tail wm (blanks b ++ c_comma :: y) = None.
Proof.
  unfold modproc_tail. rewrite (skip_ws_bl_ch b c_comma y eq_refl).
  replace (prefix (s "::") (c_comma :: y)) with false by reflexivity.
  destruct b as [|b]; [reflexivity|]. change (blanks (S b) ++ c_comma :: y) with (c_sp :: (blanks b ++ c_comma :: y)).
  reflexivity.
Qed.

Lemma rstrip_app_blanks x n : ends_nonspace x -> rstrip (x ++ blanks n) = x.
Proof.
  intros (t & d & -> & Hd). unfold rstrip. rewrite rev_app_distr, rev_blanks, lstrip_blanks, rev_app_distr.
  cbn [rev app lstrip]. rewrite Hd. cbn [rev]. now rewrite rev_involutive.
Qed.

Theorem d_bound c m1 m2 b1 b2 b3 b4 b5 binds : binds <> [] -> Forall bind_ok binds -> cx_incontains c = true ->
  classify c (render (XBound m1 m2 b1 b2 b3 b4 b5 binds)) = Fired (s "BOUNDPROC_RE") (SLeaf LBoundProc (map fst binds)).
Proof.
  intros N Hb Hc. unfold render. cbn [pieces_of dcolon app]. fold (bind_pieces b3 b4). fold (binds_pieces b3 b4 b5 binds).
  set (pre := [PBl b1; PCh c_comma; PBl b1; PKw m2 (s "nopass"); PBl b2; PCh c_colon; PCh c_colon; PBl b2]).
  change (PBl b1 :: PCh c_comma :: PBl b1 :: PKw m2 (s "nopass") :: PBl b2 :: PCh c_colon :: PCh c_colon :: PBl b2
          :: binds_pieces b3 b4 b5 binds) with (pre ++ binds_pieces b3 b4 b5 binds).
  set (BT := joined b5 (map (bind_text b3 b4) binds)).
  assert (EBT : denote (binds_pieces b3 b4 b5 binds) = BT) by apply denote_binds.
  assert (Ob : Forall piece_ok (binds_pieces b3 b4 b5 binds)).
  { apply binds_pieces_Forall; try exact I; try (split; reflexivity).
    eapply Forall_impl; [|exact Hb]. intros nt [P1 P2]. split; cbn; now apply plain_ident_ok. }
  assert (O : Forall piece_ok (PKw m1 (s "procedure") :: pre ++ binds_pieces b3 b4 b5 binds)).
  { constructor; [reflexivity|]. apply Forall_app. split; [unfold pre; piece_oks; split; reflexivity|exact Ob]. }
  assert (SBT : starts_alnum BT).
  { unfold BT. destruct binds as [|nt l]; [congruence|]. inversion Hb as [|? ? [P1 _] _]; subst.
    destruct l; cbn [map joined]; unfold bind_text; repeat apply starts_alnum_app; now apply ident_starts, plain_ident_ok. }
  set (PT := recase m1 (s "procedure") ++ blanks b1 ++ c_comma :: blanks b1 ++ recase m2 (s "nopass") ++ blanks b2
             ++ c_colon :: c_colon :: blanks b2).
  assert (Ex : denote (PKw m1 (s "procedure") :: pre ++ binds_pieces b3 b4 b5 binds) = PT ++ BT).
  { rewrite denote_cons, denote_app, EBT. unfold pre, PT. cbn [denote fold_right piece_text]. norm_app. reflexivity. }
  assert (Rm : modproc_re (PT ++ BT) = None).
  { unfold modproc_re, PT. rewrite <- !app_assoc.
    rewrite (match_ci_conflict (s "module") m1 (s "procedure") _ eq_refl eq_refl).
    rewrite (match_ci_kw m1 (s "procedure") _ eq_refl). cbn [app]. rewrite <- !app_assoc. cbn [app]. apply modproc_tail_comma. }
  assert (Rb : boundproc_re (PT ++ BT) = Some (false, BT)).
  { unfold boundproc_re, PT. rewrite <- !app_assoc.
    rewrite (match_ci_conflict (s "generic") m1 (s "procedure") _ eq_refl eq_refl).
    rewrite (match_ci_kw m1 (s "procedure") _ eq_refl). cbn [app]. rewrite <- !app_assoc. cbn [app].
    rewrite (skip_ws_bl_ch b1 c_comma _ eq_refl).
    replace (parens (c_comma :: blanks b1 ++ recase m2 (s "nopass") ++ blanks b2 ++ c_colon :: c_colon :: blanks b2 ++ BT))
      with (@None str) by reflexivity.
    cbn [skip_ws]. replace (is_space c_comma) with false by reflexivity. rewrite Ascii.eqb_refl.
    rewrite skip_ws_bl, (skip_ws_kw m2 (s "nopass") _ ltac:(discriminate) eq_refl).
    assert (Sw : starts_word (recase m2 (s "nopass") ++ blanks b2 ++ c_colon :: c_colon :: blanks b2 ++ BT) = true).
    { apply starts_word_alnum, starts_alnum_app, kw_starts; [discriminate|reflexivity]. }
    rewrite Sw.
    assert (Tw : take_while not_colon (recase m2 (s "nopass") ++ blanks b2 ++ c_colon :: c_colon :: blanks b2 ++ BT)
                 = (recase m2 (s "nopass") ++ blanks b2, c_colon :: c_colon :: blanks b2 ++ BT)).
    { rewrite app_assoc. apply take_while_all; [|reflexivity].
      rewrite forallb_app. apply andb_true_iff. split.
      - apply forallb_forall. intros ch Hch. pose proof (kw_words m2 (s "nopass") eq_refl) as W.
        rewrite forallb_forall in W. specialize (W ch Hch). unfold not_colon.
        destruct (Ascii.eqb ch c_colon) eqn:E; [|reflexivity]. apply Ascii.eqb_eq in E. subst ch. discriminate.
      - clear. induction b2 as [|n IH]; [reflexivity|exact IH]. }
    rewrite Tw.
    assert (Ns : names_start (c_colon :: c_colon :: blanks b2 ++ BT) = Some BT).
    { unfold names_start. cbn [skip_ws]. replace (is_space c_colon) with false by reflexivity.
      rewrite prefix_dcolon. cbn [skipn]. rewrite skip_ws_bl, (skip_ws_alnum BT SBT). now rewrite (starts_word_alnum BT SBT). }
    destruct (rev (recase m2 (s "nopass") ++ blanks b2)) as [|c0 ar] eqn:Er.
    { apply (f_equal (@length ascii)) in Er. rewrite rev_length, app_length, length_recase in Er. cbn in Er. lia. }
    cbn [attrs_backtrack]. now rewrite Ns. }
  assert (Bn : bound_names false (PT ++ BT) BT = Some (map fst binds)).
  { unfold bound_names. unfold BT at 1.
    destruct (bind_names_joined b3 b4 b5 binds N Hb) as [A B]. cbn zeta in A, B. fold BT in A, B.
    assert (Hc0 : Forall (fun x => existsb (Ascii.eqb c_comma) x = false) (map (bind_text b3 b4) binds)).
    { apply Forall_forall. intros x Hx. apply in_map_iff in Hx as (nt & <- & Hin). apply bind_text_nocomma.
      rewrite Forall_forall in Hb. now apply Hb. }
    pose proof (split_on_joined b5 (map (bind_text b3 b4) binds) ltac:(destruct binds; [congruence|discriminate]) Hc0 0) as E.
    cbn [blanks repeat app] in E. fold BT. fold BT in E.
    destruct binds as [|nt l]; [congruence|]. destruct l as [|nt' l'].
    - cbn [map] in E. rewrite E. inversion Hb as [|? ? Hnt _]; subst. unfold BT. cbn [map joined].
      rewrite (before_arrow_bind b3 b4 nt Hnt). destruct Hnt as [P1 _].
      now rewrite (strip_trailing_blanks _ b3 (ident_words _ (plain_ident_ok _ P1))).
    - rewrite E in A, B |- *. cbn [map]. cbn [map] in A, B.
      rewrite firstn_app_len.
      assert (Lp : last_is c_colon (rstrip PT) = true).
      { unfold PT.
        replace (recase m1 (s "procedure") ++ blanks b1 ++ c_comma :: blanks b1 ++ recase m2 (s "nopass") ++ blanks b2
                 ++ c_colon :: c_colon :: blanks b2)
          with ((recase m1 (s "procedure") ++ blanks b1 ++ c_comma :: blanks b1 ++ recase m2 (s "nopass") ++ blanks b2
                 ++ [c_colon; c_colon]) ++ blanks b2) by (rewrite <- !app_assoc; cbn [app]; now rewrite <- !app_assoc).
        rewrite rstrip_app_blanks.
        - replace (recase m1 (s "procedure") ++ blanks b1 ++ c_comma :: blanks b1 ++ recase m2 (s "nopass") ++ blanks b2 ++ [c_colon; c_colon])
            with ((recase m1 (s "procedure") ++ blanks b1 ++ c_comma :: blanks b1 ++ recase m2 (s "nopass") ++ blanks b2 ++ [c_colon]) ++ [c_colon])
            by (rewrite <- !app_assoc; cbn [app]; now rewrite <- !app_assoc).
          apply last_is_ends.
        - repeat (apply ends_nonspace_app || (change (c_comma :: ?y) with ([c_comma] ++ y))).
          exists [c_colon], c_colon. split; reflexivity. }
      rewrite Lp. now rewrite A, B. }
  rewrite Ex.
  assert (Kn : forall r, re_in r (([BLOCK_RE; ASSOCIATE_RE] ++ [SUBROUTINE_RE; FUNCTION_RE]) ++ [MODPROC_RE]) = true ->
                         re_match r (PT ++ BT) = No).
  { rewrite <- Ex. apply known_app.
    - apply known_std; try exact O; try reflexivity; try discriminate.
      + change (PKw m1 (s "procedure") :: pre ++ binds_pieces b3 b4 b5 binds) with ((PKw m1 (s "procedure") :: pre) ++ binds_pieces b3 b4 b5 binds).
        apply sep_closed_ok; [reflexivity|apply sep_ok_binds; now left].
      + change (PKw m1 (s "procedure") :: pre ++ binds_pieces b3 b4 b5 binds) with ((PKw m1 (s "procedure") :: pre) ++ binds_pieces b3 b4 b5 binds).
        apply sep_closed_ok; [reflexivity|apply sep_ok_binds; now right].
      + constructor; [reflexivity|]. apply Forall_app. split; [unfold pre; repeat constructor|].
        apply binds_pieces_Forall; try exact I. eapply Forall_impl; [|exact Hb]. intros nt [P1 P2].
        split; [now destruct (ident_free _ P1)|now destruct (ident_free _ P2)].
      + constructor; [reflexivity|]. apply Forall_app. split; [unfold pre; repeat constructor|].
        apply binds_pieces_Forall; try exact I. eapply Forall_impl; [|exact Hb]. intros nt [P1 P2].
        split; [now destruct (ident_free _ P1)|now destruct (ident_free _ P2)].
    - apply known_one. rewrite Ex. cbn [re_match]. now rewrite Rm. }
  rewrite <- Ex in *.
  apply (classify_kw c m1 (s "procedure") (pre ++ binds_pieces b3 b4 b5 binds)
                     (([BLOCK_RE; ASSOCIATE_RE] ++ [SUBROUTINE_RE; FUNCTION_RE]) ++ [MODPROC_RE]) 19);
    [exact O|discriminate| |exact Kn|reflexivity|reflexivity|reflexivity| | ].
  - change (PKw m1 (s "procedure") :: pre ++ binds_pieces b3 b4 b5 binds) with ((PKw m1 (s "procedure") :: pre) ++ binds_pieces b3 b4 b5 binds).
    now apply binds_ends.
  - change (br_cond (br 19)) with (CAnd (CMatch BOUNDPROC_RE) CInContains). cbn [eval_cond re_match]. now rewrite Rb, Hc.
  - change (br_cond (br 19)) with (CAnd (CMatch BOUNDPROC_RE) CInContains). cbn [cond_key action key_name]. now rewrite Rb, Bn.
Qed.

(* ------------------------------------------------------------------ a BLOCK construct with a name *)
Lemma prefix_sep_none ws a c y : forallb (fun w => negb (char_in c w)) ws = true ->
  forallb (fun w => match w with [] => false | _ => true end) ws = true ->
  existsb (fun w => prefix w a) ws = false -> none_prefix ws (a ++ c :: y) = true.
Proof.
  unfold none_prefix. induction ws as [|w ws IH]; intros H1 H2 H3; [reflexivity|].
  cbn [forallb] in H1, H2. apply andb_true_iff in H1 as [C1 C2]. apply andb_true_iff in H2 as [N1 N2].
  cbn [existsb] in *. apply orb_false_iff in H3 as [P1 P2]. apply negb_true_iff in C1.
  rewrite (prefix_app_sep w a c y C1) by (destruct w; [discriminate|discriminate]). rewrite P1. cbn [orb].
  exact (IH C2 N2 P2).
Qed.

Theorem d_block_named c l b1 b2 m : plain_ident l = true -> construct_name_ok l = true ->
  classify c (render (XBlock (Some (l, b1, b2)) m)) = Fired (s "BLOCK_RE") SBlock.
Proof.
  intros P CN. pose proof (plain_ident_ok l P) as I. unfold render. cbn [pieces_of app].
  set (ps := [PId l; PBl b1; PCh c_colon; PBl b2; PKw m (s "block")]).
  assert (O : Forall piece_ok ps) by (unfold ps; piece_oks; split; reflexivity).
  assert (Ex : denote ps = l ++ blanks b1 ++ c_colon :: blanks b2 ++ recase m (s "block")).
  { unfold ps. cbn [denote fold_right piece_text]. norm_app. reflexivity. }
  rewrite classify_rendered; [|exact O| |].
  2:{ unfold ps. rewrite denote_cons. apply starts_alnum_app. now apply ident_starts. }
  2:{ apply (denote_ends [PId l; PBl b1; PCh c_colon; PBl b2] (PKw m (s "block"))); [reflexivity|discriminate]. }
  (* the line begins with the name, then blanks or the colon *)
  assert (Lw : exists ch y, (ch = c_sp \/ ch = c_colon) /\ lower (denote ps) = lower l ++ ch :: y).
  { rewrite Ex, lower_app. destruct b1 as [|b1'].
    - exists c_colon. eexists. split; [now right|]. cbn [blanks repeat app]. reflexivity.
    - exists c_sp. eexists. split; [now left|]. change (blanks (S b1') ++ c_colon :: blanks b2 ++ recase m (s "block"))
        with (c_sp :: (blanks b1' ++ c_colon :: blanks b2 ++ recase m (s "block"))). reflexivity. }
  destruct Lw as (ch & y & Hch & Elow).
  unfold construct_name_ok in CN. apply negb_true_iff in CN.
  assert (NP : forall ws, (forall w, In w ws -> In w statement_words) -> none_prefix ws (lower (denote ps)) = true).
  { intros ws Hsub. rewrite Elow. apply prefix_sep_none.
    - apply forallb_forall. intros w Hw. specialize (Hsub w Hw).
      destruct Hch as [-> | ->]; cbn in Hsub;
        repeat (destruct Hsub as [<- | Hsub]; [reflexivity|]); destruct Hsub.
    - apply forallb_forall. intros w Hw. specialize (Hsub w Hw). cbn in Hsub.
      repeat (destruct Hsub as [<- | Hsub]; [reflexivity|]). destruct Hsub.
    - apply Bool.not_true_is_false. intros E. apply existsb_exists in E as (w & Hw & Pw).
      assert (T : existsb (fun w => prefix w (lower l)) statement_words = true)
        by (apply existsb_exists; exists w; split; [now apply Hsub|exact Pw]). congruence. }
  (* no literal: the line has a colon *)
  assert (Hcolon : existsb (Ascii.eqb c_colon) (lower (denote ps)) = true).
  { rewrite Ex, !lower_app. rewrite !existsb_app. cbn [lower map existsb]. change (lower_ch c_colon) with c_colon.
    rewrite Ascii.eqb_refl. now rewrite !orb_true_r. }
  assert (Hlit : forall lit, existsb (Ascii.eqb c_colon) lit = false -> seqb (lower (denote ps)) lit = false).
  { intros lit Hl. destruct (seqb (lower (denote ps)) lit) eqn:E; [|reflexivity]. apply seqb_eq in E. rewrite E in Hcolon. congruence. }
  assert (Rb : block_re (denote ps) = true).
  { unfold block_re. rewrite Ex. unfold label_prefix. rewrite (word_ident l _ I) by (now apply first_nonword_bl).
    rewrite (lit_bl_same b1 c_colon _ eq_refl). unfold block_tail.
    rewrite <- (app_nil_r (recase m (s "block"))), skip_ws_bl, (skip_ws_kw m (s "block") [] ltac:(discriminate) eq_refl).
    now rewrite (match_ci_kw m (s "block") [] eq_refl). }
  assert (Hdig : (match lower (denote ps) with c0 :: _ => is_digit c0 | [] => false end) = false).
  { rewrite Elow. destruct (ident_ok_inv l I) as (c0 & r0 & -> & A0 & _). cbn [lower map app].
    rewrite is_digit_lower_ch. unfold is_alpha, is_upper, is_lower, is_digit, code in *.
    destruct (nat_of_ascii c0 <=? 57) eqn:D; [|now rewrite andb_false_r].
    apply Nat.leb_le in D. apply orb_true_iff in A0 as [A0 | A0]; apply andb_true_iff in A0 as [A1 A2];
      apply Nat.leb_le in A1; lia. }
  change cascade with (firstn 8 cascade ++ br 8 :: skipn 9 cascade).
  rewrite run_cascade_at; [reflexivity| |reflexivity|].
  - cbn [firstn cascade]. repeat constructor; try reflexivity; unfold misses; cbn [br_cond cond_key is_tail eval_cond sin].
    + now rewrite (Hlit (s "contains") eq_refl).
    + now rewrite !Hlit by reflexivity.
    + now rewrite (Hlit (s "sequence") eq_refl).
    + apply format_miss. exact Hdig.
    + rewrite (anchored_miss ATTRIB_RE _ eq_refl); [reflexivity|]. apply NP. cbn. intros w Hw.
      repeat (destruct Hw as [<- | Hw]; [cbn; tauto|]). destruct Hw.
    + apply end_miss; [exact Hdig|].
      assert (E : none_prefix [s "end"] (lower (denote ps)) = true).
      { apply NP. cbn. intros w Hw. repeat (destruct Hw as [<- | Hw]; [cbn; tauto|]). destruct Hw. }
      unfold none_prefix in E. cbn [existsb] in E. rewrite orb_false_r in E. now apply negb_true_iff in E.
    + rewrite (anchored_miss MODPROC_RE _ eq_refl); [reflexivity|]. apply NP. cbn. intros w Hw.
      repeat (destruct Hw as [<- | Hw]; [cbn; tauto|]). destruct Hw.
    + apply (anchored_miss BLOCK_DATA_RE _ eq_refl). apply NP. cbn. intros w Hw.
      repeat (destruct Hw as [<- | Hw]; [cbn; tauto|]). destruct Hw.
  - change (br_cond (br 8)) with (CMatch BLOCK_RE). cbn [eval_cond re_match]. now rewrite Rb.
Qed.

(* ------------------------------------------------------------------ declarations *)
Lemma variable_tail_ok_colon w b y : seqb w (s "type") = false -> seqb w (s "class") = false ->
  variable_tail_ok w (blanks b ++ c_colon :: y) = true.
Proof.
  intros T C. unfold variable_tail_ok. rewrite T, C. cbn [andb].
  destruct b as [|b].
  - cbn [blanks repeat app skip_ws]. replace (is_space c_colon) with false by reflexivity.
    rewrite Ascii.eqb_refl. now rewrite !orb_true_r.
  - change (blanks (S b) ++ c_colon :: y) with (c_sp :: (blanks b ++ c_colon :: y)). cbn iota.
    change (c_sp :: (blanks b ++ c_colon :: y)) with (blanks (S b) ++ c_colon :: y).
    rewrite (skip_ws_bl_ch (S b) c_colon y eq_refl). rewrite Ascii.eqb_refl. now rewrite !orb_true_r.
Qed.

Lemma stripped_colons_ident b name : ident_ok name = true -> stripped (c_colon :: c_colon :: blanks b ++ name) = true.
Proof.
  intros I. apply (stripped_app [c_colon; c_colon] (blanks b ++ name) c_colon [c_colon]); [reflexivity|reflexivity| |].
  - intros E. apply app_eq_nil in E as [_ E]. now apply (ident_nonempty name I).
  - rewrite last_app by (now apply ident_nonempty).
    destruct (exists_last (ident_nonempty name I)) as (t & d & E). rewrite E, last_last.
    pose proof (ident_words name I) as W. rewrite E, forallb_app in W. apply andb_true_iff in W as [_ W]. cbn in W.
    rewrite andb_true_r in W. now apply word_nospace.
Qed.

Theorem d_enumerator c m b1 b2 name : plain_ident name = true -> cx_level0 c = true ->
  classify c (render (XEnumerator m b1 b2 name)) = Fired (s "VARIABLE_RE") (SLeaf LVariable [name]).
Proof.
  intros P L0. pose proof (plain_ident_ok name P) as I. destruct (ident_free name P) as [Fn1 Fn2].
  unfold render. cbn [pieces_of dcolon app].
  set (rest := [PBl b1; PCh c_colon; PCh c_colon; PBl b2; PId name]).
  assert (O : Forall piece_ok (PKw m (s "enumerator") :: rest)) by (unfold rest; piece_oks; split; reflexivity).
  assert (Ex : denote (PKw m (s "enumerator") :: rest)
               = recase m (s "enumerator") ++ blanks b1 ++ c_colon :: c_colon :: blanks b2 ++ name).
  { unfold rest. cbn [denote fold_right piece_text]. norm_app. reflexivity. }
  assert (Rd : is_declaration (denote (PKw m (s "enumerator") :: rest)) = true).
  { rewrite Ex. unfold is_declaration, variable_words. cbn [variable_re_alts]. unfold match_two.
    repeat match goal with
           | |- context [match_ci ?w (recase m (s "enumerator") ++ ?z)] =>
             lazymatch w with
             | s "enumerator" => fail
             | _ => rewrite (match_ci_conflict w m (s "enumerator") z eq_refl eq_refl)
             end
           end.
    rewrite (match_ci_kw m (s "enumerator") _ eq_refl). now rewrite variable_tail_ok_colon by reflexivity. }
  assert (Rl : line_to_variables (denote (PKw m (s "enumerator") :: rest)) [] (s "public")
               = Ok (map (var_of (mkpt (s "enumerator") (c_colon :: c_colon :: blanks b2 ++ name) None None None) (s "public")) [name])).
  { rewrite Ex. apply (ltv_names _ _ (s "public") b2 [name] true).
    - apply parse_type_enumerator. now apply stripped_colons_ident.
    - discriminate.
    - now constructor.
    - cbn [pt_rest comma_ids map sep_by denote fold_right piece_text]. now rewrite app_nil_r. }
  assert (Re : re_match ENUM_RE (denote (PKw m (s "enumerator") :: rest)) = No).
  { cbn [re_match]. rewrite Ex. unfold enum_re. change (s "enumerator") with (s "enum" ++ s "erator").
    assert (Er : recase m (s "enum" ++ s "erator") = recase m (s "enum") ++ recase (skipn 4 m) (s "erator")).
    { clear. generalize (s "erator"). intros z. destruct m as [|a0 [|a1 [|a2 [|a3 m']]]]; reflexivity. }
    rewrite Er, <- app_assoc, (match_ci_kw m (s "enum") _ eq_refl).
    rewrite (skip_ws_kw (skipn 4 m) (s "erator") _ ltac:(discriminate) eq_refl).
    pose proof (kw_words (skipn 4 m) (s "erator") eq_refl) as W. pose proof (kw_nonempty (skipn 4 m) (s "erator") ltac:(discriminate)) as N'.
    destruct (recase (skipn 4 m) (s "erator")) as [|c0 r0]; [congruence|]. cbn in W. apply andb_true_iff in W as [Wc _].
    cbn [app lit]. destruct (Ascii.eqb c0 c_comma) eqn:E; [|reflexivity]. apply Ascii.eqb_eq in E. subst c0. discriminate. }
  apply (classify_kw c m (s "enumerator") rest (([BLOCK_RE; ASSOCIATE_RE] ++ [SUBROUTINE_RE; FUNCTION_RE]) ++ [ENUM_RE]) 22);
    [exact O|discriminate| | |reflexivity|reflexivity|reflexivity| | ].
  - unfold rest. apply (denote_ends [PKw m (s "enumerator"); PBl b1; PCh c_colon; PCh c_colon; PBl b2] (PId name)); [exact I|exact Logic.I].
  - apply known_app; [|now apply known_one].
    apply known_std; try exact O; try reflexivity; try discriminate; unfold rest; repeat constructor; assumption.
  - change (br_cond (br 22)) with (CAnd (CMatch VARIABLE_RE) CLevel0). cbn [eval_cond re_match]. now rewrite Rd, L0.
  - change (br_cond (br 22)) with (CAnd (CMatch VARIABLE_RE) CLevel0). cbn [cond_key action key_name]. now rewrite Rl.
Qed.

Definition decl_words : list str :=
  [s "integer"; s "real"; s "complex"; s "logical"; s "character"; s "type"; s "class"; s "double";
   s "doubleprecision"; s "doublecomplex"].
Lemma type_word_in sp t : In (type_word sp t) decl_words.
Proof.
  destruct t as [[| | |] k| | |l k|[|] n]; cbn [type_word base_word decl_words]; try (destruct (t_dbl sp)); cbn; tauto.
Qed.
Lemma decl_word_excluded W : In W decl_words ->
  forallb (branch_excluded W (([BLOCK_RE; ASSOCIATE_RE] ++ [SUBROUTINE_RE; FUNCTION_RE]) ++ [TYPE_RE])) (firstn 22 cascade) = true
  /\ kw_label_ok W = true /\ W <> [] /\ forallb is_lower W = true
  /\ (W = s "type" \/ kw_excludes W TYPE_RE = true)
  /\ has_sub w_function W = false /\ has_sub w_subroutine W = false.
Proof.
  intros H. cbn [decl_words In] in H.
  repeat (destruct H as [<- | H]; [repeat split; try reflexivity; try discriminate; try (right; reflexivity); now left|]).
  destruct H.
Qed.

Lemma pt_rest_spec T t : pt_rest (spec_parsed T t) = t.
Proof. unfold spec_parsed. destruct (spec_ptype T) as [[[vt k] l] p]. reflexivity. Qed.

Lemma stripped_ids b names : names <> [] -> Forall (fun x => ident_ok x = true) names ->
  stripped (denote (comma_ids b names)) = true /\ stop_next (denote (comma_ids b names)) = true
  /\ denote (comma_ids b names) <> [].
Proof.
  intros N H. pose proof (comma_ids_starts b names [] N H) as S0. rewrite app_nil_r in S0.
  pose proof (comma_ids_ends b names [] N H) as E0. cbn [app] in E0.
  destruct S0 as (c0 & r0 & E & W0). destruct E0 as (t0 & d0 & E' & D0). repeat split.
  - unfold stripped. rewrite E. rewrite (word_nospace c0 W0). cbn [negb andb]. rewrite <- E, E', last_last. now rewrite D0.
  - rewrite E. cbn [stop_next]. unfold stops_parens.
    destruct H as [|x l Hx Hl]; [congruence|]. destruct (ident_ok_inv x Hx) as (c1 & r1 & -> & A1 & _).
    assert (Ec : c0 = c1).
    { destruct l as [|y l']; [cbn [comma_ids map sep_by denote fold_right piece_text] in E|rewrite comma_ids_cons, denote_cons in E by discriminate];
        cbn [piece_text app] in E; now injection E as <- _. }
    subst c1. now rewrite A1.
  - rewrite E. discriminate.
Qed.

Theorem d_decl c ts T dc b names :
  type_ok ts T = true -> type_text_ok T = true -> names <> [] -> idents_ok names -> cx_level0 c = true ->
  classify c (render (XDecl ts T dc b names)) = Fired (s "VARIABLE_RE") (SLeaf LVariable names).
Proof.
  intros OT TT N Hn L0. pose proof (idents_ok_ident names Hn) as In.
  set (W := type_word ts T). set (TP := type_tail_pieces ts T). set (D := dcol_pieces dc b).
  assert (Er : render (XDecl ts T dc b names) = denote (PKw (t_case ts) W :: TP ++ D ++ comma_ids b names)).
  { unfold render. cbn [pieces_of]. rewrite denote_cons. cbn [piece_text]. rewrite (render_type_pieces ts T).
    unfold type_pieces. fold W TP. rewrite !denote_cons, !denote_app. cbn [piece_text]. rewrite <- app_assoc. f_equal. f_equal.
    unfold D. destruct dc as [b0|]; reflexivity. }
  rewrite Er.
  destruct (decl_word_excluded W (type_word_in ts T)) as (Ex & KL & NW & LW & HT & FW1 & FW2).
  destruct (type_tail_facts ts T OT TT) as (OTP & F1 & F2).
  destruct names as [|x l]; [congruence|]. inversion In as [|? ? Ix Il]; subst.
  destruct (comma_ids_head b x l) as (Y & EY).
  destruct (type_rest_struct ts T dc b x Y) as (Fn & LS & VT & PS & St & SC1 & SC2). fold W TP D in Fn, LS, VT, PS, St, SC1, SC2.
  specialize (St Ix).
  assert (OD : Forall piece_ok D) by (unfold D; destruct dc; piece_oks; split; reflexivity).
  assert (Oids : Forall piece_ok (comma_ids b (x :: l))) by now apply idents_pieces.
  assert (O : Forall piece_ok (PKw (t_case ts) W :: TP ++ D ++ comma_ids b (x :: l))).
  { constructor; [exact LW|]. apply Forall_app. split; [exact OTP|]. apply Forall_app. split; assumption. }
  (* the line as type spec, blanks, declaration list *)
  set (NT := denote (comma_ids b (x :: l))).
  destruct (stripped_ids b (x :: l) N In) as (SN & SNx & NNe). fold NT in SN, SNx, NNe.
  assert (Hparse : exists n t, denote (PKw (t_case ts) W :: TP ++ D ++ comma_ids b (x :: l)) = render_type ts T ++ blanks n ++ t
                               /\ tail_ok n t = true
                               /\ t = (if match dc with Some _ => true | None => false end
                                       then c_colon :: c_colon :: blanks b ++ NT else NT)).
  { rewrite (render_type_pieces ts T). unfold type_pieces. fold W TP.
    destruct dc as [b0|]; unfold D; cbn [dcol_pieces].
    - exists b0, (c_colon :: c_colon :: blanks b ++ NT). repeat split.
      + rewrite !denote_cons, !denote_app. cbn [denote fold_right piece_text]. fold NT. norm_app. reflexivity.
      + unfold tail_ok. apply andb_true_iff. split; [apply andb_true_iff; split|reflexivity]; [|reflexivity].
        apply (stripped_app [c_colon; c_colon] (blanks b ++ NT) c_colon [c_colon]); [reflexivity|reflexivity| |].
        * intros E. apply app_eq_nil in E as [_ E]. now apply NNe.
        * rewrite last_app by exact NNe. unfold stripped in SN. destruct NT as [|c0 r0] eqn:ENT; [congruence|].
          apply andb_true_iff in SN as [_ SN]. apply negb_true_iff in SN.
          now rewrite (last_indep (c0 :: r0) c_colon c0 ltac:(discriminate)).
    - exists (S b), NT. repeat split.
      + rewrite !denote_cons, !denote_app. cbn [denote fold_right piece_text]. fold NT. norm_app. reflexivity.
      + unfold tail_ok. rewrite SN, SNx. destruct NT; [congruence|reflexivity]. }
  destruct Hparse as (n & t & Eline & Htail & Et).
  assert (Rl : line_to_variables (denote (PKw (t_case ts) W :: TP ++ D ++ comma_ids b (x :: l))) [] (s "public")
               = Ok (map (var_of (spec_parsed T t) (s "public")) (x :: l))).
  { rewrite Eline. apply (ltv_names _ _ (s "public") b (x :: l) (match dc with Some _ => true | None => false end));
      [now apply type_spellings|exact N|exact In|]. rewrite pt_rest_spec. exact Et. }
  (* VARIABLE_RE matches *)
  assert (Rd : is_declaration (denote (PKw (t_case ts) W :: TP ++ D ++ comma_ids b (x :: l))) = true).
  { rewrite EY in *. rewrite denote_cons. cbn [piece_text].
    destruct T as [nb k| | |lc kc|cls nn]; fold W TP D.
    - apply is_decl_word; [unfold W; destruct nb; cbn; tauto|].
      apply vtail_ok; [exact VT|exact St|exact PS].
    - (* double precision *)
      unfold W, TP. cbn [type_word type_tail_pieces]. destruct (t_dbl ts) as [|d].
      + change (s "doubleprecision") with (s "double" ++ s "precision"). rewrite recase_app, <- app_assoc.
        change (recase (t_case ts) (s "double") ++ recase (skipn (length (s "double")) (t_case ts)) (s "precision") ++ denote ([] ++ D ++ PId x :: Y))
          with (recase (t_case ts) (s "double") ++ blanks 0 ++ recase (skipn 6 (t_case ts)) (s "precision") ++ denote (D ++ PId x :: Y)).
        apply is_decl_double; [now left|]. apply vtail_ok; [exact VT| |right; split; reflexivity].
        unfold D. destruct dc; cbn [dcol_pieces app stop_ok piece_text]; [reflexivity|now apply ident_starts].
      + cbn [app]. rewrite !denote_cons. cbn [piece_text].
        apply is_decl_double; [now left|]. apply vtail_ok; [exact VT| |right; split; reflexivity].
        unfold D. destruct dc; cbn [dcol_pieces app stop_ok piece_text]; [reflexivity|now apply ident_starts].
    - unfold W, TP. cbn [type_word type_tail_pieces]. destruct (t_dbl ts) as [|d].
      + change (s "doublecomplex") with (s "double" ++ s "complex"). rewrite recase_app, <- app_assoc.
        change (recase (t_case ts) (s "double") ++ recase (skipn (length (s "double")) (t_case ts)) (s "complex") ++ denote ([] ++ D ++ PId x :: Y))
          with (recase (t_case ts) (s "double") ++ blanks 0 ++ recase (skipn 6 (t_case ts)) (s "complex") ++ denote (D ++ PId x :: Y)).
        apply is_decl_double; [now right|]. apply vtail_ok; [exact VT| |right; split; reflexivity].
        unfold D. destruct dc; cbn [dcol_pieces app stop_ok piece_text]; [reflexivity|now apply ident_starts].
      + cbn [app]. rewrite !denote_cons. cbn [piece_text].
        apply is_decl_double; [now right|]. apply vtail_ok; [exact VT| |right; split; reflexivity].
        unfold D. destruct dc; cbn [dcol_pieces app stop_ok piece_text]; [reflexivity|now apply ident_starts].
    - apply is_decl_word; [cbn; tauto|]. apply vtail_ok; [exact VT|exact St|exact PS].
    - apply is_decl_word; [unfold W; destruct cls; cbn; tauto|]. apply vtail_ok; [exact VT|exact St|exact PS]. }
  apply (classify_kw c (t_case ts) W (TP ++ D ++ comma_ids b (x :: l))
                     (([BLOCK_RE; ASSOCIATE_RE] ++ [SUBROUTINE_RE; FUNCTION_RE]) ++ [TYPE_RE]) 22);
    [exact O|exact NW| | |reflexivity|exact Ex|reflexivity| | ].
  - replace (PKw (t_case ts) W :: TP ++ D ++ comma_ids b (x :: l)) with ((PKw (t_case ts) W :: TP ++ D) ++ comma_ids b (x :: l))
      by (cbn [app]; now rewrite <- app_assoc).
    now apply comma_ids_ends.
  - apply known_app.
    + rewrite EY in *. apply known_std; try assumption.
      * replace (PKw (t_case ts) W :: TP ++ D ++ PId x :: Y) with ((PKw (t_case ts) W :: TP ++ D) ++ PId x :: Y)
          by (cbn [app]; now rewrite <- app_assoc).
        apply sep_closed_ok; [exact SC1|]. rewrite <- EY. now apply sep_ok_comma_ids.
      * replace (PKw (t_case ts) W :: TP ++ D ++ PId x :: Y) with ((PKw (t_case ts) W :: TP ++ D) ++ PId x :: Y)
          by (cbn [app]; now rewrite <- app_assoc).
        apply sep_closed_ok; [exact SC2|]. rewrite <- EY. now apply sep_ok_comma_ids.
      * constructor; [exact FW1|]. apply Forall_app. split; [exact F1|]. apply Forall_app. split.
        -- unfold D. destruct dc; repeat constructor.
        -- rewrite <- EY. apply idents_free; [now left|exact Hn].
      * constructor; [exact FW2|]. apply Forall_app. split; [exact F2|]. apply Forall_app. split.
        -- unfold D. destruct dc; repeat constructor.
        -- rewrite <- EY. apply idents_free; [now right|exact Hn].
    + apply known_one. destruct HT as [HW | HK]; [|now apply kw_excludes_miss].
      (* type(...) :: x is no derived-type statement *)
      cbn [re_match]. rewrite denote_cons. cbn [piece_text]. rewrite HW.
      destruct T as [nb k| | |lc kc|cls nn]; unfold W in HW; cbn [type_word] in HW;
        try (destruct nb; discriminate HW); try (destruct (t_dbl ts); discriminate HW); try discriminate HW.
      destruct cls; [discriminate HW|]. unfold TP. cbn [type_tail_pieces]. unfold paren_pieces. cbn [app].
      rewrite !denote_cons. cbn [piece_text app]. unfold type_re.
      rewrite (match_ci_kw (t_case ts) (s "type") _ eq_refl).
      rewrite (type_first_alt_punct (t_b1 ts) c_lpar _ eq_refl eq_refl eq_refl).
      now rewrite (skip_ws_bl_ch (t_b1 ts) c_lpar _ eq_refl).
  - change (br_cond (br 22)) with (CAnd (CMatch VARIABLE_RE) CLevel0). cbn [eval_cond re_match]. now rewrite Rd, L0.
  - change (br_cond (br 22)) with (CAnd (CMatch VARIABLE_RE) CLevel0). cbn [cond_key action key_name]. rewrite Rl.
    rewrite map_map. cbn [var_of v_name]. now rewrite map_id.
Qed.

(* ------------------------------------------------------------------ every statement, every spelling *)
Lemma forallb_idents l : forallb plain_ident l = true -> idents_ok l.
Proof. intros H. apply Forall_forall. intros x Hx. rewrite forallb_forall in H. now apply H. Qed.
Lemma nonempty_ne {A} (l : list A) : nonempty l = true -> l <> [].
Proof. destruct l; [discriminate|discriminate]. Qed.

Lemma opt_ident_ok o : forallb plain_ident (opt_ident o) = true -> opt_name_ok o.
Proof. destruct o as [[b n]|]; cbn; [|trivial]. intros H. now apply andb_true_iff in H as [H _]. Qed.

Lemma tattrs_ok attrs : forallb plain_ident (flat_map (fun am : tattr * list bool => tattr_idents (fst am)) attrs) = true ->
  Forall (fun am => tattr_ok (fst am)) attrs.
Proof.
  induction attrs as [|[a m] l IH]; intros H; [constructor|]. cbn [flat_map fst] in H. rewrite forallb_app in H.
  apply andb_true_iff in H as [H1 H2]. constructor; [|now apply IH].
  destruct a; cbn [tattr_ok tattr_idents forallb fst] in *; try exact I. now apply andb_true_iff in H1 as [H1 _].
Qed.

Theorem dispatch_correct k inc l0 l : line_ok l = true -> place_ok k inc l0 l = true ->
  exists key, classify (mkctx k inc l0) (render l) = Fired key (stmt_of l).
Proof.
  intros LO PO. unfold line_ok, line_shape_ok in LO. apply andb_true_iff in LO as [LI LX].
  destruct l; cbn [idents_of forallb stmt_of place_ok] in *;
    repeat match goal with H : (_ && _) = true |- _ => apply andb_true_iff in H as [? ?] end.
  - (* module *) eexists. now apply dispatch_module.
  - (* submodule *) eexists. apply d_submodule; try assumption.
    destruct parent; cbn [forallb] in *; [|exact I].
    repeat match goal with H : (_ && _) = true |- _ => apply andb_true_iff in H as [? ?] end. assumption.
  - (* program *) eexists. apply d_program. now apply opt_ident_ok.
  - (* block data *) eexists. apply d_block_data. now apply opt_ident_ok.
  - (* type *) eexists. destruct f as [b|b1 b2|b0 b1 b2 b3 attrs]; cbn [idents_of forallb] in *;
      repeat match goal with H : (_ && _) = true |- _ => apply andb_true_iff in H as [? ?] end;
      apply d_type; try assumption; try exact I. cbn [tform_ok]. now apply tattrs_ok.
  - (* enum *) eexists. now apply d_enum.
  - (* interface *) eexists. apply d_interface; [|assumption]. destruct name as [[bn n]|]; [assumption|exact I].
  - (* abstract interface *) eexists. now apply d_abstract.
  - (* module procedure, implementation *) eexists. apply d_modproc_impl; [assumption|]. cbn [cx_kind].
    apply negb_true_iff in PO. now destruct k.
  - (* subroutine *) eexists. apply d_subroutine; [assumption|]. destruct args as [[[b2 b3] a]|]; [|exact I].
    now apply forallb_idents.
  - (* function *) eexists. rewrite forallb_app in *.
    repeat match goal with H : (_ && _) = true |- _ => apply andb_true_iff in H as [? ?] end.
    apply d_function; [assumption|now apply forallb_idents|].
    destruct res as [[[[b4 m2] b5] r]|]; [|exact I]. cbn [forallb] in *.
    repeat match goal with H : (_ && _) = true |- _ => apply andb_true_iff in H as [? ?] end.
    split; [assumption|]. now apply negb_true_iff.
  - (* end *) eexists. now apply d_end.
  - (* end unit *) eexists. apply d_end_unit; [assumption|now apply opt_ident_ok].
  - (* end block *) eexists. apply d_end_block; [now apply opt_ident_ok|].
    destruct name as [[bn n]|]; [now apply negb_true_iff|exact I].
  - (* end associate *) eexists. apply d_end_associate; [now apply opt_ident_ok|]. cbn [cx_kind]. now destruct k.
  - eexists. apply d_contains.
  - eexists. apply d_access.
  - eexists. apply d_sequence.
  - eexists. now apply d_use.
  - eexists. apply d_common; [assumption|now apply nonempty_ne|now apply forallb_idents].
  - eexists. apply d_namelist; [assumption|now apply nonempty_ne|now apply forallb_idents].
  - (* bound procedures *) eexists. apply d_bound; [now apply nonempty_ne| |assumption].
    rewrite forallb_app in LI. apply andb_true_iff in LI as [A B].
    clear - A B. induction binds as [|nt bl IH]; [constructor|]. cbn [map forallb] in A, B.
    apply andb_true_iff in A as [A1 A2]. apply andb_true_iff in B as [B1 B2]. constructor; [split; assumption|now apply IH].
  - (* final *) eexists. apply d_final; [now apply nonempty_ne|now apply forallb_idents|assumption].
  - eexists. apply d_modproc_ref; [now apply nonempty_ne|now apply forallb_idents|]. cbn [cx_kind]. now destruct k.
  - eexists. apply d_decl; try assumption; [now apply nonempty_ne|now apply forallb_idents].
  - eexists. now apply d_enumerator.
  - (* block *) eexists. destruct label as [[[lb b1] b2]|]; [|apply d_block].
    cbn [idents_of forallb] in *. apply andb_true_iff in LI as [LI _]. now apply d_block_named.
  - eexists. cbn [forallb] in *. repeat match goal with H : (_ && _) = true |- _ => apply andb_true_iff in H as [? ?] end.
    apply d_associate; try assumption; try (cbn [cx_kind]; now destruct k).
  - eexists. apply d_implicit_none.
  - (* executable statements *) apply d_exec. now apply Nat.ltb_lt.
Qed.

(* ------------------------------------------------------------------ what was refuted, and is repaired *)
(* the lines on which the chain went wrong before the repairs: FINAL without "::", END BLOCKDATA
   without a blank, an END statement with a statement label, an assignment to a variable named
   "interface"; they are ordinary cases of dispatch_correct now *)
Definition w_final : sline := XFinal [] None 0 0 [s "f1"].
Definition w_end_blockdata : sline := XEndUnit None [] [] 1 0 EBlockData (Some (0, s "bd")).
Definition w_labelled_end : sline := XEndUnit (Some (s "99", 0)) [] [] 1 1 ESubroutine (Some (0, s "sub")).

Example final_fixed :
  render w_final = s "final f1" /\ line_ok w_final = true /\ place_ok KType true true w_final = true /\
  classify (mkctx KType true true) (render w_final) = Fired (s "FINAL_RE") (SLeaf LFinal [s "f1"]).
Proof. repeat split; vm_compute; reflexivity. Qed.
Example end_blockdata_fixed :
  render w_end_blockdata = s "end blockdata bd" /\ line_ok w_end_blockdata = true /\
  classify (mkctx KBlockData false true) (render w_end_blockdata) = Fired (s "END_RE") (SEnd EndPlain).
Proof. repeat split; vm_compute; reflexivity. Qed.
Example labelled_end_fixed :
  render w_labelled_end = s "99 end subroutine sub" /\ line_ok w_labelled_end = true /\
  classify (mkctx KSubroutine false true) (render w_labelled_end) = Fired (s "END_RE") (SEnd EndPlain).
Proof. repeat split; vm_compute; reflexivity. Qed.
Example interface_assignment_fixed :
  classify (mkctx KSubroutine false true) (s "interface" ++ s " = " ++ s "n") = Fired (s "tail") SNoop.
Proof. vm_compute. reflexivity. Qed.
Example program_inside_unit_fixed :
  classify (mkctx KModule false true) (s "program p") = Fired (s "PROGRAM_RE") (SUnit KProgram (s "p")).
Proof. vm_compute. reflexivity. Qed.

(* non-vacuity of the dispatch theorem: a line of every kind with unusual spellings *)
Example dispatch_examples :
  forallb (fun p => line_ok (snd p) && place_ok (fst (fst (fst p))) (snd (fst (fst p))) (snd (fst p)) (snd p))
    [(KFile, false, true, XModule [true] 2 (s "Mesh_Tools"));
     (KModule, false, true, XType [true; true; true; true] (TAttrs 0 1 1 0 [(TAbstract, []); (TExtends (s "base"), [true])]) (s "shape"));
     (KModule, true, true, XFunction [(PPure, [], 0); (PElemental, [true], 1)] [] 0 (s "area") 1 0 [s "x"; s "y"]
                                      (Some (0, [true], 1, s "r")));
     (KType, true, true, XBound [] [true] 1 0 1 1 1 [(s "draw", s "draw_impl"); (s "scale", s "scale_impl")]);
     (KSubroutine, false, true, XDecl (mkts [true] [] 1 1 1 1 0 0) (ANum BReal (Some (s "dp"))) (Some 0) 1 [s "a"; s "b"]);
     (KSubroutine, false, true, XEndUnit None [true; true; true] [] 0 1 ESubroutine (Some (1, s "solve")));
     (KProgram, false, false, XBlock (Some (s "outer", 0, 1)) [true]);
     (KType, true, true, w_final); (KBlockData, false, true, w_end_blockdata); (KSubroutine, false, true, w_labelled_end);
     (KModule, false, true, XProgram [] (Some (0, s "p")))] = true.
Proof. vm_compute. reflexivity. Qed.
