(* Sem/Tree.v — model of the structural part of ford.sourceform.FortranContainer.__init__:
   statement kinds -> entity tree (nesting, END handling, CONTAINS, BLOCK level, which container
   accepts which child, where documentation lines go, "File ended while still nested").
   The statement kind is what the regular-expression cascade decides (layer L1, not modelled
   here); the parser runs with dbg = true, i.e. "Unexpected ..." diagnostics are printed and
   parsing goes on.  Executable definitions only. *)
From Ford Require Import Base.Str.

Inductive ckind :=
| KFile | KModule | KSubmodule | KProgram | KSubroutine | KFunction | KModProcImpl
| KType | KEnum | KInterface | KBlockData.

(* entities that are not containers *)
Inductive lkind := LVariable | LNamelist | LCommon | LBoundProc | LFinal | LModProcRef | LUse.

Inductive endkind := EndPlain | EndBlock | EndAssociate.

Inductive stmt :=
| SDoc (t : str)                       (* a documentation line "!!..." as the reader delivers it *)
| SContains
| SNoop                                (* public/private/protected/sequence/format/attribute statements,
                                          arithmetic goto, calls, anything that creates no entity *)
| SEnd (e : endkind)
| SBlock
| SUnit (k : ckind) (name : str)       (* first line of a container: module, program, procedure, type ... *)
| SIface (abstract : bool) (name : str)  (* interface [name] / abstract interface; "" = unnamed *)
| SLeaf (l : lkind) (names : list str) (* a statement declaring leaf entities (variables of one
                                          declaration, bound procedures, finals, common, namelist,
                                          module procedure list, use) *)
| SModProcImpl (name : str).           (* "module procedure name" outside an interface *)

(* an entity of the documented tree *)
Inductive ent :=
| Container (k : ckind) (name : str) (abstract generic : bool) (docs : list str) (children : list ent)
| Leaf (l : lkind) (name : str) (docs : list str).

Inductive perr := ENested | EEndAtFile | EEofInDocs | EFuel.

Definition is_codeunit (k : ckind) : bool :=
  match k with
  | KModule | KSubmodule | KProgram | KSubroutine | KFunction | KModProcImpl => true
  | _ => false
  end.
Definition can_contain (k : ckind) : bool :=
  match k with
  | KModule | KSubmodule | KProgram | KSubroutine | KFunction | KModProcImpl | KType => true
  | _ => false
  end.

(* hasattr(self, <list>) for the list a child of kind c goes to *)
Definition accepts_unit (k c : ckind) : bool :=
  match c with
  | KModule | KSubmodule | KProgram | KBlockData => match k with KFile => true | _ => false end
  | KSubroutine | KFunction => match k with KFile | KInterface => true | _ => is_codeunit k end
  | KType => is_codeunit k || match k with KBlockData => true | _ => false end
  | KEnum | KInterface => is_codeunit k
  | KModProcImpl => match k with KModule | KSubmodule => true | _ => false end
  | KFile => false
  end.
Definition accepts_leaf (k : ckind) (l : lkind) : bool :=
  match l with
  | LVariable => is_codeunit k || match k with KType | KEnum | KInterface | KBlockData => true | _ => false end
  | LNamelist => is_codeunit k
  | LCommon => is_codeunit k || match k with KBlockData => true | _ => false end
  | LBoundProc | LFinal => match k with KType => true | _ => false end
  | LModProcRef => match k with KInterface => true | _ => false end
  | LUse => is_codeunit k || match k with KBlockData => true | _ => false end
  end.

(* the contiguous documentation lines that follow a statement (read_docstring) *)
Fixpoint take_docs (l : list stmt) : list str * list stmt :=
  match l with
  | SDoc t :: l' => let (d, r) := take_docs l' in (t :: d, r)
  | _ => ([], l)
  end.

(* leaf statements: which of the declared names receives the documentation that follows.
   Variables of one declaration share it; for bound procedures (built in reversed order), finals
   and module-procedure lists one constructor reads it. *)
Definition leaf_ents (l : lkind) (names : list str) (docs : list str) : list ent :=
  match l with
  | LVariable | LCommon | LNamelist | LUse => map (fun n => Leaf l n docs) names
  | LBoundProc =>
    (* the bindings of one statement are built from the last name to the first; the first one
       built reads the documentation *)
    match rev names with
    | [] => []
    | lastn :: others => Leaf l lastn docs :: map (fun n => Leaf l n []) others
    end
  | LFinal | LModProcRef =>
    match rev names with
    | [] => []
    | lastn :: others => rev (Leaf l lastn docs :: map (fun n => Leaf l n []) others)
    end
  end.

Record cstate := { cs_incontains : bool; cs_block : nat; cs_negblock : nat;
                   cs_docs : list str; cs_children : list ent }.

Inductive pres :=
| PErr (e : perr)
| POk (e : ent) (rest : list stmt).

(* interface blocks are flattened into the enclosing scope: abstract and non-generic ones
   contribute one entity per body, a generic one stays a single entity *)
Definition flatten_iface (e : ent) : list ent :=
  match e with
  | Container KInterface name abstract generic docs children =>
    if generic then [e]
    else map (fun c => match c with
                       | Container _ cname _ _ _ cch =>
                         Container KInterface cname abstract false docs [c]
                       | Leaf _ _ _ => c
                       end)
             (filter (fun c => match c with Container (KSubroutine | KFunction) _ _ _ _ _ => true | _ => false end)
                     children)
  | _ => [e]
  end.

(* parse the body of a container whose first line (and leading docstring) has been consumed *)
Fixpoint parse_body (fuel : nat) (k : ckind) (name : str) (abstract generic : bool)
         (st : cstate) (l : list stmt) : pres :=
  match fuel with
  | 0 => PErr EFuel
  | S f =>
    let finish := Container k name abstract generic (cs_docs st) (cs_children st) in
    let continue_with st' l' := parse_body f k name abstract generic st' l' in
    let add es st := {| cs_incontains := cs_incontains st; cs_block := cs_block st; cs_negblock := cs_negblock st;
                        cs_docs := cs_docs st; cs_children := cs_children st ++ es |} in
    match l with
    | [] => match k with KFile => POk finish [] | _ => PErr ENested end
    | SDoc t :: l' =>
      continue_with {| cs_incontains := cs_incontains st; cs_block := cs_block st; cs_negblock := cs_negblock st;
                       cs_docs := cs_docs st ++ [t]; cs_children := cs_children st |} l'
    | SContains :: l' =>
      continue_with {| cs_incontains := cs_incontains st || can_contain k; cs_block := cs_block st;
                       cs_negblock := cs_negblock st; cs_docs := cs_docs st; cs_children := cs_children st |} l'
    | SNoop :: l' => continue_with st l'
    | SBlock :: l' =>
      (* blocklevel += 1 (a negative level first climbs back to zero) *)
      continue_with (match cs_negblock st with
                     | 0 => {| cs_incontains := cs_incontains st; cs_block := S (cs_block st); cs_negblock := 0;
                               cs_docs := cs_docs st; cs_children := cs_children st |}
                     | S n => {| cs_incontains := cs_incontains st; cs_block := 0; cs_negblock := n;
                                 cs_docs := cs_docs st; cs_children := cs_children st |}
                     end) l'
    | SEnd e :: l' =>
      match k with
      | KFile => PErr EEndAtFile
      | _ =>
        match e with
        | EndBlock =>
          continue_with (match cs_block st with
                         | 0 => {| cs_incontains := cs_incontains st; cs_block := 0; cs_negblock := S (cs_negblock st);
                                   cs_docs := cs_docs st; cs_children := cs_children st |}
                         | S n => {| cs_incontains := cs_incontains st; cs_block := n; cs_negblock := cs_negblock st;
                                     cs_docs := cs_docs st; cs_children := cs_children st |}
                         end) l'
        | EndAssociate => continue_with st l'
        | EndPlain =>
          match cs_block st, cs_negblock st with
          | 0, 0 => POk finish l'
          | _, _ => continue_with st l'
          end
        end
      end
    | SUnit c cname :: l' =>
      let at_level0 := match cs_block st, cs_negblock st with 0, 0 => true | _, _ => false end in
      let guarded := match c with KType | KEnum => negb at_level0 | _ => false end in
      let before_contains := match c with KSubroutine | KFunction => is_codeunit k && negb (cs_incontains st) | _ => false end in
      if guarded || before_contains || negb (accepts_unit k c) then continue_with st l'
      else
        let (d, l1) := take_docs l' in
        match parse_body f c cname false false
                {| cs_incontains := false; cs_block := 0; cs_negblock := 0; cs_docs := d; cs_children := [] |} l1 with
        | PErr e => PErr e
        | POk child rest => continue_with (add [child] st) rest
        end
    | SModProcImpl cname :: l' =>
      if negb (accepts_unit k KModProcImpl) then continue_with st l'
      else
        let (d, l1) := take_docs l' in
        match parse_body f KModProcImpl cname false false
                {| cs_incontains := false; cs_block := 0; cs_negblock := 0; cs_docs := d; cs_children := [] |} l1 with
        | PErr e => PErr e
        | POk child rest => continue_with (add [child] st) rest
        end
    | SIface abstract' iname :: l' =>
      let at_level0 := match cs_block st, cs_negblock st with 0, 0 => true | _, _ => false end in
      if negb at_level0 || negb (accepts_unit k KInterface) then continue_with st l'
      else
        let (d, l1) := take_docs l' in
        let generic' := match iname with [] => false | _ => true end in
        match parse_body f KInterface iname abstract' generic'
                {| cs_incontains := false; cs_block := 0; cs_negblock := 0; cs_docs := d; cs_children := [] |} l1 with
        | PErr e => PErr e
        | POk child rest => continue_with (add (flatten_iface child) st) rest
        end
    | SLeaf lk names :: l' =>
      let at_level0 := match cs_block st, cs_negblock st with 0, 0 => true | _, _ => false end in
      let guarded := match lk with
                     | LVariable => negb at_level0
                     | LBoundProc | LFinal => negb (cs_incontains st)
                     | _ => false
                     end in
      if guarded || negb (accepts_leaf k lk) then continue_with st l'
      else
        let (d, l1) := take_docs l' in
        continue_with (add (leaf_ents lk names d) st) l1
    end
  end.

Definition parse_file (fname : str) (l : list stmt) : pres :=
  parse_body (S (length l)) KFile fname false false
    {| cs_incontains := false; cs_block := 0; cs_negblock := 0; cs_docs := []; cs_children := [] |} l.
