(* Sem/CascadeSpec.v -- the statements of a Fortran program as TEXT: every statement kind of
   Sem/Tree.v with the spellings a writer may choose -- letter case of every keyword, number of
   blanks wherever blanks may stand, optional names on END statements, procedure prefixes, type
   attributes, with and without "::", construct names, statement labels.  Written from the
   Fortran grammar (free source form), not from FORD's regular expressions; harness/gen/ftree.py
   renders a subset of these forms.  A line is a sequence of pieces.  Executable definitions only. *)
From Coq Require Import NArith.
From Ford Require Import Base.Str Base.StrX Sem.Tree Sem.TypeSpec Sem.DeclSpec.

Inductive piece :=
| PKw (m : list bool) (w : str)      (* the keyword w (lower-case letters), letter i in upper case where m says so *)
| PBl (n : nat)                      (* n blanks *)
| PGap (n : nat)                     (* n + 1 blanks *)
| PId (x : str)                      (* an identifier *)
| PCh (c : ascii)                    (* a punctuation character *)
| PTx (x : str).                     (* other text: a type spec, an expression, a generic spec, a label *)

Definition piece_text (p : piece) : str :=
  match p with
  | PKw m w => recase m w
  | PBl n => blanks n
  | PGap n => blanks (S n)
  | PId x => x
  | PCh c => [c]
  | PTx x => x
  end.
Definition denote (ps : list piece) : str := fold_right (fun p acc => piece_text p ++ acc) [] ps.

Definition dcolon : list piece := [PCh c_colon; PCh c_colon].
Fixpoint sep_by {A} (sep : list A) (l : list (list A)) : list A :=
  match l with
  | [] => []
  | [x] => x
  | x :: l' => x ++ sep ++ sep_by sep l'
  end.
(* identifiers separated by commas, b blanks after each comma *)
Definition comma_ids (b : nat) (l : list str) : list piece :=
  sep_by [PCh c_comma; PBl b] (map (fun x => [PId x]) l).
Definition opt_name (o : option (nat * str)) : list piece :=
  match o with Some (b, n) => [PGap b; PId n] | None => [] end.

(* procedure prefixes *)
Inductive pword := PPure | PElemental | PRecursive | PImpure | PModule.
Definition pword_text (p : pword) : str :=
  match p with
  | PPure => s "pure" | PElemental => s "elemental" | PRecursive => s "recursive" | PImpure => s "impure"
  | PModule => s "module"
  end.
Definition prefixes (l : list (pword * list bool * nat)) : list piece :=
  flat_map (fun x => let '(p, m, b) := x in [PKw m (pword_text p); PGap b]) l.

(* attributes of a derived-type statement *)
Inductive tattr := TAbstract | TPublic | TPrivate | TBindC | TExtends (base : str).
Definition tattr_pieces (m : list bool) (a : tattr) : list piece :=
  match a with
  | TAbstract => [PKw m (s "abstract")] | TPublic => [PKw m (s "public")] | TPrivate => [PKw m (s "private")]
  | TBindC => [PKw m (s "bind"); PCh c_lpar; PKw (skipn 4 m) (s "c"); PCh c_rpar]
  | TExtends b => [PKw m (s "extends"); PCh c_lpar; PId b; PCh c_rpar]
  end.
Inductive tform :=
| TSpace (b : nat)                                                  (* type NAME *)
| TColons (b1 b2 : nat)                                             (* type :: NAME, TYPE::NAME *)
| TAttrs (b0 b1 b2 b3 : nat) (attrs : list (tattr * list bool)).    (* type, ATTRS :: NAME *)
Definition tform_pieces (f : tform) : list piece :=
  match f with
  | TSpace b => [PGap b]
  | TColons b1 b2 => [PBl b1] ++ dcolon ++ [PBl b2]
  | TAttrs b0 b1 b2 b3 attrs =>
    [PBl b0; PCh c_comma; PBl b1]
    ++ sep_by [PCh c_comma; PBl b1] (map (fun am => tattr_pieces (snd am) (fst am)) attrs)
    ++ [PBl b2] ++ dcolon ++ [PBl b3]
  end.

(* the unit word of an END statement; bd: blanks between "block" and "data" *)
Inductive eword :=
| EModule | ESubmodule | ESubroutine | EFunction | EProcedure | EProgram | EType | EInterface | EEnum
| EBlockData.
Definition eword_pieces (m : list bool) (bd : nat) (w : eword) : list piece :=
  match w with
  | EModule => [PKw m (s "module")] | ESubmodule => [PKw m (s "submodule")] | ESubroutine => [PKw m (s "subroutine")]
  | EFunction => [PKw m (s "function")] | EProcedure => [PKw m (s "procedure")] | EProgram => [PKw m (s "program")]
  | EType => [PKw m (s "type")] | EInterface => [PKw m (s "interface")] | EEnum => [PKw m (s "enum")]
  | EBlockData => [PKw m (s "block"); PBl bd; PKw (skipn 5 m) (s "data")]
  end.

(* a numeric statement label *)
Definition label_pieces (lab : option (str * nat)) : list piece :=
  match lab with Some (digits, b) => [PTx digits; PGap b] | None => [] end.

Inductive access := APublic | APrivate | AProtected.
Definition access_text (a : access) : str :=
  match a with APublic => s "public" | APrivate => s "private" | AProtected => s "protected" end.

(* statements that declare nothing, as harness/gen/ftree.py writes them *)
Definition exec_lines : list str :=
  [s "x1 = x1 + 1"; s "call helper(x1)"; s "if (x1 > 0) x1 = 0"; s "print *, 'hello ! not a comment'";
   s "y2 = f(x1) + g(3)"; s "do i = 1, 3"; s "end do"; s "write(*,*) ""end module fake""";
   s "continue"; s "100 format (i5)"; s "go to (10, 20) k"].

Inductive sline :=
(* first lines of containers *)
| XModule (m : list bool) (b : nat) (name : str)
| XSubmodule (m : list bool) (b1 b2 b3 : nat) (anc : str) (parent : option str) (name : str)
| XProgram (m : list bool) (name : option (nat * str))
| XBlockData (m1 m2 : list bool) (b1 : nat) (name : option (nat * str))
| XType (m : list bool) (f : tform) (name : str)
| XEnum (m1 m2 m3 : list bool) (b1 b2 b3 b4 : nat)
| XInterface (m : list bool) (name : option (nat * str))
| XAbstract (m1 m2 : list bool) (b : nat)
| XModProcImpl (m1 m2 : list bool) (b1 b2 : nat) (name : str)
| XSubroutine (pre : list (pword * list bool * nat)) (m : list bool) (b : nat) (name : str)
              (args : option (nat * nat * list str))
| XFunction (pre : list (pword * list bool * nat)) (m : list bool) (b : nat) (name : str)
            (b2 b3 : nat) (args : list str) (res : option (nat * list bool * nat * str))
(* END *)
| XEnd (lab : option (str * nat)) (m : list bool)
| XEndUnit (lab : option (str * nat)) (m1 m2 : list bool) (b bd : nat) (w : eword) (name : option (nat * str))
| XEndBlock (m1 m2 : list bool) (b : nat) (name : option (nat * str))
| XEndAssociate (m1 m2 : list bool) (b : nat) (name : option (nat * str))
(* CONTAINS, access and SEQUENCE statements *)
| XContains (m : list bool)
| XAccess (a : access) (m : list bool)
| XSequence (m : list bool)
(* leaf declarations *)
| XUse (m : list bool) (b : nat) (name : str)
| XCommon (m : list bool) (b1 b2 b3 b4 : nat) (name : str) (vars : list str)
| XNamelist (m : list bool) (b1 b2 b3 : nat) (name : str) (vars : list str)
| XBound (m1 m2 : list bool) (b1 b2 b3 b4 b5 : nat) (binds : list (str * str))
| XFinal (m : list bool) (dc : option (nat * nat)) (b1 b2 : nat) (names : list str)
| XModProcRef (m1 m2 : list bool) (b1 : nat) (dc : option (nat * nat)) (b2 b3 : nat) (names : list str)
| XDecl (ts : tspell) (T : atype) (dc : option nat) (b : nat) (names : list str)
| XEnumerator (m : list bool) (b1 b2 : nat) (name : str)
(* constructs and statements that declare nothing *)
| XBlock (label : option (str * nat * nat)) (m : list bool)
| XAssociate (m : list bool) (b : nat) (a e : str)
| XImplicitNone (m1 m2 : list bool) (b : nat)
| XExec (i : nat).

Definition dc_or_gap (dc : option (nat * nat)) (b : nat) : list piece :=
  match dc with Some (c1, c2) => [PBl c1] ++ dcolon ++ [PBl c2] | None => [PGap b] end.

Definition pieces_of (l : sline) : list piece :=
  match l with
  | XModule m b name => [PKw m (s "module"); PGap b; PId name]
  | XSubmodule m b1 b2 b3 anc parent name =>
    [PKw m (s "submodule"); PBl b1; PCh c_lpar; PBl b2; PId anc]
    ++ (match parent with Some p => [PBl b2; PCh c_colon; PBl b2; PId p] | None => [] end)
    ++ [PBl b2; PCh c_rpar; PBl b3; PId name]
  | XProgram m name => PKw m (s "program") :: opt_name name
  | XBlockData m1 m2 b1 name => [PKw m1 (s "block"); PBl b1; PKw m2 (s "data")] ++ opt_name name
  | XType m f name => PKw m (s "type") :: tform_pieces f ++ [PId name]
  | XEnum m1 m2 m3 b1 b2 b3 b4 =>
    [PKw m1 (s "enum"); PBl b1; PCh c_comma; PBl b2; PKw m2 (s "bind"); PBl b3; PCh c_lpar; PBl b4;
     PKw m3 (s "c"); PBl b4; PCh c_rpar]
  | XInterface m name =>
    PKw m (s "interface") :: match name with Some (b, n) => [PGap b; PTx n] | None => [] end
  | XAbstract m1 m2 b => [PKw m1 (s "abstract"); PGap b; PKw m2 (s "interface")]
  | XModProcImpl m1 m2 b1 b2 name => [PKw m1 (s "module"); PGap b1; PKw m2 (s "procedure"); PGap b2; PId name]
  | XSubroutine pre m b name args =>
    prefixes pre ++ [PKw m (s "subroutine"); PGap b; PId name]
    ++ (match args with
        | Some (b2, b3, a) => [PBl b2; PCh c_lpar] ++ comma_ids b3 a ++ [PCh c_rpar]
        | None => []
        end)
  | XFunction pre m b name b2 b3 args res =>
    prefixes pre ++ [PKw m (s "function"); PGap b; PId name; PBl b2; PCh c_lpar] ++ comma_ids b3 args ++ [PCh c_rpar]
    ++ (match res with
        | Some (b4, m2, b5, r) => [PGap b4; PKw m2 (s "result"); PBl b5; PCh c_lpar; PId r; PCh c_rpar]
        | None => []
        end)
  | XEnd lab m => label_pieces lab ++ [PKw m (s "end")]
  | XEndUnit lab m1 m2 b bd w name =>
    label_pieces lab ++ [PKw m1 (s "end"); PBl b] ++ eword_pieces m2 bd w ++ opt_name name
  | XEndBlock m1 m2 b name => [PKw m1 (s "end"); PBl b; PKw m2 (s "block")] ++ opt_name name
  | XEndAssociate m1 m2 b name => [PKw m1 (s "end"); PBl b; PKw m2 (s "associate")] ++ opt_name name
  | XContains m => [PKw m (s "contains")]
  | XAccess a m => [PKw m (access_text a)]
  | XSequence m => [PKw m (s "sequence")]
  | XUse m b name => [PKw m (s "use"); PGap b; PId name]
  | XCommon m b1 b2 b3 b4 name vars =>
    [PKw m (s "common"); PBl b1; PCh c_slash; PBl b2; PId name; PBl b2; PCh c_slash; PBl b3] ++ comma_ids b4 vars
  | XNamelist m b1 b2 b3 name vars =>
    [PKw m (s "namelist"); PBl b1; PCh c_slash; PId name; PCh c_slash; PBl b2] ++ comma_ids b3 vars
  | XBound m1 m2 b1 b2 b3 b4 b5 binds =>
    [PKw m1 (s "procedure"); PBl b1; PCh c_comma; PBl b1; PKw m2 (s "nopass"); PBl b2] ++ dcolon ++ [PBl b2]
    ++ sep_by [PCh c_comma; PBl b5]
         (map (fun nt => [PId (fst nt); PBl b3; PCh c_eq; PCh c_gt; PBl b4; PId (snd nt)]) binds)
  | XFinal m dc b1 b2 names => PKw m (s "final") :: dc_or_gap dc b1 ++ comma_ids b2 names
  | XModProcRef m1 m2 b1 dc b2 b3 names =>
    [PKw m1 (s "module"); PGap b1; PKw m2 (s "procedure")] ++ dc_or_gap dc b2 ++ comma_ids b3 names
  | XDecl ts T dc b names =>
    PTx (render_type ts T) :: dc_or_gap (match dc with Some b0 => Some (b0, b) | None => None end) b
    ++ comma_ids b names
  | XEnumerator m b1 b2 name => [PKw m (s "enumerator"); PBl b1] ++ dcolon ++ [PBl b2; PId name]
  | XBlock label m =>
    (match label with Some (l, b1, b2) => [PId l; PBl b1; PCh c_colon; PBl b2] | None => [] end)
    ++ [PKw m (s "block")]
  | XAssociate m b a e =>
    [PKw m (s "associate"); PBl b; PCh c_lpar; PId a; PCh c_sp; PCh c_eq; PCh c_gt; PCh c_sp; PId e; PCh c_rpar]
  | XImplicitNone m1 m2 b => [PKw m1 (s "implicit"); PGap b; PKw m2 (s "none")]
  | XExec i => [PTx (nth i exec_lines (s "continue"))]
  end.

Definition render (l : sline) : str := denote (pieces_of l).

(* the statement of Sem/Tree.v a line is *)
Definition name_or_empty (o : option (nat * str)) : str := match o with Some (_, n) => n | None => [] end.
Definition stmt_of (l : sline) : stmt :=
  match l with
  | XModule _ _ name => SUnit KModule name
  | XSubmodule _ _ _ _ _ _ name => SUnit KSubmodule name
  | XProgram _ name => SUnit KProgram (name_or_empty name)
  | XBlockData _ _ _ name => SUnit KBlockData (name_or_empty name)
  | XType _ _ name => SUnit KType name
  | XEnum _ _ _ _ _ _ _ => SUnit KEnum []
  | XInterface _ name => SIface false (name_or_empty name)
  | XAbstract _ _ _ => SIface true []
  | XModProcImpl _ _ _ _ name => SModProcImpl name
  | XSubroutine _ _ _ name _ => SUnit KSubroutine name
  | XFunction _ _ _ name _ _ _ _ => SUnit KFunction name
  | XEnd _ _ | XEndUnit _ _ _ _ _ _ _ => SEnd EndPlain
  | XEndBlock _ _ _ _ => SEnd EndBlock
  | XEndAssociate _ _ _ _ => SEnd EndAssociate
  | XContains _ => SContains
  | XAccess _ _ | XSequence _ | XAssociate _ _ _ _ | XImplicitNone _ _ _ | XExec _ => SNoop
  | XUse _ _ name => SLeaf LUse [name]
  | XCommon _ _ _ _ _ name _ => SLeaf LCommon [name]
  | XNamelist _ _ _ _ name _ => SLeaf LNamelist [name]
  | XBound _ _ _ _ _ _ _ binds => SLeaf LBoundProc (map fst binds)
  | XFinal _ _ _ _ names => SLeaf LFinal names
  | XModProcRef _ _ _ _ _ _ names => SLeaf LModProcRef names
  | XDecl _ _ _ _ names => SLeaf LVariable names
  | XEnumerator _ _ _ name => SLeaf LVariable [name]
  | XBlock _ _ => SBlock
  end.

(* ------------------------------------------------------------------ side conditions *)
Fixpoint has_sub (w x : str) : bool :=
  match x with
  | [] => match w with [] => true | _ => false end
  | _ :: x' => if prefix w x then true else has_sub w x'
  end.
(* text that contains none of the two words the unanchored patterns (SUBROUTINE_RE, FUNCTION_RE)
   look for *)
Definition no_proc_word (x : str) : bool :=
  negb (has_sub (s "function") (lower x)) && negb (has_sub (s "subroutine") (lower x)).
(* identifiers: a letter, then letters, digits, underscores *)
Definition plain_ident (x : str) : bool := ident_ok x && no_proc_word x.

Definition tattr_idents (a : tattr) : list str := match a with TExtends b => [b] | _ => [] end.
Definition opt_ident (o : option (nat * str)) : list str := match o with Some (_, n) => [n] | None => [] end.
Definition idents_of (l : sline) : list str :=
  match l with
  | XModule _ _ n | XType _ (TSpace _) n | XType _ (TColons _ _) n | XModProcImpl _ _ _ _ n | XUse _ _ n
  | XEnumerator _ _ _ n => [n]
  | XType _ (TAttrs _ _ _ _ attrs) n => n :: flat_map (fun am => tattr_idents (fst am)) attrs
  | XSubmodule _ _ _ _ anc parent n => n :: anc :: match parent with Some p => [p] | None => [] end
  | XProgram _ o | XBlockData _ _ _ o | XEndUnit _ _ _ _ _ _ o | XEndBlock _ _ _ o | XEndAssociate _ _ _ o => opt_ident o
  | XSubroutine _ _ _ n args => n :: match args with Some (_, _, a) => a | None => [] end
  | XFunction _ _ _ n _ _ args res => n :: args ++ match res with Some (_, _, _, r) => [r] | None => [] end
  | XCommon _ _ _ _ _ n vars | XNamelist _ _ _ _ n vars => n :: vars
  | XBound _ _ _ _ _ _ _ binds => map fst binds ++ map snd binds
  | XFinal _ _ _ _ names | XModProcRef _ _ _ _ _ _ names | XDecl _ _ _ _ names => names
  | XBlock (Some (lab, _, _)) _ => [lab]
  | XAssociate _ _ a e => [a; e]
  | _ => []
  end.

Definition printable_ch (c : ascii) : bool :=
  let n := N_of_ascii c in ((32 <=? n)%N && (n <=? 126)%N)%bool.
(* a generic specification: a name, or operator(...) / assignment(=) / read|write(...): starts with
   a letter, printable, no white space at its end, no quote *)
Definition generic_ok (x : str) : bool :=
  match x with
  | c :: _ => is_alpha c && negb (is_space (last x c)) && negb (existsb is_quote x)
              && forallb printable_ch x && no_proc_word x
  | [] => false
  end.
(* the parameters of a type spec: printable text without the procedure words *)
Definition type_text_ok (T : atype) : bool :=
  let ok (o : option str) := match o with Some x => forallb printable_ch x && no_proc_word x | None => true end in
  match T with
  | ANum _ k => ok k
  | AChar l k => ok l && ok k
  | ADerived _ n => no_proc_word n
  | _ => true
  end.

Definition nonempty {A} (l : list A) : bool := match l with [] => false | _ => true end.

(* a construct name that does not begin with one of the words a statement may begin with *)
Definition statement_words : list str :=
  [s "bind"; s "intent"; s "asynchronous"; s "allocatable"; s "data"; s "dimension"; s "external"; s "optional";
   s "parameter"; s "pointer"; s "private"; s "protected"; s "public"; s "save"; s "target"; s "value"; s "volatile";
   s "end"; s "module"; s "procedure"; s "block"].
Definition construct_name_ok (l : str) : bool :=
  negb (existsb (fun w => prefix w (lower l)) statement_words).

(* a statement label: digits *)
Definition label_ok (lab : option (str * nat)) : bool :=
  match lab with Some (digits, _) => nonempty digits && forallb is_digit digits | None => true end.

(* the conditions on the parts of a line, whatever its spelling *)
Definition line_shape_ok (l : sline) : bool :=
  forallb plain_ident (idents_of l) &&
  match l with
  | XInterface _ (Some (_, n)) => generic_ok n
  | XCommon _ _ _ _ _ _ vars | XNamelist _ _ _ _ _ vars => nonempty vars
  | XBound _ _ _ _ _ _ _ binds => nonempty binds
  | XFinal _ _ _ _ names | XModProcRef _ _ _ _ _ _ names => nonempty names
  | XDecl ts T _ _ names => nonempty names && type_ok ts T && type_text_ok T
  | XExec i => i <? length exec_lines
  (* "end block data" ends a block data unit, also when "data" is meant as the name of a BLOCK construct *)
  | XEndBlock _ _ _ (Some (_, n)) => negb (seqb (lower n) (s "data"))
  | XBlock (Some (l, _, _)) _ => construct_name_ok l
  (* a C binding is looked for behind the arguments of a function statement *)
  | XFunction _ _ _ _ _ _ _ (Some (_, _, _, r)) => negb (has_sub (s "bind") (lower r))
  | XEnd lab _ | XEndUnit lab _ _ _ _ _ _ => label_ok lab
  | _ => true
  end.
Definition line_ok (l : sline) : bool := line_shape_ok l.

(* where a statement may stand: the state of the enclosing container *)
Definition is_iface (k : ckind) : bool := match k with KInterface => true | _ => false end.
Definition calls_kind (k : ckind) : bool :=
  match k with KProgram | KSubroutine | KFunction | KModProcImpl => true | _ => false end.
Definition place_ok (k : ckind) (incontains level0 : bool) (l : sline) : bool :=
  match l with
  | XType _ _ _ | XEnum _ _ _ _ _ _ _ | XInterface _ _ | XAbstract _ _ _ | XDecl _ _ _ _ _ | XEnumerator _ _ _ _ => level0
  | XBound _ _ _ _ _ _ _ _ | XFinal _ _ _ _ _ => incontains
  | XModProcRef _ _ _ _ _ _ _ => is_iface k
  | XModProcImpl _ _ _ _ _ => negb (is_iface k)
  | XAssociate _ _ _ _ | XEndAssociate _ _ _ _ => calls_kind k
  | _ => true
  end.
