(* Sem/AccessProofs.v — proofs about Sem/Access.v (property C04). *)
From Ford Require Import Base.Str Base.StrFacts Sem.Access.
From Coq Require Import Lia.

Local Arguments Nat.div : simpl never.

(* ------------------------------------------------------------------ small facts *)

Lemma perm_eqb_eq a b : perm_eqb a b = true <-> a = b.
Proof. destruct a, b; simpl; split; intros H; try discriminate; auto. Qed.

Lemma perm_eqb_refl a : perm_eqb a a = true.
Proof. now destruct a. Qed.

Lemma has_In p l : has p l = true <-> In p l.
Proof.
  unfold has. rewrite existsb_exists. split.
  - intros (x & Hx & E). apply perm_eqb_eq in E. now subst.
  - intros H. exists p. split; auto. apply perm_eqb_refl.
Qed.

Lemma has_false_In p l : has p l = false <-> ~ In p l.
Proof.
  split.
  - intros H I. apply has_In in I. congruence.
  - intros H. destruct (has p l) eqn:E; auto. apply has_In in E. contradiction.
Qed.

Lemma filter_all_true {A} (f : A -> bool) l : forallb f l = true -> filter f l = l.
Proof.
  induction l as [|x l IH]; simpl; auto. intros H. apply andb_true_iff in H as [H1 H2].
  rewrite H1. f_equal. auto.
Qed.

Definition cnt {A} (P : A -> bool) (l : list A) : nat := length (filter P l).

Lemma cnt_cons {A} (P : A -> bool) x l : cnt P (x :: l) = (if P x then 1 else 0) + cnt P l.
Proof. unfold cnt. simpl. destruct (P x); reflexivity. Qed.

Lemma cnt_zero {A} (P : A -> bool) l : cnt P l = 0 -> forall x, In x l -> P x = false.
Proof.
  induction l as [|y l IH]; simpl; intros H x I; [contradiction|].
  rewrite cnt_cons in H. destruct (P y) eqn:E; [discriminate|].
  destruct I as [->|I]; auto.
Qed.

Lemma cnt_pos {A} (P : A -> bool) l x : In x l -> P x = true -> 1 <= cnt P l.
Proof.
  intros I Px. destruct (cnt P l) eqn:E; [|lia].
  pose proof (cnt_zero P l E x I). congruence.
Qed.

Lemma cnt_two {A} (P : A -> bool) l a b :
  In a l -> In b l -> a <> b -> P a = true -> P b = true -> 2 <= cnt P l.
Proof.
  induction l as [|y l IH]; simpl; intros Ia Ib N Pa Pb; [contradiction|].
  rewrite cnt_cons.
  destruct Ia as [->|Ia], Ib as [->|Ib].
  - congruence.
  - rewrite Pa. pose proof (cnt_pos P l b Ib Pb). lia.
  - rewrite Pb. pose proof (cnt_pos P l a Ia Pa). lia.
  - specialize (IH Ia Ib N Pa Pb). lia.
Qed.

Lemma perm_eq_dec (a b : perm) : {a = b} + {a <> b}.
Proof. decide equality. Defined.
Lemma str_eq_dec (a b : str) : {a = b} + {a <> b}.
Proof. apply list_eq_dec. apply Ascii.ascii_dec. Defined.
Lemma tstmt_eq_dec (a b : tstmt) : {a = b} + {a <> b}.
Proof. decide equality; try apply perm_eq_dec; try apply str_eq_dec; apply list_eq_dec; apply perm_eq_dec. Defined.
Lemma sstmt_eq_dec (a b : sstmt) : {a = b} + {a <> b}.
Proof.
  decide equality; try apply perm_eq_dec; try apply str_eq_dec; try apply Bool.bool_dec;
    try (apply list_eq_dec; first [apply perm_eq_dec | apply str_eq_dec | apply tstmt_eq_dec]).
  decide equality.
Defined.

(* ------------------------------------------------------------------ keys *)

Lemma is_space_lower_ch c : is_space (lower_ch c) = is_space c.
Proof. destruct c as [[] [] [] [] [] [] [] []]; reflexivity. Qed.

Lemma lower_filter_space n :
  lower (filter (fun c => negb (is_space c)) n) = filter (fun c => negb (is_space c)) (lower n).
Proof.
  induction n as [|c n IH]; [reflexivity|]. simpl. rewrite is_space_lower_ch.
  destruct (is_space c); simpl; [exact IH | now rewrite <- IH].
Qed.

(* names equal up to letter case are equal as attr_dict keys *)
Lemma key_of_pkey a b : pkey a = pkey b -> key a = key b.
Proof. unfold key, pkey. intros H. now rewrite !lower_filter_space, H. Qed.

Lemma same_id_key a b : same_id a b = str_eqb (key a) (key b).
Proof. reflexivity. Qed.

(* ------------------------------------------------------------------ last_perm / last_for *)

Lemma last_perm_cases ats d : (ats = [] /\ last_perm ats d = d) \/ In (last_perm ats d) ats.
Proof.
  revert d. induction ats as [|a r IH]; intros d; simpl; auto.
  right. destruct (IH a) as [[-> E]|I]; simpl; auto.
Qed.

Lemma last_for_cases k D d :
  ((forall p, ~ In (k, p) D) /\ last_for k D d = d) \/ In (k, last_for k D d) D.
Proof.
  revert d. induction D as [|[k' p'] r IH]; intros d; simpl.
  - left. split; auto.
  - destruct (str_eqb k k') eqn:E.
    + apply str_eqb_eq in E. subst k'.
      destruct (IH p') as [[H1 H2]|I]; [|right; auto].
      right. left. now rewrite H2.
    + apply str_eqb_neq in E.
      destruct (IH d) as [[H1 H2]|I]; [|right; auto].
      left. split; auto. intros p [X|X]; [injection X as -> _; congruence | exact (H1 p X)].
Qed.

Lemma apply_attrs_in e' items D :
  In e' (apply_attrs items D) ->
  exists e, In e items /\ e' = set_perm e (last_for (key (e_name e)) D (e_perm e)).
Proof. unfold apply_attrs. rewrite in_map_iff. intros (e & <- & I). exists e. auto. Qed.

(* ------------------------------------------------------------------ classes *)

Definition modlevel (e : ent) : bool := klass (e_kind e) <? 6.

Lemma in_ordered e l : In e (ordered l) <-> In e l /\ modlevel e = true.
Proof.
  unfold ordered, of_class, modlevel. rewrite !in_app_iff, !filter_In. split.
  - intros H. repeat (destruct H as [[H1 H2]|H]; [apply Nat.eqb_eq in H2; rewrite H2; auto|]).
    destruct H as [H1 H2]. apply Nat.eqb_eq in H2; rewrite H2; auto.
  - intros [H1 H2]. apply Nat.ltb_lt in H2.
    destruct (klass (e_kind e)) as [|[|[|[|[|[|n]]]]]] eqn:E; try lia; simpl; tauto.
Qed.

(* ------------------------------------------------------------------ the parsing loop *)

(* attributes FORD looks at on the declaration *)
Definition ford_attrs (st : sstmt) : list perm :=
  match st with
  | SVar _ _ ats => ats
  | SType _ ats _ => filter is_acc ats
  | _ => []
  end.
Definition decl_attrs (st : sstmt) : list perm :=
  match st with
  | SVar _ _ ats | SType _ ats _ => ats
  | _ => []
  end.
Definition decl_name (st : sstmt) : option (ekind * str) :=
  match st with
  | SVar pa n _ => Some (if pa then KParam else KVar, n)
  | SType n _ _ => Some (KType, n)
  | SIface k n => Some (ekind_of_ikind k, n)
  | SProc f n => Some (if f then KFun else KSub, n)
  | _ => None
  end.

(* the permission an entity has when the loop is over: its last recognised attribute, else the
   default in force at the end of the scope *)
Definition base_perm (ats : list perm) (fin : perm) : perm :=
  match ats with [] => fin | a :: l => last_perm l a end.

Lemma decl_perm_base ats cur rest : decl_perm ats cur rest = base_perm ats (cur_after cur rest).
Proof. destruct ats; reflexivity. Qed.

Lemma tchildren_kinds owner tb e :
  In e (tchildren owner tb) -> e_kind e = KComp \/ e_kind e = KBind.
Proof.
  unfold tchildren. rewrite in_app_iff, !filter_In. unfold is_kind.
  intros [[_ H]|[_ H]]; destruct (e_kind e); simpl in H; try discriminate; auto.
Qed.

Lemma tchildren_not_top owner tb e : In e (tchildren owner tb) -> top_level e = false.
Proof. intros H. apply tchildren_kinds in H as [H|H]; unfold top_level; now rewrite H. Qed.

Lemma tchildren_not_modlevel owner tb e : In e (tchildren owner tb) -> modlevel e = false.
Proof. intros H. apply tchildren_kinds in H as [H|H]; unfold modlevel; now rewrite H. Qed.

(* a module-level entity of the scan comes from a declaration statement *)
Lemma scan_modlevel_in e cur body :
  In e (scan_ents cur body) -> modlevel e = true ->
  exists st k n, In st body /\ decl_name st = Some (k, n) /\
    e = mk_ent k [] n (base_perm (ford_attrs st) (cur_after cur body)).
Proof.
  revert cur. induction body as [|st r IH]; intros cur I M; simpl in I; [contradiction|].
  assert (rec : forall cur', In e (scan_ents cur' r) -> cur_after cur (st :: r) = cur_after cur' r ->
     exists st0 k n, In st0 (st :: r) /\ decl_name st0 = Some (k, n) /\
       e = mk_ent k [] n (base_perm (ford_attrs st0) (cur_after cur (st :: r)))).
  { intros cur' I' E. destruct (IH cur' I' M) as (st0 & k & n & Hi & Hd & ->).
    exists st0, k, n. repeat split; auto. now right. now rewrite E. }
  destruct st as [p|p ns|pa n ats|n ats tb|k n| |f n]; simpl in I.
  - apply (rec p); auto.
  - apply (rec cur); auto.
  - destruct I as [<-|I]; [|apply (rec cur); auto].
    exists (SVar pa n ats), (if pa then KParam else KVar), n. repeat split; simpl; auto.
    now rewrite decl_perm_base.
  - destruct I as [<-|I].
    + exists (SType n ats tb), KType, n. repeat split; simpl; auto. now rewrite decl_perm_base.
    + apply in_app_iff in I as [I|I]; [|apply (rec cur); auto].
      apply tchildren_not_modlevel in I. congruence.
  - destruct I as [<-|I]; [|apply (rec cur); auto].
    exists (SIface k n), (ekind_of_ikind k), n. repeat split; simpl; auto.
  - apply (rec cur); auto.
  - destruct I as [<-|I]; [|apply (rec cur); auto].
    exists (SProc f n), (if f then KFun else KSub), n. repeat split; simpl; auto.
Qed.

Lemma scan_children_in e cur body :
  In e (scan_ents cur body) -> modlevel e = false ->
  exists n ats tb, In (SType n ats tb) body /\ In e (tchildren n tb).
Proof.
  revert cur. induction body as [|st r IH]; intros cur I M; simpl in I; [contradiction|].
  assert (rec : forall cur', In e (scan_ents cur' r) ->
     exists n ats tb, In (SType n ats tb) (st :: r) /\ In e (tchildren n tb)).
  { intros cur' I'. destruct (IH cur' I' M) as (n & ats & tb & H1 & H2). exists n, ats, tb. split; simpl; auto. }
  destruct st as [p|p ns|pa n ats|n ats tb|k n| |f n]; simpl in I; eauto.
  - destruct I as [<-|I]; eauto. unfold modlevel in M. destruct pa; discriminate.
  - destruct I as [<-|I]; [discriminate|].
    apply in_app_iff in I as [I|I]; eauto. exists n, ats, tb. split; simpl; auto.
  - destruct I as [<-|I]; eauto. unfold modlevel in M. destruct k; discriminate.
  - destruct I as [<-|I]; eauto. unfold modlevel in M. destruct f; discriminate.
Qed.

Lemma decl_name_modlevel st k n : decl_name st = Some (k, n) -> klass k <? 6 = true /\ k <> KIfProc.
Proof.
  destruct st as [p|p ns|pa m ats|m ats tb|ik m| |f m]; simpl; intros H; try discriminate;
    injection H as <- <-; [destruct pa| |destruct ik|destruct f]; split; (reflexivity || discriminate).
Qed.

Lemma declares_decl_name n st :
  declares n st = match decl_name st with Some (_, m) => str_eqb (key n) (key m) | None => false end.
Proof. destruct st; reflexivity. Qed.

Lemma decl_name_type st n : decl_name st = Some (KType, n) -> carries_attrs st = true.
Proof.
  destruct st as [| |pa m ats|m ats tb|k m| |f m]; simpl; intros H; try discriminate; auto.
  - destruct k; discriminate.
  - destruct f; discriminate.
Qed.

Lemma decl_name_carries st k n :
  decl_name st = Some (k, n) -> kind_carries k = true -> carries_attrs st = true.
Proof.
  destruct st as [| |pa m ats|m ats tb|ik m| |f m]; simpl; intros H C; try discriminate; auto;
    injection H as <- _; [destruct ik|destruct f]; discriminate.
Qed.

Lemma decl_attrs_carries st p : In p (decl_attrs st) -> carries_attrs st = true.
Proof. destruct st; simpl; auto; contradiction. Qed.

(* ------------------------------------------------------------------ constructor step *)

Definition ident (e : ent) := (e_kind e, e_owner e, e_name e).

Lemma set_first_in k p es e' :
  In e' (set_first k p es) ->
  In e' es \/ exists e, In e es /\ in_all_procs e = true /\ k = pkey (e_name e) /\ e' = set_perm e p.
Proof.
  induction es as [|x r IH]; simpl; intros I; [contradiction|].
  destruct (in_all_procs x && str_eqb k (pkey (e_name x))) eqn:E.
  - destruct I as [<-|I]; auto.
    apply andb_true_iff in E as [E1 E2]. apply str_eqb_eq in E2.
    right. exists x. auto.
  - destruct I as [<-|I]; auto.
    destruct (IH I) as [H|(e & H1 & H2)]; auto. right. exists e. tauto.
Qed.

Lemma set_last_in k p es e' :
  In e' (set_last k p es) ->
  In e' es \/ exists e, In e es /\ in_all_procs e = true /\ k = pkey (e_name e) /\ e' = set_perm e p.
Proof.
  unfold set_last. rewrite <- in_rev. intros I. apply set_first_in in I as [I|(e & I & H)].
  - left. now apply in_rev.
  - right. exists e. split; auto. now apply in_rev.
Qed.

(* every entity after the constructor step is an entity before it, possibly with the permission of a
   type of the same name *)
Lemma fix_constructors_in es e' :
  In e' (fix_constructors es) ->
  exists e, In e es /\ ident e' = ident e /\
    (e' = e \/ exists t, In t es /\ klass (e_kind t) = 2 /\ in_all_procs e = true /\
                         pkey (e_name t) = pkey (e_name e) /\ e_perm e' = e_perm t).
Proof.
  unfold fix_constructors.
  assert (G : forall ts acc,
    (forall t, In t ts -> In t es /\ klass (e_kind t) = 2) ->
    (forall x, In x acc -> exists e, In e es /\ ident x = ident e /\
       (x = e \/ exists t, In t es /\ klass (e_kind t) = 2 /\ in_all_procs e = true /\
                           pkey (e_name t) = pkey (e_name e) /\ e_perm x = e_perm t)) ->
    forall x, In x (fold_left (fun acc t => set_last (pkey (e_name t)) (e_perm t) acc) ts acc) ->
      exists e, In e es /\ ident x = ident e /\
       (x = e \/ exists t, In t es /\ klass (e_kind t) = 2 /\ in_all_procs e = true /\
                           pkey (e_name t) = pkey (e_name e) /\ e_perm x = e_perm t)).
  { induction ts as [|t ts IH]; intros acc Hts Hacc x I; simpl in I; [now apply Hacc|].
    apply IH in I; auto.
    - intros t' It'. apply Hts. now right.
    - intros y Iy. apply set_last_in in Iy as [Iy|(y0 & Iy0 & A & K & ->)]; [now apply Hacc|].
      destruct (Hacc y0 Iy0) as (e & Ie & Eid & _).
      destruct (Hts t (or_introl eq_refl)) as [It Kt].
      exists e. split; auto. split; [exact Eid|].
      right. exists t. repeat split; auto.
      + unfold ident in Eid. injection Eid as E1 E2 E3. unfold in_all_procs in *. now rewrite <- E1.
      + unfold ident in Eid. injection Eid as E1 E2 E3. now rewrite <- E3. }
  apply G.
  - intros t It. unfold of_class in It. apply filter_In in It as [H1 H2]. apply Nat.eqb_eq in H2. auto.
  - intros x Ix. exists x. auto.
Qed.

(* ------------------------------------------------------------------ explicit specifications *)

Lemma existsb_same_id n ns :
  existsb (same_id n) ns = true <-> exists m, In m ns /\ key m = key n.
Proof.
  rewrite existsb_exists. split.
  - intros (m & Im & E). exists m. split; auto. rewrite same_id_key in E.
    apply str_eqb_eq in E. auto.
  - intros (m & Im & E). exists m. split; auto. rewrite same_id_key, E. apply str_eqb_refl.
Qed.

(* the Spec's explicit keywords of n are exactly: the attr_dict entries under n's key, and the access
   attributes on declarations of n *)
Lemma explicit_specs_in n body p :
  In p (explicit_specs n body) <->
  In (key n, p) (scan_attrs body) \/ exists st, In st body /\ declares n st = true /\ In p (decl_attrs st).
Proof.
  induction body as [|st r IH].
  - simpl. split; [contradiction|]. intros [[]|(st & [] & _)].
  - assert (skip : explicit_specs n (st :: r) = explicit_specs n r -> scan_attrs (st :: r) = scan_attrs r ->
                   (declares n st = true -> decl_attrs st = []) ->
      (In p (explicit_specs n (st :: r)) <->
       In (key n, p) (scan_attrs (st :: r)) \/
       exists st0, In st0 (st :: r) /\ declares n st0 = true /\ In p (decl_attrs st0))).
    { intros E1 E2 E3. rewrite E1, E2, IH. split.
      - intros [H|(st0 & H1 & H2)]; auto. right. exists st0. simpl. tauto.
      - intros [H|(st0 & [<-|H1] & H2 & H3)]; auto.
        + rewrite (E3 H2) in H3. contradiction.
        + right. exists st0. auto. }
    destruct st as [q|q ns|pa m ats|m ats tb|k m| |f m]; try (apply skip; auto; fail).
    + (* SAccess *)
      simpl explicit_specs. simpl scan_attrs. rewrite !in_app_iff, IH.
      pose proof (existsb_same_id n ns) as X.
      split.
      * intros [H|[H|(st0 & H1 & H2)]].
        -- destruct (existsb (same_id n) ns) eqn:E; [|contradiction].
           destruct H as [<-|[]]. destruct (proj1 X eq_refl) as (m & Im & Em).
           left. left. apply in_map_iff. exists m. split; auto. now rewrite Em.
        -- auto.
        -- right. exists st0. simpl. tauto.
      * intros [[H|H]|(st0 & [<-|H1] & H2 & H3)].
        -- apply in_map_iff in H as (m & Em & Im). injection Em as Em <-.
           left. rewrite (proj2 X); [now left|]. exists m. auto.
        -- auto.
        -- discriminate.
        -- right. right. exists st0. auto.
    + (* SVar *)
      simpl explicit_specs. simpl scan_attrs. rewrite in_app_iff, IH, same_id_key.
      split.
      * intros [H|[H|(st0 & H1 & H2)]]; auto.
        -- destruct (str_eqb (key n) (key m)) eqn:E; [|contradiction].
           right. exists (SVar pa m ats). simpl. auto.
        -- right. exists st0. simpl. tauto.
      * intros [H|(st0 & [<-|H1] & H2 & H3)]; auto.
        -- simpl in H2, H3. rewrite H2. auto.
        -- right. right. exists st0. auto.
    + (* SType *)
      simpl explicit_specs. simpl scan_attrs. rewrite in_app_iff, IH, same_id_key.
      split.
      * intros [H|[H|(st0 & H1 & H2)]]; auto.
        -- destruct (str_eqb (key n) (key m)) eqn:E; [|contradiction].
           right. exists (SType m ats tb). simpl. auto.
        -- right. exists st0. simpl. tauto.
      * intros [H|(st0 & [<-|H1] & H2 & H3)]; auto.
        -- simpl in H2, H3. rewrite H2. auto.
        -- right. right. exists st0. auto.
Qed.

(* ------------------------------------------------------------------ the default at the end of the scope *)

Lemma existsb_default_false pre : existsb is_default pre = false -> forall c, cur_after c pre = c.
Proof.
  induction pre as [|st r IH]; simpl; intros H c; auto.
  apply orb_false_iff in H as [H1 H2]. destruct st; try discriminate; apply IH; auto.
Qed.

Lemma count_defaults_zero l : count_defaults l = 0 -> existsb is_default l = false.
Proof.
  unfold count_defaults. induction l as [|st r IH]; simpl; auto.
  destruct (is_default st); simpl; [discriminate|auto].
Qed.

Lemma no_default_no_private l : existsb is_default l = false -> existsb is_bare_private l = false.
Proof.
  induction l as [|st r IH]; simpl; auto. intros H. apply orb_false_iff in H as [H1 H2].
  rewrite (IH H2). destruct st as [[]| | | | | |]; simpl in *; auto; discriminate.
Qed.

Lemma cur_after_valid pre c :
  count_defaults pre <= 1 -> no_bare_protected pre = true ->
  cur_after c pre = if existsb is_default pre then default_access pre else c.
Proof.
  revert c. induction pre as [|st r IH]; intros c Hc Hp; simpl; auto.
  simpl in Hp. apply andb_true_iff in Hp as [Hp1 Hp2].
  destruct st as [p| | | | | |]; simpl; try (apply IH; auto; fail).
  unfold count_defaults in Hc. simpl in Hc.
  assert (Z : count_defaults r = 0) by (unfold count_defaults; lia).
  pose proof (count_defaults_zero r Z) as Z1.
  rewrite (existsb_default_false r Z1). unfold default_access. simpl.
  rewrite (no_default_no_private r Z1). destruct p; try reflexivity; discriminate.
Qed.

(* a list-less access statement reaches the whole scope: the permission inherited in the end is the
   module's default accessibility *)
Lemma final_default body :
  defaults_valid body = true -> cur_after Public body = default_access body.
Proof.
  unfold defaults_valid. intros V. apply andb_true_iff in V as [V1 V2]. apply Nat.leb_le in V1.
  rewrite (cur_after_valid body Public V1 V2).
  destruct (existsb is_default body) eqn:E; auto.
  unfold default_access. now rewrite (no_default_no_private body E).
Qed.

(* ------------------------------------------------------------------ the value FORD computes *)

Definition top_of (sk : scope_kind) (body : list sstmt) : list ent :=
  fix_constructors (apply_attrs (ordered (scan_ents (initial_perm sk) body)) (scan_attrs body)).

(* entities before the constructor step *)
Lemma attrs_in sk body e :
  In e (apply_attrs (ordered (scan_ents (initial_perm sk) body)) (scan_attrs body)) ->
  exists st, In st body /\ decl_name st = Some (e_kind e, e_name e) /\ e_owner e = [] /\
    e_perm e = last_for (key (e_name e)) (scan_attrs body)
                 (base_perm (ford_attrs st) (cur_after (initial_perm sk) body)).
Proof.
  intros I. apply apply_attrs_in in I as (e0 & I0 & ->).
  apply in_ordered in I0 as [I0 M].
  destruct (scan_modlevel_in _ _ _ I0 M) as (st & k & n & Is & Hd & ->).
  exists st. simpl. auto.
Qed.

Lemma top_modlevel sk body e : In e (top_of sk body) -> modlevel e = true.
Proof.
  intros I. apply fix_constructors_in in I as (e1 & I1 & Eid & _).
  apply attrs_in in I1 as (st & _ & Hd & _). apply decl_name_modlevel in Hd as [Hd _].
  unfold ident in Eid. injection Eid as E1 _ _. unfold modlevel. now rewrite E1.
Qed.

Lemma attr_twin_false k n body :
  attr_twin k n body = false -> count_attr_decls n body <= (if kind_carries k then 1 else 0).
Proof. unfold attr_twin. intros H. apply negb_false_iff in H. now apply Nat.leb_le. Qed.

(* For an identifier no other attribute-carrying declaration shares: its permission is the last access
   attribute stored under its key, else the last access keyword FORD recognises on the declaration,
   else the default in force at the end of the scope. *)
Lemma top_value sk body e :
  In e (top_of sk body) -> attr_twin (e_kind e) (e_name e) body = false ->
  exists st, In st body /\ decl_name st = Some (e_kind e, e_name e) /\
    e_perm e = last_for (key (e_name e)) (scan_attrs body)
                 (base_perm (ford_attrs st) (cur_after (initial_perm sk) body)).
Proof.
  intros I U. apply attr_twin_false in U.
  unfold top_of in I. apply fix_constructors_in in I as (e1 & I1 & Eid & Hcase).
  unfold ident in Eid. injection Eid as Ek Eo En.
  destruct Hcase as [->|(t & It & Kt & A & Ekey & _)].
  - apply attrs_in in I1 as (st & Is & Hd & _ & Hp). exists st. auto.
  - exfalso.
    apply attrs_in in It as (stt & Ist & Hdt & _).
    assert (KT : e_kind t = KType) by (destruct (e_kind t); simpl in Kt; try discriminate; reflexivity).
    rewrite KT in Hdt.
    assert (NC : kind_carries (e_kind e) = false).
    { rewrite Ek. unfold in_all_procs in A. destruct (e_kind e1); simpl in A; try discriminate; reflexivity. }
    rewrite NC in U.
    assert (1 <= count_attr_decls (e_name e) body); [|lia].
    apply (cnt_pos _ body stt Ist).
    rewrite (decl_name_type _ _ Hdt), declares_decl_name, Hdt, andb_true_r.
    rewrite En, (key_of_pkey _ _ Ekey). apply str_eqb_refl.
Qed.

Lemma ford_perms_some sk body out :
  ford_perms sk body = Some out ->
  out = top_of sk body ++ ifprocs (top_of sk body) ++ of_class 6 (scan_ents (initial_perm sk) body).
Proof. unfold ford_perms. destruct (struct_ok false body); [|discriminate]. intros H. now injection H as <-. Qed.

Lemma ifprocs_in es e :
  In e (ifprocs es) ->
  exists i, In i es /\ (e_kind i = KExplicit \/ e_kind i = KAbstract) /\ e = mk_ent KIfProc [] (e_name i) (e_perm i).
Proof.
  unfold ifprocs. rewrite in_flat_map. intros (i & Ii & H). exists i. split; auto.
  destruct (e_kind i); simpl in H; try contradiction; destruct H as [<-|[]]; auto.
Qed.

Lemma scan_kinds cur body e : In e (scan_ents cur body) -> e_kind e <> KIfProc.
Proof.
  intros I. destruct (modlevel e) eqn:M.
  - destruct (scan_modlevel_in _ _ _ I M) as (st & k & n & _ & Hd & ->).
    apply decl_name_modlevel in Hd. simpl. tauto.
  - destruct (scan_children_in _ _ _ I M) as (n & ats & tb & _ & Ic).
    apply tchildren_kinds in Ic as [-> | ->]; discriminate.
Qed.

(* every top-level entity FORD reports reduces to an entity of the main list with the same name and
   permission, and — as far as the Spec can tell — the same kind of thing *)
Lemma out_top_level sk body out e :
  ford_perms sk body = Some out -> In e out -> top_level e = true ->
  exists e1, In e1 (top_of sk body) /\ e_name e1 = e_name e /\ e_perm e1 = e_perm e /\
             is_variable (e_kind e1) = is_variable (e_kind e) /\
             kind_carries (e_kind e1) = kind_carries (e_kind e) /\
             (e1 = e \/ (e_kind e = KIfProc /\ (e_kind e1 = KExplicit \/ e_kind e1 = KAbstract))).
Proof.
  intros F I T. rewrite (ford_perms_some _ _ _ F) in I.
  apply in_app_iff in I as [I|I]; [exists e; auto 8|].
  apply in_app_iff in I as [I|I].
  - apply ifprocs_in in I as (i & Ii & K & ->). exists i. simpl. repeat split; auto;
    destruct K as [-> | ->]; reflexivity.
  - unfold of_class in I. apply filter_In in I as [I K]. apply Nat.eqb_eq in K.
    pose proof (scan_kinds _ _ _ I). unfold top_level in T.
    destruct (e_kind e); simpl in K; try discriminate; congruence.
Qed.

(* ------------------------------------------------------------------ C04: module-level entities *)

Definition full_statement : Prop :=
  forall sk body out e,
    ford_perms sk body = Some out -> In e out -> top_level e = true ->
    valid_for sk body (e_kind e) (e_name e) = true ->
    e_perm e = fortran_perm sk body (e_kind e) (e_name e).

Lemma attr_access_of_member ex d v :
  In v ex -> ~ In Protected ex -> negb (has Public ex && has Private ex) = true ->
  attr_access ex d = v.
Proof.
  intros I NP C. unfold attr_access.
  destruct v.
  - assert (has Public ex = true) as HP by now apply has_In.
    rewrite HP in C. simpl in C. apply negb_true_iff in C. now rewrite C, HP.
  - assert (has Private ex = true) as -> by now apply has_In. reflexivity.
  - contradiction.
Qed.

Lemma filter_is_acc_id ats : ~ In Protected ats -> filter is_acc ats = ats.
Proof.
  intros H. apply filter_all_true. apply forallb_forall. intros x Ix.
  destruct x; auto.
Qed.

Lemma decl_attrs_ford st : ~ In Protected (decl_attrs st) -> ford_attrs st = decl_attrs st.
Proof. destruct st; simpl; auto. apply filter_is_acc_id. Qed.

Lemma region_zero body k n :
  region body k n = 0 -> protected_conflict n body = false /\ attr_twin k n body = false.
Proof.
  unfold region. destruct (protected_conflict n body), (attr_twin k n body); simpl; intros H;
    try discriminate; auto.
Qed.

Lemma base_perm_cases ats fin : (ats = [] /\ base_perm ats fin = fin) \/ In (base_perm ats fin) ats.
Proof.
  destruct ats as [|a l]; [left; auto|]. right. simpl.
  destruct (last_perm_cases l a) as [[-> ->]|I]; simpl; auto.
Qed.

(* the permission FORD ends with is one of the explicit keywords of the identifier, or — when there is
   none — the default in force at the end of the scope *)
Lemma top_value_member body e :
  In e (top_of ScModule body) ->
  attr_twin (e_kind e) (e_name e) body = false ->
  (e_kind e = KVar \/ ~ In Protected (explicit_specs (e_name e) body)) ->
  In (e_perm e) (explicit_specs (e_name e) body) \/
  (explicit_specs (e_name e) body = [] /\ e_perm e = cur_after Public body).
Proof.
  intros I RD HK.
  destruct (top_value ScModule body e I RD) as (st & Ist & Hd & Hv).
  apply attr_twin_false in RD.
  set (n := e_name e) in *.
  assert (Hdecl : declares n st = true) by (rewrite declares_decl_name, Hd; apply str_eqb_refl).
  pose proof (explicit_specs_in n body) as EX.
  assert (FA : ford_attrs st = decl_attrs st).
  { destruct HK as [HK|HK].
    - rewrite HK in Hd. destruct st as [| |pa m ats|m ats tb|k m| |f m]; simpl in Hd; try discriminate; auto.
    - apply decl_attrs_ford. intros X. apply HK. apply (EX Protected). right. exists st. auto. }
  rewrite FA in Hv. rewrite Hv. simpl initial_perm.
  destruct (last_for_cases (key n) (scan_attrs body) (base_perm (decl_attrs st) (cur_after Public body)))
    as [[Hno ->]|Hin].
  - destruct (base_perm_cases (decl_attrs st) (cur_after Public body)) as [[Hnil ->]|Hin].
    + right. split; auto.
      assert (Hempty : forall p, ~ In p (explicit_specs n body)).
      { intros p X.
        apply (EX p) in X as [X|(st0 & I0 & D0 & A0)]; [exact (Hno p X)|].
        pose proof (decl_attrs_carries _ _ A0) as C0.
        destruct (kind_carries (e_kind e)) eqn:KC.
        - pose proof (decl_name_carries _ _ _ Hd KC) as Cs.
          assert (st0 = st).
          { destruct (sstmt_eq_dec st0 st) as [E|N]; auto. exfalso.
            assert (2 <= count_attr_decls n body); [|lia].
            apply (cnt_two _ body st0 st); auto; apply andb_true_iff; auto. }
          subst st0. rewrite Hnil in A0. contradiction.
        - assert (1 <= count_attr_decls n body); [|lia].
          apply (cnt_pos _ body st0 I0). apply andb_true_iff; auto. }
      clear EX. destruct (explicit_specs n body) as [|p l]; auto. exfalso. apply (Hempty p). now left.
    + left. apply (EX _). right. exists st. auto.
  - left. apply (EX _). left. exact Hin.
Qed.

(* the module case of the partial theorem, for entities of the main list *)
Lemma module_top_correct body e :
  In e (top_of ScModule body) ->
  defaults_valid body = true -> consistent (e_name e) body = true ->
  protected_given (e_name e) body = false -> attr_twin (e_kind e) (e_name e) body = false ->
  e_perm e = attr_access (explicit_specs (e_name e) body) (default_access body)
  /\ e_perm e <> Protected.
Proof.
  intros I V C RP RD.
  unfold protected_given in RP. apply has_false_In in RP.
  destruct (top_value_member body e I RD (or_intror RP)) as [Hmem|[Hnil Hcur]].
  - split.
    + symmetry. apply attr_access_of_member; auto.
    + intros X. apply RP. now rewrite <- X.
  - rewrite Hnil. unfold attr_access. simpl. rewrite Hcur, (final_default body V).
    split; auto. unfold default_access. destruct (existsb is_bare_private body); discriminate.
Qed.

(* ------------------------------------------------------------------ submodules *)

Lemma no_access_cur body c : no_access_syntax body = true -> cur_after c body = c.
Proof.
  revert c. induction body as [|st r IH]; simpl; intros c H; auto.
  apply andb_true_iff in H as [H1 H2]. destruct st; try discriminate; apply IH; auto.
Qed.

Lemma no_access_scan body :
  no_access_syntax body = true ->
  scan_attrs body = [] /\
  forall e, In e (scan_ents Private body) -> modlevel e = true -> e_perm e = Private.
Proof.
  induction body as [|st r IH]; simpl; intros H; [split; auto; intros e []|].
  apply andb_true_iff in H as [H1 H2]. destruct (IH H2) as [IA IE].
  destruct st as [p|p ns|pa m ats|m ats tb|k m| |f m]; try discriminate; simpl; split; auto.
  - destruct ats; [|discriminate]. intros e [<-|I] M; auto. simpl. now apply no_access_cur.
  - destruct ats; [|discriminate]. intros e [<-|I] M; [simpl; now apply no_access_cur|].
    apply in_app_iff in I as [I|I]; auto. apply tchildren_not_modlevel in I. congruence.
  - intros e [<-|I] M; auto. simpl. now apply no_access_cur.
  - intros e [<-|I] M; auto. simpl. now apply no_access_cur.
Qed.

Lemma submodule_top_private body e :
  no_access_syntax body = true -> In e (top_of ScSubmodule body) -> e_perm e = Private.
Proof.
  intros N I. destruct (no_access_scan body N) as [HA HE].
  unfold top_of in I. rewrite HA in I. simpl initial_perm in I.
  assert (HL : forall x, In x (apply_attrs (ordered (scan_ents Private body)) []) -> e_perm x = Private).
  { intros x Ix. apply apply_attrs_in in Ix as (e0 & I0 & ->).
    apply in_ordered in I0 as [I0 M]. simpl. now apply HE. }
  apply fix_constructors_in in I as (e1 & I1 & _ & [->|(t & It & _ & _ & _ & ->)]); auto.
Qed.

(* ------------------------------------------------------------------ the theorems on module-level entities *)

(* `protected` is recorded: a variable whose only explicit keyword is PROTECTED *)
Theorem protected_recorded : forall body out e,
  ford_perms ScModule body = Some out -> In e out -> e_kind e = KVar ->
  attr_twin KVar (e_name e) body = false ->
  protected_given (e_name e) body = true ->
  has Public (explicit_specs (e_name e) body) = false ->
  has Private (explicit_specs (e_name e) body) = false ->
  e_perm e = Protected /\
  (default_access body = Public -> e_perm e = fortran_perm ScModule body (e_kind e) (e_name e)).
Proof.
  intros body out e F I K RD PG NPub NPriv.
  assert (T : top_level e = true) by (unfold top_level; now rewrite K).
  destruct (out_top_level ScModule body out e F I T) as (e1 & I1 & _ & _ & _ & _ & [->|[X _]]); [|congruence].
  assert (EP : e_perm e = Protected).
  { rewrite <- K in RD.
    destruct (top_value_member body e I1 RD (or_introl K)) as [Hmem|[Hnil _]].
    - apply has_false_In in NPub, NPriv. destruct (e_perm e); tauto.
    - unfold protected_given in PG. rewrite Hnil in PG. discriminate. }
  split; auto. intros D. simpl. unfold attr_access. rewrite NPriv, NPub, D, K.
  unfold protected_given in PG. rewrite PG. exact EP.
Qed.

Lemma attr_twin_kind k1 k2 n body :
  kind_carries k1 = kind_carries k2 -> attr_twin k1 n body = attr_twin k2 n body.
Proof. unfold attr_twin. now intros ->. Qed.

Theorem partial : forall sk body out e,
  ford_perms sk body = Some out -> In e out -> top_level e = true ->
  valid_for sk body (e_kind e) (e_name e) = true ->
  region body (e_kind e) (e_name e) = 0 ->
  e_perm e = fortran_perm sk body (e_kind e) (e_name e).
Proof.
  intros sk body out e F I T V R.
  destruct sk.
  2:{ destruct (out_top_level ScSubmodule body out e F I T) as (e1 & I1 & _ & Ep & _).
      rewrite <- Ep. simpl in V |- *. now apply (submodule_top_private body). }
  apply region_zero in R as (RC & RD).
  simpl in V. apply andb_true_iff in V as [V V3]. apply andb_true_iff in V as [V1 V2].
  destruct (protected_given (e_name e) body) eqn:PG.
  - (* PROTECTED and nothing else, public default: the variable is recorded as protected *)
    simpl in V3. unfold protected_conflict in RC. unfold protected_given in PG. rewrite PG in RC. simpl in RC.
    apply orb_false_iff in RC as [RC RC3]. apply orb_false_iff in RC as [RC1 RC2].
    assert (K : e_kind e = KVar) by (destruct (e_kind e); try discriminate; reflexivity).
    assert (D : default_access body = Public).
    { unfold default_access in *. destruct (existsb is_bare_private body); [discriminate|reflexivity]. }
    rewrite K in RD.
    exact (proj2 (protected_recorded body out e F I K RD PG RC1 RC2) D).
  - destruct (out_top_level ScModule body out e F I T) as (e1 & I1 & En & Ep & Ev & Ec & _).
    rewrite <- Ep. rewrite <- En in V2, PG, RD. rewrite <- (attr_twin_kind _ _ _ _ Ec) in RD.
    destruct (module_top_correct body e1 I1 V1 V2 PG RD) as [H1 H2].
    simpl. unfold protected_given in PG. rewrite <- En, PG, andb_false_r, <- H1.
    destruct (e_perm e1); congruence.
Qed.

Theorem submodule_private : forall body out e,
  ford_perms ScSubmodule body = Some out -> no_access_syntax body = true ->
  In e out -> top_level e = true ->
  e_perm e = Private /\ e_perm e = fortran_perm ScSubmodule body (e_kind e) (e_name e).
Proof.
  intros body out e F N I T.
  destruct (out_top_level ScSubmodule body out e F I T) as (e1 & I1 & _ & Ep & _).
  rewrite <- Ep. split; [|simpl]; now apply (submodule_top_private body).
Qed.

(* the procedure of an abstract / nameless interface block has the permission of its interface entity,
   and every such interface entity has its procedure *)
Theorem interface_procs : forall sk body out,
  ford_perms sk body = Some out ->
  (forall e, In e out -> e_kind e = KIfProc ->
     exists i, In i out /\ (e_kind i = KExplicit \/ e_kind i = KAbstract) /\
               e_name i = e_name e /\ e_perm i = e_perm e) /\
  (forall i, In i out -> e_kind i = KExplicit \/ e_kind i = KAbstract ->
     In (mk_ent KIfProc [] (e_name i) (e_perm i)) out).
Proof.
  intros sk body out F. pose proof (ford_perms_some _ _ _ F) as ->. split.
  - intros e I K. apply in_app_iff in I as [I|I].
    { apply (top_modlevel sk body) in I. unfold modlevel in I. rewrite K in I. discriminate. }
    apply in_app_iff in I as [I|I].
    + apply ifprocs_in in I as (i & Ii & Ki & ->). exists i. simpl. rewrite in_app_iff. auto.
    + unfold of_class in I. apply filter_In in I as [I _]. apply scan_kinds in I. contradiction.
  - intros i I K. rewrite !in_app_iff in *. destruct I as [I|[I|I]].
    + right. left. unfold ifprocs. apply in_flat_map. exists i. split; auto.
      destruct K as [-> | ->]; simpl; auto.
    + apply ifprocs_in in I as (j & _ & _ & ->). simpl in K. destruct K; discriminate.
    + unfold of_class in I. apply filter_In in I as [_ C]. destruct K as [K|K]; rewrite K in C; discriminate.
Qed.

(* ------------------------------------------------------------------ the constructor interface of a type *)

(* "may be the entry of all_procs under k", and "is a type called k" *)
Definition proc_named (k : str) (e : ent) : bool := in_all_procs e && str_eqb k (pkey (e_name e)).
Definition type_named (k : str) (e : ent) : bool := ekind_eqb (e_kind e) KType && str_eqb k (pkey (e_name e)).

Lemma ekind_eq_dec (a b : ekind) : {a = b} + {a <> b}.
Proof. decide equality. Defined.
Lemma ent_eq_dec (a b : ent) : {a = b} + {a <> b}.
Proof. decide equality; try apply perm_eq_dec; try apply str_eq_dec; apply ekind_eq_dec. Defined.

Lemma cnt_app {A} (P : A -> bool) a b : cnt P (a ++ b) = cnt P a + cnt P b.
Proof. unfold cnt. now rewrite filter_app, app_length. Qed.

Lemma cnt_rev {A} (P : A -> bool) l : cnt P (rev l) = cnt P l.
Proof.
  induction l as [|x l IH]; [reflexivity|]. simpl. rewrite cnt_app, IH, !cnt_cons.
  unfold cnt at 2. simpl. lia.
Qed.

Lemma cnt_filter {A} (P Q : A -> bool) l : cnt P (filter Q l) = cnt (fun x => Q x && P x) l.
Proof.
  induction l as [|x l IH]; [reflexivity|]. simpl. rewrite (cnt_cons (fun x => Q x && P x)).
  destruct (Q x); simpl; [now rewrite cnt_cons, IH | exact IH].
Qed.

Lemma cnt_ext {A} (P Q : A -> bool) l : (forall x, P x = Q x) -> cnt P l = cnt Q l.
Proof. intros H. unfold cnt. f_equal. now apply filter_ext. Qed.

Lemma cnt_ident_ext (P : ent -> bool) a b :
  (forall x y, ident x = ident y -> P x = P y) -> map ident a = map ident b -> cnt P a = cnt P b.
Proof.
  intros HP. revert b. induction a as [|x a IH]; intros [|y b] E; simpl in E; try discriminate; auto.
  injection E as E1 E2 E3 E. rewrite !cnt_cons, (IH b E).
  rewrite (HP x y); auto. unfold ident. now rewrite E1, E2, E3.
Qed.

Lemma set_first_ident k p es : map ident (set_first k p es) = map ident es.
Proof.
  induction es as [|x r IH]; [reflexivity|]. simpl.
  destruct (in_all_procs x && str_eqb k (pkey (e_name x))); simpl; [reflexivity | now rewrite IH].
Qed.

Lemma set_last_ident k p es : map ident (set_last k p es) = map ident es.
Proof. unfold set_last. now rewrite map_rev, set_first_ident, map_rev, rev_involutive. Qed.

Lemma proc_named_ident k x y : ident x = ident y -> proc_named k x = proc_named k y.
Proof. unfold ident, proc_named, in_all_procs. intros H. injection H as -> _ ->. reflexivity. Qed.

(* when one entity answers to k, that one gets the permission *)
Lemma set_first_unique k p es :
  cnt (proc_named k) es = 1 -> forall x, In x (set_first k p es) -> proc_named k x = true -> e_perm x = p.
Proof.
  induction es as [|y r IH]; intros C x I Px; [discriminate|].
  rewrite cnt_cons in C. simpl in I. fold (proc_named k y) in I.
  destruct (proc_named k y) eqn:Py.
  - destruct I as [<-|I]; [reflexivity|].
    assert (Z : cnt (proc_named k) r = 0) by lia.
    rewrite (cnt_zero _ _ Z x I) in Px. discriminate.
  - destruct I as [<-|I]; [congruence|]. apply IH; auto.
Qed.

Lemma set_last_unique k p es :
  cnt (proc_named k) es = 1 -> forall x, In x (set_last k p es) -> proc_named k x = true -> e_perm x = p.
Proof.
  unfold set_last. intros C x I Px. apply in_rev in I.
  apply (set_first_unique k p (rev es)); auto. now rewrite cnt_rev.
Qed.

(* a step for another name leaves the permissions under k alone *)
Lemma set_last_other k k' p es P :
  k <> k' -> (forall x, In x es -> proc_named k x = true -> e_perm x = P) ->
  forall x, In x (set_last k' p es) -> proc_named k x = true -> e_perm x = P.
Proof.
  intros N H x I Px. apply set_last_in in I as [I|(e & Ie & A & K & ->)]; [auto|].
  exfalso. unfold proc_named in Px. simpl in Px. apply andb_true_iff in Px as [_ Px].
  apply str_eqb_eq in Px. congruence.
Qed.

Definition ctor_step := fun (acc : list ent) (t : ent) => set_last (pkey (e_name t)) (e_perm t) acc.

Lemma fold_constructors_other k P ts :
  (forall t, In t ts -> pkey (e_name t) <> k) ->
  forall acc, (forall x, In x acc -> proc_named k x = true -> e_perm x = P) ->
  forall x, In x (fold_left ctor_step ts acc) -> proc_named k x = true -> e_perm x = P.
Proof.
  induction ts as [|t ts IH]; intros Ht acc Hacc x I Px; simpl in I; [auto|].
  apply (IH (fun t' It' => Ht t' (or_intror It')) (ctor_step acc t)); auto.
  unfold ctor_step. apply set_last_other; auto.
  intros E. apply (Ht t (or_introl eq_refl)). now symmetry.
Qed.

Lemma fold_constructors_sets k P ts :
  cnt (fun t => str_eqb k (pkey (e_name t))) ts = 1 ->
  (forall t, In t ts -> pkey (e_name t) = k -> e_perm t = P) ->
  forall acc, cnt (proc_named k) acc = 1 ->
  forall x, In x (fold_left ctor_step ts acc) -> proc_named k x = true -> e_perm x = P.
Proof.
  induction ts as [|t ts IH]; intros C HP acc Cacc x I Px; [discriminate|].
  rewrite cnt_cons in C. simpl in I.
  destruct (str_eqb k (pkey (e_name t))) eqn:E.
  - apply str_eqb_eq in E.
    assert (Z : cnt (fun t => str_eqb k (pkey (e_name t))) ts = 0) by lia.
    apply (fold_constructors_other k P ts) with (acc := ctor_step acc t); auto.
    + intros t' It' E'. pose proof (cnt_zero _ _ Z t' It') as F. simpl in F.
      rewrite E', str_eqb_refl in F. discriminate.
    + intros y Iy Py. rewrite <- (HP t (or_introl eq_refl) (eq_sym E)).
      unfold ctor_step in Iy. rewrite <- E in Iy. apply (set_last_unique k _ acc); auto.
  - apply (IH C (fun t' It' => HP t' (or_intror It')) (ctor_step acc t)); auto.
    rewrite (cnt_ident_ext (proc_named k) _ acc); auto.
    + intros a b. apply proc_named_ident.
    + apply set_last_ident.
Qed.

(* types keep their permission in the constructor step *)
Lemma fix_constructors_type es t :
  In t (fix_constructors es) -> e_kind t = KType -> In t es.
Proof.
  intros I K. apply fix_constructors_in in I as (e & Ie & Eid & [->|(t' & _ & _ & A & _)]); auto.
  unfold ident in Eid. injection Eid as E1 _ _. unfold in_all_procs in A. rewrite <- E1, K in A. discriminate.
Qed.

Lemma klass_type e : Nat.eqb (klass (e_kind e)) 2 = ekind_eqb (e_kind e) KType.
Proof. now destruct (e_kind e). Qed.

(* FortranType.correlate: the only procedure / interface that carries the name of a (single) type ends
   with the permission of that type *)
Lemma fix_constructors_follow es g t :
  In g (fix_constructors es) -> In t (fix_constructors es) -> e_kind t = KType ->
  proc_named (pkey (e_name t)) g = true ->
  cnt (proc_named (pkey (e_name t))) es = 1 -> cnt (type_named (pkey (e_name t))) es = 1 ->
  e_perm g = e_perm t.
Proof.
  intros Ig It Kt Pg Cg Ct. set (k := pkey (e_name t)) in *.
  pose proof (fix_constructors_type es t It Kt) as It0.
  unfold fix_constructors in Ig. fold ctor_step in Ig.
  apply (fold_constructors_sets k (e_perm t) (of_class 2 es)) with (acc := es) (x := g); auto.
  - assert (cnt (fun t0 => str_eqb k (pkey (e_name t0))) (of_class 2 es) = cnt (type_named k) es) as ->;
      [|exact Ct].
    unfold of_class. rewrite cnt_filter. apply cnt_ext. intros x.
    unfold type_named. cbv beta. now rewrite klass_type.
  - intros t' It' E'. unfold of_class in It'. apply filter_In in It' as [It' K'].
    rewrite klass_type in K'.
    destruct (ent_eq_dec t' t) as [->|N]; auto. exfalso.
    assert (2 <= cnt (type_named k) es); [|lia].
    apply (cnt_two _ es t' t); auto; unfold type_named.
    + rewrite K', E'. apply str_eqb_refl.
    + rewrite Kt. simpl. apply str_eqb_refl.
Qed.

Lemma fix_constructors_ident es : map ident (fix_constructors es) = map ident es.
Proof.
  unfold fix_constructors. generalize (of_class 2 es) as ts. intros ts. generalize es as acc.
  induction ts as [|t ts IH]; intros acc; [reflexivity|]. simpl. now rewrite IH, set_last_ident.
Qed.

Lemma type_named_ident k x y : ident x = ident y -> type_named k x = type_named k y.
Proof. unfold ident, type_named. intros H. injection H as -> _ ->. reflexivity. Qed.

(* counting over FORD's output = counting over the main list *)
Lemma cnt_out sk body out (P : ent -> bool) :
  ford_perms sk body = Some out -> (forall x, modlevel x = false -> P x = false) ->
  (forall x y, ident x = ident y -> P x = P y) ->
  cnt P out = cnt P (apply_attrs (ordered (scan_ents (initial_perm sk) body)) (scan_attrs body)).
Proof.
  intros F HP HI. rewrite (ford_perms_some _ _ _ F), !cnt_app.
  assert (Z1 : cnt P (ifprocs (top_of sk body)) = 0).
  { destruct (cnt P (ifprocs (top_of sk body))) eqn:E; auto. exfalso.
    assert (exists x, In x (ifprocs (top_of sk body)) /\ P x = true) as (x & Ix & Px).
    { unfold cnt in E. destruct (filter P (ifprocs (top_of sk body))) as [|x l] eqn:Fl; [discriminate|].
      exists x. apply filter_In. rewrite Fl. now left. }
    apply ifprocs_in in Ix as (i & _ & _ & ->). rewrite HP in Px; [discriminate|reflexivity]. }
  assert (Z2 : cnt P (of_class 6 (scan_ents (initial_perm sk) body)) = 0).
  { destruct (cnt P (of_class 6 (scan_ents (initial_perm sk) body))) eqn:E; auto. exfalso.
    assert (exists x, In x (of_class 6 (scan_ents (initial_perm sk) body)) /\ P x = true) as (x & Ix & Px).
    { unfold cnt in E. destruct (filter P (of_class 6 (scan_ents (initial_perm sk) body))) as [|x l] eqn:Fl; [discriminate|].
      exists x. apply filter_In. rewrite Fl. now left. }
    unfold of_class in Ix. apply filter_In in Ix as [_ K]. apply Nat.eqb_eq in K.
    rewrite HP in Px; [discriminate|]. unfold modlevel. now rewrite K. }
  rewrite Z1, Z2, !Nat.add_0_r. unfold top_of.
  apply cnt_ident_ext; auto. apply fix_constructors_ident.
Qed.

(* C04_constructor: in FORD's output, the one procedure or interface named after a (single) derived type
   has the type's permission *)
Theorem constructor_follows_type : forall sk body out g t,
  ford_perms sk body = Some out -> In g out -> In t out -> e_kind t = KType ->
  proc_named (pkey (e_name t)) g = true ->
  cnt (proc_named (pkey (e_name t))) out = 1 -> cnt (type_named (pkey (e_name t))) out = 1 ->
  e_perm g = e_perm t.
Proof.
  intros sk body out g t F Ig It Kt Pg Cg Ct.
  assert (ML : forall k x, modlevel x = false -> proc_named k x = false).
  { intros k x M. unfold proc_named, in_all_procs. unfold modlevel in M. apply Nat.ltb_ge in M.
    destruct (klass (e_kind x)) as [|[|[|[|[|[|n]]]]]]; try lia; reflexivity. }
  assert (MT : forall k x, modlevel x = false -> type_named k x = false).
  { intros k x M. unfold type_named. unfold modlevel in M. destruct (e_kind x); try reflexivity; discriminate. }
  rewrite (cnt_out sk body out _ F (ML _) (fun x y => proc_named_ident _ x y)) in Cg.
  rewrite (cnt_out sk body out _ F (MT _) (fun x y => type_named_ident _ x y)) in Ct.
  assert (top : forall x, In x out -> modlevel x = true -> In x (top_of sk body)).
  { intros x Ix M. rewrite (ford_perms_some _ _ _ F) in Ix. apply in_app_iff in Ix as [Ix|Ix]; auto.
    apply in_app_iff in Ix as [Ix|Ix].
    - apply ifprocs_in in Ix as (i & _ & _ & ->). discriminate.
    - unfold of_class in Ix. apply filter_In in Ix as [_ K]. apply Nat.eqb_eq in K.
      unfold modlevel in M. rewrite K in M. discriminate. }
  apply (fix_constructors_follow (apply_attrs (ordered (scan_ents (initial_perm sk) body)) (scan_attrs body)) g t);
    auto; fold (top_of sk body).
  - apply top; auto. destruct (modlevel g) eqn:M; auto. rewrite (ML _ g M) in Pg. discriminate.
  - apply top; auto. unfold modlevel. now rewrite Kt.
Qed.

(* the Spec gives one answer per identifier: names equal up to case and blanks, kinds alike *)
Lemma fortran_perm_same_id sk body k1 k2 n1 n2 :
  key n1 = key n2 -> is_variable k1 = is_variable k2 ->
  fortran_perm sk body k1 n1 = fortran_perm sk body k2 n2.
Proof.
  intros E V. destruct sk; [|reflexivity]. unfold fortran_perm. rewrite V.
  assert (X : explicit_specs n1 body = explicit_specs n2 body).
  { induction body as [|st r IH]; [reflexivity|].
    assert (S : forall m, same_id n1 m = same_id n2 m) by (intros m; unfold same_id, canon; fold (key n1) (key n2); now rewrite E).
    assert (EX : forall ns, existsb (same_id n1) ns = existsb (same_id n2) ns).
    { induction ns as [|m ms IHm]; [reflexivity|]. simpl. now rewrite S, IHm. }
    destruct st; simpl; rewrite ?IH, ?S, ?EX; reflexivity. }
  now rewrite X.
Qed.

(* ------------------------------------------------------------------ derived-type bodies *)

Definition compent (owner : str) (d : perm) (st : tstmt) : list ent :=
  match st with TComp n ats => [mk_ent KComp owner n (attr_access ats d)] | _ => [] end.
Definition bindent (owner : str) (d : perm) (st : tstmt) : list ent :=
  match st with TBind n ats => [mk_ent KBind owner n (attr_access ats d)] | _ => [] end.

Lemma fortran_tperms_eq owner tb :
  fortran_tperms owner tb =
  flat_map (compent owner (part_default (comp_part tb))) (comp_part tb)
  ++ flat_map (bindent owner (part_default (bind_part tb))) (bind_part tb).
Proof. reflexivity. Qed.

Lemma attr_ok ats d :
  ok_attrs ats = true -> last_perm ats d = attr_access ats d /\ filter is_acc ats = ats.
Proof.
  unfold ok_attrs. intros H. apply andb_true_iff in H as [H1 H2].
  apply negb_true_iff in H1. apply has_false_In in H1. split.
  - destruct (last_perm_cases ats d) as [[-> ->]|I]; [reflexivity|].
    symmetry. apply attr_access_of_member; auto.
  - now apply filter_is_acc_id.
Qed.

Lemma twf_bind3 owner tb :
  twf 3 tb = true ->
  existsb is_tprivate tb = false /\
  forall c, tscan owner c true tb = flat_map (bindent owner c) tb.
Proof.
  induction tb as [|st r IH]; simpl; intros H; [split; auto|].
  destruct st as [p|n ats| |n ats]; simpl in H.
  - apply andb_true_iff in H as [H _]. apply andb_true_iff in H as [_ H]. discriminate.
  - discriminate.
  - discriminate.
  - apply andb_true_iff in H as [H1 H2]. destruct (IH H2) as [E S]. split; auto.
    intros c. simpl. destruct (attr_ok ats c H1) as [E1 E2]. now rewrite E2, E1, S.
Qed.

Lemma twf_bind2 owner tb :
  twf 2 tb = true ->
  forall c, tscan owner c true tb
            = flat_map (bindent owner (if existsb is_tprivate tb then Private else c)) tb.
Proof.
  induction tb as [|st r IH]; simpl; intros H c; auto.
  destruct st as [p|n ats| |n ats]; simpl in H.
  - apply andb_true_iff in H as [H H2]. apply andb_true_iff in H as [H _]. apply perm_eqb_eq in H. subst p.
    simpl. rewrite (IH H2 Private). destruct (existsb is_tprivate r); reflexivity.
  - discriminate.
  - discriminate.
  - apply andb_true_iff in H as [H1 H2]. destruct (twf_bind3 owner r H2) as [E S].
    simpl. rewrite E. destruct (attr_ok ats c H1) as [E1 E2]. now rewrite E2, E1, S.
Qed.

Lemma twf_comp1 owner tb :
  twf 1 tb = true ->
  existsb is_tprivate (comp_part tb) = false /\
  forall c, tscan owner c false tb
            = flat_map (compent owner c) (comp_part tb)
              ++ flat_map (bindent owner (part_default (bind_part tb))) (bind_part tb).
Proof.
  induction tb as [|st r IH]; simpl; intros H; [split; auto|].
  destruct st as [p|n ats| |n ats]; simpl in H.
  - apply andb_true_iff in H as [H _]. apply andb_true_iff in H as [_ H]. discriminate.
  - apply andb_true_iff in H as [H1 H2]. destruct (IH H2) as [E S]. split; auto.
    intros c. simpl. destruct (attr_ok ats c H1) as [-> _]. now rewrite S.
  - split; auto. intros c. simpl. rewrite (twf_bind2 owner r H Public). reflexivity.
  - discriminate.
Qed.

Lemma twf_comp0 owner tb :
  twf 0 tb = true ->
  forall c, tscan owner c false tb
            = flat_map (compent owner (if existsb is_tprivate (comp_part tb) then Private else c)) (comp_part tb)
              ++ flat_map (bindent owner (part_default (bind_part tb))) (bind_part tb).
Proof.
  induction tb as [|st r IH]; simpl; intros H c; auto.
  destruct st as [p|n ats| |n ats]; simpl in H.
  - apply andb_true_iff in H as [H H2]. apply andb_true_iff in H as [H _]. apply perm_eqb_eq in H. subst p.
    simpl. rewrite (IH H2 Private). destruct (existsb is_tprivate (comp_part r)); reflexivity.
  - apply andb_true_iff in H as [H1 H2]. destruct (twf_comp1 owner r H2) as [E S].
    simpl. rewrite E. destruct (attr_ok ats c H1) as [-> _]. now rewrite S.
  - simpl. rewrite (twf_bind2 owner r H Public). reflexivity.
  - discriminate.
Qed.

Lemma filter_none {A} (f : A -> bool) l : (forall x, In x l -> f x = false) -> filter f l = [].
Proof.
  induction l as [|y l IH]; simpl; intros H; auto. rewrite (H y) by now left.
  apply IH. intros x I. apply H. now right.
Qed.

Lemma filter_all {A} (f : A -> bool) l : (forall x, In x l -> f x = true) -> filter f l = l.
Proof. intros H. apply filter_all_true. now apply forallb_forall. Qed.

Lemma compent_kind owner d l x : In x (flat_map (compent owner d) l) -> e_kind x = KComp.
Proof. rewrite in_flat_map. intros (st & _ & I). destruct st; simpl in I; try contradiction. now destruct I as [<-|[]]. Qed.

Lemma bindent_kind owner d l x : In x (flat_map (bindent owner d) l) -> e_kind x = KBind.
Proof. rewrite in_flat_map. intros (st & _ & I). destruct st; simpl in I; try contradiction. now destruct I as [<-|[]]. Qed.

Lemma filter_flat_compent owner d l :
  filter (is_kind KComp) (flat_map (compent owner d) l) = flat_map (compent owner d) l /\
  filter (is_kind KBind) (flat_map (compent owner d) l) = [].
Proof.
  split; [apply filter_all|apply filter_none]; intros x I; apply compent_kind in I;
    unfold is_kind; now rewrite I.
Qed.

Lemma filter_flat_bindent owner d l :
  filter (is_kind KBind) (flat_map (bindent owner d) l) = flat_map (bindent owner d) l /\
  filter (is_kind KComp) (flat_map (bindent owner d) l) = [].
Proof.
  split; [apply filter_all|apply filter_none]; intros x I; apply bindent_kind in I;
    unfold is_kind; now rewrite I.
Qed.

(* Components and bindings: FORD's answer is Fortran's for every well-formed type body *)
Theorem types : forall owner tb, twf 0 tb = true -> tchildren owner tb = fortran_tperms owner tb.
Proof.
  intros owner tb H. unfold tchildren. rewrite (twf_comp0 owner tb H Public), fortran_tperms_eq.
  rewrite !filter_app.
  destruct (filter_flat_compent owner (if existsb is_tprivate (comp_part tb) then Private else Public)
              (comp_part tb)) as [-> ->].
  destruct (filter_flat_bindent owner (part_default (bind_part tb)) (bind_part tb)) as [-> ->].
  rewrite app_nil_r. reflexivity.
Qed.

Theorem types_in_scope : forall sk body out e,
  ford_perms sk body = Some out -> In e out -> top_level e = false ->
  exists n ats tb, In (SType n ats tb) body /\ In e (tchildren n tb) /\
                   (twf 0 tb = true -> In e (fortran_tperms n tb)).
Proof.
  intros sk body out e F I T. rewrite (ford_perms_some _ _ _ F) in I.
  assert (M : modlevel e = false).
  { unfold top_level in T. unfold modlevel. destruct (e_kind e); try discriminate; reflexivity. }
  apply in_app_iff in I as [I|I].
  { apply (top_modlevel sk body) in I. congruence. }
  apply in_app_iff in I as [I|I].
  { apply ifprocs_in in I as (i & _ & _ & ->). discriminate. }
  unfold of_class in I. apply filter_In in I as [I _].
  destruct (scan_children_in _ _ _ I M) as (n & ats & tb & H1 & H2).
  exists n, ats, tb. repeat split; auto. intros W. now rewrite <- (types n tb W).
Qed.

(* the parser raises exactly on a procedure before CONTAINS or a second CONTAINS *)
Theorem raises_iff_misplaced : forall sk body,
  ford_perms sk body = None <-> struct_ok false body = false.
Proof. intros sk body. unfold ford_perms. destruct (struct_ok false body); split; intros; congruence. Qed.

(* ------------------------------------------------------------------ refutations (witnesses replayed on FORD) *)

Definition w_prot_private : list sstmt := [SDefault Private; SVar false (s "y") [Protected]].
Definition w_prot_lost : list sstmt := [SVar false (s "w") [Protected]; SAccess Public [s "w"]].

Definition refutes (body : list sstmt) (e : ent) (r : nat) : Prop :=
  exists out, ford_perms ScModule body = Some out /\ In e out /\ top_level e = true /\
    valid_for ScModule body (e_kind e) (e_name e) = true /\ region body (e_kind e) (e_name e) = r /\
    e_perm e <> fortran_perm ScModule body (e_kind e) (e_name e).

Lemma refuted_protected_private : refutes w_prot_private (mk_ent KVar [] (s "y") Protected) 2.
Proof.
  eexists; (split; [vm_compute; reflexivity|]); (split; [simpl; tauto|]);
    repeat split; try (vm_compute; reflexivity); vm_compute; discriminate.
Qed.

Lemma refuted_protected_lost : refutes w_prot_lost (mk_ent KVar [] (s "w") Public) 2.
Proof.
  eexists; (split; [vm_compute; reflexivity|]); (split; [simpl; tauto|]);
    repeat split; try (vm_compute; reflexivity); vm_compute; discriminate.
Qed.

Lemma statement_refuted : ~ full_statement.
Proof.
  intros H. destruct refuted_protected_private as (out & F & I & T & V & _ & N).
  exact (N (H ScModule w_prot_private out _ F I T V)).
Qed.

(* ------------------------------------------------------------------ former witnesses (repaired defects) *)
(* kept as regression inputs: the harness replays them on the implementation on every run *)

Definition w_late : list sstmt := [SVar false (s "x") []; SType (s "t") [] [TComp (s "c") []]; SDefault Private].
Definition w_repeated : list sstmt :=
  [SDefault Private; SAccess Public [s "gen"]; SIface IGeneric (s "gen"); SIface IGeneric (s "gen");
   SContains; SProc false (s "a"); SProc false (s "b")].
Definition w_spelling : list sstmt :=
  [SDefault Private; SAccess Public [s "operator(+)"]; SIface IOperator (s "operator (+)");
   SContains; SProc true (s "f")].

Definition agrees (body : list sstmt) (e : ent) : Prop :=
  exists out, ford_perms ScModule body = Some out /\ In e out /\
    valid_for ScModule body (e_kind e) (e_name e) = true /\ region body (e_kind e) (e_name e) = 0 /\
    e_perm e = fortran_perm ScModule body (e_kind e) (e_name e).

Example fixed_late_default :
  agrees w_late (mk_ent KVar [] (s "x") Private) /\ agrees w_late (mk_ent KType [] (s "t") Private).
Proof. split; eexists; (split; [vm_compute; reflexivity|]); (split; [simpl; tauto|]); repeat split. Qed.

Example fixed_repeated_generic :
  exists out, ford_perms ScModule w_repeated = Some out /\
    filter (fun e => ekind_eqb (e_kind e) KGeneric) out
    = [mk_ent KGeneric [] (s "gen") Public; mk_ent KGeneric [] (s "gen") Public] /\
    region w_repeated KGeneric (s "gen") = 0 /\ fortran_perm ScModule w_repeated KGeneric (s "gen") = Public.
Proof. eexists. split; [vm_compute; reflexivity|]. repeat split. Qed.

Example fixed_operator_spelling : agrees w_spelling (mk_ent KOperator [] (s "operator (+)") Public).
Proof. eexists; (split; [vm_compute; reflexivity|]); (split; [simpl; tauto|]); repeat split. Qed.

(* ------------------------------------------------------------------ non-vacuity *)

Definition ex_body : list sstmt :=
  [SAccess Public [s "Alpha"; s "operator(+)"; s "gen"]; SVar false (s "alpha") [];
   SVar true (s "n") [Public]; SType (s "t") [Private] [TDefault Private; TComp (s "c") [Public]];
   SIface IAbstract (s "ai"); SIface IOperator (s "operator (+)"); SAccess Private [s "AI"];
   SIface IGeneric (s "gen"); SIface IGeneric (s "Gen"); SDefault Private;
   SContains; SProc true (s "f")].

Example ex_partial :
  exists out, ford_perms ScModule ex_body = Some out /\
    Forall (fun e => top_level e = true -> valid_for ScModule ex_body (e_kind e) (e_name e) = true /\
                     region ex_body (e_kind e) (e_name e) = 0) out /\
    In (mk_ent KVar [] (s "alpha") Public) out /\ In (mk_ent KIfProc [] (s "ai") Private) out /\
    In (mk_ent KFun [] (s "f") Private) out /\ In (mk_ent KOperator [] (s "operator (+)") Public) out /\
    In (mk_ent KGeneric [] (s "Gen") Public) out /\ In (mk_ent KType [] (s "t") Private) out.
Proof.
  eexists. split; [vm_compute; reflexivity|]. split.
  - repeat constructor; vm_compute; intros; try discriminate; auto.
  - simpl; tauto.
Qed.

Definition ex_prot_body : list sstmt :=
  [SVar false (s "y") [Protected]; SAccess Protected [s "Z"]; SVar false (s "z") []].
Example ex_protected_recorded :
  exists out, ford_perms ScModule ex_prot_body = Some out /\
    In (mk_ent KVar [] (s "z") Protected) out /\
    attr_twin KVar (s "z") ex_prot_body = false /\
    protected_given (s "z") ex_prot_body = true /\
    has Public (explicit_specs (s "z") ex_prot_body) = false /\
    has Private (explicit_specs (s "z") ex_prot_body) = false /\ default_access ex_prot_body = Public.
Proof. eexists. split; [vm_compute; reflexivity|]. split; [simpl; tauto|]. repeat split; vm_compute; reflexivity. Qed.

Definition ex_sub_body : list sstmt :=
  [SVar false (s "sv") []; SType (s "st") [] [TComp (s "c") []]; SIface IExplicit (s "sext");
   SContains; SProc false (s "ss")].
Example ex_submodule :
  exists out, ford_perms ScSubmodule ex_sub_body = Some out /\ no_access_syntax ex_sub_body = true /\
    In (mk_ent KVar [] (s "sv") Private) out /\ In (mk_ent KIfProc [] (s "sext") Private) out /\
    In (mk_ent KComp (s "st") (s "c") Public) out.
Proof. eexists. split; [vm_compute; reflexivity|]. split; [vm_compute; reflexivity|]. simpl; tauto. Qed.

Definition ex_tbody : list tstmt :=
  [TDefault Private; TComp (s "a") []; TComp (s "b") [Public]; TContains; TDefault Private;
   TBind (s "p1") []; TBind (s "p2") [Public]].
Example ex_types :
  twf 0 ex_tbody = true /\
  tchildren (s "t") ex_tbody =
    [mk_ent KComp (s "t") (s "a") Private; mk_ent KComp (s "t") (s "b") Public;
     mk_ent KBind (s "t") (s "p1") Private; mk_ent KBind (s "t") (s "p2") Public].
Proof. split; vm_compute; reflexivity. Qed.

Example ex_types_in_scope :
  exists out, ford_perms ScModule ex_body = Some out /\ In (mk_ent KComp (s "t") (s "c") Public) out.
Proof. eexists. split; [vm_compute; reflexivity|]. simpl; tauto. Qed.

Example ex_raises : ford_perms ScModule [SProc false (s "a")] = None /\
                    ford_perms ScModule [SContains; SProc false (s "a"); SContains] = None.
Proof. split; reflexivity. Qed.
