(* Sem/Cascade.v -- model of the statement classification of ford.sourceform.FortranContainer.__init__
   (layer L1 of C01): which statement of Sem/Tree.v a logical line is.

   The parser walks an if/elif chain: three comparisons of the lower-cased line with literals, then
   regular expressions tried in a fixed order, some guarded by the loop state (blocklevel == 0,
   incontains) or by the class of the container.  The ORDER of the chain and the guards are not
   written here: [classify] interprets the table Gen/Cascade.v, which translate/t_c01_cascade.py
   regenerates from the source.  What is written here, by hand and from the pattern texts
   (Gen.Cascade.patterns, compared with [modelled_patterns] in Sem/CascadeProofs.v), is one
   recogniser per regular expression and the statement each branch produces.

   Lines are what the reader delivers: stripped, comments removed.  String literals are masked first,
   as the loop does (TypeSpec.mask_line).  Recognisers follow the backtracking of the regular
   expressions (lazy/greedy groups, optional parts, alternatives in their order).
   The last branches (computed GOTO, procedure calls) create no entity: everything from the first of
   them on is one outcome, "tail".  Outside the model (outcome Unmod): lines with characters outside
   printable ASCII, not stripped lines, the settings `lower`, `extra_vartypes` and a docmark other
   than "!", common statements with several blocks, a few malformed shapes named below.
   Executable definitions only. *)
From Coq Require Import ZArith.
From Ford Require Import Base.Str Base.StrX Sem.Tree Sem.TypeSpec Sem.CascadeTypes Gen.Cascade.

(* ------------------------------------------------------------------ small pattern pieces *)
Notation "'opt' x <- e ; k" := (match e with Some x => k | None => None end)
  (at level 200, x pattern, e at level 100, k at level 200).

Definition is_some {A} (o : option A) : bool := match o with Some _ => true | None => false end.

(* \s+ : at least one white-space character, then all of them *)
Definition ws1 (x : str) : option str :=
  match x with c :: _ => if is_space c then Some (skip_ws x) else None | [] => None end.
(* \w+ , greedy *)
Definition word (x : str) : option (str * str) :=
  match take_while is_word x with
  | ((_ :: _) as w, r) => Some (w, r)
  | ([], _) => None
  end.
Definition lit (c : ascii) (x : str) : option str :=
  match x with d :: r => if Ascii.eqb d c then Some r else None | [] => None end.
Definition starts_word (x : str) : bool := match x with c :: _ => is_word c | [] => false end.
Definition has_ch (c : ascii) (x : str) : bool := existsb (Ascii.eqb c) x.
Definition last_is (c : ascii) (x : str) : bool :=
  match rev x with d :: _ => Ascii.eqb d c | [] => false end.
Definition not_paren (c : ascii) : bool :=
  if Ascii.eqb c c_lpar then false else if Ascii.eqb c c_rpar then false else true.
(* "(" , characters other than parentheses, ")" *)
Definition parens (x : str) : option str :=
  match x with
  | c :: r => if Ascii.eqb c c_lpar then let (_, r2) := take_while not_paren r in lit c_rpar r2 else None
  | [] => None
  end.
Definition is_empty (x : str) : bool := match x with [] => true | _ => false end.

(* lines as the reader delivers them *)
Definition is_stripped (x : str) : bool :=
  match x with
  | [] => true
  | c :: _ => if is_space c then false else match rev x with d :: _ => negb (is_space d) | [] => true end
  end.
Definition printable_ch (c : ascii) : bool :=
  let n := N_of_ascii c in ((32 <=? n)%N && (n <=? 126)%N) || (n =? 9)%N.
Definition printable (x : str) : bool := forallb printable_ch x.

(* ------------------------------------------------------------------ the recognisers *)
(* FORMAT_RE: digits, white space, "format", "(", and a ")" somewhere behind *)
Definition format_re (x : str) : bool :=
  match take_while is_digit x with
  | (_ :: _, r) =>
    match ws1 r with
    | Some r1 =>
      match match_ci (s "format") r1 with
      | Some r2 => match lit c_lpar (skip_ws r2) with Some r3 => has_ch c_rpar r3 | None => false end
      | None => false
      end
    | None => false
    end
  | ([], _) => false
  end.

(* ATTRIB_RE: TypeSpec.attrib_re, completed by the bind(...) alternative: "bind", "(", any text, a
   ")" after which the rest of the pattern matches *)
Fixpoint bind_close (x : str) : bool :=
  match x with
  | [] => false
  | c :: x' =>
    if bind_close x' then true
    else if Ascii.eqb c c_rpar then is_some (attrib_tail x') else false
  end.
Definition attrib_match (x : str) : bool :=
  match match_ci (s "bind") x with
  | Some r => match lit c_lpar (skip_ws r) with Some r2 => bind_close r2 | None => false end
  | None => match attrib_re x with Ok (Some _) => true | _ => false end
  end.

(* END_RE: an optional statement label, "end", then nothing or one of the unit words (in the order of
   the alternatives; "block data" with any white space, also none, between the two words) followed by
   nothing or white space and a word character *)
Definition end_alts_table : list (str * option str * endkind) :=
  [(s "module", None, EndPlain); (s "submodule", None, EndPlain); (s "subroutine", None, EndPlain);
   (s "function", None, EndPlain); (s "procedure", None, EndPlain); (s "program", None, EndPlain);
   (s "type", None, EndPlain); (s "interface", None, EndPlain); (s "enum", None, EndPlain);
   (s "block", Some (s "data"), EndPlain); (s "block", None, EndBlock); (s "associate", None, EndAssociate)].
Definition end_alt (w : str) (w2 : option str) (x : str) : option str :=
  opt r <- match_ci w x ;
  match w2 with
  | None => Some r
  | Some w' => match_ci w' (skip_ws r)
  end.
Definition end_tail (r : str) : bool :=
  match r with
  | [] => true
  | _ => match ws1 r with Some r1 => starts_word r1 | None => false end
  end.
Fixpoint end_alts (alts : list (str * option str * endkind)) (x : str) : option endkind :=
  match alts with
  | [] => None
  | (w, w2, e) :: alts' =>
    match end_alt w w2 x with
    | Some r => if end_tail r then Some e else end_alts alts' x
    | None => end_alts alts' x
    end
  end.
Definition end_core (x : str) : option endkind :=
  opt r <- match_ci (s "end") x ;
  match skip_ws r with
  | [] => Some EndPlain
  | r' => end_alts end_alts_table r'
  end.
(* an optional statement label (digits and white space) precedes "end" *)
Definition end_re (x : str) : option endkind :=
  match take_while is_digit x with
  | (_ :: _, r) => match ws1 r with Some r1 => end_core r1 | None => None end
  | ([], _) => end_core x
  end.

(* MODPROC_RE: optional "module" + white space, "procedure", then "::" or white space, then the
   names (from a word character to the end): (module group present, names) *)
Definition modproc_tail (withmod : bool) (r : str) : option (bool * str) :=
  let r' := skip_ws r in
  if prefix (s "::") r' then
    let y := skip_ws (skipn 2 r') in if starts_word y then Some (withmod, y) else None
  else
    match r with
    | c :: _ => if is_space c then (if starts_word r' then Some (withmod, r') else None) else None
    | [] => None
    end.
Definition modproc_re (x : str) : option (bool * str) :=
  let '(withmod, r0) :=
    match match_ci (s "module") x with
    | Some r => match ws1 r with Some r1 => (true, r1) | None => (false, x) end
    | None => (false, x)
    end in
  opt r <- match_ci (s "procedure") r0 ; modproc_tail withmod r.

(* BLOCK_DATA_RE: "block", "data", an optional name: the name or "" *)
Definition block_data_re (x : str) : option str :=
  opt r <- match_ci (s "block") x ;
  opt r2 <- match_ci (s "data") (skip_ws r) ;
  let (w, r4) := take_while is_word (skip_ws r2) in
  match skip_ws r4 with [] => Some w | _ => None end.

(* the optional construct label "name :" *)
Definition label_prefix (x : str) : option str :=
  opt (_, r) <- word x ; lit c_colon (skip_ws r).

(* BLOCK_RE *)
Definition block_tail (x : str) : bool :=
  match match_ci (s "block") (skip_ws x) with
  | Some r => is_empty (skip_ws r)
  | None => false
  end.
Definition block_re (x : str) : bool :=
  if (match label_prefix x with Some r => block_tail r | None => false end) then true else block_tail x.

(* ASSOCIATE_RE: "associate", "(", at least one character, ")" at the end *)
Definition assoc_tail (x : str) : bool :=
  match match_ci (s "associate") (skip_ws x) with
  | Some r =>
    match lit c_lpar (skip_ws r) with
    | Some r2 => match lstrip (rev r2) with c :: _ :: _ => Ascii.eqb c c_rpar | _ => false end
    | None => false
    end
  | None => false
  end.
Definition associate_re (x : str) : bool :=
  if (match label_prefix x with Some r => assoc_tail r | None => false end) then true else assoc_tail x.
(* the associations: the text between the first "(" behind the keyword and the last ")" *)
Definition assoc_text (x : str) : option str :=
  let y := match label_prefix x with
           | Some r => if assoc_tail r then r else x
           | None => x
           end in
  opt r <- match_ci (s "associate") (skip_ws y) ;
  opt r2 <- lit c_lpar (skip_ws r) ;
  match lstrip (rev r2) with _ :: body => Some (rev body) | [] => None end.
(* utils.strip_paren(text)[0]: the text outside nested parentheses (their brackets kept), up to the
   first ")" that closes more than was opened *)
Fixpoint depth0 (x : str) (level : nat) : str :=
  match x with
  | [] => []
  | c :: x' =>
    if Ascii.eqb c c_lpar then (if Nat.eqb level 0 then c :: depth0 x' 1 else depth0 x' (S level))
    else if Ascii.eqb c c_rpar then
      match level with
      | 0 => [c]
      | 1 => c :: depth0 x' 0
      | S l => depth0 x' l
      end
    else if Nat.eqb level 0 then c :: depth0 x' level else depth0 x' level
  end.
Fixpoint count_arrows (x : str) : nat :=
  match x with
  | [] => 0
  | c :: x' =>
    match x' with
    | d :: x'' => if Ascii.eqb c c_eq && Ascii.eqb d c_gt then S (count_arrows x'') else count_arrows x'
    | [] => 0
    end
  end.
(* Associations.add_batch splits every association at "=>" into exactly two parts *)
Definition associations_ok (x : str) : bool :=
  match assoc_text x with
  | Some a => forallb (fun item => Nat.eqb (count_arrows item) 1) (paren_split c_comma (depth0 a 0))
  | None => false
  end.

(* MODULE_RE, PROGRAM_RE: the keyword alone, or white space and one word up to the end *)
Definition unit_name_re (w x : str) : option (option str) :=
  opt r <- match_ci w x ;
  match r with
  | [] => Some None
  | _ => opt r1 <- ws1 r ; opt (n, r2) <- word r1 ; match r2 with [] => Some (Some n) | _ => None end
  end.

(* SUBMODULE_RE: "submodule", "(", ancestor, optionally ":" parent, ")", name, end *)
Definition submodule_re (x : str) : option str :=
  opt r <- match_ci (s "submodule") x ;
  opt r1 <- lit c_lpar (skip_ws r) ;
  opt (_, r2) <- word (skip_ws r1) ;
  let r3 := skip_ws r2 in
  opt r4 <- (match lit c_colon r3 with
          | Some r' => opt (_, r'') <- word (skip_ws r') ; Some (skip_ws r'')
          | None => Some r3
          end) ;
  opt r5 <- lit c_rpar r4 ;
  opt (n, r6) <- word (skip_ws r5) ;
  match r6 with [] => Some n | _ => None end.

(* the optional C binding at the end of a subroutine statement: "bind", "(", ..., ")" at the end *)
Definition bind_part (x : str) : bool :=
  match match_ci (s "bind") (skip_ws x) with
  | Some r => match lit c_lpar (skip_ws r) with Some r2 => last_is c_rpar r2 | None => false end
  | None => false
  end.
(* what may follow the subroutine name: an optional argument list without inner parentheses, an
   optional binding, the end *)
Definition sub_after_name (x : str) : bool :=
  let r := skip_ws x in
  if (match parens r with
      | Some r2 => match r2 with [] => true | _ => bind_part r2 end
      | None => false
      end) then true
  else match r with [] => true | _ => bind_part x end.
(* the name is the longest beginning of the word after which the rest of the pattern matches *)
Fixpoint name_backtrack (ok : str -> bool) (wrev rest : str) : option str :=
  match wrev with
  | [] => None
  | c :: wrev' => if ok rest then Some (rev wrev) else name_backtrack ok wrev' (c :: rest)
  end.
(* the name, whether it is the whole word (a shortened name leaves "bind(...(...))" behind, which
   the constructor rejects: outside the model), and the text behind the word *)
Definition sub_tail (x : str) : option (str * bool * str) :=
  opt r1 <- ws1 x ; opt (w, r) <- word r1 ;
  opt n <- name_backtrack sub_after_name (rev w) r ; Some (n, Nat.eqb (length n) (length w), r).
(* SUBROUTINE_RE: attributes (lazy, at least one character) and white space may precede the keyword:
   the first occurrence of the keyword after white space whose tail matches, else the keyword at
   the beginning of the line *)
Fixpoint sub_scan (prev_space : bool) (x : str) : option (str * bool * str) :=
  match x with
  | [] => None
  | c :: x' =>
    match (if prev_space then match match_ci (s "subroutine") x with Some r => sub_tail r | None => None end
           else None) with
    | Some n => Some n
    | None => sub_scan (is_space c) x'
    end
  end.
Definition subroutine_re (x : str) : option (str * bool * str) :=
  match x with
  | [] => None
  | c :: x' =>
    match sub_scan (is_space c) x' with
    | Some n => Some n
    | None => match match_ci (s "subroutine") x with Some r => sub_tail r | None => None end
    end
  end.

(* NAMELIST_RE (match, open at the end): "namelist", "/", name, "/", a word character *)
Definition namelist_re (x : str) : option str :=
  opt r <- match_ci (s "namelist") x ;
  opt r1 <- lit c_slash (skip_ws r) ;
  opt (n, r2) <- word r1 ;
  opt r3 <- lit c_slash r2 ;
  if starts_word (skip_ws r3) then Some n else None.

(* FUNCTION_RE: attributes (lazy, at least one character), optional white space, "function", white
   space, the name; everything behind is optional: the first occurrence of the keyword at a
   position other than the beginning that is followed by white space and a word, else the keyword
   at the beginning *)
Definition fun_tail (x : str) : option (str * str) :=
  opt r1 <- ws1 x ; word r1.
(* the name, the length of the text from the keyword on, the text behind the name *)
Definition fun_here (x : str) : option (str * nat * str) :=
  match match_ci (s "function") x with
  | Some r => match fun_tail r with Some (n, rest) => Some (n, length x, rest) | None => None end
  | None => None
  end.
Fixpoint fun_scan (x : str) : option (str * nat * str) :=
  match x with
  | [] => None
  | _ :: x' => match fun_here x with Some n => Some n | None => fun_scan x' end
  end.
(* (name, attributes, text behind the name): the attributes are the text before the keyword without
   trailing white space *)
Definition function_re (x : str) : option (str * str * str) :=
  match x with
  | [] => None
  | _ :: x' =>
    match (match fun_scan x' with Some n => Some n | None => fun_here x end) with
    | Some (n, len, rest) => Some (n, rstrip (firstn (length x - len) x), rest)
    | None => None
    end
  end.

(* TYPE_RE: "type", then white space or (optional ", attributes") "::", then a name that is not
   "is (", optional parameters without inner parentheses, end *)
Definition type_name_part (x : str) : option str :=
  if (match match_ci (s "is") x with
      | Some r => match skip_ws r with c :: _ => Ascii.eqb c c_lpar | [] => false end
      | None => false
      end) then None
  else
    opt (w, r) <- word x ;
    let r1 := skip_ws r in
    let r2 := match parens r1 with Some r' => r' | None => r1 end in
    match skip_ws r2 with [] => Some w | _ => None end.
(* the greedy attribute text: the last "::" behind which the name part matches *)
Fixpoint dcolon_last (x : str) : option str :=
  match x with
  | [] => None
  | _ :: x' =>
    match dcolon_last x' with
    | Some n => Some n
    | None => if prefix (s "::") x then type_name_part (skip_ws (skipn 2 x)) else None
    end
  end.
Definition type_re (x : str) : option str :=
  opt r <- match_ci (s "type") x ;
  match (match ws1 r with Some r1 => type_name_part r1 | None => None end) with
  | Some n => Some n
  | None =>
    let r' := skip_ws r in
    match r' with
    | c :: _ =>
      if Ascii.eqb c c_comma then dcolon_last r'
      else if prefix (s "::") r' then type_name_part (skip_ws (skipn 2 r')) else None
    | [] => None
    end
  end.

(* INTERFACE_RE: optional "abstract", "interface", optional white space and a name (text from a word
   character on): (abstract, name or "") *)
Definition interface_re (x : str) : option (bool * str) :=
  let '(ab, r0) :=
    match match_ci (s "abstract") x with
    | Some r => match ws1 r with Some r1 => (true, r1) | None => (false, x) end
    | None => (false, x)
    end in
    opt r <- match_ci (s "interface") r0 ;
  match r with
  | [] => Some (ab, [])
  | _ => opt r1 <- ws1 r ; if starts_word r1 then Some (ab, r1) else None
  end.

(* ENUM_RE *)
Definition enum_re (x : str) : bool :=
  match match_ci (s "enum") x with
  | Some r =>
    match lit c_comma (skip_ws r) with
    | Some r1 =>
      match match_ci (s "bind") (skip_ws r1) with
      | Some r2 => match lit c_lpar (skip_ws r2) with Some r3 => last_is c_rpar (rstrip r3) | None => false end
      | None => false
      end
    | None => false
    end
  | None => false
  end.

(* BOUNDPROC_RE: "generic" or "procedure", optional "(interface)", optional ", attributes" (a word
   character and everything up to the first ":", given back character by character until the
   rest matches), optional "::", the names from a word character to the end: (generic, names) *)
Definition names_start (x : str) : option str :=
  let y := skip_ws x in
  let y2 := if prefix (s "::") y then skip_ws (skipn 2 y) else y in
  if starts_word y2 then Some y2 else None.
Fixpoint attrs_backtrack (arev rest : str) : option str :=
  match arev with
  | [] => None
  | c :: arev' =>
    match names_start rest with
    | Some n => Some n
    | None => attrs_backtrack arev' (c :: rest)
    end
  end.
Definition not_colon (c : ascii) : bool := negb (Ascii.eqb c c_colon).
Definition boundproc_re (x : str) : option (bool * str) :=
  opt (g, r) <- (match match_ci (s "generic") x with
               | Some r => Some (true, r)
               | None => match match_ci (s "procedure") x with Some r => Some (false, r) | None => None end
               end) ;
  let r1 := skip_ws r in
  let r2 := skip_ws (match parens r1 with Some r' => r' | None => r1 end) in
  match r2 with
  | c :: r3 =>
    if Ascii.eqb c c_comma then
      let r4 := skip_ws r3 in
      if starts_word r4 then
        let (a, rest) := take_while not_colon r4 in
        opt n <- attrs_backtrack (rev a) rest ; Some (g, n)
      else None
    else opt n <- names_start r2 ; Some (g, n)
  | [] => None
  end.

(* COMMON_RE (open at the end): "common", then "/name/" or white space, then a word character:
   the block name if there is one *)
Definition common_re (x : str) : option (option str * str) :=
  opt r <- match_ci (s "common") x ;
  match (opt r1 <- lit c_slash (skip_ws r) ;
         opt (n, r2) <- word (skip_ws r1) ;
         opt r3 <- lit c_slash (skip_ws r2) ;
         let r4 := skip_ws r3 in
         if starts_word r4 then Some (n, r4) else None) with
  | Some (n, r4) => Some (Some n, r4)
  | None => opt r1 <- ws1 r ; if starts_word r1 then Some (None, r1) else None
  end.

(* FINAL_RE: "final", then "::" or white space, the names from a word character on *)
Definition final_re (x : str) : option str :=
  opt r <- match_ci (s "final") x ;
  let r' := skip_ws r in
  if prefix (s "::") r' then
    let y := skip_ws (skipn 2 r') in if starts_word y then Some y else None
  else opt r1 <- ws1 r ; if starts_word r1 then Some r1 else None.

(* USE_RE: "use", then (optional ", [non_]intrinsic") "::" or white space, the module name, then the
   end or a comma *)
Definition use_nature (x : str) : option str :=
  (* ", intrinsic" or ", non_intrinsic" with the white space around; the text behind *)
  opt r <- lit c_comma x ;
  let r1 := skip_ws r in
  let r2 := match match_ci (s "non_") r1 with Some r' => r' | None => r1 end in
  opt r3 <- match_ci (s "intrinsic") r2 ; Some (skip_ws r3).
Definition use_name (x : str) : option str :=
  opt (n, r) <- word x ;
  match skip_ws r with
  | [] => Some n
  | c :: _ => if Ascii.eqb c c_comma then Some n else None
  end.
Definition use_re (x : str) : option str :=
  opt r <- match_ci (s "use") x ;
  let r' := skip_ws r in
  let after_nature := match use_nature r' with Some y => y | None => r' end in
  match (if prefix (s "::") after_nature then use_name (skip_ws (skipn 2 after_nature)) else None) with
  | Some n => Some n
  | None => opt r1 <- ws1 r ; use_name r1
  end.

(* ------------------------------------------------------------------ conditions *)
Record ctx := mkctx { cx_kind : ckind; cx_incontains : bool; cx_level0 : bool }.

Inductive tri := Yes | No | Unk.
Definition of_bool (b : bool) : tri := if b then Yes else No.

Definition re_match (r : re_id) (x : str) : tri :=
  match r with
  | FORMAT_RE => of_bool (format_re x)
  | ATTRIB_RE => of_bool (attrib_match x)
  | END_RE => of_bool (is_some (end_re x))
  | MODPROC_RE => of_bool (is_some (modproc_re x))
  | BLOCK_DATA_RE => of_bool (is_some (block_data_re x))
  | BLOCK_RE => of_bool (block_re x)
  | ASSOCIATE_RE => of_bool (associate_re x)
  | MODULE_RE => of_bool (is_some (unit_name_re (s "module") x))
  | SUBMODULE_RE => of_bool (is_some (submodule_re x))
  | PROGRAM_RE => of_bool (is_some (unit_name_re (s "program") x))
  | SUBROUTINE_RE => of_bool (is_some (subroutine_re x))
  | NAMELIST_RE => of_bool (is_some (namelist_re x))
  | FUNCTION_RE => of_bool (is_some (function_re x))
  | TYPE_RE => of_bool (is_some (type_re x))
  | INTERFACE_RE => of_bool (is_some (interface_re x))
  | ENUM_RE => of_bool (enum_re x)
  | BOUNDPROC_RE => of_bool (is_some (boundproc_re x))
  | COMMON_RE => of_bool (is_some (common_re x))
  | FINAL_RE => of_bool (is_some (final_re x))
  | VARIABLE_RE => of_bool (is_declaration x)
  | USE_RE => of_bool (is_some (use_re x))
  | ARITH_GOTO_RE | CALL_RE | SUBCALL_RE => Unk     (* not consulted: see [is_tail] *)
  end.

Definition is_interface (k : ckind) : bool := match k with KInterface => true | _ => false end.

Fixpoint eval_cond (c : ctx) (x : str) (cd : cond) : tri :=
  match cd with
  | CEqLower l => of_bool (seqb (lower x) l)
  | CInLower ls => of_bool (sin (lower x) ls)
  | CMatch r => re_match r x
  | CSearch _ => Unk
  | CLevel0 => of_bool (cx_level0 c)
  | CInContains => of_bool (cx_incontains c)
  | CGroup MODPROC_RE g =>
    if seqb g (s "module")
    then match modproc_re x with Some (m, _) => of_bool m | None => Unk end
    else Unk
  | CGroup _ _ => Unk
  | CIsInstance cls => if seqb cls (s "FortranInterface") then of_bool (is_interface (cx_kind c)) else Unk
  | CAnd a b => match eval_cond c x a with Yes => eval_cond c x b | No => No | Unk => Unk end
  | COr a b => match eval_cond c x a with Yes => Yes | No => eval_cond c x b | Unk => Unk end
  end.

(* what a branch is named after: the literal or the regular expression its condition starts with *)
Inductive bkey := KLit (l : str) | KRe (r : re_id) | KBad.
Fixpoint cond_key (cd : cond) : bkey :=
  match cd with
  | CEqLower l => KLit l
  | CInLower (l :: _) => KLit l
  | CMatch r | CSearch r => KRe r
  | CAnd a _ | COr a _ => cond_key a
  | _ => KBad
  end.
Definition key_name (k : bkey) : str :=
  match k with KLit l => l | KRe r => re_name r | KBad => s "?" end.
(* the branches that create no entity and end the chain *)
Definition is_tail (k : bkey) : bool :=
  match k with KRe (ARITH_GOTO_RE | CALL_RE | SUBCALL_RE) => true | _ => false end.

(* ------------------------------------------------------------------ what a branch produces *)
Inductive outcome :=
| Fired (key : str) (st : stmt)      (* the branch that fires and the statement it amounts to *)
| Unmod.                             (* outside the model *)

(* the text before the first "=>" *)
Fixpoint before_arrow (x : str) : str :=
  match x with
  | [] => []
  | c :: x' => if prefix (s "=>") x then [] else c :: before_arrow x'
  end.
Definition comma_pieces (x : str) : list str := map strip (split_on c_comma x).

(* the text of a C binding, "bind ( ... )" up to the last ")" of the line, taken at the last "bind (":
   the constructors of procedures pass it through utils.get_parens when it contains parentheses,
   which may raise; such lines are outside the model *)
Fixpoint last_bind (x : str) : option str :=
  match x with
  | [] => None
  | _ :: x' =>
    match last_bind x' with
    | Some i => Some i
    | None =>
      opt r <- match_ci (s "bind") x ;
      opt r2 <- lit c_lpar (skip_ws r) ;
      before_last c_rpar r2
    end
  end.
Definition no_parens (inner : str) : bool :=
  if has_ch c_lpar inner then false else negb (has_ch c_rpar inner).
(* the text behind the name and the optional argument list *)
Definition after_args (rest : str) : str :=
  match parens (skip_ws rest) with Some r2 => r2 | None => rest end.
(* functions: the binding is looked for (greedily) anywhere behind the arguments *)
Definition fun_bind_ok (rest : str) : bool :=
  match last_bind (after_args rest) with Some inner => no_parens inner | None => true end.
(* subroutines: the binding follows the arguments directly *)
Definition sub_bind_ok (rest : str) : bool :=
  match (opt r <- match_ci (s "bind") (skip_ws (after_args rest)) ;
         opt r2 <- lit c_lpar (skip_ws r) ; before_last c_rpar r2) with
  | Some inner => no_parens inner
  | None => true
  end.

(* the constructor of a function parses what is left of the attributes (the prefix keywords taken
   out) as a type; only a ValueError is tolerated there *)
Definition fun_attrs_check (attrs : str) : res unit :=
  match attrs with
  | [] => Ok tt
  | _ => match parse_type (snd (procedure_attributes (Some attrs))) with
         | Ok _ => Ok tt
         | Err e => if seqb e (s "ValueError") then Ok tt else Err e
         | Unmodelled w => Unmodelled w
         end
  end.

(* the binding names of a type-bound procedure statement: one FortranBoundProcedure for a generic
   binding or a single name, else one per name -- every binding is matched again behind the text
   that precedes the names: modelled when that text ends with "::" or has no attribute list, and
   every piece starts (after white space) with a word character *)
Definition bound_names (g : bool) (m names : str) : option (list str) :=
  let pieces := split_on c_comma names in
  match pieces with
  | [_] => Some [strip (before_arrow names)]
  | _ =>
    if g then Some [strip (before_arrow names)]
    else
      let pre := firstn (length m - length names) m in
      if (if last_is c_colon (rstrip pre) then true else negb (has_ch c_comma pre)) then
        if forallb (fun p => starts_word (skip_ws p)) pieces
        then Some (map (fun p => strip (before_arrow (skip_ws p))) pieces)
        else None
      else None
  end.

(* hasattr(self, "calls"): programs and procedures (modules delete the list) *)
Definition has_calls (k : ckind) : bool :=
  match k with KProgram | KSubroutine | KFunction | KModProcImpl => true | _ => false end.

Definition action (k : bkey) (c : ctx) (m : str) (lits : list str) : outcome :=
  let fired := Fired (key_name k) in
  match k with
  | KBad => Unmod
  | KLit l =>
    if seqb l (s "contains") then fired SContains
    else if seqb l (s "public") then fired SNoop
    else if seqb l (s "sequence") then fired SNoop
    else Unmod
  | KRe r =>
    match r with
    | FORMAT_RE | ATTRIB_RE => fired SNoop
    | ASSOCIATE_RE =>
      (* the associations are registered as procedure references: a container without a list of
         calls raises *)
      if has_calls (cx_kind c) then (if associations_ok m then fired SNoop else Unmod) else Unmod
    | BLOCK_RE => fired SBlock
    | END_RE =>
      match end_re m with
      | Some EndAssociate =>
        (* closes the innermost open ASSOCIATE (assumed to exist where there can be one; without
           one the parser raises) *)
        if has_calls (cx_kind c) then fired (SEnd EndAssociate) else Unmod
      | Some e => fired (SEnd e)
      | None => Unmod
      end
    | MODPROC_RE =>
      match modproc_re m with
      | Some (_, names) =>
        if is_interface (cx_kind c) then fired (SLeaf LModProcRef (comma_pieces names))
        else fired (SModProcImpl names)
      | None => Unmod
      end
    | BLOCK_DATA_RE => match block_data_re m with Some n => fired (SUnit KBlockData n) | None => Unmod end
    | MODULE_RE =>
      match unit_name_re (s "module") m with Some (Some n) => fired (SUnit KModule n) | _ => Unmod end
    | SUBMODULE_RE => match submodule_re m with Some n => fired (SUnit KSubmodule n) | None => Unmod end
    | PROGRAM_RE =>
      match unit_name_re (s "program") m with
      | Some (Some n) => fired (SUnit KProgram n)
      | Some None => fired (SUnit KProgram [])
      | None => Unmod
      end
    | SUBROUTINE_RE =>
      match subroutine_re m with
      | Some (n, true, rest) => if sub_bind_ok rest then fired (SUnit KSubroutine n) else Unmod
      | _ => Unmod
      end
    | NAMELIST_RE => match namelist_re m with Some n => fired (SLeaf LNamelist [n]) | None => Unmod end
    | FUNCTION_RE =>
      match function_re m with
      | Some (n, attrs, rest) =>
        (* the constructor parses what is left of the attributes as a type; only a ValueError is
           tolerated there *)
        match fun_attrs_check attrs with
        | Ok _ => if fun_bind_ok rest then fired (SUnit KFunction n) else Unmod
        | _ => Unmod
        end
      | None => Unmod
      end
    | TYPE_RE => match type_re m with Some n => fired (SUnit KType n) | None => Unmod end
    | INTERFACE_RE =>
      match interface_re m with
      | Some (ab, n) =>
        (* a named abstract interface raises *)
        if ab then (match n with [] => fired (SIface true []) | _ => Unmod end) else fired (SIface false n)
      | None => Unmod
      end
    | ENUM_RE => fired (SUnit KEnum [])
    | BOUNDPROC_RE =>
      match boundproc_re m with
      | Some (g, names) =>
        match bound_names g m names with Some l => fired (SLeaf LBoundProc l) | None => Unmod end
      | None => Unmod
      end
    | COMMON_RE =>
      match common_re m with
      | Some (Some n, rest) => if has_ch c_slash rest then Unmod else fired (SLeaf LCommon [n])
      | Some (None, _) => if has_ch c_slash m then Unmod else fired (SLeaf LCommon [[]])
      | None => Unmod
      end
    | FINAL_RE => match final_re m with Some names => fired (SLeaf LFinal (comma_pieces names)) | None => Unmod end
    | VARIABLE_RE =>
      match line_to_variables m lits (s "public") with
      | Ok vs => fired (SLeaf LVariable (map v_name vs))
      | _ => Unmod
      end
    | USE_RE => match use_re m with Some n => fired (SLeaf LUse [n]) | None => Unmod end
    | ARITH_GOTO_RE | CALL_RE | SUBCALL_RE => Unmod
    end
  end.

(* ------------------------------------------------------------------ the chain *)
Fixpoint run_cascade (c : ctx) (m : str) (lits : list str) (bs : list branch) : outcome :=
  match bs with
  | [] => Fired (s "tail") SNoop
  | b :: bs' =>
    let k := cond_key (br_cond b) in
    if is_tail k then Fired (s "tail") SNoop
    else match eval_cond c m (br_cond b) with
         | Yes => action k c m lits
         | No => run_cascade c m lits bs'
         | Unk => Unmod
         end
  end.

(* one logical line in a container of kind [cx_kind], after/before CONTAINS, inside/outside BLOCK
   constructs *)
Definition classify (c : ctx) (line : str) : outcome :=
  if prefix (s "!!") line then Fired (s "doc") (SDoc (skipn 2 line))
  else if negb (printable line) then Unmod
  else if negb (is_stripped line) then Unmod
  else let (m, lits) := mask_line line in run_cascade c m lits cascade.

(* ------------------------------------------------------------------ the tables the model was written from *)
(* the pattern texts as they stood when the recognisers above were written; Sem/CascadeProofs.v
   compares them with the regenerated Gen.Cascade.patterns *)
Definition modelled_prologue : list str :=
  [s "if line[0:2] == '!' + self.settings.docmark:
    self.doc_list.append(line[2:])
    continue";
   s "if line.strip() != '':
    self.num_lines += 1";
   s "self.strings = []";
   s "search_from = 0";
   s "while (quote := QUOTES_RE.search(line[search_from:])):
    self.strings.append(quote.group())
    line = line[0:search_from] + QUOTES_RE.sub(f'""{len(self.strings) - 1}""', line[search_from:], count=1)
    search_from += QUOTES_RE.search(line[search_from:]).end(0)";
   s "line_lower = line.lower()";
   s "if self.settings.lower:
    line = line_lower"].

Definition modelled_after_loop : list str :=
  [(s "if not isinstance(self, FortranSourceFile):
    raise Exception('File ended while still nested.')")].

(* the chain as it stood: order, conditions, and the summary of each body *)
Definition modelled_cascade : list branch :=
  [
   mkbranch (CEqLower (s "contains"))
     [] [(s "_can_have_contains"); (s "FortranType")] [] [(s "incontains = True")];
   mkbranch (CInLower [(s "public"); (s "private"); (s "protected")])
     [] [(s "FortranType")] [] [];
   mkbranch (CEqLower (s "sequence"))
     [] [] [] [];
   mkbranch (CMatch FORMAT_RE)
     [] [] [] [(s "continue")];
   mkbranch (CAnd (CMatch ATTRIB_RE) (CLevel0))
     [(s "attr_dict")] [] [] [(s "continue")];
   mkbranch (CMatch END_RE)
     [] [(s "FortranSourceFile")] [] [(s "blocklevel -= 1"); (s "return")];
   mkbranch (CAnd (CMatch MODPROC_RE) (COr (CGroup MODPROC_RE (s "module")) (CIsInstance (s "FortranInterface"))))
     [] [(s "FortranInterface"); (s "FortranModule")] [(s "get_mod_procs"); (s "FortranModuleProcedureImplementation")] [];
   mkbranch (CMatch BLOCK_DATA_RE)
     [(s "blockdata")] [] [(s "FortranBlockData")] [];
   mkbranch (CMatch BLOCK_RE)
     [] [] [] [(s "blocklevel += 1")];
   mkbranch (CMatch ASSOCIATE_RE)
     [] [] [] [];
   mkbranch (CMatch MODULE_RE)
     [(s "modules")] [] [(s "FortranModule")] [];
   mkbranch (CMatch SUBMODULE_RE)
     [(s "submodules")] [] [(s "FortranSubmodule")] [];
   mkbranch (CMatch PROGRAM_RE)
     [(s "programs")] [] [(s "FortranProgram")] [];
   mkbranch (CMatch SUBROUTINE_RE)
     [(s "subroutines")] [(s "FortranCodeUnit")] [(s "FortranSubroutine")] [];
   mkbranch (CMatch NAMELIST_RE)
     [(s "namelists")] [] [(s "FortranNamelist")] [];
   mkbranch (CMatch FUNCTION_RE)
     [(s "functions")] [(s "FortranCodeUnit")] [(s "FortranFunction")] [];
   mkbranch (CAnd (CMatch TYPE_RE) (CLevel0))
     [(s "types")] [] [(s "FortranType")] [];
   mkbranch (CAnd (CMatch INTERFACE_RE) (CLevel0))
     [(s "interfaces")] [] [(s "FortranInterface")] [];
   mkbranch (CAnd (CMatch ENUM_RE) (CLevel0))
     [(s "enums")] [] [(s "FortranEnum")] [];
   mkbranch (CAnd (CMatch BOUNDPROC_RE) (CInContains))
     [(s "boundprocs")] [] [(s "FortranBoundProcedure")] [(s "continue")];
   mkbranch (CMatch COMMON_RE)
     [(s "common")] [] [(s "FortranCommon")] [];
   mkbranch (CAnd (CMatch FINAL_RE) (CInContains))
     [(s "finalprocs")] [] [(s "FortranFinalProc")] [];
   mkbranch (CAnd (CMatch VARIABLE_RE) (CLevel0))
     [(s "variables")] [] [(s "line_to_variables")] [];
   mkbranch (CMatch USE_RE)
     [(s "uses")] [] [] [];
   mkbranch (CSearch ARITH_GOTO_RE)
     [(s "calls")] [] [] [(s "line = ...")];
   mkbranch (COr (CSearch CALL_RE) (CSearch SUBCALL_RE))
     [(s "calls")] [] [] [(s "continue")]
  ].

Definition modelled_patterns : list (str * (str * list str)) :=
  [((s "FORMAT_RE"), ((s "^[0-9]+\s+format\s*\(.*\)"), [(s "IGNORECASE")]));
   ((s "ATTRIB_RE"), ((s "^(asynchronous|allocatable|bind\s*\(.*\)|data|dimension|external|intent\s*\(\s*\w+(?:\s+\w+)?\s*\)|optional|parameter|pointer|private|protected|public|save|target|value|volatile)(?:\s+|\s*::\s*)((/|\(|\w).*?)\s*$"), [(s "IGNORECASE")]));
   ((s "END_RE"), ((s "^(?:[0-9]+\s+)?end\s*(?:(module|submodule|subroutine|function|procedure|program|type|interface|enum|block\s*data|block|associate)(?:\s+(\w.*))?)?$"), [(s "IGNORECASE")]));
   ((s "MODPROC_RE"), ((s "^(?P<module>module\s+)?procedure\s*(?:::|\s)\s*(?P<names>\w.*)$"), [(s "IGNORECASE")]));
   ((s "BLOCK_DATA_RE"), ((s "^block\s*data\s*(\w+)?\s*$"), [(s "IGNORECASE")]));
   ((s "BLOCK_RE"), ((s "^(\w+\s*:)?\s*block\s*$"), [(s "IGNORECASE")]));
   ((s "ASSOCIATE_RE"), ((s "^(\w+\s*:)?         # Optional label
        \s*associate\s*\(       # Required associate statement
        (?P<associations>.+)    # Associations
        \)\s*$"), [(s "IGNORECASE"); (s "VERBOSE")]));
   ((s "MODULE_RE"), ((s "^module(?:\s+(?P<name>\w+))?$"), [(s "IGNORECASE")]));
   ((s "SUBMODULE_RE"), ((s "^submodule\s*
        \(\s*(?P<ancestor_module>\w+)\s*         # Non-optional ancestor module
        (?::\s*(?P<parent_submod>\w+))?\s*\)  # Optional parent submodule
        \s*(?P<name>\w+)                      # This submodule's name
        $"), [(s "IGNORECASE"); (s "VERBOSE")]));
   ((s "PROGRAM_RE"), ((s "^program(?:\s+(\w+))?$"), [(s "IGNORECASE")]));
   ((s "SUBROUTINE_RE"), ((s "^\s*(?:(?P<attributes>.+?)\s+)?     # Optional attributes
        subroutine\s+(?P<name>\w+)\s*           # Required subroutine name
        (?P<arguments>\([^()]*\))?              # Optional arguments
        (?:\s*bind\s*\(\s*(?P<bindC>.*)\s*\))?$ # Optional C-binding"), [(s "IGNORECASE"); (s "VERBOSE")]));
   ((s "NAMELIST_RE"), ((s "namelist\s*/(?P<name>\w+)/\s*(?P<vars>(?:\w+,?\s*)+)"), [(s "IGNORECASE")]));
   ((s "FUNCTION_RE"), ((s "^(?:(?P<attributes>.+?)\s*)?               # Optional attributes (including type)
        function\s+(?P<name>\w+)\s*                    # Required function name
        (?P<arguments>\([^()]*\))?                     # Required arguments
        (?=(?:.*result\s*\(\s*(?P<result>\w+)\s*\))?)  # Optional result name
        (?=(?:.*bind\s*\(\s*(?P<bindC>.*)\s*\))?).*$   # Optional C-binding"), [(s "IGNORECASE"); (s "VERBOSE")]));
   ((s "TYPE_RE"), ((s "^type(?:\s+|\s*(,.*)?::\s*)((?!(?:is\s*\())\w+)\s*(\([^()]*\))?\s*$"), [(s "IGNORECASE")]));
   ((s "INTERFACE_RE"), ((s "^(abstract\s+)?interface(?:\s+(\w.*))?$"), [(s "IGNORECASE")]));
   ((s "ENUM_RE"), ((s "^enum\s*,\s*bind\s*\(.*\)\s*$"), [(s "IGNORECASE")]));
   ((s "BOUNDPROC_RE"), ((s "^(?P<generic>generic|procedure)\s*  # Required keyword
        (?P<prototype>\([^()]*\))?\s*           # Optional interface name
        (?:,\s*(?P<attributes>\w[^:]*))?        # Optional list of attributes
        (?:\s*::)?\s*                           # Optional double-colon
        (?P<names>\w.*)$                        # Required name(s)
        "), [(s "IGNORECASE"); (s "VERBOSE")]));
   ((s "COMMON_RE"), ((s "^common(?:\s*/\s*(\w+)\s*/\s*|\s+)(\w+.*)"), [(s "IGNORECASE")]));
   ((s "FINAL_RE"), ((s "^final(?:\s*::\s*|\s+)(\w.*)"), [(s "IGNORECASE")]));
   ((s "VARIABLE_RE"), ((s "^(integer|real|double\s*precision|character|complex|double\s*complex|logical|type(?!\s+is)|class(?!\s+is|\s+default)|procedure|enumerator)\s*((?:\(|\s\w|[:,*]).*)$"), [(s "IGNORECASE")]));
   ((s "USE_RE"), ((s "^use(?:\s*(?:,\s*(?P<nature>(?:non_)?intrinsic)\s*)?::\s*|\s+)(?P<name>\w+)\s*(?P<rest>$|,.*)"), [(s "IGNORECASE")]));
   ((s "ARITH_GOTO_RE"), ((s "\bgo\s*to\s*\([0-9,\s]+\)"), [(s "IGNORECASE")]));
   ((s "CALL_RE"), ((s "(?P<call_chain>
                (?:(?:\s*\w+\s*(?:\(\))?\s*%\s*)+)? # Optional type component access
                (?:\w+\s*\(.*?\))                   # Required function name
            )
        "), [(s "IGNORECASE"); (s "VERBOSE")]));
   ((s "SUBCALL_RE"), ((s "
        ^(?:[0-9]+\s+)?         # Optional statement label
        (?:if\s*\(.*\)\s*)?     # Optional 'if' statement
        call\s+                 # Required keyword
        (?P<call_chain>
            (?:.*%\s*)?         # Optional type component access
            (?:\w+\s*(?:\(\))?) # Required subroutine name
        )
        "), [(s "IGNORECASE"); (s "VERBOSE")]));
   ((s "QUOTES_RE"), ((s "\""([^\""]|\""\"")*\""|'([^']|'')*'"), [(s "IGNORECASE")]))].
