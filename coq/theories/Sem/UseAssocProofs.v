(* Sem/UseAssocProofs.v — proofs about Sem/UseAssoc.v (property C06) *)
From Ford Require Import Base.Str Base.StrFacts Sem.UseAssoc.
From Coq Require Import Lia Permutation.

(* ================================================================== 0. basics *)

Lemma str_in_In n l : str_in n l = true <-> In n l.
Proof.
  induction l as [|x l IH]; simpl; [split; [discriminate | tauto]|].
  rewrite orb_true_iff, IH, str_eqb_eq. split; intros [H|H]; auto.
Qed.
Lemma str_in_false n l : str_in n l = false <-> ~ In n l.
Proof. rewrite <- str_in_In. destruct (str_in n l); split; congruence. Qed.

Lemma ent_eqb_eq a b : ent_eqb a b = true <-> a = b.
Proof.
  destruct a as [a1 a2], b as [b1 b2]. unfold ent_eqb; simpl.
  rewrite andb_true_iff, !str_eqb_eq. split; [intros [-> ->]; auto | intros H; injection H; auto].
Qed.

Lemma nodup_b_NoDup l : nodup_b l = true <-> NoDup l.
Proof.
  induction l as [|x l IH]; simpl; [split; [constructor | auto]|].
  rewrite andb_true_iff, negb_true_iff, str_in_false, IH. split.
  - intros [H1 H2]. now constructor.
  - intros H. inversion H; auto.
Qed.

(* ---- association lists *)

Lemma get_set_same {V : Type} k (v : V) t : assoc_get k (assoc_set k v t) = Some v.
Proof.
  induction t as [|[k' v'] t IH]; simpl.
  - now rewrite str_eqb_refl.
  - destruct (str_eqb k k') eqn:E; simpl; [now rewrite str_eqb_refl | now rewrite E].
Qed.
Lemma get_set_other {V : Type} k k' (v : V) t : k <> k' -> assoc_get k' (assoc_set k v t) = assoc_get k' t.
Proof.
  intros N. induction t as [|[k2 v2] t IH]; simpl.
  - apply not_eq_sym in N. apply str_eqb_neq in N. now rewrite N.
  - destruct (str_eqb k k2) eqn:E; simpl.
    + apply str_eqb_eq in E. subst k2. apply not_eq_sym in N. apply str_eqb_neq in N. now rewrite N.
    + destruct (str_eqb k' k2); auto.
Qed.
Lemma get_In {V : Type} k (v : V) t : assoc_get k t = Some v -> In (k, v) t.
Proof.
  induction t as [|[k' v'] t IH]; simpl; [discriminate|].
  destruct (str_eqb k k') eqn:E.
  - apply str_eqb_eq in E. intros H; injection H as ->. subst. now left.
  - intros H. right. auto.
Qed.
Lemma In_get_some {V : Type} k (v : V) t : In (k, v) t -> exists v', assoc_get k t = Some v'.
Proof.
  induction t as [|[k' v'] t IH]; simpl; [tauto|].
  intros [H|H].
  - injection H as -> ->. rewrite str_eqb_refl. eauto.
  - destruct (str_eqb k k'); eauto.
Qed.
Lemma get_none {V : Type} k (t : list (str * V)) : assoc_get k t = None <-> forall v, ~ In (k, v) t.
Proof.
  split.
  - intros H v Hin. apply In_get_some in Hin as [v' E]. congruence.
  - intros H. destruct (assoc_get k t) eqn:E; auto. apply get_In in E. now apply H in E.
Qed.
Lemma In_get_nodup {V : Type} k (v : V) t : NoDup (map fst t) -> In (k, v) t -> assoc_get k t = Some v.
Proof.
  induction t as [|[k' v'] t IH]; simpl; [tauto|].
  intros ND [H|H].
  - injection H as -> ->. now rewrite str_eqb_refl.
  - inversion ND as [|? ? Hn ND']; subst. destruct (str_eqb k k') eqn:E.
    + apply str_eqb_eq in E. subst k'. exfalso. apply Hn. now apply (in_map fst) in H.
    + auto.
Qed.

Lemma keys_set {V : Type} k (v : V) t : forall x, In x (map fst (assoc_set k v t)) <-> x = k \/ In x (map fst t).
Proof.
  induction t as [|[k' v'] t IH]; simpl; intros x.
  - intuition congruence.
  - destruct (str_eqb k k') eqn:E; simpl.
    + apply str_eqb_eq in E. subst. intuition congruence.
    + rewrite IH. intuition congruence.
Qed.
Lemma nodup_set {V : Type} k (v : V) t : NoDup (map fst t) -> NoDup (map fst (assoc_set k v t)).
Proof.
  induction t as [|[k' v'] t IH]; simpl; intros ND.
  - constructor; [tauto | constructor].
  - destruct (str_eqb k k') eqn:E; simpl.
    + apply str_eqb_eq in E. now subst.
    + inversion ND as [|? ? Hn ND']; subst. constructor; auto.
      rewrite keys_set. intros [H|H]; auto. subst. now rewrite str_eqb_refl in E.
Qed.
Lemma In_set {V : Type} k (v : V) t x : In x (assoc_set k v t) -> x = (k, v) \/ In x t.
Proof.
  induction t as [|[k' v'] t IH]; simpl.
  - intros [H|[]]; auto.
  - destruct (str_eqb k k'); simpl; intros [H|H]; auto. apply IH in H. tauto.
Qed.

Lemma update_cons {V : Type} (t : list (str * V)) kv l : update t (kv :: l) = update (assoc_set (fst kv) (snd kv) t) l.
Proof. reflexivity. Qed.
Lemma update_app {V : Type} (t : list (str * V)) l1 l2 : update t (l1 ++ l2) = update (update t l1) l2.
Proof. unfold update. now rewrite fold_left_app. Qed.
Lemma nodup_update {V : Type} (t l : list (str * V)) : NoDup (map fst t) -> NoDup (map fst (update t l)).
Proof.
  revert t. induction l as [|kv l IH]; intros t ND; [exact ND|].
  rewrite update_cons. apply IH. now apply nodup_set.
Qed.
Lemma In_update {V : Type} (t l : list (str * V)) x : In x (update t l) -> In x l \/ In x t.
Proof.
  revert t. induction l as [|kv l IH]; intros t H; [now right|].
  rewrite update_cons in H. apply IH in H as [H|H]; [left; now right|].
  apply In_set in H as [H|H]; [|now right]. left. left. subst. now destruct kv.
Qed.
(* the value of a key after an update: the last one the update list gives it, else the old one *)
Lemma update_get_or {V : Type} k (t l : list (str * V)) :
  (exists v, In (k, v) l /\ assoc_get k (update t l) = Some v) \/
  ((forall v, ~ In (k, v) l) /\ assoc_get k (update t l) = assoc_get k t).
Proof.
  revert t. induction l as [|[k1 v1] l IH]; intros t.
  - right. split; auto.
  - rewrite update_cons. simpl fst; simpl snd.
    destruct (IH (assoc_set k1 v1 t)) as [(v & Hin & E)|(Hn & E)].
    + left. exists v. split; [now right | exact E].
    + destruct (str_eqb k1 k) eqn:Ek.
      * apply str_eqb_eq in Ek. subst k1. left. exists v1. split; [now left|].
        now rewrite E, get_set_same.
      * apply str_eqb_neq in Ek. right. split.
        -- intros v [H|H]; [injection H as -> _; congruence | now apply Hn in H].
        -- now rewrite E, get_set_other.
Qed.
Lemma get_filter_key {V : Type} (p : str -> bool) k (t : list (str * V)) :
  assoc_get k (filter (fun kv => p (fst kv)) t) = if p k then assoc_get k t else None.
Proof.
  induction t as [|[k' v'] t IH]; simpl; [now destruct (p k)|].
  destruct (p k') eqn:Ep; simpl.
  - destruct (str_eqb k k') eqn:E; [apply str_eqb_eq in E; subst; now rewrite Ep | exact IH].
  - destruct (str_eqb k k') eqn:E; [apply str_eqb_eq in E; subst; now rewrite IH, Ep | exact IH].
Qed.
Lemma nodup_filter_keys {V : Type} (p : str * V -> bool) (t : list (str * V)) : NoDup (map fst t) -> NoDup (map fst (filter p t)).
Proof.
  induction t as [|kv t IH]; simpl; intros ND; [constructor|].
  inversion ND as [|? ? Hn ND']; subst. destruct (p kv); simpl; auto.
  constructor; auto. intros H. apply Hn. apply in_map_iff in H as (x & E & Hx).
  apply filter_In in Hx as [Hx _]. rewrite <- E. now apply in_map.
Qed.

(* sets of pairs in which a key has one value; a dictionary denoting such a set *)
Definition functional {V : Type} (l : list (str * V)) : Prop := forall n e1 e2, In (n, e1) l -> In (n, e2) l -> e1 = e2.
Definition denotes {V : Type} (t l : list (str * V)) : Prop := forall n e, assoc_get n t = Some e <-> In (n, e) l.
Definition same_set {V : Type} (l1 l2 : list (str * V)) : Prop := forall x, In x l1 <-> In x l2.

Lemma functional_incl {V : Type} (l1 l2 : list (str * V)) : (forall x, In x l1 -> In x l2) -> functional l2 -> functional l1.
Proof. intros H F n e1 e2 H1 H2. eapply F; eauto. Qed.
Lemma denotes_same {V : Type} (t l1 l2 : list (str * V)) : same_set l1 l2 -> denotes t l1 -> denotes t l2.
Proof. intros S D n e. rewrite (D n e). apply S. Qed.
Lemma denotes_nil {V : Type} : denotes (@nil (str * V)) [].
Proof. intros n e. simpl. split; [discriminate | tauto]. Qed.

Lemma denotes_update {V : Type} (t1 S1 t2 S2 : list (str * V)) :
  NoDup (map fst t2) -> denotes t1 S1 -> denotes t2 S2 -> functional (S1 ++ S2) ->
  denotes (update t1 t2) (S1 ++ S2).
Proof.
  intros ND D1 D2 F n e. rewrite in_app_iff.
  destruct (update_get_or n t1 t2) as [(v & Hin & E)|(Hn & E)]; rewrite E.
  - apply (In_get_nodup _ _ _ ND) in Hin. apply D2 in Hin. split.
    + intros H; injection H as ->. now right.
    + intros H. f_equal. apply (F n); apply in_app_iff; [now right|].
      destruct H as [H|H]; [now left | now right].
  - split.
    + intros H. left. now apply D1.
    + intros [H|H]; [now apply D1|]. apply D2 in H. apply get_In in H. now apply Hn in H.
Qed.
Lemma denotes_of_list {V : Type} (l : list (str * V)) : functional l -> denotes (update [] l) l.
Proof.
  intros F n e. destruct (update_get_or n [] l) as [(v & Hin & E)|(Hn & E)]; rewrite E.
  - split; [intros H; injection H as ->; exact Hin | intros H; f_equal; eapply F; eauto].
  - simpl. split; [discriminate | intros H; now apply Hn in H].
Qed.
Lemma denotes_filter {V : Type} (p : str -> bool) (t l : list (str * V)) :
  denotes t l -> denotes (filter (fun kv => p (fst kv)) t) (filter (fun kv => p (fst kv)) l).
Proof.
  intros D n e. rewrite get_filter_key, filter_In. simpl. destruct (p n).
  - rewrite (D n e). tauto.
  - split; [discriminate | intros [_ H]; discriminate].
Qed.
Lemma denotes_functional {V : Type} (t l : list (str * V)) : denotes t l -> functional l.
Proof. intros D n e1 e2 H1 H2. apply D in H1, H2. congruence. Qed.

Lemma functional_b_iff l : functional_b l = true <-> functional l.
Proof.
  induction l as [|[n e] l IH]; simpl.
  - split; auto. intros _ n e1 e2 [].
  - rewrite andb_true_iff, forallb_forall, IH. split.
    + intros [H1 H2] n' e1 e2 [A|A] [B|B].
      * congruence.
      * injection A as <- <-. apply H1 in B. simpl in B. rewrite str_eqb_refl in B. simpl in B.
        symmetry. now apply ent_eqb_eq.
      * injection B as <- <-. apply H1 in A. simpl in A. rewrite str_eqb_refl in A. simpl in A.
        now apply ent_eqb_eq.
      * eapply H2; eauto.
    + intros F. split.
      * intros [k v] Hin. simpl. destruct (str_eqb k n) eqn:E; simpl; auto.
        apply str_eqb_eq in E. subst k. apply ent_eqb_eq. apply (F n); [now right | now left].
      * intros n' e1 e2 A B. apply (F n'); now right.
Qed.

(* ---- modules by name *)
Lemma find_module_some g n M : find_module g n = Some M -> In M g /\ m_name M = n.
Proof.
  induction g as [|M' g IH]; simpl; [discriminate|].
  destruct (str_eqb (m_name M') n) eqn:E.
  - intros H; injection H as ->. apply str_eqb_eq in E. auto.
  - intros H. apply IH in H. tauto.
Qed.
Lemma find_module_none g n : find_module g n = None <-> ~ In n (names g).
Proof.
  induction g as [|M' g IH]; simpl; [tauto|].
  destruct (str_eqb (m_name M') n) eqn:E.
  - apply str_eqb_eq in E. split; [discriminate | intros H; exfalso; auto].
  - apply str_eqb_neq in E. rewrite IH. tauto.
Qed.
Lemma find_module_nodup g M : NoDup (names g) -> In M g -> find_module g (m_name M) = Some M.
Proof.
  induction g as [|M' g IH]; simpl; [tauto|]. intros ND [H|H].
  - subst. now rewrite str_eqb_refl.
  - inversion ND as [|? ? Hn ND']; subst. destruct (str_eqb (m_name M') (m_name M)) eqn:E.
    + apply str_eqb_eq in E. exfalso. apply Hn. rewrite E. now apply in_map.
    + auto.
Qed.
Lemma same_name_same_module g M M' :
  NoDup (names g) -> In M g -> In M' g -> m_name M = m_name M' -> M = M'.
Proof.
  intros ND H H' E. apply (find_module_nodup _ _ ND) in H, H'. rewrite E in H. congruence.
Qed.
Lemma find_module_in_names g n : In n (names g) -> exists M, find_module g n = Some M.
Proof.
  intros H. destruct (find_module g n) eqn:E; eauto. apply find_module_none in E. contradiction.
Qed.

(* ================================================================== 1. one USE statement, one module *)

Lemma existsb_false {A} (f : A -> bool) l : existsb f l = false -> forall x, In x l -> f x = false.
Proof.
  intros H x Hin. destruct (f x) eqn:E; auto.
  assert (existsb f l = true) by (apply existsb_exists; eauto). congruence.
Qed.
Lemma flat_map_nil {A B} (f : A -> list B) l : (forall x, In x l -> f x = []) -> flat_map f l = [].
Proof.
  induction l as [|x l IH]; simpl; intros H; auto. rewrite (H x), IH; auto.
Qed.
Lemma filter_all {A} (f : A -> bool) l : (forall x, In x l -> f x = true) -> filter f l = l.
Proof.
  induction l as [|x l IH]; simpl; intros H; auto. rewrite (H x), IH; auto.
Qed.
Lemma filter_nil_all {A} (f : A -> bool) l : filter f l = [] -> forall x, In x l -> f x = false.
Proof.
  induction l as [|y l IH]; simpl; [tauto|]. destruct (f y) eqn:E; [discriminate|].
  intros H x [<-|Hx]; auto.
Qed.

Lemma entry_list_functional M ds : functional (map (entry M) ds).
Proof.
  intros n e1 e2 H1 H2. apply in_map_iff in H1 as (d1 & E1 & _), H2 as (d2 & E2 & _).
  unfold entry in *. injection E1 as <- <-. injection E2 as E <-. now rewrite E.
Qed.
Lemma own_pub_denotes c M : denotes (own_pub c M) (own_public c M) /\ NoDup (map fst (own_pub c M)).
Proof.
  split; [apply denotes_of_list, entry_list_functional | apply nodup_update; constructor].
Qed.
Lemma own_all_denotes c M : denotes (own_all c M) (own_scope c M) /\ NoDup (map fst (own_all c M)).
Proof.
  split; [apply denotes_of_list, entry_list_functional | apply nodup_update; constructor].
Qed.

Lemma pick_In items (accT : list (str * ent)) l e :
  In (l, e) (pick items accT) <-> exists r, In (l, r) items /\ In (r, e) accT.
Proof.
  unfold pick. rewrite in_flat_map. split.
  - intros ([l' r] & Hi & H). apply in_map_iff in H as ([r' e'] & E & H). simpl in *.
    injection E as -> ->. apply filter_In in H as [H Er]. simpl in Er. apply str_eqb_eq in Er. subst.
    eauto.
  - intros (r & Hi & Ha). exists (l, r). split; auto. apply in_map_iff. exists (r, e). split; auto.
    apply filter_In. split; auto. simpl. apply str_eqb_refl.
Qed.

Lemma rename_list_In tp items (accT : list (str * ent)) l e :
  denotes tp accT ->
  (In (l, e) (rename_list tp items) <-> In (l, e) (pick items accT)).
Proof.
  intros D. rewrite pick_In. unfold rename_list. rewrite in_flat_map. split.
  - intros ([l' r] & Hi & H). simpl in H. destruct (assoc_get r tp) eqn:E; [|destruct H].
    destruct H as [H|[]]. injection H as -> ->. exists r. split; auto. now apply D.
  - intros (r & Hi & Ha). exists (l, r). split; auto. simpl. apply D in Ha. rewrite Ha. now left.
Qed.

(* updating with a list of pairs (later pairs win) that, as a set, is S2 *)
Lemma denotes_update_list (t1 S1 L S2 : list (str * ent)) :
  denotes t1 S1 -> same_set L S2 -> functional (S1 ++ S2) -> denotes (update t1 L) (S1 ++ S2).
Proof.
  intros D1 SS F n e. rewrite in_app_iff.
  destruct (update_get_or n t1 L) as [(v & Hin & E)|(Hn & E)]; rewrite E.
  - apply SS in Hin. split.
    + intros H; injection H as ->. now right.
    + intros H. f_equal. apply (F n); apply in_app_iff; [now right|].
      destruct H as [H|H]; [now left | now right].
  - split.
    + intros H. left. now apply D1.
    + intros [H|H]; [now apply D1|]. apply SS in H. now apply Hn in H.
Qed.

Lemma use_hidden_eq M t : use_hidden M t = hidden M t.
Proof. reflexivity. Qed.

(* one USE statement: what get_used_entities returns denotes the Spec's set for the statement *)
Lemma use_spec M u tp accT :
  NoDup (map fst tp) -> denotes tp accT ->
  functional (import_stmt M u accT) ->
  denotes (used_entities tp (use_hidden M (u_target u)) u) (import_stmt M u accT)
  /\ NoDup (map fst (used_entities tp (use_hidden M (u_target u)) u)).
Proof.
  intros ND D F. unfold import_stmt, used_entities in *. rewrite use_hidden_eq.
  destruct (u_only u) as [items|].
  - split; [|apply nodup_update; constructor].
    apply (denotes_update_list [] [] (rename_list tp items) (pick items accT)).
    + apply denotes_nil.
    + intros [l e]. now apply rename_list_In.
    + exact F.
  - split; [|apply nodup_update; now apply nodup_filter_keys].
    set (S1 := filter (fun re : str * ent => negb (str_in (fst re) (hidden M (u_target u)))) accT) in *.
    set (S2 := pick (u_renames u) accT) in *.
    apply (denotes_same _ (S1 ++ S2)).
    + intros x. rewrite !in_app_iff. tauto.
    + apply denotes_update_list.
      * unfold S1. apply (denotes_filter (fun n => negb (str_in n (hidden M (u_target u))))). exact D.
      * intros [l e]. now apply rename_list_In.
      * eapply functional_incl; [|exact F]. intros x. rewrite !in_app_iff. tauto.
Qed.

(* should_be_public is Fortran's accessibility for identifiers that are not own declarations *)
Lemma should_reexp M n :
  forallb (fun a => negb (declared M (fst a))) (m_access M) = true ->
  NoDup (map fst (m_access M)) ->
  declared M n = false ->
  should_be_public M n = reexported M n.
Proof.
  intros Hacc ND Hd. unfold should_be_public, reexported, public_list, private_list.
  assert (N1 : str_in n (map d_name (filter (fun d => is_public (d_perm d)) (m_decls M))) = false).
  { apply str_in_false. intros H. apply in_map_iff in H as (d & E & H). apply filter_In in H as [H _].
    unfold declared in Hd. apply str_in_false in Hd. apply Hd. rewrite <- E. now apply in_map. }
  assert (Hin : forall (want b : bool), In (n, b) (m_access M) ->
            (str_in n (map fst (filter (fun a => Bool.eqb (snd a) want && negb (declared M (fst a))) (m_access M))) = true
             <-> b = want)).
  { intros want b Hb. rewrite str_in_In, in_map_iff. split.
    - intros ([n' b'] & E & H). simpl in E. subst n'. apply filter_In in H as [H Hf]. simpl in Hf.
      apply andb_true_iff in Hf as [Hf _]. apply Bool.eqb_prop in Hf. subst b'.
      apply (In_get_nodup _ _ _ ND) in H, Hb. congruence.
    - intros ->. exists (n, want). split; auto. apply filter_In. split; auto. simpl.
      rewrite Bool.eqb_reflx, Hd. reflexivity. }
  assert (Epub : forall l, filter (fun a : str * bool => snd a && negb (declared M (fst a))) l
                           = filter (fun a => Bool.eqb (snd a) true && negb (declared M (fst a))) l).
  { intros l. apply filter_ext. intros [x b]. simpl. now destruct b. }
  assert (Epriv : forall l, filter (fun a : str * bool => negb (snd a) && negb (declared M (fst a))) l
                            = filter (fun a => Bool.eqb (snd a) false && negb (declared M (fst a))) l).
  { intros l. apply filter_ext. intros [x b]. simpl. now destruct b. }
  rewrite Epub, Epriv.
  assert (E2 : forall l1 l2, str_in n (l1 ++ l2) = str_in n l1 || str_in n l2).
  { induction l1; simpl; intros; auto. now rewrite IHl1, orb_assoc. }
  rewrite E2, N1. simpl.
  destruct (assoc_get n (m_access M)) as [b|] eqn:Eg.
  - apply get_In in Eg.
    assert (Hb : forall want, str_in n (map fst (filter (fun a => Bool.eqb (snd a) want && negb (declared M (fst a))) (m_access M)))
                              = Bool.eqb b want).
    { intros want. pose proof (Hin want b Eg) as H.
      destruct (str_in n (map fst _)) eqn:E1.
      - destruct H as [H _]. rewrite (H eq_refl). now rewrite Bool.eqb_reflx.
      - destruct (Bool.eqb b want) eqn:E4; auto. apply Bool.eqb_prop in E4. destruct H as [_ H]. discriminate (H E4). }
    rewrite !Hb. destruct b; simpl; auto. now rewrite andb_false_r.
  - assert (Hno : forall want, str_in n (map fst (filter (fun a => Bool.eqb (snd a) want && negb (declared M (fst a))) (m_access M))) = false).
    { intros want. apply str_in_false. intros H. apply in_map_iff in H as ([n' b'] & E & H). simpl in E. subst n'.
      apply filter_In in H as [H _]. apply In_get_some in H as [v H]. congruence. }
    rewrite !Hno. simpl. now rewrite andb_true_r.
Qed.

Lemma flat_map_ext_in' {A B} (f1 f2 : A -> list B) l :
  (forall x, In x l -> f1 x = f2 x) -> flat_map f1 l = flat_map f2 l.
Proof.
  induction l as [|x l IH]; intros H; simpl; auto.
  rewrite (H x (or_introl eq_refl)), IH; auto. intros y Hy. apply H. now right.
Qed.

(* the imports given by a list of USE statements of M *)
Definition imports_of (g : graph) (M : module) (A : module -> list (str * ent)) (us : list use_stmt) :=
  flat_map (fun u => match used_module g M u with
                     | Some T => import_stmt M u (A T)
                     | None => []
                     end) us.
Lemma spec_module_some g u T : spec_module g u = Some T -> find_module g (u_target u) = Some T.
Proof. unfold spec_module. destruct (u_intrinsic u); [discriminate | auto]. Qed.
Lemma used_module_some g M u T : used_module g M u = Some T -> find_module g (u_target u) = Some T.
Proof. unfold used_module. destruct (scope_intrinsic M (u_target u)); [discriminate | auto]. Qed.
(* in a scope that keeps C1412 the module find_used_modules matches a statement with is the one
   the statement designates *)
Lemma used_is_spec g M u :
  nature_legal_m g M = true -> In u (m_uses M) -> used_module g M u = spec_module g u.
Proof.
  unfold nature_legal_m. rewrite forallb_forall. intros H Hu. unfold used_module, spec_module.
  destruct (u_intrinsic u) eqn:Ei.
  - assert (E : scope_intrinsic M (u_target u) = true).
    { unfold scope_intrinsic. apply existsb_exists. exists u. split; auto. now rewrite Ei, str_eqb_refl. }
    now rewrite E.
  - destruct (scope_intrinsic M (u_target u)) eqn:E; auto.
    unfold scope_intrinsic in E. apply existsb_exists in E as (u' & Hu' & E').
    apply andb_true_iff in E' as [Ei' Et]. specialize (H u' Hu'). rewrite Ei' in H. simpl in H.
    rewrite forallb_forall in H. specialize (H u Hu). rewrite Et, Ei in H. simpl in H.
    destruct (find_module g (u_target u)); [discriminate | reflexivity].
Qed.
Lemma imports_is g M A : nature_legal_m g M = true -> imports g M A = imports_of g M A (m_uses M).
Proof.
  intros H. unfold imports, imports_of. apply flat_map_ext_in'. intros u Hu.
  now rewrite (used_is_spec g M u H Hu).
Qed.

Lemma fold_use_step g M (h : module -> tabs) (A : module -> list (str * ent)) :
  forallb (fun a => negb (declared M (fst a))) (m_access M) = true ->
  NoDup (map fst (m_access M)) ->
  forall us,
  (forall u, In u us -> In u (m_uses M)) ->
  (forall u T, In u us -> used_module g M u = Some T ->
               NoDup (map fst (fst (h T))) /\ denotes (fst (h T)) (A T)) ->
  forall pub all Sp Sa,
  NoDup (map fst pub) -> denotes pub Sp -> denotes all Sa ->
  functional (Sa ++ imports_of g M A us) ->
  functional (Sp ++ filter (fun ne => reexported M (fst ne)) (imports_of g M A us)) ->
  (forall ne, In ne (imports_of g M A us) -> declared M (fst ne) = false) ->
  let R := fold_left (use_step g M h) us (pub, all) in
  denotes (fst R) (Sp ++ filter (fun ne => reexported M (fst ne)) (imports_of g M A us))
  /\ denotes (snd R) (Sa ++ imports_of g M A us) /\ NoDup (map fst (fst R)).
Proof.
  intros Hacc NDa. induction us as [|u us IH]; intros Hus Hh pub all Sp Sa NDp Dp Da Fa Fp Hnd.
  - simpl. rewrite !app_nil_r. auto.
  - simpl fold_left. unfold use_step at 2.
    unfold imports_of in *. simpl flat_map in *.
    destruct (used_module g M u) as [T|] eqn:Ef.
    + destruct (Hh u T (or_introl eq_refl) Ef) as [NDt Dt].
      set (X := import_stmt M u (A T)) in *.
      assert (FX : functional X).
      { eapply functional_incl; [|exact Fa]. intros x Hx. apply in_app_iff. right. apply in_app_iff. now left. }
      destruct (use_spec M u (fst (h T)) (A T) NDt Dt FX) as [Du NDu].
      fold X in Du.
      rewrite filter_app in Fp |- *. rewrite app_assoc in Fp |- *. rewrite (app_assoc Sa) in Fa |- *.
      assert (Efil : filter (fun kv : str * ent => should_be_public M (fst kv)) X
                     = filter (fun ne : str * ent => reexported M (fst ne)) X).
      { apply filter_ext_in. intros ne Hne. apply should_reexp; auto. apply Hnd. apply in_app_iff. now left. }
      apply IH.
      * intros u' Hu'. apply Hus. now right.
      * intros u' T' Hu'. apply Hh. now right.
      * apply nodup_update. exact NDp.
      * apply denotes_update; auto.
        -- unfold filter_public. now apply nodup_filter_keys.
        -- unfold filter_public. rewrite <- Efil. now apply denotes_filter.
        -- eapply functional_incl; [|exact Fp]. intros x Hx. apply in_app_iff. now left.
      * apply denotes_update; auto.
        eapply functional_incl; [|exact Fa]. intros x Hx. apply in_app_iff. now left.
      * exact Fa.
      * exact Fp.
      * intros ne Hne. apply Hnd. apply in_app_iff. now right.
    + simpl app in *. apply IH; auto.
      * intros u' Hu'. apply Hus. now right.
      * intros u' T' Hu'. apply Hh. now right.
Qed.

Lemma mstep_spec c g M (h : module -> tabs) (A : module -> list (str * ent)) :
  nature_legal_m g M = true ->
  forallb (fun a => negb (declared M (fst a))) (m_access M) = true ->
  NoDup (map fst (m_access M)) ->
  (forall u T, In u (m_uses M) -> used_module g M u = Some T ->
               NoDup (map fst (fst (h T))) /\ denotes (fst (h T)) (A T)) ->
  functional (own_scope c M ++ imports g M A) ->
  (forall ne, In ne (imports g M A) -> declared M (fst ne) = false) ->
  let R := mstep c g M h (own_pub c M) in
  denotes (fst R) (own_public c M ++ filter (fun ne => reexported M (fst ne)) (imports g M A))
  /\ denotes (snd R) (own_scope c M ++ imports g M A) /\ NoDup (map fst (fst R)).
Proof.
  intros Hnat Hacc NDa Hh F Hnd. unfold mstep. rewrite (imports_is g M A Hnat) in *.
  apply fold_use_step; auto.
  - apply own_pub_denotes.
  - apply own_pub_denotes.
  - apply own_all_denotes.
  - eapply functional_incl; [|exact F]. intros x Hx. apply in_app_iff in Hx as [Hx|Hx]; apply in_app_iff.
    + left. unfold own_public, own_scope in *. apply in_map_iff in Hx as (d & E & Hd).
      apply in_map_iff. exists d. split; auto. now apply filter_In in Hd as [Hd _].
    + right. now apply filter_In in Hx as [Hx _].
Qed.

(* ================================================================== 2. processing orders *)

Definition topo_prop (g : graph) (o : list str) : Prop :=
  forall l1 n l2, o = l1 ++ n :: l2 ->
  exists M, find_module g n = Some M /\ forall t, In t (deps g M) -> In t l1.

Lemma topo_from_iff g seen o :
  topo_from g seen o = true <->
  forall l1 n l2, o = l1 ++ n :: l2 ->
  exists M, find_module g n = Some M /\ forall t, In t (deps g M) -> In t seen \/ In t l1.
Proof.
  revert seen. induction o as [|n0 o IH]; intros seen; simpl.
  - split; auto. intros _ [|x l1] n l2 H; discriminate.
  - destruct (find_module g n0) as [M|] eqn:Ef.
    + rewrite andb_true_iff, forallb_forall, IH. split.
      * intros [H1 H2] [|x l1] n l2 E; simpl in E; injection E as -> E.
        -- exists M. split; auto. intros t Ht. left. apply str_in_In. auto.
        -- subst o. destruct (H2 l1 n l2 eq_refl) as (M' & Ef' & Hd). exists M'. split; auto.
           intros t Ht. destruct (Hd t Ht) as [[<-|H]|H]; [right; now left | now left | right; now right].
      * intros H. split.
        -- intros t Ht. apply str_in_In. destruct (H [] n0 o eq_refl) as (M' & Ef' & Hd).
           assert (M' = M) by congruence. subst M'. destruct (Hd t Ht) as [H'|[]]. exact H'.
        -- intros l1 n l2 E. subst o. destruct (H (n0 :: l1) n l2 eq_refl) as (M' & Ef' & Hd).
           exists M'. split; auto. intros t Ht. destruct (Hd t Ht) as [H'|[<-|H']].
           ++ left. now right.
           ++ left. now left.
           ++ now right.
    + split; [discriminate|]. intros H. destruct (H [] n0 o eq_refl) as (M' & Ef' & _). congruence.
Qed.

Lemma topo_b_facts g o :
  topo_b g o = true <->
  NoDup (names g) /\ NoDup o /\ (forall n, In n o <-> In n (names g)) /\ topo_prop g o.
Proof.
  unfold topo_b, topo_prop. rewrite !andb_true_iff, !nodup_b_NoDup, !forallb_forall, topo_from_iff.
  split.
  - intros ((((H1 & H2) & H3) & H4) & H5). repeat split; auto.
    + intros H. apply str_in_In. auto.
    + intros H. apply str_in_In. auto.
    + intros l1 n l2 E. destruct (H5 l1 n l2 E) as (M & Ef & Hd). exists M. split; auto.
      intros t Ht. destruct (Hd t Ht) as [[]|H]; auto.
  - intros (H1 & H2 & H3 & H4). repeat split; auto.
    + intros n Hn. apply str_in_In. now apply H3.
    + intros n Hn. apply str_in_In. now apply H3.
    + intros l1 n l2 E. destruct (H4 l1 n l2 E) as (M & Ef & Hd). exists M. split; auto.
Qed.

Lemma topo_length g o : topo_b g o = true -> length o = length g.
Proof.
  intros H. apply topo_b_facts in H as (N1 & N2 & S & _).
  rewrite <- (map_length m_name g). fold (names g). apply Nat.le_antisymm.
  - apply NoDup_incl_length; auto. intros x. apply S.
  - apply NoDup_incl_length; auto. intros x. apply S.
Qed.

Lemma no_self_use_M g M : no_self_use g = true -> In M g ->
  forall u, In u (m_uses M) -> u_target u <> m_name M.
Proof.
  unfold no_self_use. rewrite forallb_forall. intros H HM u Hu.
  specialize (H M HM). rewrite forallb_forall in H. specialize (H u (proj2 (in_app_iff _ _ _) (or_introl Hu))).
  apply negb_true_iff in H. now apply str_eqb_neq.
Qed.
Lemma no_self_use_nested g M S : no_self_use g = true -> In M g -> In S (m_nested M) ->
  forall u, In u (s_uses S) -> u_target u <> m_name M.
Proof.
  unfold no_self_use. rewrite forallb_forall. intros H HM HS u Hu.
  specialize (H M HM). rewrite forallb_forall in H.
  assert (Hin : In u (m_uses M ++ flat_map s_uses (m_nested M))).
  { apply in_app_iff. right. apply in_flat_map. eauto. }
  specialize (H u Hin). apply negb_true_iff in H. now apply str_eqb_neq.
Qed.
Lemma in_scope_targets M u :
  In u (m_uses M) -> scope_intrinsic M (u_target u) = false -> In (u_target u) (scope_targets M).
Proof.
  intros Hu E. unfold scope_targets. apply in_map. apply filter_In. split; auto. now rewrite E.
Qed.
Lemma target_in_deps g M u T :
  (forall u, In u (m_uses M) -> u_target u <> m_name M) ->
  In u (m_uses M) -> used_module g M u = Some T ->
  In T g /\ In (m_name T) (deps g M).
Proof.
  intros Hs Hu Ef. unfold used_module in Ef. destruct (scope_intrinsic M (u_target u)) eqn:Ei; [discriminate|].
  apply find_module_some in Ef as [HT En]. split; auto.
  unfold deps, resolved_targets. rewrite En. apply filter_In. split.
  - apply filter_In. split; [apply in_app_iff; left; now apply in_scope_targets|]. apply str_in_In. rewrite <- En. now apply in_map.
  - apply negb_true_iff. apply str_eqb_neq. auto.
Qed.
Lemma nested_target_in_deps g M S u T :
  In S (m_nested M) -> In u (s_uses S) -> u_target u <> m_name M ->
  used_module g (as_module M S) u = Some T -> In T g /\ In (m_name T) (deps g M).
Proof.
  intros HS Hu Hne Ef. unfold used_module in Ef.
  destruct (scope_intrinsic (as_module M S) (u_target u)) eqn:Ei; [discriminate|].
  apply find_module_some in Ef as [HT En]. split; auto.
  unfold deps, resolved_targets. rewrite En. apply filter_In. split.
  - apply filter_In. split.
    + apply in_app_iff. right. unfold nested_targets. apply in_flat_map. exists S. split; auto.
      now apply (in_scope_targets (as_module M S)).
    + apply str_in_In. rewrite <- En. now apply in_map.
  - apply negb_true_iff. apply str_eqb_neq. auto.
Qed.

(* a family defined by iterating a step that reads the family only at the modules used: on a
   topologically ordered graph the value at the k-th module is settled after k+1 iterations *)
Lemma iter_stable {A} g (X : nat -> module -> A) (step : module -> (module -> A) -> A) o :
  (forall f M, X (S f) M = step M (X f)) ->
  (forall M h1 h2, In M g ->
     (forall T, In T g -> In (m_name T) (deps g M) -> h1 T = h2 T) -> step M h1 = step M h2) ->
  NoDup (names g) -> topo_prop g o ->
  forall k l1 n l2 M, length l1 = k -> o = l1 ++ n :: l2 -> find_module g n = Some M ->
  forall f, S k <= f -> X f M = X (S k) M.
Proof.
  intros HX Hext ND TP k. induction k as [k IH] using lt_wf_ind.
  intros l1 n l2 M Hl Eo Ef f Hf. destruct f as [|f]; [lia|]. rewrite !HX.
  destruct (find_module_some _ _ _ Ef) as [HM _]. apply Hext; auto.
  intros T HT Hd. destruct (TP l1 n l2 Eo) as (M' & Ef' & Hdeps).
  assert (M' = M) by congruence. subst M'.
  apply Hdeps in Hd. apply in_split in Hd as (a & b & El1).
  assert (Eo' : o = a ++ m_name T :: (b ++ n :: l2)) by (rewrite Eo, El1, <- app_assoc; reflexivity).
  assert (La : length a < k) by (rewrite <- Hl, El1, app_length; simpl; lia).
  pose proof (find_module_nodup g T ND HT) as EfT.
  rewrite (IH (length a) La a (m_name T) _ T eq_refl Eo' EfT f) by lia.
  rewrite (IH (length a) La a (m_name T) _ T eq_refl Eo' EfT k) by lia.
  reflexivity.
Qed.

Lemma fold_left_ext_in {A B} (f1 f2 : A -> B -> A) l a :
  (forall x acc, In x l -> f1 acc x = f2 acc x) -> fold_left f1 l a = fold_left f2 l a.
Proof.
  revert a. induction l as [|x l IH]; intros a H; simpl; auto.
  rewrite (H x a (or_introl eq_refl)). apply IH. intros y acc Hy. apply H. now right.
Qed.

Lemma mstep_ext c g M h1 h2 p :
  (forall u, In u (m_uses M) -> u_target u <> m_name M) ->
  (forall T, In T g -> In (m_name T) (deps g M) -> h1 T = h2 T) ->
  mstep c g M h1 p = mstep c g M h2 p.
Proof.
  intros Hs H. unfold mstep. apply fold_left_ext_in. intros u acc Hu. unfold use_step.
  destruct (used_module g M u) as [T|] eqn:Ef; auto.
  destruct (target_in_deps g M u T Hs Hu Ef) as [HT Hd]. now rewrite (H T HT Hd).
Qed.
Lemma imports_ext g M A1 A2 :
  nature_legal_m g M = true ->
  (forall u, In u (m_uses M) -> u_target u <> m_name M) ->
  (forall T, In T g -> In (m_name T) (deps g M) -> A1 T = A2 T) ->
  imports g M A1 = imports g M A2.
Proof.
  intros Hn Hs H. unfold imports. apply flat_map_ext_in'. intros u Hu.
  destruct (spec_module g u) as [T|] eqn:Ef; auto. rewrite <- (used_is_spec g M u Hn Hu) in Ef.
  destruct (target_in_deps g M u T Hs Hu Ef) as [HT Hd]. now rewrite (H T HT Hd).
Qed.

(* the model as a family indexed by the number of re-export levels followed *)
Fixpoint mtab (f : nat) (c : cls) (g : graph) (M : module) : tabs :=
  match f with
  | 0 => (own_pub c M, own_all c M)
  | S f' => mstep c g M (mtab f' c g) (own_pub c M)
  end.

Lemma mtab_stable c g o :
  topo_b g o = true -> no_self_use g = true ->
  forall l1 n l2 M, o = l1 ++ n :: l2 -> find_module g n = Some M ->
  forall f, S (length l1) <= f -> mtab f c g M = mtab (S (length l1)) c g M.
Proof.
  intros Ht Hs l1 n l2 M Eo Ef f Hf. apply topo_b_facts in Ht as (ND & _ & _ & TP).
  apply (iter_stable g (fun f => mtab f c g) (fun M h => mstep c g M h (own_pub c M)) o) with (l1 := l1) (n := n) (l2 := l2); auto.
  intros M' h1 h2 HM' H. apply mstep_ext; auto. now apply no_self_use_M with (g := g).
Qed.
Lemma nature_legal_facts g : nature_legal g = true -> forall M, In M g ->
  nature_legal_m g M = true /\ forall S, In S (m_nested M) -> nature_legal_m g (as_module M S) = true.
Proof.
  unfold nature_legal. rewrite forallb_forall. intros H M HM. specialize (H M HM).
  apply andb_true_iff in H as [H1 H2]. split; auto. rewrite forallb_forall in H2. exact H2.
Qed.
Lemma accessible_n_stable c g o :
  topo_b g o = true -> no_self_use g = true -> nature_legal g = true ->
  forall l1 n l2 M, o = l1 ++ n :: l2 -> find_module g n = Some M ->
  forall f, S (length l1) <= f -> accessible_n f c g M = accessible_n (S (length l1)) c g M.
Proof.
  intros Ht Hs Hn l1 n l2 M Eo Ef f Hf. apply topo_b_facts in Ht as (ND & _ & _ & TP).
  apply (iter_stable g (fun f => accessible_n f c g)
           (fun M A => own_public c M ++ filter (fun ne => reexported M (fst ne)) (imports g M A)) o)
    with (l1 := l1) (n := n) (l2 := l2); auto.
  intros M' h1 h2 HM' H. f_equal. f_equal. apply imports_ext; auto.
  - now apply (nature_legal_facts g Hn M' HM').
  - now apply no_self_use_M with (g := g).
Qed.

Lemma init_state_get c g M :
  NoDup (names g) -> In M g -> assoc_get (m_name M) (init_state c g) = Some (own_pub c M, own_all c M).
Proof.
  unfold init_state. induction g as [|M' g IH]; simpl; [tauto|]. intros ND [H|H].
  - subst. now rewrite str_eqb_refl.
  - inversion ND as [|? ? Hn ND']; subst. destruct (str_eqb (m_name M) (m_name M')) eqn:E.
    + apply str_eqb_eq in E. exfalso. apply Hn. rewrite <- E. now apply in_map.
    + auto.
Qed.

Lemma str_in_app n l1 l2 : str_in n (l1 ++ l2) = str_in n l1 || str_in n l2.
Proof. induction l1; simpl; auto. now rewrite IHl1, orb_assoc. Qed.

(* processing a prefix of a topological order leaves the processed modules with the settled
   tables and the others untouched *)
Lemma correlate_prefix c g o :
  topo_b g o = true -> no_self_use g = true ->
  forall l1 l2, o = l1 ++ l2 ->
  forall M, In M g ->
  assoc_get (m_name M) (correlate_all c g l1)
  = Some (if str_in (m_name M) l1 then mtab (length g) c g M else (own_pub c M, own_all c M)).
Proof.
  intros Ht Hs. pose proof (topo_length g o Ht) as Hlen.
  pose proof Ht as Ht'. apply topo_b_facts in Ht' as (ND & NDo & Sset & TP).
  set (Inv := fun (done : list str) (st : state) =>
         forall M, In M g ->
         assoc_get (m_name M) st
         = Some (if str_in (m_name M) done then mtab (length g) c g M else (own_pub c M, own_all c M))).
  assert (Hfold : forall todo done st rest, o = done ++ todo ++ rest -> Inv done st ->
                  Inv (done ++ todo) (fold_left (correlate_module c g) todo st)).
  { induction todo as [|n todo IH]; intros done st rest Eo HI.
    - simpl. now rewrite app_nil_r.
    - simpl. replace (done ++ n :: todo) with ((done ++ [n]) ++ todo) by (now rewrite <- app_assoc).
      apply (IH (done ++ [n]) _ rest); [now rewrite <- app_assoc|].
      simpl in Eo.
      destruct (TP done n (todo ++ rest) Eo) as (Mn & Ef & Hdeps).
      destruct (find_module_some _ _ _ Ef) as [HMn En].
      assert (Hnd : str_in n done = false).
      { apply str_in_false. intros Hin. rewrite Eo in NDo. apply NoDup_remove_2 in NDo.
        apply NDo. apply in_app_iff. now left. }
      unfold correlate_module. rewrite Ef.
      assert (Etab : st_tabs st Mn = (own_pub c Mn, own_all c Mn)).
      { unfold st_tabs. rewrite (HI Mn HMn), En, Hnd. reflexivity. }
      rewrite Etab. simpl fst.
      assert (EV : mstep c g Mn (st_tabs st) (own_pub c Mn) = mtab (length g) c g Mn).
      { rewrite (mstep_ext c g Mn (st_tabs st) (mtab (length g) c g)).
        - change (mstep c g Mn (mtab (length g) c g) (own_pub c Mn)) with (mtab (S (length g)) c g Mn).
          rewrite (mtab_stable c g o Ht Hs done n (todo ++ rest) Mn Eo Ef (S (length g))).
          + symmetry. apply (mtab_stable c g o Ht Hs done n (todo ++ rest) Mn Eo Ef).
            rewrite <- Hlen, Eo, app_length. simpl. lia.
          + rewrite <- Hlen, Eo, app_length. simpl. lia.
        - now apply no_self_use_M with (g := g).
        - intros T HT Hd. unfold st_tabs. rewrite (HI T HT).
          apply Hdeps in Hd. apply str_in_In in Hd. now rewrite Hd. }
      rewrite EV. intros M HM. destruct (str_eqb n (m_name M)) eqn:E.
      + apply str_eqb_eq in E. rewrite <- E, get_set_same.
        assert (M = Mn) by (apply (same_name_same_module g); auto; congruence). subst M.
        rewrite str_in_app. simpl. rewrite str_eqb_refl, orb_true_r. reflexivity.
      + apply str_eqb_neq in E. rewrite get_set_other by auto. rewrite (HI M HM), str_in_app. simpl.
        assert (E' : str_eqb (m_name M) n = false) by (apply str_eqb_neq; congruence).
        rewrite E', !orb_false_r. reflexivity. }
  intros l1 l2 Eo M HM. unfold correlate_all.
  assert (HI0 : Inv [] (init_state c g)).
  { intros M' HM'. simpl. now apply init_state_get. }
  apply (Hfold l1 [] (init_state c g) l2 Eo HI0 M HM).
Qed.

Lemma correlate_all_mtab c g o :
  topo_b g o = true -> no_self_use g = true ->
  forall M, In M g -> st_tabs (correlate_all c g o) M = mtab (length g) c g M.
Proof.
  intros Ht Hs M HM. unfold st_tabs.
  rewrite (correlate_prefix c g o Ht Hs o [] (eq_sym (app_nil_r o)) M HM).
  pose proof Ht as Ht'. apply topo_b_facts in Ht' as (_ & _ & Sset & _).
  assert (Hin : str_in (m_name M) o = true) by (apply str_in_In, Sset; now apply in_map).
  now rewrite Hin.
Qed.

Lemma order_independent c g o1 o2 :
  topo_b g o1 = true -> topo_b g o2 = true -> no_self_use g = true ->
  forall M, In M g -> st_tabs (correlate_all c g o1) M = st_tabs (correlate_all c g o2) M.
Proof.
  intros H1 H2 Hs M HM. now rewrite !correlate_all_mtab.
Qed.

(* ================================================================== 3. Model = Spec *)

Lemma wf_graph_facts g :
  wf_graph g = true ->
  NoDup (names g) /\ no_self_use g = true /\
  forall M, In M g ->
    forallb (fun a => negb (declared M (fst a))) (m_access M) = true /\
    NoDup (map fst (m_access M)) /\
    functional (scope_all g M) /\
    (forall c ne, In ne (imports g M (accessible_n (length g) c g)) -> declared M (fst ne) = false).
Proof.
  unfold wf_graph. rewrite !andb_true_iff. intros [[[[_ ND] H] HN] HS].
  apply nodup_b_NoDup in ND. rewrite forallb_forall in H, HS. split; auto.
  split.
  - unfold no_self_use. apply forallb_forall. intros M HM. rewrite forallb_app. apply andb_true_iff. split.
    + specialize (H M HM). unfold wf_module in H. rewrite !andb_true_iff in H. tauto.
    + now apply HS.
  - intros M HM. specialize (H M HM). unfold wf_module in H. rewrite !andb_true_iff in H.
    destruct H as (((((_ & H2) & H3) & _) & H5) & H6). repeat split; auto.
    + now apply nodup_b_NoDup.
    + now apply functional_b_iff.
    + intros c ne Hne. rewrite forallb_forall in H6. apply negb_true_iff. apply H6.
      apply in_flat_map. exists c. split; auto. destruct c; simpl; auto.
Qed.
Lemma wf_graph_nature g : wf_graph g = true -> nature_legal g = true.
Proof. unfold wf_graph. rewrite !andb_true_iff. tauto. Qed.
Lemma wf_graph_nested g M S :
  wf_graph g = true -> In M g -> In S (m_nested M) ->
  functional (flat_map (fun c => nested_imports c g M S) all_cls) /\
  (forall c ne, In ne (nested_imports c g M S) -> declared (as_module M S) (fst ne) = false).
Proof.
  unfold wf_graph. rewrite !andb_true_iff. intros [[_ HN] _] HM HS.
  rewrite forallb_forall in HN. specialize (HN M HM). rewrite forallb_forall in HN. specialize (HN S HS).
  unfold wf_nested in HN. apply andb_true_iff in HN as [H1 H2]. split; [now apply functional_b_iff|].
  intros c ne Hne. rewrite forallb_forall in H2. apply negb_true_iff. unfold declared. simpl. apply H2.
  apply in_flat_map. exists c. split; auto. destruct c; simpl; auto.
Qed.
Lemma scope_in_scope_all c g M x : In x (scope c g M) -> In x (scope_all g M).
Proof. intros H. apply in_flat_map. exists c. split; auto. destruct c; simpl; auto. Qed.

Lemma imports_settled c g o :
  topo_b g o = true -> no_self_use g = true -> nature_legal g = true ->
  forall l1 n l2 M, o = l1 ++ n :: l2 -> find_module g n = Some M ->
  forall f, length l1 <= f ->
  imports g M (accessible_n f c g) = imports g M (accessible_n (length l1) c g).
Proof.
  intros Ht Hs Hn l1 n l2 M Eo Ef f Hf.
  pose proof Ht as Ht'. apply topo_b_facts in Ht' as (ND & _ & _ & TP).
  destruct (find_module_some _ _ _ Ef) as [HM _].
  apply imports_ext; [now apply (nature_legal_facts g Hn M HM) | now apply no_self_use_M with (g := g)|].
  intros T HT Hd. destruct (TP l1 n l2 Eo) as (M' & Ef' & Hdeps).
  assert (M' = M) by congruence. subst M'. apply Hdeps in Hd. apply in_split in Hd as (a & b & El1).
  assert (Eo' : o = a ++ m_name T :: (b ++ n :: l2)) by (rewrite Eo, El1, <- app_assoc; reflexivity).
  assert (La : S (length a) <= length l1) by (rewrite El1, app_length; simpl; lia).
  pose proof (find_module_nodup g T ND HT) as EfT.
  rewrite (accessible_n_stable c g o Ht Hs Hn a (m_name T) _ T Eo' EfT f) by lia.
  rewrite (accessible_n_stable c g o Ht Hs Hn a (m_name T) _ T Eo' EfT (length l1)) by lia.
  reflexivity.
Qed.

Lemma mtab_spec c g o :
  wf_graph g = true -> topo_b g o = true ->
  forall k l1 n l2 M, length l1 = k -> o = l1 ++ n :: l2 -> find_module g n = Some M ->
  denotes (fst (mtab (S k) c g M)) (accessible_n (S k) c g M)
  /\ denotes (snd (mtab (S k) c g M)) (own_scope c M ++ imports g M (accessible_n k c g))
  /\ NoDup (map fst (fst (mtab (S k) c g M))).
Proof.
  intros Hwf Ht. destruct (wf_graph_facts g Hwf) as (ND & Hs & HwfM). pose proof (wf_graph_nature g Hwf) as Hn.
  pose proof (topo_length g o Ht) as Hlen.
  pose proof Ht as Ht'. apply topo_b_facts in Ht' as (_ & _ & _ & TP).
  induction k as [k IH] using lt_wf_ind. intros l1 n l2 M Hl Eo Ef.
  destruct (find_module_some _ _ _ Ef) as [HM _].
  destruct (HwfM M HM) as (Hacc & NDa & Fall & Hnd).
  assert (Hk : k <= length g) by (rewrite <- Hlen, Eo, app_length, Hl; lia).
  assert (Eimp : imports g M (accessible_n k c g) = imports g M (accessible_n (length g) c g)).
  { rewrite <- Hl. symmetry. apply (imports_settled c g o Ht Hs Hn l1 n l2 M Eo Ef). now rewrite Hl. }
  simpl mtab. simpl accessible_n.
  apply mstep_spec; auto.
  - now apply (nature_legal_facts g Hn M HM).
  - intros u T Hu EfT.
    destruct (target_in_deps g M u T (no_self_use_M g M Hs HM) Hu EfT) as [HT Hd].
    destruct (TP l1 n l2 Eo) as (M' & Ef' & Hdeps). assert (M' = M) by congruence. subst M'.
    apply Hdeps in Hd. apply in_split in Hd as (a & b & El1).
    assert (Eo' : o = a ++ m_name T :: (b ++ n :: l2)) by (rewrite Eo, El1, <- app_assoc; reflexivity).
    assert (La : S (length a) <= k) by (rewrite <- Hl, El1, app_length; simpl; lia).
    pose proof (find_module_nodup g T ND HT) as EfT'.
    rewrite (mtab_stable c g o Ht Hs a (m_name T) _ T Eo' EfT' k La).
    rewrite (accessible_n_stable c g o Ht Hs Hn a (m_name T) _ T Eo' EfT' k La).
    destruct (IH (length a) La a (m_name T) _ T eq_refl Eo' EfT') as (D1 & _ & N1). auto.
  - rewrite Eimp. eapply functional_incl; [|exact Fall]. intros x Hx. now apply (scope_in_scope_all c).
  - rewrite Eimp. apply Hnd.
Qed.

Lemma mtab_final_spec c g o :
  wf_graph g = true -> topo_b g o = true ->
  forall M, In M g ->
  denotes (fst (mtab (length g) c g M)) (accessible c g M)
  /\ denotes (snd (mtab (length g) c g M)) (scope c g M)
  /\ NoDup (map fst (fst (mtab (length g) c g M))).
Proof.
  intros Hwf Ht M HM. destruct (wf_graph_facts g Hwf) as (ND & Hs & _). pose proof (wf_graph_nature g Hwf) as Hn.
  pose proof (topo_length g o Ht) as Hlen.
  pose proof Ht as Ht'. apply topo_b_facts in Ht' as (_ & _ & Sset & _).
  assert (Hin : In (m_name M) o) by (apply Sset; now apply in_map).
  apply in_split in Hin as (l1 & l2 & Eo).
  pose proof (find_module_nodup g M ND HM) as Ef.
  assert (Hl : S (length l1) <= length g) by (rewrite <- Hlen, Eo, app_length; simpl; lia).
  destruct (mtab_spec c g o Hwf Ht (length l1) l1 (m_name M) l2 M eq_refl Eo Ef) as (D1 & D2 & N1).
  rewrite (mtab_stable c g o Ht Hs l1 (m_name M) l2 M Eo Ef (length g) Hl).
  unfold accessible, scope.
  rewrite (accessible_n_stable c g o Ht Hs Hn l1 (m_name M) l2 M Eo Ef (length g) Hl).
  rewrite (imports_settled c g o Ht Hs Hn l1 (m_name M) l2 M Eo Ef (length g)) by lia.
  auto.
Qed.

Theorem full_correct g o :
  wf_graph g = true -> topo_b g o = true ->
  forall c M, In M g -> tables_ok c g (correlate_all c g o) M.
Proof.
  intros Hwf Ht c M HM. destruct (wf_graph_facts g Hwf) as (ND & Hs & _).
  destruct (mtab_final_spec c g o Hwf Ht M HM) as (D1 & D2 & _).
  unfold tables_ok. rewrite (correlate_all_mtab c g o Ht Hs M HM). split; assumption.
Qed.

(* nested scopes: when the processing order respects the dependencies get_deps collects, the
   entries the USE statements of a nested scope add are exactly the Spec's *)
Lemma before_split n l1 l2 : ~ In n l1 -> before n (l1 ++ n :: l2) = l1.
Proof.
  induction l1 as [|x l1 IH]; simpl; intros H.
  - now rewrite str_eqb_refl.
  - destruct (str_eqb x n) eqn:E; [apply str_eqb_eq in E; subst; exfalso; auto|].
    f_equal. apply IH. auto.
Qed.

Theorem nested_correct c g o :
  wf_graph g = true -> topo_b g o = true ->
  forall M S, In M g -> In S (m_nested M) ->
  denotes (nested_imports_model c g o M S) (nested_imports c g M S).
Proof.
  intros Hwf Ht M S HM HS. destruct (wf_graph_facts g Hwf) as (ND & Hs & _).
  destruct (nature_legal_facts g (wf_graph_nature g Hwf) M HM) as [_ HnS]. specialize (HnS S HS).
  destruct (wf_graph_nested g M S Hwf HM HS) as [Fn Hnd].
  pose proof Ht as Ht'. apply topo_b_facts in Ht' as (_ & NDo & Sset & TP).
  assert (Hin : In (m_name M) o) by (apply Sset; now apply in_map).
  apply in_split in Hin as (l1 & l2 & Eo).
  assert (Hn1 : ~ In (m_name M) l1).
  { intros Hin. rewrite Eo in NDo. apply NoDup_remove_2 in NDo. apply NDo. apply in_app_iff. now left. }
  unfold nested_imports_model. rewrite Eo, (before_split _ _ _ Hn1).
  assert (F0 : functional (nested_imports c g M S)).
  { eapply functional_incl; [|exact Fn]. intros x Hx. apply in_flat_map. exists c. split; auto.
    destruct c; simpl; auto. }
  assert (Eni : nested_imports c g M S = imports_of g (as_module M S) (accessible c g) (s_uses S)).
  { unfold nested_imports. rewrite (imports_is _ _ _ HnS). reflexivity. }
  pose proof (Hnd c) as Hndc. rewrite Eni in F0, Hndc |- *.
  pose proof (fold_use_step g (as_module M S) (st_tabs (correlate_all c g l1)) (accessible c g)
                (eq_refl : forallb _ (m_access (as_module M S)) = true) (NoDup_nil _) (s_uses S)) as Hf.
  destruct (Hf (fun u Hu => Hu)) with (pub := @nil (str * ent)) (all := @nil (str * ent))
                                      (Sp := @nil (str * ent)) (Sa := @nil (str * ent)) as (_ & D & _).
  - intros u T Hu Ef.
    destruct (nested_target_in_deps g M S u T HS Hu (no_self_use_nested g M S Hs HM HS u Hu) Ef) as [HT Hd].
    destruct (TP l1 (m_name M) l2 Eo) as (M' & Ef' & Hdeps).
    assert (M' = M) by (rewrite (find_module_nodup g M ND HM) in Ef'; congruence). subst M'.
    apply Hdeps in Hd. unfold st_tabs.
    rewrite (correlate_prefix c g o Ht Hs l1 (m_name M :: l2) Eo T HT).
    apply str_in_In in Hd. rewrite Hd.
    destruct (mtab_final_spec c g o Hwf Ht T HT) as (D1 & _ & N1). auto.
  - constructor.
  - apply denotes_nil.
  - apply denotes_nil.
  - exact F0.
  - simpl. eapply functional_incl; [|exact F0]. intros x Hx. now apply filter_In in Hx as [Hx _].
  - intros ne Hne. now apply Hndc.
  - exact D.
Qed.

(* the fuel of the Spec is enough: more fuel changes nothing on an acyclic graph *)
Theorem accessible_fuel_enough c g o :
  topo_b g o = true -> no_self_use g = true -> nature_legal g = true ->
  forall M, In M g -> forall f, length g <= f -> accessible_n f c g M = accessible c g M.
Proof.
  intros Ht Hs Hn M HM f Hf. pose proof (topo_length g o Ht) as Hlen.
  pose proof Ht as Ht'. apply topo_b_facts in Ht' as (ND & _ & Sset & _).
  assert (Hin : In (m_name M) o) by (apply Sset; now apply in_map).
  apply in_split in Hin as (l1 & l2 & Eo).
  pose proof (find_module_nodup g M ND HM) as Ef.
  assert (Hl : S (length l1) <= length g) by (rewrite <- Hlen, Eo, app_length; simpl; lia).
  unfold accessible.
  rewrite (accessible_n_stable c g o Ht Hs Hn l1 (m_name M) l2 M Eo Ef f) by lia.
  now rewrite (accessible_n_stable c g o Ht Hs Hn l1 (m_name M) l2 M Eo Ef (length g) Hl).
Qed.

(* ================================================================== 4. private entities are never imported *)

Definition ents_exported (c : cls) (g : graph) (t : list (str * ent)) : Prop :=
  forall k e, In (k, e) t -> exported_decl c g e.

Lemma own_public_exported c g M : In M g -> ents_exported c g (own_public c M).
Proof.
  intros HM k e H. unfold own_public in H. apply in_map_iff in H as (d & E & Hd).
  apply filter_In in Hd as [Hd Hp]. unfold entry in E. injection E as _ <-.
  exists M, d. simpl. repeat split; auto. now apply negb_true_iff in Hp.
Qed.
Lemma own_pub_exported c g M : In M g -> ents_exported c g (own_pub c M).
Proof.
  intros HM k e H. unfold own_pub in H. apply In_update in H as [H|[]].
  now apply (own_public_exported c g M HM k e).
Qed.
Lemma rename_list_from tp items k e : In (k, e) (rename_list tp items) -> exists k', In (k', e) tp.
Proof.
  unfold rename_list. intros H. apply in_flat_map in H as ([l r] & _ & H). simpl in H.
  destruct (assoc_get r tp) eqn:E; [|destruct H]. destruct H as [H|[]]. injection H as _ <-.
  apply get_In in E. eauto.
Qed.
Lemma used_entities_from tp hid u k e : In (k, e) (used_entities tp hid u) -> exists k', In (k', e) tp.
Proof.
  unfold used_entities. destruct (u_only u) as [items|]; intros H; apply In_update in H as [H|H].
  - now apply rename_list_from in H.
  - destruct H.
  - now apply rename_list_from in H.
  - apply filter_In in H as [H _]. eauto.
Qed.
Lemma import_stmt_from M u accT l e : In (l, e) (import_stmt M u accT) -> exists r, In (r, e) accT.
Proof.
  unfold import_stmt. destruct (u_only u).
  - intros H. apply pick_In in H as (r & _ & H). eauto.
  - intros H. apply in_app_iff in H as [H|H].
    + apply pick_In in H as (r & _ & H). eauto.
    + apply filter_In in H as [H _]. eauto.
Qed.

Lemma mstep_exported c g M (h : module -> tabs) pub0 :
  (forall T, ents_exported c g (fst (h T))) -> ents_exported c g pub0 ->
  ents_exported c g (fst (mstep c g M h pub0)) /\
  forall k e, In (k, e) (snd (mstep c g M h pub0)) -> exported_decl c g e \/ fst e = m_name M.
Proof.
  intros Hh Hp. unfold mstep.
  assert (H0 : forall k e, In (k, e) (own_all c M) -> exported_decl c g e \/ fst e = m_name M).
  { intros k e H. right. unfold own_all in H. apply In_update in H as [H|[]].
    apply in_map_iff in H as (d & E & _). unfold entry in E. now injection E as _ <-. }
  revert H0 Hp. generalize (own_all c M). revert pub0.
  induction (m_uses M) as [|u us IH]; intros pub0 all0 H0 Hp; simpl; [auto|].
  match goal with |- context [fold_left _ us ?x] => rewrite (surjective_pairing x) end.
  apply IH; unfold use_step; destruct (used_module g M u) as [T|]; simpl; auto.
  - intros k e H. apply In_update in H as [H|H]; [|now apply (H0 k e)].
    apply used_entities_from in H as [k' H]. left. now apply (Hh T k' e).
  - intros k e H. apply In_update in H as [H|H]; [|now apply (Hp k e)].
    unfold filter_public in H. apply filter_In in H as [H _].
    apply used_entities_from in H as [k' H]. now apply (Hh T k' e).
Qed.

Theorem private_never_imported c g order M n e :
  In M g ->
  (assoc_get n (fst (st_tabs (correlate_all c g order) M)) = Some e -> exported_decl c g e) /\
  (assoc_get n (snd (st_tabs (correlate_all c g order) M)) = Some e ->
   fst e <> m_name M -> exported_decl c g e).
Proof.
  intros HM.
  set (PInv := fun st : state => forall n0 t, assoc_get n0 st = Some t ->
         ents_exported c g (fst t) /\
         forall k e, In (k, e) (snd t) -> exported_decl c g e \/ fst e = n0).
  assert (Hinit : PInv (init_state c g)).
  { intros n0 t H. apply get_In in H. unfold init_state in H. apply in_map_iff in H as (M0 & E & HM0).
    injection E as <- <-. simpl. split; [now apply own_pub_exported|].
    intros k e' H. right. unfold own_all in H. apply In_update in H as [H|[]].
    apply in_map_iff in H as (d & E & _). unfold entry in E. now injection E as _ <-. }
  assert (Htabs : forall st, PInv st -> forall T, ents_exported c g (fst (st_tabs st T))).
  { intros st HI T. unfold st_tabs. destruct (assoc_get (m_name T) st) eqn:E.
    - now apply (HI _ _ E).
    - intros k e' []. }
  assert (Hstep : forall st n0, PInv st -> PInv (correlate_module c g st n0)).
  { intros st n0 HI. unfold correlate_module. destruct (find_module g n0) as [M0|] eqn:Ef; auto.
    apply find_module_some in Ef as [HM0 En]. intros n1 t H.
    destruct (str_eqb n0 n1) eqn:E.
    - apply str_eqb_eq in E. subst n1. rewrite get_set_same in H. injection H as <-.
      destruct (mstep_exported c g M0 (st_tabs st) (fst (st_tabs st M0)) (Htabs st HI) (Htabs st HI M0)) as [H1 H2].
      split; auto. now rewrite <- En.
    - apply str_eqb_neq in E. rewrite get_set_other in H by auto. now apply HI. }
  assert (Hall : PInv (correlate_all c g order)).
  { unfold correlate_all. generalize (init_state c g) Hinit.
    induction order as [|n0 order IH]; intros st HI; simpl; auto. }
  unfold st_tabs. destruct (assoc_get (m_name M) (correlate_all c g order)) as [t|] eqn:E.
  - destruct (Hall _ _ E) as [H1 H2]. split.
    + intros H. apply get_In in H. now apply (H1 n e).
    + intros H Hne. apply get_In in H. destruct (H2 n e H); auto. contradiction.
  - simpl. split; discriminate.
Qed.

Theorem spec_private_never_accessible f c g M n e :
  In M g -> In (n, e) (accessible_n f c g M) -> exported_decl c g e.
Proof.
  revert M n e. induction f as [|f IH]; intros M n e HM H; simpl in H.
  - now apply (own_public_exported c g M HM n e).
  - apply in_app_iff in H as [H|H]; [now apply (own_public_exported c g M HM n e)|].
    apply filter_In in H as [H _]. unfold imports in H. apply in_flat_map in H as (u & Hu & H).
    destruct (spec_module g u) as [T|] eqn:Ef; [|destruct H]. apply spec_module_some in Ef.
    apply import_stmt_from in H as [r H]. apply find_module_some in Ef as [HT _]. eauto.
Qed.

(* ================================================================== 5. the toposort model returns a topological order *)

Lemma partition_perm {A} (f : A -> bool) l :
  Permutation l (filter f l ++ filter (fun x => negb (f x)) l).
Proof.
  induction l as [|x l IH]; simpl; [constructor|].
  destruct (f x); simpl; [now constructor | now apply Permutation_cons_app].
Qed.

Definition ready_b (g : graph) (done : list str) (M : module) : bool :=
  forallb (fun t => str_in t done) (deps g M).
Lemma topo_rounds_step fuel g M0 rem0 done :
  topo_rounds (S fuel) g (M0 :: rem0) done =
  match filter (ready_b g done) (M0 :: rem0) with
  | [] => None
  | r => topo_rounds fuel g (filter (fun M => negb (ready_b g done M)) (M0 :: rem0)) (done ++ map m_name r)
  end.
Proof. reflexivity. Qed.

Lemma app_split_cases {A} (d X l1 : list A) n l2 :
  d ++ X = l1 ++ n :: l2 ->
  (exists l2', d = l1 ++ n :: l2') \/ (exists a b, l1 = d ++ a /\ X = a ++ n :: b).
Proof.
  revert l1. induction d as [|x d IH]; intros l1 E.
  - right. exists l1, l2. auto.
  - destruct l1 as [|y l1]; simpl in E; injection E as E1 E.
    + subst. left. exists d. reflexivity.
    + subst y. destruct (IH l1 E) as [(l2' & ->)|(a & b & -> & Hb)].
      * left. exists l2'. reflexivity.
      * right. exists a, b. auto.
Qed.

Lemma topo_rounds_sound g :
  NoDup (names g) ->
  forall fuel rem done o,
  (forall M, In M rem -> In M g) ->
  Permutation (done ++ names rem) (names g) ->
  topo_prop g done ->
  topo_rounds fuel g rem done = Some o ->
  Permutation o (names g) /\ topo_prop g o.
Proof.
  intros ND. induction fuel as [|fuel IH]; intros rem done o Hrem Hperm TP H.
  - destruct rem; simpl in H; [|discriminate]. injection H as <-. simpl in Hperm. rewrite app_nil_r in Hperm. auto.
  - destruct rem as [|M0 rem0].
    { simpl in H. injection H as <-. simpl in Hperm. rewrite app_nil_r in Hperm. auto. }
    rewrite topo_rounds_step in H.
    set (rem := M0 :: rem0) in *.
    set (ready := ready_b g done) in *.
    destruct (filter ready rem) as [|r0 rs] eqn:Er; [discriminate|]. rewrite <- Er in H.
    apply IH in H; auto.
    + intros M HMr. apply filter_In in HMr as [HMr _]. auto.
    + rewrite <- Hperm, <- app_assoc. apply Permutation_app_head.
      unfold names. rewrite <- map_app. apply Permutation_map. apply Permutation_sym, partition_perm.
    + intros l1 n l2 E.
      pose proof (app_split_cases _ _ _ _ _ E) as Hcase.
      destruct Hcase as [(l2' & Ed)|(a & b & El1 & Eab)].
      * apply (TP l1 n l2' Ed).
      * assert (Hn : In n (map m_name (filter ready rem))) by (rewrite Eab; apply in_app_iff; right; now left).
        apply in_map_iff in Hn as (M & En & HM). apply filter_In in HM as [HMr Hready].
        exists M. split; [rewrite <- En; apply find_module_nodup; auto|].
        intros t Ht. unfold ready, ready_b in Hready. rewrite forallb_forall in Hready. apply Hready in Ht.
        apply str_in_In in Ht. rewrite El1. apply in_app_iff. now left.
Qed.

Theorem toposort_is_topo g o : NoDup (names g) -> toposort g = Some o -> topo_b g o = true.
Proof.
  intros ND H. unfold toposort in H. apply (topo_rounds_sound g ND) in H; auto.
  - destruct H as [P TP]. apply topo_b_facts. repeat split; auto.
    + apply (Permutation_NoDup (Permutation_sym P) ND).
    + intros Hn. now apply (Permutation_in _ P).
    + intros Hn. now apply (Permutation_in _ (Permutation_sym P)).
  - intros l1 n l2 E. destruct l1; discriminate.
Qed.

(* ================================================================== 6. witnesses and examples *)

Lemma in_b_In n e l : in_b n e l = true <-> In (n, e) l.
Proof.
  unfold in_b. rewrite existsb_exists. split.
  - intros ([k v] & Hin & H). simpl in H. apply andb_true_iff in H as [H1 H2].
    apply str_eqb_eq in H1. apply ent_eqb_eq in H2. now subst.
  - intros H. exists (n, e). split; auto. simpl. rewrite str_eqb_refl. simpl. now apply ent_eqb_eq.
Qed.
Lemma refute_all_missing c g st M n e :
  in_b n e (scope c g M) = true -> assoc_get n (snd (st_tabs st M)) <> Some e -> ~ tables_ok c g st M.
Proof. intros H1 H2 [_ H]. apply H2, H. now apply in_b_In. Qed.
Lemma refute_all_extra c g st M n e :
  assoc_get n (snd (st_tabs st M)) = Some e -> in_b n e (scope c g M) = false -> ~ tables_ok c g st M.
Proof. intros H1 H2 [_ H]. apply H in H1. apply in_b_In in H1. congruence. Qed.
Lemma refute_pub_extra c g st M n e :
  assoc_get n (fst (st_tabs st M)) = Some e -> in_b n e (accessible c g M) = false -> ~ tables_ok c g st M.
Proof. intros H1 H2 [H _]. apply H in H1. apply in_b_In in H1. congruence. Qed.

Definition mkD n k p : decl := {| d_name := s n; d_kind := k; d_perm := p |}.
Definition mkU t o r : use_stmt := {| u_target := s t; u_only := o; u_renames := r; u_intrinsic := false |}.
Definition mkUi t o r : use_stmt := {| u_target := s t; u_only := o; u_renames := r; u_intrinsic := true |}.
Definition mkMn n p ds a us ns : module :=
  {| m_name := s n; m_default := p; m_decls := ds; m_access := a; m_uses := us; m_nested := ns |}.
Definition mkM n p ds a us : module := mkMn n p ds a us [].
Definition mkS path kinds ds us : nscope := {| s_path := map s path; s_kinds := kinds; s_decls := ds; s_uses := us |}.

Definition w_ma : module :=
  mkM "ma" Public [mkD "foo" KVar Public; mkD "hid" KVar Private; mkD "ta1" KType Public;
                   mkD "pa1" KProc Public; mkD "ga1" KGeneric Public; mkD "ga1s" KProc Private;
                   mkD "ia1" KAbs Public; mkD "tp1" KType Private; mkD "wa1" KVar Protected] [] [].
(* use ma, bar => foo *)
Definition w_rename : graph := [w_ma; mkM "mb" Public [] [] [mkU "ma" None [(s "bar", s "foo")]]].
(* use ma / use ma, only: bar => foo *)
Definition w_across : graph :=
  [w_ma; mkM "mb" Public [] [] [mkU "ma" None []; mkU "ma" (Some [(s "bar", s "foo")]) []]].
(* module mb: use ma; private :: foo   module mc: use mb *)
Definition w_private : graph :=
  [w_ma; mkM "mb" Public [] [(s "foo", false)] [mkU "ma" None []]; mkM "mc" Public [] [] [mkU "mb" None []]].
(* use ma, only: *)
Definition w_only_empty : graph := [w_ma; mkM "mb" Public [] [] [mkU "ma" (Some []) []]].
(* use ma, only: foo, bar => foo *)
Definition w_only_dup : graph :=
  [w_ma; mkM "mb" Public [] [] [mkU "ma" (Some [(s "foo", s "foo"); (s "bar", s "foo")]) []]].

(* the five former witnesses: legal programs, FORD's processing order, and the tables of the
   importing module now hold what the Spec says (the general statement is full_correct) *)
Definition tab_of (g : graph) (o : list str) (i : nat) (c : cls) : tabs :=
  st_tabs (correlate_all c g o) (nth i g w_ma).
(* use ma, bar => foo: foo is accessible as bar, and only as bar *)
Example fixed_rename :
  wf_graph w_rename = true /\ toposort w_rename = Some [s "ma"; s "mb"] /\
  assoc_get (s "bar") (snd (tab_of w_rename [s "ma"; s "mb"] 1 CVar)) = Some (s "ma", s "foo") /\
  assoc_get (s "foo") (snd (tab_of w_rename [s "ma"; s "mb"] 1 CVar)) = None /\
  assoc_get (s "bar") (fst (tab_of w_rename [s "ma"; s "mb"] 1 CVar)) = Some (s "ma", s "foo").
Proof. repeat split; vm_compute; reflexivity. Qed.
(* use ma / use ma, only: bar => foo: the rename of the second statement hides foo in the first *)
Example fixed_across :
  wf_graph w_across = true /\ toposort w_across = Some [s "ma"; s "mb"] /\
  assoc_get (s "bar") (snd (tab_of w_across [s "ma"; s "mb"] 1 CVar)) = Some (s "ma", s "foo") /\
  assoc_get (s "foo") (snd (tab_of w_across [s "ma"; s "mb"] 1 CVar)) = None /\
  assoc_get (s "wa1") (snd (tab_of w_across [s "ma"; s "mb"] 1 CVar)) = Some (s "ma", s "wa1").
Proof. repeat split; vm_compute; reflexivity. Qed.
(* use ma; private :: foo in mb: mc, which uses mb, does not get foo *)
Example fixed_private :
  wf_graph w_private = true /\ toposort w_private = Some [s "ma"; s "mb"; s "mc"] /\
  assoc_get (s "foo") (snd (tab_of w_private [s "ma"; s "mb"; s "mc"] 1 CVar)) = Some (s "ma", s "foo") /\
  assoc_get (s "foo") (fst (tab_of w_private [s "ma"; s "mb"; s "mc"] 1 CVar)) = None /\
  assoc_get (s "foo") (snd (tab_of w_private [s "ma"; s "mb"; s "mc"] 2 CVar)) = None /\
  assoc_get (s "wa1") (snd (tab_of w_private [s "ma"; s "mb"; s "mc"] 2 CVar)) = Some (s "ma", s "wa1").
Proof. repeat split; vm_compute; reflexivity. Qed.
(* use ma, only: imports nothing *)
Example fixed_only_empty :
  wf_graph w_only_empty = true /\ toposort w_only_empty = Some [s "ma"; s "mb"] /\
  snd (tab_of w_only_empty [s "ma"; s "mb"] 1 CType) = [] /\
  snd (tab_of w_only_empty [s "ma"; s "mb"] 1 CVar) = [] /\
  snd (tab_of w_only_empty [s "ma"; s "mb"] 1 CProc) = [] /\
  snd (tab_of w_only_empty [s "ma"; s "mb"] 1 CAbs) = [].
Proof. repeat split; vm_compute; reflexivity. Qed.
(* use ma, only: foo, bar => foo: both local names denote ma's foo *)
Example fixed_only_dup :
  wf_graph w_only_dup = true /\ toposort w_only_dup = Some [s "ma"; s "mb"] /\
  assoc_get (s "foo") (snd (tab_of w_only_dup [s "ma"; s "mb"] 1 CVar)) = Some (s "ma", s "foo") /\
  assoc_get (s "bar") (snd (tab_of w_only_dup [s "ma"; s "mb"] 1 CVar)) = Some (s "ma", s "foo").
Proof. repeat split; vm_compute; reflexivity. Qed.

(* ---- which module a USE statement is matched with *)
Lemma first_match_app l1 l2 n :
  first_match (l1 ++ l2) n = match first_match l1 n with Some x => Some x | None => first_match l2 n end.
Proof. induction l1 as [|x l1 IH]; simpl; auto. destruct (str_eqb (cand_name x) n); auto. Qed.
Lemma first_match_mods g n :
  first_match (map CMod g) n = match find_module g n with Some M => Some (CMod M) | None => None end.
Proof. induction g as [|M g IH]; simpl; auto. destruct (str_eqb (m_name M) n); auto. Qed.
Lemma first_match_exts ext n : first_match (map CExt ext) n = if str_in n ext then Some (CExt n) else None.
Proof.
  induction ext as [|x ext IH]; simpl; auto. destruct (str_eqb x n) eqn:E.
  - apply str_eqb_eq in E. subst. now rewrite str_eqb_refl.
  - rewrite IH. assert (str_eqb n x = false).
    { apply str_eqb_neq. apply str_eqb_neq in E. congruence. }
    now rewrite H.
Qed.
(* find_used_modules: a project module of the USEd name is found whatever link objects
   (intrinsic modules, extra_mods) bear the same name; a link object only when no project module
   has the name *)
Theorem find_used_spec g ext n :
  find_used g ext n = match find_module g n with
                      | Some M => Some (CMod M)
                      | None => if str_in n ext then Some (CExt n) else None
                      end.
Proof.
  unfold find_used, chain. rewrite first_match_app, first_match_mods, first_match_exts.
  destruct (find_module g n); reflexivity.
Qed.

Lemma find_used_in_spec g ext n :
  find_used_in g ext true n = (if str_in n ext then Some (CExt n) else None)
  /\ find_used_in g ext false n = find_used g ext n.
Proof. unfold find_used_in. split; [apply first_match_exts | reflexivity]. Qed.

(* the former witness of intrinsic-nature-ignored: module iso_fortran_env of the project (integer ::
   foo); mb: use, intrinsic :: iso_fortran_env designates the intrinsic module and gets nothing of
   the project's; mc: use iso_fortran_env (no module nature) gets the project's foo *)
Definition w_nature : graph :=
  [mkM "iso_fortran_env" Public [mkD "foo" KVar Public] [] [];
   mkM "mb" Public [] [] [mkUi "iso_fortran_env" None []];
   mkM "mc" Public [] [] [mkU "iso_fortran_env" None []]].
Example fixed_nature :
  wf_graph w_nature = true /\ toposort w_nature = Some [s "iso_fortran_env"; s "mb"; s "mc"] /\
  deps w_nature (nth 1 w_nature w_ma) = [] /\
  snd (tab_of w_nature [s "iso_fortran_env"; s "mb"; s "mc"] 1 CVar) = [] /\
  assoc_get (s "foo") (snd (tab_of w_nature [s "iso_fortran_env"; s "mb"; s "mc"] 2 CVar)) = Some (s "iso_fortran_env", s "foo").
Proof. repeat split; vm_compute; reflexivity. Qed.
(* project modules named like an intrinsic module and like an extra_mods entry, used without a
   module nature and with NON_INTRINSIC (spelled like a statement without nature in the model),
   re-exported through mb: the project's modules are found and their entities arrive in mc *)
Definition ex_special : graph :=
  [mkM "mpi" Public [mkD "comm" KVar Public; mkD "mpi_send" KProc Public] [] [];
   mkM "extlib" Public [mkD "thing" KType Public] [] [];
   mkM "mb" Public [] [] [mkU "mpi" None []; mkU "extlib" (Some [(s "tl", s "thing")]) []; mkUi "iso_c_binding" None []];
   mkM "mc" Public [] [] [mkU "mb" None []]].
Definition ex_ext : list str := map s ["iso_fortran_env"; "iso_c_binding"; "mpi"; "mpi_f08"; "extlib"]%string.
Example ex_special_facts :
  wf_graph ex_special = true /\  toposort ex_special = Some [s "mpi"; s "extlib"; s "mb"; s "mc"] /\
  find_used ex_special ex_ext (s "mpi") = Some (CMod (nth 0 ex_special w_ma)) /\
  find_used ex_special ex_ext (s "extlib") = Some (CMod (nth 1 ex_special w_ma)) /\
  find_used ex_special ex_ext (s "iso_c_binding") = Some (CExt (s "iso_c_binding")) /\
  find_used ex_special ex_ext (s "nosuch") = None /\
  assoc_get (s "comm") (snd (tab_of ex_special [s "mpi"; s "extlib"; s "mb"; s "mc"] 3 CVar)) = Some (s "mpi", s "comm") /\
  assoc_get (s "mpi_send") (snd (tab_of ex_special [s "mpi"; s "extlib"; s "mb"; s "mc"] 3 CProc)) = Some (s "mpi", s "mpi_send") /\
  assoc_get (s "tl") (snd (tab_of ex_special [s "mpi"; s "extlib"; s "mb"; s "mc"] 3 CType)) = Some (s "extlib", s "thing").
Proof. repeat split; vm_compute; reflexivity. Qed.

(* a diamond of re-export with ONLY, renames, a default-private module and an explicit PUBLIC *)
Definition ex_g : graph :=
  [w_ma;
   mkM "mb" Private [mkD "vb1" KVar Public] [(s "tl", true)]
       [mkU "ma" (Some [(s "foo", s "foo"); (s "tl", s "ta1")]) []];
   mkM "mc" Public [mkD "pc1" KProc Public] [] [mkU "ma" None []; mkUi "iso_fortran_env" None []];
   mkM "md" Public [mkD "vd1" KVar Private] []
       [mkU "mb" None []; mkU "mc" (Some [(s "pz", s "pa1"); (s "ia1", s "ia1")]) []]].
Definition ex_o1 := [s "ma"; s "mb"; s "mc"; s "md"].
Definition ex_o2 := [s "ma"; s "mc"; s "mb"; s "md"].

Example ex_hypotheses :
  wf_graph ex_g = true /\ no_self_use ex_g = true /\
  topo_b ex_g ex_o1 = true /\ topo_b ex_g ex_o2 = true /\ ex_o1 <> ex_o2 /\
  toposort ex_g = Some ex_o1 /\ NoDup (names ex_g).
Proof.
  repeat split; try (vm_compute; reflexivity); [discriminate|].
  apply nodup_b_NoDup. vm_compute. reflexivity.
Qed.
(* the tables of md in the example are not trivial: tl comes from ma through the default-private
   mb, pz is ma's pa1 through mc; the private hid and the not re-exported foo are absent *)
Example ex_tables :
  let st := fun c => st_tabs (correlate_all c ex_g ex_o2) (nth 3 ex_g w_ma) in
  assoc_get (s "tl") (snd (st CType)) = Some (s "ma", s "ta1") /\
  assoc_get (s "pz") (fst (st CProc)) = Some (s "ma", s "pa1") /\
  assoc_get (s "vb1") (snd (st CVar)) = Some (s "mb", s "vb1") /\
  assoc_get (s "foo") (snd (st CVar)) = None /\
  assoc_get (s "hid") (snd (st CVar)) = None /\
  assoc_get (s "vd1") (fst (st CVar)) = None /\
  assoc_get (s "vd1") (snd (st CVar)) = Some (s "md", s "vd1").
Proof. vm_compute. repeat split; reflexivity. Qed.

(* ---- nested scopes: the witnesses of the two repaired defects, and an example *)
Definition w_za : module := mkM "za" Public [mkD "ta" KType Public; mkD "pa" KProc Public] [] [].
(* module mm: abstract interface; subroutine cb(x); use za; type(ta) :: x *)
Definition w_absbody : graph :=
  [mkMn "mm" Public [mkD "cb" KAbs Public] [] [] [mkS ["cb"%string] [NAbsBody] [] [mkU "za" None []]];
   w_za].
(* module mm: interface gg; subroutine ext(x); use zf; type(ta) :: x   module zf: use za *)
Definition w_genbody : graph :=
  [mkMn "mm" Public [mkD "gg" KGeneric Public; mkD "ext" KProc Public] [] []
         [mkS ["ext"%string] [NGenBody] [] [mkU "zf" None []]];
   mkM "zf" Public [] [] [mkU "za" None []];
   w_za].
(* USE statements in the body of an abstract interface were ignored, those in a body inside a
   generic interface block were not a dependency (mm was correlated before zf had merged za's
   entities): with find_used_modules / get_deps visiting all interface blocks the used module comes
   first and ta is there *)
Example fixed_absbody :
  wf_graph w_absbody = true /\ toposort w_absbody = Some [s "za"; s "mm"] /\
  assoc_get (s "ta") (nested_imports_model CType w_absbody [s "za"; s "mm"] (nth 0 w_absbody w_za)
                        (mkS ["cb"%string] [NAbsBody] [] [mkU "za" None []])) = Some (s "za", s "ta").
Proof. repeat split; vm_compute; reflexivity. Qed.
Example fixed_genbody :
  wf_graph w_genbody = true /\
  toposort w_genbody = Some [s "za"; s "zf"; s "mm"] /\
  assoc_get (s "ta") (nested_imports_model CType w_genbody [s "za"; s "zf"; s "mm"] (nth 0 w_genbody w_za)
                        (mkS ["ext"%string] [NGenBody] [] [mkU "zf" None []])) = Some (s "za", s "ta").
Proof. repeat split; vm_compute; reflexivity. Qed.

Definition ex_gn : graph :=
  ex_g ++ [mkMn "me" Public [mkD "pe" KProc Public] [] []
             [mkS ["pe"%string] [NRoutine] [mkD "vl" KVar Public] [mkU "md" (Some [(s "tl", s "tl")]) []];
              mkS ["pe"%string; "qe"%string] [NRoutine; NRoutine] [] [mkU "mc" None []];
              mkS ["pe"%string; "ext"%string] [NRoutine; NIfBody] [] [mkU "mb" (Some [(s "vq", s "vb1")]) []];
              mkS ["pe"%string; "cbx"%string] [NRoutine; NAbsBody] [] [mkU "ma" (Some [(s "ix", s "ia1")]) []]]].
Definition ex_on := ex_o1 ++ [s "me"].
Example ex_nested_hypotheses :
  wf_graph ex_gn = true /\ topo_b ex_gn ex_on = true /\
  toposort ex_gn = Some ex_on /\
  (* without the nested USE statements "me" would not depend on anything *)
  deps ex_gn (nth 4 ex_gn w_ma) = [s "md"; s "mc"; s "mb"; s "ma"] /\
  assoc_get (s "tl") (nested_imports_model CType ex_gn ex_on (nth 4 ex_gn w_ma)
                        (nth 0 (m_nested (nth 4 ex_gn w_ma)) (mkS [] [] [] []))) = Some (s "ma", s "ta1") /\
  assoc_get (s "ix") (nested_imports_model CAbs ex_gn ex_on (nth 4 ex_gn w_ma)
                        (nth 3 (m_nested (nth 4 ex_gn w_ma)) (mkS [] [] [] []))) = Some (s "ma", s "ia1") /\
  in_b (s "pa1") (s "ma", s "pa1")
       (nested_lower_spec CProc ex_gn (nth 4 ex_gn w_ma)
          (nth 1 (m_nested (nth 4 ex_gn w_ma)) (mkS [] [] [] []))) = true.
Proof. repeat split; vm_compute; reflexivity. Qed.

Example ex_nested_example :
  wf_graph ex_gn = true /\ topo_b ex_gn ex_on = true /\ toposort ex_gn = Some ex_on /\
  deps ex_gn (nth 4 ex_gn w_ma) = [s "md"; s "mc"; s "mb"; s "ma"].
Proof. repeat split; vm_compute; reflexivity. Qed.

(* the former nested witness: a rename without ONLY in a nested scope *)
Definition w_nested_rename : graph :=
  [mkMn "mm" Public [mkD "p" KProc Public] [] []
         [mkS ["p"%string] [NRoutine] [] [mkU "za" None [(s "tb", s "ta")]]];
   w_za].
Example fixed_nested_rename :
  wf_graph w_nested_rename = true /\ toposort w_nested_rename = Some [s "za"; s "mm"] /\
  nested_imports_model CType w_nested_rename [s "za"; s "mm"] (nth 0 w_nested_rename w_za)
     (mkS ["p"%string] [NRoutine] [] [mkU "za" None [(s "tb", s "ta")]]) = [(s "tb", (s "za", s "ta"))].
Proof. repeat split; vm_compute; reflexivity. Qed.
