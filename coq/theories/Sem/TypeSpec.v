(* Sem/TypeSpec.v -- executable model of the declaration layer of FORD's parser:

   ford/sourceform.py  parse_type (+ ParsedType and the patterns VAR_TYPE_STRING, DOUBLE_PREC_RE,
   DOUBLE_CMPLX_RE, VARKIND_RE, KIND_RE, LEN_RE, PROTO_RE), line_to_variables (ATTRIBSPLIT_RE,
   ATTRIBSPLIT2_RE, attribute classification, COMMA_RE, NBSP_RE, literal restoration),
   FortranVariable.__init__ (name / dimension splitting), the string masking loop (QUOTES_RE),
   the ATTRIB_RE branch of FortranContainer.__init__ (attr_dict / param_dict), process_attribs,
   FortranCodeUnit._cleanup (external filter), _list_of_procedure_attributes, the typed function
   prefix (FortranFunction._initialize/_cleanup) and FortranProcedure._cleanup (argument matching);
   ford/utils.py get_parens, paren_split.

   Recognisers are written from the pattern texts; 7-bit input, no line breaks inside a statement.
   Definitions only. *)
From Coq Require Import ZArith.
From Ford Require Import Base.Str Base.StrX.
Local Open Scope Z_scope.
Local Open Scope nat_scope.

(* ------------------------------------------------------------------ results *)
Inductive res (A : Type) : Type :=
| Ok (a : A)
| Err (ety : str)                 (* Python exception type *)
| Unmodelled (why : str).
Arguments Ok {A} a.
Arguments Err {A} ety.
Arguments Unmodelled {A} why.
Definition bind {A B} (r : res A) (f : A -> res B) : res B :=
  match r with Ok a => f a | Err e => Err e | Unmodelled w => Unmodelled w end.
Notation "'do' x <- r ; k" := (bind r (fun x => k)) (at level 200, x name, r at level 100, k at level 200).
Fixpoint mapM {A B} (f : A -> res B) (l : list A) : res (list B) :=
  match l with
  | [] => Ok []
  | x :: l' => do y <- f x; do ys <- mapM f l'; Ok (y :: ys)
  end.

Definition value_error {A} : res A := Err (s "ValueError").

(* ------------------------------------------------------------------ characters *)
Definition c_lpar : ascii := "("%char.   Definition c_rpar : ascii := ")"%char.
Definition c_lbr : ascii := "["%char.    Definition c_rbr : ascii := "]"%char.
Definition c_comma : ascii := ","%char.  Definition c_colon : ascii := ":"%char.
Definition c_star : ascii := "*"%char.   Definition c_eq : ascii := "="%char.
Definition c_gt : ascii := ">"%char.     Definition c_us : ascii := "_"%char.
Definition c_dq : ascii := """"%char.    Definition c_sq : ascii := "'"%char.
Definition c_sp : ascii := " "%char.     Definition c_bs : ascii := "\"%char.
Definition c_slash : ascii := "/"%char.
(* U+00A0, which NBSP_RE substitutes for blanks in runs *)
Definition nbsp : ascii := ascii_of_nat 160.

(* ------------------------------------------------------------------ string masking (QUOTES_RE) *)
(* after an opening quote [q]: the rest of the literal including the closing quote, and what
   follows; doubled quotes are taken greedily, with the backtracking of the regular expression *)
Fixpoint scan_lit (q : ascii) (x : str) : option (str * str) :=
  match x with
  | [] => None
  | c :: r =>
    if Ascii.eqb c q then
      match r with
      | c2 :: r2 =>
        if Ascii.eqb c2 q
        then match scan_lit q r2 with
             | Some (b, rest) => Some (q :: q :: b, rest)
             | None => Some ([q], r)
             end
        else Some ([q], r)
      | [] => Some ([q], [])
      end
    else match scan_lit q r with
         | Some (b, rest) => Some (c :: b, rest)
         | None => None
         end
  end.

Definition is_quote (c : ascii) : bool := Ascii.eqb c c_dq || Ascii.eqb c c_sq.

(* the loop of FortranContainer.__init__: every literal becomes "<index>"; returns the masked
   line and the literals *)
Fixpoint mask_go (fuel : nat) (x : str) (acc : str) (lits : list str) : str * list str :=
  match fuel with
  | O => (rev acc ++ x, rev lits)
  | S f =>
    match x with
    | [] => (rev acc, rev lits)
    | c :: r =>
      if is_quote c then
        match scan_lit c r with
        | Some (b, rest) =>
          mask_go f rest (rev (c_dq :: str_of_nat (length lits) ++ [c_dq]) ++ acc) ((c :: b) :: lits)
        | None => mask_go f r (c :: acc) lits
        end
      else mask_go f r (c :: acc) lits
    end
  end.
Definition mask_line (x : str) : str * list str := mask_go (S (length x)) x [] [].

(* ------------------------------------------------------------------ utils.get_parens / paren_split *)
Definition stops_parens (c : ascii) : bool :=
  is_alpha c || Ascii.eqb c c_us || Ascii.eqb c c_colon || Ascii.eqb c c_comma || Ascii.eqb c c_sp.

Fixpoint get_parens_go (x : str) (level blevel : Z) (acc : str) : option str :=
  match x with
  | [] => if (level =? 0)%Z && (blevel =? 0)%Z then Some (rev acc) else None
  | c :: r =>
    if Ascii.eqb c c_lpar then get_parens_go r (level + 1)%Z blevel (c :: acc)
    else if Ascii.eqb c c_rpar then get_parens_go r (level - 1)%Z blevel (c :: acc)
    else if Ascii.eqb c c_lbr then get_parens_go r level (blevel + 1)%Z (c :: acc)
    else if Ascii.eqb c c_rbr then get_parens_go r level (blevel - 1)%Z (c :: acc)
    else if stops_parens c && (level =? 0)%Z && (blevel =? 0)%Z then Some (rev acc)
    else get_parens_go r level blevel (c :: acc)
  end.
(* None = RuntimeError("Couldn't parse parentheses") *)
Definition get_parens (x : str) : option str := get_parens_go x 0%Z 0%Z [].

Fixpoint paren_split_go (sep : ascii) (x : str) (level blevel : Z) (cur : str) : list str :=
  match x with
  | [] => [rev cur]
  | c :: r =>
    if Ascii.eqb c c_lpar then paren_split_go sep r (level + 1)%Z blevel (c :: cur)
    else if Ascii.eqb c c_rpar then paren_split_go sep r (level - 1)%Z blevel (c :: cur)
    else if Ascii.eqb c c_lbr then paren_split_go sep r level (blevel + 1)%Z (c :: cur)
    else if Ascii.eqb c c_rbr then paren_split_go sep r level (blevel - 1)%Z (c :: cur)
    else if Ascii.eqb c sep && (level =? 0)%Z && (blevel =? 0)%Z
         then rev cur :: paren_split_go sep r level blevel []
    else paren_split_go sep r level blevel (c :: cur)
  end.
Definition paren_split (sep : ascii) (x : str) : list str := paren_split_go sep x 0%Z 0%Z [].

(* ------------------------------------------------------------------ parse_type *)
Record ptype := mkpt {
  pt_vartype : str; pt_rest : str;
  pt_kind : option str; pt_strlen : option str; pt_proto : option (str * str)
}.

(* VAR_TYPE_STRING, the alternatives in their order; "double\s*precision" and "double\s*complex"
   allow white space between the words.  Result: matched text and what follows. *)
Definition match_two (w1 w2 x : str) : option str :=
  match match_ci w1 x with
  | Some r => match_ci w2 (skip_ws r)
  | None => None
  end.

Definition type_words : list (str * option str) :=
  [(s "integer", None); (s "real", None); (s "double", Some (s "precision")); (s "character", None);
   (s "complex", None); (s "double", Some (s "complex")); (s "logical", None); (s "type", None);
   (s "class", None); (s "procedure", None); (s "enumerator", None)].

Fixpoint match_alts (alts : list (str * option str)) (x : str) : option str :=
  match alts with
  | [] => None
  | (w1, None) :: alts' =>
    match match_ci w1 x with Some r => Some r | None => match_alts alts' x end
  | (w1, Some w2) :: alts' =>
    match match_two w1 w2 x with Some r => Some r | None => match_alts alts' x end
  end.

(* the matched text is what precedes the remainder *)
Definition match_vartype (x : str) : option (str * str) :=
  match match_alts type_words x with
  | Some r => Some (firstn (length x - length r) x, r)
  | None => None
  end.

(* DOUBLE_PREC_RE / DOUBLE_CMPLX_RE on the lower-cased match: any amount of white space *)
Definition normalise_double (vt : str) : str :=
  match match_ci (s "double") vt with
  | Some r =>
    if seqb (skip_ws r) (s "precision") then s "double precision"
    else if seqb (skip_ws r) (s "complex") then s "double complex"
    else vt
  | None => vt
  end.

(* VARKIND_RE.search, leftmost: a parenthesised group up to the last ")", or "*" followed by
   digits or by such a group *)
Inductive varkind := VKParen (inner : str) | VKStar (arg : str) | VKNone.

Fixpoint varkind_search (x : str) : varkind :=
  match x with
  | [] => VKNone
  | c :: r =>
    if Ascii.eqb c c_lpar then
      match before_last c_rpar r with
      | Some inner => VKParen inner
      | None => varkind_search r
      end
    else if Ascii.eqb c c_star then
      let r' := skip_ws r in
      match take_while is_digit r' with
      | ((_ :: _) as ds, _) => VKStar ds
      | ([], _) =>
        match r' with
        | d :: r2 =>
          if Ascii.eqb d c_lpar then
            match before_last c_rpar r2 with
            | Some inner => VKStar (c_lpar :: inner ++ [c_rpar])
            | None => varkind_search r
            end
          else varkind_search r
        | [] => varkind_search r
        end
      end
    else varkind_search r
  end.

(* KIND_RE.match: "kind", "=", then the whole expression *)
(* what "\s*(.+)" leaves as the group: the text after the white space; when only white space is
   left, its last character *)
Definition rest_group (r : str) : option str :=
  match skip_ws r with
  | _ :: _ => Some (skip_ws r)
  | [] => match r with [] => None | _ => Some [last r c_sp] end
  end.

Definition key_eq_rest (key x : str) : option str :=
  match match_ci key x with
  | Some r =>
    match skip_ws r with
    | c :: r2 => if Ascii.eqb c c_eq then rest_group r2 else None
    | [] => None
    end
  | None => None
  end.

Definition kind_re (x : str) : option str := key_eq_rest (s "kind") x.

(* LEN_RE.match: "len", "=", then the whole expression (group 1); or a text that consists of digits
   only (group 2) *)
Definition len_re (x : str) : option str :=
  match key_eq_rest (s "len") x with
  | Some v => Some v
  | None => match take_while is_digit x with
            | ((_ :: _) as ds, []) => Some ds
            | _ => None
            end
  end.

(* PROTO_RE.match: "*" or a word, optionally followed by a parenthesised group up to the last ")"
   -> [group 1, group 2 or ""] *)
Definition proto_re (x : str) : option (str * str) :=
  let with_params (name r : str) : str * str :=
    match skip_ws r with
    | c :: r2 =>
      if Ascii.eqb c c_lpar then
        match before_last c_rpar r2 with Some inner => (name, inner) | None => (name, []) end
      else (name, [])
    | [] => (name, [])
    end in
  match x with
  | c :: r =>
    if Ascii.eqb c c_star then Some (with_params [c_star] r)
    else match take_while is_word x with
         | ((_ :: _) as w, r') => Some (with_params w r')
         | ([], _) => None
         end
  | [] => None
  end.

Definition has_quote (x : str) : bool := existsb is_quote x.

(* the loop over the (at most two) parameters of character(...) *)
Fixpoint char_params (args : list str) (len kind : option str) : res (option str * option str) :=
  match args with
  | [] => Ok (len, kind)
  | a :: args' =>
    match len, len_re a with
    | None, Some l => char_params args' (Some l) kind
    | _, _ =>
      match kind, kind_re a with
      | None, Some k => char_params args' len (Some k)
      | _, _ =>
        match len with
        | None => char_params args' (Some a) kind
        | Some _ =>
          match kind with
          | None => char_params args' len (Some a)
          | Some _ => char_params args' len kind
          end
        end
      end
    end
  end.

Definition one_of (x : str) (l : list str) : bool := sin x l.

(* the last part of parse_type: [args] is the text of the kind selector without white space,
   [star] says that it was written after "*" *)
Definition finish_type (vartype rest : str) (star : bool) (args : str) : res ptype :=
  (* _restore_strings on the kind / length: a string literal inside the selector is outside the model *)
  if has_quote args then Unmodelled (s "quoted text in a kind or length selector") else
  if one_of vartype [s "type"; s "class"; s "procedure"] then
    match proto_re args with
    | Some p => Ok (mkpt vartype rest None None (Some p))
    | None => value_error
    end
  else if seqb vartype (s "character") then
    if star then Ok (mkpt vartype rest None (Some args) None)
    else
      let parts := split_on c_comma args in
      if 2 <? length parts then value_error
      else
        do lk <- char_params parts None None;
        Ok (mkpt vartype rest (snd lk) (Some (match fst lk with Some l => l | None => s "1" end)) None)
  else
    Ok (mkpt vartype rest (Some (match kind_re args with Some k => k | None => args end)) None None).

(* (star, args) from the match of VARKIND_RE *)
Definition kind_args (vk : varkind) : bool * str :=
  match vk with
  | VKParen inner => (false, remove_ws (strip inner))
  | VKStar a =>
    let a := strip a in
    (true, remove_ws (if prefix [c_lpar] a then strip (removelast (tl a)) else a))
  | VKNone => (false, [])
  end.

(* parse_type after the type word: [after] is the text that follows it *)
(* STAR_SPACE_RE.sub: blanks after a leading "*" are dropped *)
Definition star_space (rest : str) : str :=
  match rest with
  | c :: r => if Ascii.eqb c c_star
              then match r with
                   | d :: _ => if is_space d then c :: skip_ws r else rest
                   | [] => rest
                   end
              else rest
  | [] => rest
  end.

Definition after_type (vartype after : str) : res ptype :=
  let rest := star_space (strip after) in
  match get_parens rest with
  | None => Err (s "RuntimeError")
  | Some kindstr =>
    let rest := strip (skipn (length kindstr) rest) in
    if (length kindstr <? 3) && negb (one_of vartype [s "type"; s "class"; s "character"])
       && negb (prefix [c_star] kindstr)
    then Ok (mkpt vartype rest None None None)
    else
      match varkind_search kindstr with
      | VKNone =>
        if seqb vartype (s "character") then Ok (mkpt vartype rest None (Some (s "1")) None)
        else value_error
      | VKParen [] => Err (s "AttributeError")          (* "()": group(2) is None *)
      | vk => let (star, args) := kind_args vk in finish_type vartype rest star args
      end
  end.

Definition parse_type (line : str) : res ptype :=
  match match_vartype line with
  | None => value_error
  | Some (m, after) => after_type (normalise_double (lower m)) after
  end.

(* ------------------------------------------------------------------ line_to_variables *)
Record var := mkvar {
  v_name : str; v_vartype : str; v_kind : option str; v_strlen : option str;
  v_proto : option (str * str);
  v_attribs : list str; v_intent : str; v_optional : bool; v_permission : str;
  v_parameter : bool; v_points : bool; v_initial : option str; v_dimension : str
}.

(* ATTRIBSPLIT_RE.match: a comma, white space, a word character and everything up to the first
   "::" (group 1), then the rest (group 2) *)
Definition attribsplit (rest : str) : option (str * str) :=
  match rest with
  | c :: r =>
    if Ascii.eqb c c_comma then
      match skip_ws r with
      | w :: r2 =>
        if is_word w then
          match split_dcolon r2 with
          | Some (a, b) => Some (w :: a, skip_ws b)
          | None => None
          end
        else None
      | [] => None
      end
    else None
  | [] => None
  end.

(* ATTRIBSPLIT2_RE.match: optional "::", then the rest (group 2) *)
Definition attribsplit2 (rest : str) : str :=
  let r := skip_ws rest in
  if prefix (s "::") r then skip_ws (skipn 2 r) else r.

(* FortranVariable.__init__: the name ends at the first "(", "[" or "*" that is not at index 0 *)
Definition split_name (n : str) : str * str :=
  let pos (c : ascii) : option nat :=
    match find_ch c n with Some (S i) => Some (S i) | _ => None end in
  let m := fold_left (fun acc o => match acc, o with
                                   | Some a, Some b => Some (Nat.min a b)
                                   | None, o' => o'
                                   | a, None => a
                                   end) [pos c_lpar; pos c_lbr; pos c_star] None in
  match m with
  | Some i => (firstn i n, skipn i n)
  | None => (n, [])
  end.

(* COMMA_RE.sub(", "):  a comma that is not followed by white space *)
Fixpoint comma_space (x : str) : str :=
  match x with
  | [] => []
  | c :: r =>
    if Ascii.eqb c c_comma then
      match r with
      | d :: _ => if is_space d then c :: comma_space r else c :: c_sp :: comma_space r
      | [] => [c; c_sp]
      end
    else c :: comma_space r
  end.

(* NBSP_RE.sub: every blank that has a blank before or after it *)
Fixpoint nbsp_go (prev_blank : bool) (x : str) : str :=
  match x with
  | [] => []
  | c :: r =>
    if Ascii.eqb c c_sp then
      let next_blank := match r with d :: _ => Ascii.eqb d c_sp | [] => false end in
      (if prev_blank || next_blank then nbsp else c) :: nbsp_go true r
    else c :: nbsp_go false r
  end.
Definition nbsp_runs (x : str) : str := nbsp_go false x.

(* decimal index between the quotes of a masked literal *)
Fixpoint nat_of_digits (ds : str) (acc : nat) : nat :=
  match ds with [] => acc | c :: r => nat_of_digits r (acc * 10 + (code c - 48)) end.

(* put the literals back into an initial value (blank runs become U+00A0; the doubling of
   backslashes is undone by re.sub's escape processing, so the text is inserted as it is) *)
Fixpoint restore_go (fuel : nat) (x : str) (lits : list str) : res str :=
  match fuel with
  | O => Ok x
  | S f =>
    match x with
    | [] => Ok []
    | c :: r =>
      if Ascii.eqb c c_dq then
        match take_while is_digit r with
        | ((_ :: _) as ds, d :: r2) =>
          if Ascii.eqb d c_dq then
            (* two masked literals side by side read as one literal with a doubled quote *)
            if (match r2 with e :: _ => Ascii.eqb e c_dq | [] => false end)
            then Unmodelled (s "adjacent masked literals")
            else
            match nth_error lits (nat_of_digits ds 0) with
            | Some lit => do t <- restore_go f r2 lits; Ok (nbsp_runs lit ++ t)
            | None => Err (s "IndexError")
            end
          else Unmodelled (s "quote in an initial value that is not a masked literal")
        | _ => Unmodelled (s "quote in an initial value that is not a masked literal")
        end
      else if Ascii.eqb c c_sq then Unmodelled (s "quote in an initial value that is not a masked literal")
      else do t <- restore_go f r lits; Ok (c :: t)
    end
  end.
Definition restore (x : str) (lits : list str) : res str := restore_go (S (length x)) x lits.

Definition nospace_lower (x : str) : str := remove_blanks (lower x).

(* classification of the attributes written on the declaration *)
Record attr_acc := mkacc {
  a_attribs : list str; a_intent : str; a_optional : bool; a_permission : str; a_parameter : bool
}.
Definition classify (acc : attr_acc) (a : str) : attr_acc :=
  let l := nospace_lower a in
  if one_of l [s "public"; s "private"; s "protected"]
  then mkacc (a_attribs acc) (a_intent acc) (a_optional acc) l (a_parameter acc)
  else if seqb l (s "optional")
  then mkacc (a_attribs acc) (a_intent acc) true (a_permission acc) (a_parameter acc)
  else if seqb l (s "parameter")
  then mkacc (a_attribs acc) (a_intent acc) (a_optional acc) (a_permission acc) true
  else if seqb l (s "intent(in)")
  then mkacc (a_attribs acc) (s "in") (a_optional acc) (a_permission acc) (a_parameter acc)
  else if seqb l (s "intent(out)")
  then mkacc (a_attribs acc) (s "out") (a_optional acc) (a_permission acc) (a_parameter acc)
  else if seqb l (s "intent(inout)")
  then mkacc (a_attribs acc) (s "inout") (a_optional acc) (a_permission acc) (a_parameter acc)
  else mkacc (a_attribs acc ++ [a]) (a_intent acc) (a_optional acc) (a_permission acc) (a_parameter acc).

(* one entity of the declaration list *)
Definition entity (pt : ptype) (acc : attr_acc) (lits : list str) (dec : str) : res var :=
  let dec := remove_blanks dec in
  do npi <- match paren_split c_eq dec with
            | [n] => Ok (strip n, false, None)
            | n :: i :: more =>
              (* only the first "=" separates name and value: the other parts are joined again *)
              let value := join [c_eq] (i :: more) in
              match value with
              | c :: v' => if Ascii.eqb c c_gt then Ok (n, true, Some v') else Ok (n, false, Some value)
              | [] => Err (s "IndexError")
              end
            | [] => Ok ([], false, None)
            end;
  let '(n, points, init) := npi in
  do init' <- match init with
              | Some ((_ :: _) as i) => do t <- restore (comma_space i) lits; Ok (Some t)
              | Some [] => Ok (Some [])
              | None => Ok None
              end;
  let (name, dim) := split_name n in
  Ok (mkvar name (pt_vartype pt) (pt_kind pt) (pt_strlen pt) (pt_proto pt)
            (a_attribs acc) (a_intent acc) (a_optional acc) (a_permission acc) (a_parameter acc)
            points init' dim).

(* line_to_variables on a masked line *)
Definition line_to_variables (line : str) (lits : list str) (permission : str) : res (list var) :=
  do pt <- parse_type line;
  (* attributes kept as text have their string literals restored: outside the model *)
  if match attribsplit (pt_rest pt) with Some (attribstr, _) => has_quote attribstr | None => false end
  then Unmodelled (s "quoted text in an attribute") else
  let acc0 := mkacc [] [] false permission false in
  let '(acc, declarestr) :=
    match attribsplit (pt_rest pt) with
    | Some (attribstr, decl) =>
      (fold_left classify (map strip (paren_split c_comma (strip attribstr))) acc0, strip decl)
    | None => (acc0, attribsplit2 (pt_rest pt))
    end in
  mapM (entity pt acc lits) (paren_split c_comma declarestr).

(* a raw statement: mask, then parse *)
Definition declaration (raw permission : str) : res (list var) :=
  let (m, lits) := mask_line raw in line_to_variables m lits permission.

(* ------------------------------------------------------------------ VARIABLE_RE / ATTRIB_RE *)
(* VARIABLE_RE: a type word, then "(", white space + word character, or one of : , *  *)
Definition variable_words : list (str * option str) :=
  [(s "integer", None); (s "real", None); (s "double", Some (s "precision")); (s "character", None);
   (s "complex", None); (s "double", Some (s "complex")); (s "logical", None); (s "type", None);
   (s "class", None); (s "procedure", None); (s "enumerator", None)].

Definition starts_word_is (r : str) (w : str) : bool :=
  (* the negative look-ahead of VARIABLE_RE: white space then the word *)
  match r with
  | c :: _ => if is_space c then match match_ci w (skip_ws r) with Some _ => true | None => false end else false
  | [] => false
  end.

(* what must follow the type word: not "is" / "default" for type / class, then "(", one of : , *
   or (with white space before it) a word character *)
Definition variable_tail_ok (w1 r : str) : bool :=
  let lookahead :=
    if seqb w1 (s "type") then negb (starts_word_is r (s "is"))
    else if seqb w1 (s "class") then negb (starts_word_is r (s "is")) && negb (starts_word_is r (s "default"))
    else true in
  lookahead &&
  (match r with
   | c :: r2 =>
     let r' := skip_ws r in
     match r' with
     | d :: _ =>
       Ascii.eqb d c_lpar || Ascii.eqb d c_colon || Ascii.eqb d c_comma || Ascii.eqb d c_star
       || (is_space c && is_word d)
     | [] => false
     end
   | [] => false
   end).

Fixpoint variable_re_alts (alts : list (str * option str)) (x : str) : bool :=
  match alts with
  | [] => false
  | (w1, w2) :: alts' =>
    let m := match w2 with None => match_ci w1 x | Some w => match_two w1 w x end in
    match m with
    | Some r => if variable_tail_ok w1 r then true else variable_re_alts alts' x
    | None => variable_re_alts alts' x
    end
  end.
Definition is_declaration (line : str) : bool := variable_re_alts variable_words line.

Definition attrib_words : list str :=
  [s "asynchronous"; s "allocatable"; s "data"; s "dimension"; s "external"; s "optional"; s "parameter";
   s "pointer"; s "private"; s "protected"; s "public"; s "save"; s "target"; s "value"; s "volatile"].

(* "intent", "(", one word or two words separated by white space, ")" *)
Definition match_intent (x : str) : option str :=
  match match_ci (s "intent") x with
  | Some r =>
    match skip_ws r with
    | c :: r2 =>
      if Ascii.eqb c c_lpar then
        match take_while is_word (skip_ws r2) with
        | (_ :: _, r3) =>
          (* optionally a second word after white space: INTENT(IN OUT) *)
          let r3' := match r3 with
                     | b :: _ =>
                       if is_space b then
                         match take_while is_word (skip_ws r3) with
                         | (_ :: _, r5) => r5
                         | ([], _) => r3
                         end
                       else r3
                     | [] => r3
                     end in
          match skip_ws r3' with
          | d :: r4 => if Ascii.eqb d c_rpar then Some r4 else None
          | [] => None
          end
        | ([], _) => None
        end
      else None
    | [] => None
    end
  | None => None
  end.

(* after the keyword: white space or "::", then a group starting with "/", "(" or a word character,
   taken up to the trailing white space *)
Definition attrib_tail (r : str) : option str :=
  let starts_ok (y : str) : bool :=
    match y with c :: _ => Ascii.eqb c c_slash || Ascii.eqb c c_lpar || is_word c | [] => false end in
  let r' := skip_ws r in
  let first := match r with c :: _ => if is_space c then (if starts_ok r' then Some r' else None) else None | [] => None end in
  match first with
  | Some y => Some (rstrip y)
  | None =>
    if prefix (s "::") r' then
      let y := skip_ws (skipn 2 r') in if starts_ok y then Some (rstrip y) else None
    else None
  end.

Fixpoint attrib_alts (ws : list str) (x : str) : option (str * str) :=
  match ws with
  | [] => None
  | w :: ws' =>
    match match_ci w x with
    | Some r => match attrib_tail r with
                | Some g2 => Some (firstn (length x - length r) x, g2)
                | None => attrib_alts ws' x
                end
    | None => attrib_alts ws' x
    end
  end.

(* ATTRIB_RE.match: (group 1, group 2); bind(...) statements are outside the model *)
Definition attrib_re (x : str) : res (option (str * str)) :=
  match match_ci (s "bind") x with
  | Some _ => Unmodelled (s "bind statement")
  | None =>
    match match_intent x with
    | Some r =>
      match attrib_tail r with
      | Some g2 => Ok (Some (firstn (length x - length r) x, g2))
      | None => Ok None
      end
    | None =>
      (* the alternatives in their order; "intent" sits between "external" and "optional", and no
         other keyword starts with "i" *)
      Ok (attrib_alts attrib_words x)
    end
  end.

Definition dict := list (str * list str).
Fixpoint dict_append (k v : str) (d : dict) : dict :=
  match d with
  | [] => [(k, [v])]
  | (k', vs) :: d' => if seqb k k' then (k', vs ++ [v]) :: d' else (k', vs) :: dict_append k v d'
  end.
Fixpoint dict_get (k : str) (d : dict) : list str :=
  match d with
  | [] => []
  | (k', vs) :: d' => if seqb k k' then vs else dict_get k d'
  end.
Fixpoint pdict_set (k v : str) (d : list (str * str)) : list (str * str) :=
  match d with
  | [] => [(k, v)]
  | (k', v') :: d' => if seqb k k' then (k, v) :: d' else (k', v') :: pdict_set k v d'
  end.
Fixpoint pdict_get (k : str) (d : list (str * str)) : option str :=
  match d with
  | [] => None
  | (k', v) :: d' => if seqb k k' then Some v else pdict_get k d'
  end.

Record attr_state := mkas { as_attr : dict; as_param : list (str * str) }.

(* the ATTRIB_RE branch of the statement loop, for a unit that has attr_dict *)
(* _attr_key: neither letter case nor white space is significant in a name *)
Definition attr_key (name : str) : str := lower (remove_ws name).

Definition record_attribute (st : attr_state) (lits : list str) (g1 g2 : str) : res attr_state :=
  let attr := remove_blanks (lower g1) in
  if seqb attr (s "data") then Ok st
  else if one_of attr [s "dimension"; s "allocatable"; s "pointer"] then
    Ok (fold_left
          (fun st name =>
             let name := lower (strip name) in
             let (vn, dims) := match find_ch c_lpar name with
                               | Some i => (firstn i name, skipn i name)
                               | None => (name, [])
                               end in
             mkas (dict_append vn (attr ++ dims) (as_attr st)) (as_param st))
          (paren_split c_comma g2) st)
  else
    let stmnt := if seqb attr (s "parameter") then strip (removelast (tl g2)) else g2 in
    let step (r : res attr_state) (name : str) : res attr_state :=
      do st <- r;
      if seqb attr (s "parameter") then
        match paren_split c_eq name with
        | n :: more =>
          let n := lower (strip n) in
          (* only the first "=" separates name and value (the other parts are joined again; no "="
             at all gives the empty value); formatted like an initialisation on the declaration *)
          do v' <- restore (comma_space (remove_blanks (join [c_eq] more))) lits;
          Ok (mkas (dict_append (attr_key n) attr (as_attr st)) (pdict_set n v' (as_param st)))
        | [] => Err (s "IndexError")
        end
      else Ok (mkas (dict_append (attr_key name) attr (as_attr st)) (as_param st)) in
    fold_left step (paren_split c_comma stmnt) (Ok st).

(* DIM_RE.match: a word followed by a parenthesised group that ends the text *)
Definition dim_re (a : str) : bool :=
  match take_while is_word a with
  | (_ :: _, r) =>
    match skip_ws r with
    | c :: r2 => Ascii.eqb c c_lpar &&
                 match rstrip r2 with
                 | [] => false
                 | y => Ascii.eqb (last y c_sp) c_rpar
                 end
    | [] => false
    end
  | ([], _) => false
  end.

Fixpoint contains_fuel (fuel : nat) (needle hay : str) : bool :=
  match fuel with
  | O => false
  | S f => if prefix needle hay then true
           else match hay with [] => false | _ :: h' => contains_fuel f needle h' end
  end.
Definition contains (needle hay : str) : bool := contains_fuel (S (length hay)) needle hay.

Definition set_attribs (v : var) (a : list str) : var :=
  mkvar (v_name v) (v_vartype v) (v_kind v) (v_strlen v) (v_proto v) a (v_intent v) (v_optional v)
        (v_permission v) (v_parameter v) (v_points v) (v_initial v) (v_dimension v).

(* process_attribs, the loop over the variables *)
Definition apply_attr (params : list (str * str)) (r : res var) (attr : str) : res var :=
  do v <- r;
  if one_of attr [s "public"; s "private"; s "protected"] then
    Ok (mkvar (v_name v) (v_vartype v) (v_kind v) (v_strlen v) (v_proto v) (v_attribs v) (v_intent v)
              (v_optional v) attr (v_parameter v) (v_points v) (v_initial v) (v_dimension v))
  else if seqb (firstn 6 attr) (s "intent") then
    Ok (mkvar (v_name v) (v_vartype v) (v_kind v) (v_strlen v) (v_proto v) (v_attribs v)
              (removelast (skipn 7 attr)) (v_optional v) (v_permission v) (v_parameter v) (v_points v)
              (v_initial v) (v_dimension v))
  else if seqb attr (s "optional") then
    Ok (mkvar (v_name v) (v_vartype v) (v_kind v) (v_strlen v) (v_proto v) (v_attribs v) (v_intent v)
              true (v_permission v) (v_parameter v) (v_points v) (v_initial v) (v_dimension v))
  else if dim_re attr && (contains (s "pointer") attr || contains (s "allocatable") attr) then
    match find_ch c_lpar attr with
    | Some i =>
      Ok (mkvar (v_name v) (v_vartype v) (v_kind v) (v_strlen v) (v_proto v) (v_attribs v ++ [firstn i attr])
                (v_intent v) (v_optional v) (v_permission v) (v_parameter v) (v_points v) (v_initial v)
                (skipn i attr))
    | None => Err (s "ValueError")
    end
  else if seqb attr (s "parameter") then
    match pdict_get (lower (v_name v)) params with
    | Some init =>
      Ok (mkvar (v_name v) (v_vartype v) (v_kind v) (v_strlen v) (v_proto v) (v_attribs v)
                (v_intent v) (v_optional v) (v_permission v) true (v_points v) (Some init)
                (v_dimension v))
    | None => Err (s "KeyError")
    end
  else Ok (set_attribs v (v_attribs v ++ [attr])).

(* every variable of a name gets the attributes recorded for it *)
Definition process_attribs (st : attr_state) (vars : list var) : res (list var) :=
  mapM (fun v => fold_left (apply_attr (as_param st)) (dict_get (attr_key (v_name v)) (as_attr st)) (Ok v)) vars.

(* ------------------------------------------------------------------ procedures *)
Definition proc_keywords : list str :=
  [s "impure"; s "pure"; s "elemental"; s "non_recursive"; s "recursive"; s "module"].

(* re.sub(r"\bword\b", "", text, flags=IGNORECASE): every occurrence of the keyword as a whole word,
   in any letter case, is deleted; the flag says whether there was one *)
Fixpoint remove_word_fuel (fuel : nat) (w x : str) (prev_word : bool) : bool * str :=
  match fuel with
  | O => (false, x)
  | S f =>
    match x with
    | [] => (false, [])
    | c :: r =>
      let hit := if prev_word then None
                 else match match_ci w x with
                      | Some rest => match rest with
                                     | d :: _ => if is_word d then None else Some rest
                                     | [] => Some rest
                                     end
                      | None => None
                      end in
      match hit with
      | Some rest =>
        (* the keyword ends with a word character *)
        let (_, y) := remove_word_fuel f w rest true in (true, y)
      | None => let (b, y) := remove_word_fuel f w r (is_word c) in (b, c :: y)
      end
    end
  end.
Definition remove_word (w x : str) : bool * str := remove_word_fuel (S (length x)) w x false.

(* _list_of_procedure_attributes: the prefix keywords, in this order, taken out of the text *)
Definition procedure_attributes (attrs : option str) : list str * str :=
  match attrs with
  | None | Some [] => ([], [])
  | Some a =>
    let r := fold_left (fun acc w => let (found, rest) := remove_word w (snd acc) in
                                     if found then (fst acc ++ [w], rest) else acc)
                       proc_keywords ([], a) in
    (fst r, remove_blanks (snd r))
  end.

(* SPLIT_RE.split(arguments[1:-1].strip()), empty strings removed *)
Definition split_args (arguments : option str) : list str :=
  match arguments with
  | Some a => filter (fun x => match x with [] => false | _ => true end)
                     (map strip (split_on c_comma (strip (removelast (tl a)))))
  | None => []
  end.

Definition implicit_type (name : str) : str :=
  match name with
  | c :: _ => if existsb (Ascii.eqb (lower_ch c)) (s "ijklmn") then s "integer" else s "real"
  | [] => s "real"
  end.

Definition implicit_var (name : str) : var :=
  let (n, dim) := split_name name in
  mkvar n (implicit_type name) None None None [] [] false (s "public") false false None dim.

(* a variable built with the defaults of FortranVariable and a parsed type *)
Definition typed_var (name : str) (pt : ptype) : var :=
  let (n, dim) := split_name name in
  mkvar n (pt_vartype pt) (pt_kind pt) (pt_strlen pt) (pt_proto pt) [] [] false (s "public") false false None dim.

Fixpoint take_var (name : str) (vars : list var) : option (var * list var) :=
  match vars with
  | [] => None
  | v :: vs =>
    if seqb (lower name) (lower (v_name v)) then Some (v, vs)
    else match take_var name vs with Some (w, rest) => Some (w, v :: rest) | None => None end
  end.

(* FortranProcedure._cleanup: every argument, in the order of the argument list, is the variable
   declared with that name (removed from the locals) or an implicitly typed variable *)
Fixpoint match_args (args : list str) (vars : list var) : list var * list var :=
  match args with
  | [] => ([], vars)
  | a :: args' =>
    match take_var a vars with
    | Some (v, rest) => let (avs, locals) := match_args args' rest in (v :: avs, locals)
    | None => let (avs, locals) := match_args args' vars in (implicit_var a :: avs, locals)
    end
  end.

(* ------------------------------------------------------------------ a program unit *)
Inductive unit_kind := UModule | USubroutine | UFunction.

Record header := mkhdr {
  h_kind : unit_kind;
  h_attributes : option str;        (* group "attributes" of FUNCTION_RE / SUBROUTINE_RE *)
  h_name : str;
  h_arguments : option str;         (* group "arguments", with the parentheses *)
  h_result : option str             (* group "result" *)
}.

Record unit_out := mkuo {
  u_attribs : list str;             (* procedure attributes *)
  u_args : list var;
  u_retvar : option var;
  u_vars : list var
}.

Definition has_external (v : var) : bool := sin (s "external") (v_attribs v).

(* "type" not followed by "(": the statement may be taken by TYPE_RE (a derived type definition),
   which the statement loop tries before VARIABLE_RE; such lines are outside this model *)
Definition type_statement_like (line : str) : bool :=
  match match_ci (s "type") line with
  | Some r => match skip_ws r with c :: _ => negb (Ascii.eqb c c_lpar) | [] => true end
  | None => false
  end.

(* the body lines that the model understands: declarations and attribute statements *)
Fixpoint body_go (lines : list str) (st : attr_state) (vars : list var) (permission : str)
  : res (attr_state * list var) :=
  match lines with
  | [] => Ok (st, vars)
  | raw :: lines' =>
    let (m, lits) := mask_line raw in
    do a <- attrib_re m;
    match a with
    | Some (g1, g2) => do st' <- record_attribute st lits g1 g2; body_go lines' st' vars permission
    | None =>
      if type_statement_like m then Unmodelled (s "TYPE statement (TYPE_RE precedes VARIABLE_RE)")
      else if is_declaration m then
        do vs <- line_to_variables m lits permission; body_go lines' st (vars ++ vs) permission
      else match match_ci (s "intent") m with
           | Some _ => body_go lines' st vars permission   (* INTENT(IN OUT): matched by no pattern, skipped *)
           | None => Unmodelled (s "statement that is neither a declaration nor an attribute statement")
           end
    end
  end.


Definition unit_model (h : header) (body : list str) : res unit_out :=
  let (pattrs, attribstr) := procedure_attributes (h_attributes h) in
  (* typed prefix of a function: parse_type on what is left of the attributes *)
  let retname := match h_result h with Some r => r | None => h_name h end in
  do typed <- match h_kind h with
              | UFunction =>
                match parse_type attribstr with
                | Ok pt => Ok (Some (typed_var retname pt))
                | Err e => if seqb e (s "ValueError") then Ok None else Err e     (* suppress(ValueError) *)
                | Unmodelled w => Unmodelled w
                end
              | _ => Ok None
              end;
  do sv <- body_go body (mkas [] []) [] (s "public");
  let (st, vars) := sv in
  match h_kind h with
  | UModule =>
    do vars' <- process_attribs st vars;
    Ok (mkuo [] [] None (filter (fun v => negb (has_external v)) vars'))
  | USubroutine =>
    do vars' <- process_attribs st vars;
    let (avs, locals) := match_args (split_args (h_arguments h)) (filter (fun v => negb (has_external v)) vars') in
    Ok (mkuo pattrs avs None locals)
  | UFunction =>
    (* a result variable typed in the function statement joins the locals, so that attribute
       statements reach it; after the arguments have been taken out, the result variable is the
       local of that name, or an implicitly typed one *)
    let (vars1, rname) := match typed with
                          | Some v => (vars ++ [v], v_name v)
                          | None => (vars, retname)
                          end in
    do vars' <- process_attribs st vars1;
    let (avs, locals0) := match_args (split_args (h_arguments h)) (filter (fun v => negb (has_external v)) vars') in
    let (ret, locals) := match take_var rname locals0 with
                         | Some (v, rest) => (v, rest)
                         | None => (implicit_var rname, locals0)
                         end in
    Ok (mkuo pattrs avs (Some ret) locals)
  end.
