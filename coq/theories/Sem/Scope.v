(* Sem/Scope.v — model of how FORD resolves cross-references inside one program unit (property
   C07) and the independent Spec.  Definitions only; proofs are in Sem/ScopeProofs.v.

   Mirrors (defects included), for one top-level unit (module, program, external procedure,
   block data) and everything nested in it:
     ford/sourceform.py  FortranCodeUnit._cleanup / FortranModule._cleanup  -> own all_procs keys (s_procs)
                         FortranCodeUnit.correlate 1191-1207, 1256-1284, 1315-1331
                                                                 -> enter_scope / exit_scope
                         FortranInterface.correlate              -> generic module-procedure slots; a body
                                                                    is a child scope of kind KBody
                         FortranType.correlate, FortranBoundProcedure.correlate,
                         FortranFinalProc.correlate, FortranVariable.correlate,
                         FortranBlockData.correlate              -> the slot rules below
     ford/fortran_project.py  find_used_modules (ancestor_module / parent_submodule)
                                                                 -> find_unit

   A scope's three dictionaries all_types, all_absinterfaces (and all_vars, which no slot of this
   model reads) are THE PARENT'Sc DICTIONARY OBJECTS; all_procs is a dictionary of its own that is
   first filled with the scope's contained procedures and then updated WITH the parent's.  The
   model keeps a store of tables addressed by table id so that this aliasing is explicit, and
   processes the unit as the sequence of events of FORD's depth-first traversal:
       Enter S : set up S's tables, merge its use-associated names, resolve the slots of its derived
                 types and generic interfaces
       Exit    : resolve the type / interface references of S's variables and dummy arguments
   (children are entered between the two, in FORD's order: functions, subroutines, interface
   bodies, abstract interface bodies).

   The names a scope obtains by USE association are an input here (s_imports): property C06.
   Outside the model: submodule inheritance of the ancestor's tables, pairing of separate module
   procedures, generic type-bound bindings (resolved among the type's own bindings), inherited
   components/bindings, namelists and call chains (all_vars), enumerators, common blocks. *)
From Ford Require Import Base.Str.

Inductive cls := CProc | CAbs | CType.
Definition cls_eqb (a b : cls) : bool :=
  match a, b with CProc, CProc | CAbs, CAbs | CType, CType => true | _, _ => false end.

(* an entity is identified by its path: unit name, enclosing scopes, own name *)
Definition ent := list str.
Definition ent_eqb (a b : ent) : bool := list_eqb str_eqb a b.
Definition table := list (str * ent).

(* what a declaration refers to: type(n) / class(n), or procedure(n) *)
Inductive tyref := TRType (n : str) | TRProc (n : str).
Record var := { v_name : str; v_ref : option tyref }.
(* a non-generic type-bound procedure:  procedure[(proto)][, deferred] :: name => targets *)
Record binding := { b_name : str; b_deferred : bool; b_proto : option str; b_targets : list str }.
Record dtype := { t_name : str; t_extends : option str; t_comps : list var;
                  t_binds : list binding; t_finals : list str }.
(* interface g; module procedure p1, p2 *)
Record generic := { g_name : str; g_modprocs : list str }.

Inductive skind :=
  | KUnit     (* module, program, external procedure, block data: its parent (the file) has no tables *)
  | KProc     (* a procedure contained in a unit or in another procedure *)
  | KBody.    (* the body of an interface / abstract interface block: reached through the interface
                 object, which aliases its host's all_procs, all_types, all_absinterfaces *)

Record srec := {
  s_path : list str;                 (* unit name ... scope name *)
  s_kind : skind;
  s_procs : list str;                (* keys of its own all_procs, in insertion order: contained functions
                                        and subroutines, then named interfaces / interface bodies *)
  s_abs : list str;                  (* its abstract interfaces *)
  s_types : list dtype;
  s_generics : list generic;
  s_vars : list var;                 (* variables, then dummy arguments (and the result variable) *)
  s_imports : list (cls * (str * ent)) }.   (* use-associated names, in merge order *)

Inductive event := Enter (Sc : srec) | Exit.

(* ------------------------------------------------------------------ store *)
Definition store := list (nat * table).
Fixpoint st_get (i : nat) (st : store) : table :=
  match st with
  | [] => []
  | (j, t) :: st' => if Nat.eqb i j then t else st_get i st'
  end.
Fixpoint st_set (i : nat) (t : table) (st : store) : store :=
  match st with
  | [] => [(i, t)]
  | (j, t') :: st' => if Nat.eqb i j then (i, t) :: st' else (j, t') :: st_set i t st'
  end.
Definition st_upd (i : nat) (f : table -> table) (st : store) : store := st_set i (f (st_get i st)) st.
Definition update (t : table) (l : list (str * ent)) : table :=
  fold_left (fun t kv => assoc_set (fst kv) (snd kv) t) l t.

(* the table ids of a scope, by class *)
Record env := { e_scope : srec; e_procs : nat; e_abs : nat; e_types : nat }.
Definition tid (E : env) (c : cls) : nat :=
  match c with CProc => e_procs E | CAbs => e_abs E | CType => e_types E end.

(* ------------------------------------------------------------------ slots *)
Inductive sdesc :=
  | SVar (v : str)                       (* proto[0] of a variable / dummy argument *)
  | SComp (t v : str)                    (* proto[0] of a component *)
  | SExtends (t : str)                   (* extends *)
  | SBindTarget (t b : str) (i : nat)    (* bindings[i] of a non-deferred, non-generic binding *)
  | SBindProto (t b : str)               (* proto of a binding: procedure(iface) *)
  | SFinal (t : str) (i : nat)           (* procedure of the i-th final *)
  | SCtor (t : str)                      (* constructor *)
  | SModproc (g : str) (i : nat).        (* procedure of the i-th module procedure of a generic *)
(* a resolved (or not) reference: where, which name was looked up, the entity found *)
(* which dictionaries the lookup goes through *)
Inductive look := LType | LProc | LProcAbs.
Record res := { r_scope : list str; r_slot : sdesc; r_look : look; r_name : str; r_ent : option ent }.

Definition lookup_proc_then_abs (st : store) (E : env) (n : str) : option ent :=
  match assoc_get n (st_get (e_procs E) st) with
  | Some e => Some e
  | None => assoc_get n (st_get (e_abs E) st)
  end.
Definition resolve_tyref (st : store) (E : env) (r : tyref) : str * option ent :=
  match r with
  | TRType n => (n, assoc_get n (st_get (e_types E) st))
  | TRProc n => (n, lookup_proc_then_abs st E n)
  end.
Definition var_slots (st : store) (E : env) (mk : str -> sdesc) (vs : list var) : list res :=
  flat_map (fun v => match v_ref v with
                     | Some r => let ne := resolve_tyref st E r in
                                 [{| r_scope := s_path (e_scope E); r_slot := mk (v_name v);
                                     r_look := (match r with TRType _ => LType | TRProc _ => LProcAbs end); r_name := fst ne; r_ent := snd ne |}]
                     | None => []
                     end) vs.
Fixpoint indexed {A} (i : nat) (l : list A) : list (nat * A) :=
  match l with [] => [] | x :: l' => (i, x) :: indexed (S i) l' end.

Definition type_slots (st : store) (E : env) (T : dtype) : list res :=
  let P := s_path (e_scope E) in
  let procs := st_get (e_procs E) st in
  (match t_extends T with
   | Some n => [{| r_scope := P; r_slot := SExtends (t_name T); r_look := LType; r_name := n;
                   r_ent := assoc_get n (st_get (e_types E) st) |}]
   | None => []
   end)
  ++ var_slots st E (SComp (t_name T)) (t_comps T)
  ++ flat_map (fun b =>
       (match b_proto b with
        | Some n => [{| r_scope := P; r_slot := SBindProto (t_name T) (b_name b); r_look := LProcAbs; r_name := n;
                        r_ent := lookup_proc_then_abs st E n |}]
        | None => []
        end)
       ++ (if b_deferred b then []
           else map (fun it => {| r_scope := P; r_slot := SBindTarget (t_name T) (b_name b) (fst it);
                                  r_look := LProc; r_name := snd it; r_ent := assoc_get (snd it) procs |})
                    (indexed 0 (b_targets b)))) (t_binds T)
  ++ map (fun it => {| r_scope := P; r_slot := SFinal (t_name T) (fst it); r_look := LProc; r_name := snd it;
                       r_ent := assoc_get (snd it) procs |}) (indexed 0 (t_finals T))
  ++ [{| r_scope := P; r_slot := SCtor (t_name T); r_look := LProc; r_name := t_name T;
         r_ent := assoc_get (t_name T) procs |}].
Definition generic_slots (st : store) (E : env) (G : generic) : list res :=
  map (fun it => {| r_scope := s_path (e_scope E); r_slot := SModproc (g_name G) (fst it); r_look := LProc; r_name := snd it;
                    r_ent := assoc_get (snd it) (st_get (e_procs E) st) |}) (indexed 0 (g_modprocs G)).

(* ------------------------------------------------------------------ traversal *)
Record state := { st_store : store; st_next : nat; st_stack : list env; st_out : list res }.
Definition init_state : state := {| st_store := []; st_next := 0; st_stack := []; st_out := [] |}.

Definition own (Sc : srec) (names : list str) : list (str * ent) :=
  map (fun n => (n, s_path Sc ++ [n])) names.
Definition imports_of (Sc : srec) (c : cls) : list (str * ent) :=
  map snd (filter (fun i => cls_eqb (fst i) c) (s_imports Sc)).

Definition enter_scope (Sc : srec) (s : state) : state :=
  let st := st_store s in
  let n := st_next s in
  let parent := match s_kind Sc, st_stack s with
                | KUnit, _ => None
                | _, E :: _ => Some E
                | _, [] => None
                end in
  (* all_procs: own contained procedures, then .update(parent.all_procs): the parent's entries win *)
  let ip := n in
  let procs0 := update [] (own Sc (s_procs Sc)) in
  let procs1 := match parent with Some E => update procs0 (st_get (e_procs E) st) | None => procs0 end in
  (* all_absinterfaces / all_types: the parent's dictionary object when it has one *)
  let ia := match parent with Some E => e_abs E | None => n + 1 end in
  let it := match parent with Some E => e_types E | None => n + 2 end in
  (* own declarations are written into these (possibly shared) dictionaries; names from USED
     modules are merged last *)
  let st1 := st_set ip (update procs1 (imports_of Sc CProc)) st in
  let st2 := st_upd ia (fun t => update (update t (own Sc (s_abs Sc))) (imports_of Sc CAbs)) st1 in
  let st3 := st_upd it (fun t => update (update t (own Sc (map t_name (s_types Sc)))) (imports_of Sc CType)) st2 in
  let E := {| e_scope := Sc; e_procs := ip; e_abs := ia; e_types := it |} in
  {| st_store := st3; st_next := n + 3; st_stack := E :: st_stack s;
     st_out := st_out s ++ flat_map (type_slots st3 E) (s_types Sc) ++ flat_map (generic_slots st3 E) (s_generics Sc) |}.

Definition exit_scope (s : state) : state :=
  match st_stack s with
  | [] => s
  | E :: rest =>
    {| st_store := st_store s; st_next := st_next s; st_stack := rest;
       st_out := st_out s ++ var_slots (st_store s) E SVar (s_vars (e_scope E)) |}
  end.
Definition step (s : state) (ev : event) : state :=
  match ev with Enter Sc => enter_scope Sc s | Exit => exit_scope s end.
Definition correlate (evs : list event) : list res := st_out (fold_left step evs init_state).

(* ancestor_module / parent_submodule of a submodule: the first unit of that name *)
Fixpoint find_unit (units : list str) (n : str) : option str :=
  match units with
  | [] => None
  | u :: us => if str_eqb (lower u) (lower n) then Some u else find_unit us n
  end.

(* ------------------------------------------------------------------ Spec
   Fortran 2018 19.4 / 19.5.1.4 (host association), 14.2.2 (use association): a name denotes the
   entity declared in (or use-associated into) the innermost enclosing scoping unit that has such
   an identifier; nothing declared in a sibling or a contained scoping unit is visible. *)
Definition scopes_of (evs : list event) : list srec :=
  flat_map (fun ev => match ev with Enter Sc => [Sc] | Exit => [] end) evs.
Fixpoint prefix_b (a b : list str) : bool :=
  match a, b with
  | [], _ => true
  | x :: a', y :: b' => str_eqb x y && prefix_b a' b'
  | _ :: _, [] => false
  end.
Definition own_names (Sc : srec) (c : cls) : list str :=
  match c with
  | CProc => s_procs Sc
  | CAbs => s_abs Sc
  | CType => map t_name (s_types Sc)
  end.
(* the identifiers of class c a scope has itself: own declarations, then use-associated names *)
Definition local_lookup (Sc : srec) (c : cls) (n : str) : option ent :=
  if str_in n (own_names Sc c) then Some (s_path Sc ++ [n])
  else assoc_get n (imports_of Sc c).
Definition find_scope (all : list srec) (p : list str) : option srec :=
  find (fun Sc => list_eqb str_eqb (s_path Sc) p) all.
(* look in the scope with path p, then in its host (path without the last name), and so on *)
Fixpoint resolve_fuel (fuel : nat) (all : list srec) (p : list str) (look : srec -> option ent) : option ent :=
  match fuel with
  | 0 => None
  | S f =>
    match (match find_scope all p with Some Sc => look Sc | None => None end) with
    | Some e => Some e
    | None => match p with [] => None | _ :: _ => resolve_fuel f all (removelast p) look end
    end
  end.
Definition resolve_in (all : list srec) (p : list str) (c : cls) (n : str) : option ent :=
  resolve_fuel (S (length p)) all p (fun Sc => local_lookup Sc c n).
(* procedure(n): n is a procedure with an explicit interface or an abstract interface; one
   identifier, so the innermost scope that has n in either role decides *)
Definition resolve_proc_or_abs (all : list srec) (p : list str) (n : str) : option ent :=
  resolve_fuel (S (length p)) all p
    (fun Sc => match local_lookup Sc CProc n with Some e => Some e | None => local_lookup Sc CAbs n end).
Definition spec_tyref (all : list srec) (p : list str) (r : tyref) : option ent :=
  match r with
  | TRType n => resolve_in all p CType n
  | TRProc n => resolve_proc_or_abs all p n
  end.

(* the Spec's answer for every slot of a unit, keyed like the model's output *)
Definition spec_var_slots (all : list srec) (Sc : srec) (mk : str -> sdesc) (vs : list var) : list res :=
  flat_map (fun v => match v_ref v with
                     | Some r => [{| r_scope := s_path Sc; r_slot := mk (v_name v);
                                     r_look := (match r with TRType _ => LType | TRProc _ => LProcAbs end); r_name := match r with TRType n => n | TRProc n => n end;
                                     r_ent := spec_tyref all (s_path Sc) r |}]
                     | None => []
                     end) vs.
Definition spec_type_slots (all : list srec) (Sc : srec) (T : dtype) : list res :=
  let P := s_path Sc in
  (match t_extends T with
   | Some n => [{| r_scope := P; r_slot := SExtends (t_name T); r_look := LType; r_name := n; r_ent := resolve_in all P CType n |}]
   | None => []
   end)
  ++ spec_var_slots all Sc (SComp (t_name T)) (t_comps T)
  ++ flat_map (fun b =>
       (match b_proto b with
        | Some n => [{| r_scope := P; r_slot := SBindProto (t_name T) (b_name b); r_look := LProcAbs; r_name := n;
                        r_ent := resolve_proc_or_abs all P n |}]
        | None => []
        end)
       ++ (if b_deferred b then []
           else map (fun it => {| r_scope := P; r_slot := SBindTarget (t_name T) (b_name b) (fst it);
                                  r_look := LProc; r_name := snd it; r_ent := resolve_in all P CProc (snd it) |})
                    (indexed 0 (b_targets b)))) (t_binds T)
  ++ map (fun it => {| r_scope := P; r_slot := SFinal (t_name T) (fst it); r_look := LProc; r_name := snd it;
                       r_ent := resolve_in all P CProc (snd it) |}) (indexed 0 (t_finals T))
  ++ [{| r_scope := P; r_slot := SCtor (t_name T); r_look := LProc; r_name := t_name T;
         r_ent := resolve_in all P CProc (t_name T) |}].
Definition spec_generic_slots (all : list srec) (Sc : srec) (G : generic) : list res :=
  map (fun it => {| r_scope := s_path Sc; r_slot := SModproc (g_name G) (fst it); r_look := LProc; r_name := snd it;
                    r_ent := resolve_in all (s_path Sc) CProc (snd it) |}) (indexed 0 (g_modprocs G)).
Definition spec_scope_slots (all : list srec) (Sc : srec) : list res :=
  flat_map (spec_type_slots all Sc) (s_types Sc) ++ flat_map (spec_generic_slots all Sc) (s_generics Sc)
  ++ spec_var_slots all Sc SVar (s_vars Sc).
Definition spec (evs : list event) : list res :=
  flat_map (spec_scope_slots (scopes_of evs)) (scopes_of evs).
