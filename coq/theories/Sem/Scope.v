(* Sem/Scope.v — model of how FORD resolves cross-references inside one program unit (property
   C07) and the independent Spec.  Definitions only; proofs are in Sem/ScopeProofs.v.

   Mirrors, for one top-level unit (module, program, external procedure,
   block data) and everything nested in it:
     ford/sourceform.py  FortranCodeUnit._cleanup / FortranModule._cleanup  -> own all_procs keys (s_procs)
                         FortranCodeUnit.correlate 1191-1207, 1256-1284, 1315-1331
                                                                 -> enter_scope / exit_scope
                         FortranInterface.correlate              -> generic module-procedure slots; a body
                                                                    is a child scope of kind KBody
                         FortranType.correlate, FortranBoundProcedure.correlate,
                         FortranFinalProc.correlate, FortranVariable.correlate,
                         FortranBlockData.correlate              -> the slot rules below
     ford/fortran_project.py  find_used_modules (ancestor_module / parent_submodule)
                                                                 -> find_unit

   Every scope has dictionaries of its own (since the fix of the two defects found here: a contained
   procedure did not shadow a host procedure, local declarations leaked through shared dictionary
   objects): each of all_procs, all_absinterfaces, all_types starts as a COPY of the parent's, the
   scope's own declarations are written over it, and the names from USED modules are merged last.
   The names of procedures and abstract interfaces are identifiers of one kind: an abstract
   interface declared in a scope, or obtained there by use association, removes the host's
   procedure of the same name from the copy of the host's all_procs.
   The model keeps a store of tables addressed by table id (what is read from the parent is what
   the parent's table holds when the child is entered) and processes the unit as the sequence of
   events of FORD's depth-first traversal:
       Enter S : set up S's tables, merge its use-associated names, resolve the slots of its derived
                 types and generic interfaces
       Exit    : resolve the type / interface references of S's variables and dummy arguments
   (children are entered between the two, in FORD's order: functions, subroutines, interface
   bodies, abstract interface bodies).

   The names a scope obtains by USE association are an input here (s_imports): property C06.
   A submodule (KSub) is a unit whose dictionaries start as a copy of those of its parent submodule
   if it has one, else of its ancestor module (FortranCodeUnit.correlate: {**host, **own}); the
   finished units are kept in st_units.
   Outside the model: pairing of separate module procedures with their interfaces, generic
   type-bound bindings (resolved among the type's own bindings), inherited components/bindings,
   namelists and call chains (all_vars), enumerators, common blocks. *)
From Ford Require Import Base.Str.

Inductive cls := CProc | CAbs | CType.
Definition cls_eqb (a b : cls) : bool :=
  match a, b with CProc, CProc | CAbs, CAbs | CType, CType => true | _, _ => false end.

(* an entity is identified by its path: unit name, enclosing scopes, own name *)
Definition ent := list str.
Definition ent_eqb (a b : ent) : bool := list_eqb str_eqb a b.
Definition table := list (str * ent).

(* what a declaration refers to: type(n) / class(n), or procedure(n) *)
Inductive tyref := TRType (n : str) | TRProc (n : str).
Record var := { v_name : str; v_ref : option tyref }.
(* a non-generic type-bound procedure:  procedure[(proto)][, deferred] :: name => targets *)
Record binding := { b_name : str; b_deferred : bool; b_proto : option str; b_targets : list str }.
Record dtype := { t_name : str; t_extends : option str; t_comps : list var;
                  t_binds : list binding; t_finals : list str }.
(* interface g; module procedure p1, p2 *)
Record generic := { g_name : str; g_modprocs : list str }.

Inductive skind :=
  | KUnit     (* module, program, external procedure, block data: its parent (the file) has no tables *)
  | KProc     (* a procedure contained in a unit or in another procedure *)
  | KBody     (* the body of an interface / abstract interface block: reached through the interface
                 object, which aliases its host's all_procs, all_types, all_absinterfaces *)
  | KSub.     (* a submodule: a unit whose host is its parent submodule (if it has one) or else its
                 ancestor module, a unit finished before; its own declarations hide the host's *)

Record srec := {
  s_path : list str;                 (* unit name ... scope name *)
  s_kind : skind;
  s_procs : list str;                (* keys of its own all_procs, in insertion order: contained functions
                                        and subroutines, then named interfaces / interface bodies *)
  s_abs : list str;                  (* its abstract interfaces *)
  s_types : list dtype;
  s_generics : list generic;
  s_vars : list var;                 (* variables, then dummy arguments (and the result variable) *)
  s_imports : list (cls * (str * ent));     (* use-associated names, in merge order *)
  s_host : list str }.                      (* KSub: path of the parent submodule or ancestor module unit
                                               that FORD found ([] if none); [] for every other scope *)

Inductive event := Enter (Sc : srec) | Exit.

(* ------------------------------------------------------------------ store
   one store per class of dictionary: a table id of one class never denotes a table of another *)
Definition store := list (nat * table).
Fixpoint st_get (i : nat) (st : store) : table :=
  match st with
  | [] => []
  | (j, t) :: st' => if Nat.eqb i j then t else st_get i st'
  end.
Fixpoint st_set (i : nat) (t : table) (st : store) : store :=
  match st with
  | [] => [(i, t)]
  | (j, t') :: st' => if Nat.eqb i j then (i, t) :: st' else (j, t') :: st_set i t st'
  end.
Definition update (t : table) (l : list (str * ent)) : table :=
  fold_left (fun t kv => assoc_set (fst kv) (snd kv) t) l t.
Record stores := { sp : store; sa : store; sy : store }.   (* procedures, abstract interfaces, types *)
Definition store_of (ss : stores) (c : cls) : store :=
  match c with CProc => sp ss | CAbs => sa ss | CType => sy ss end.

(* the table ids of a scope, by class *)
Record env := { e_scope : srec; e_procs : nat; e_abs : nat; e_types : nat }.
Definition tid (E : env) (c : cls) : nat :=
  match c with CProc => e_procs E | CAbs => e_abs E | CType => e_types E end.
Definition tab (ss : stores) (E : env) (c : cls) : table := st_get (tid E c) (store_of ss c).

(* ------------------------------------------------------------------ slots *)
Inductive sdesc :=
  | SVar (v : str)                       (* proto[0] of a variable / dummy argument *)
  | SComp (t v : str)                    (* proto[0] of a component *)
  | SExtends (t : str)                   (* extends *)
  | SBindTarget (t b : str) (i : nat)    (* bindings[i] of a non-deferred, non-generic binding *)
  | SBindProto (t b : str)               (* proto of a binding: procedure(iface) *)
  | SFinal (t : str) (i : nat)           (* procedure of the i-th final *)
  | SCtor (t : str)                      (* constructor *)
  | SModproc (g : str) (i : nat).        (* procedure of the i-th module procedure of a generic *)
(* which dictionaries a lookup goes through: all_types; all_procs; all_procs then all_absinterfaces *)
Inductive look := LType | LProc | LProcAbs.
(* a reference to be resolved: where, which slot, how, which name *)
Record req := { q_scope : list str; q_slot : sdesc; q_look : look; q_name : str }.
(* a resolved (or not) reference: the entity found, None = the name stays a string *)
Record res := { r_scope : list str; r_slot : sdesc; r_look : look; r_name : str; r_ent : option ent }.
Definition resolver := look -> str -> option ent.
Definition answer (R : resolver) (q : req) : res :=
  {| r_scope := q_scope q; r_slot := q_slot q; r_look := q_look q; r_name := q_name q;
     r_ent := R (q_look q) (q_name q) |}.

Fixpoint indexed {A} (i : nat) (l : list A) : list (nat * A) :=
  match l with [] => [] | x :: l' => (i, x) :: indexed (S i) l' end.
Definition var_reqs (P : list str) (mk : str -> sdesc) (vs : list var) : list req :=
  flat_map (fun v => match v_ref v with
                     | Some (TRType n) => [{| q_scope := P; q_slot := mk (v_name v); q_look := LType; q_name := n |}]
                     | Some (TRProc n) => [{| q_scope := P; q_slot := mk (v_name v); q_look := LProcAbs; q_name := n |}]
                     | None => []
                     end) vs.
Definition type_reqs (P : list str) (T : dtype) : list req :=
  (match t_extends T with
   | Some n => [{| q_scope := P; q_slot := SExtends (t_name T); q_look := LType; q_name := n |}]
   | None => []
   end)
  ++ var_reqs P (SComp (t_name T)) (t_comps T)
  ++ flat_map (fun b =>
       (match b_proto b with
        | Some n => [{| q_scope := P; q_slot := SBindProto (t_name T) (b_name b); q_look := LProcAbs; q_name := n |}]
        | None => []
        end)
       ++ (if b_deferred b then []
           else map (fun it => {| q_scope := P; q_slot := SBindTarget (t_name T) (b_name b) (fst it);
                                  q_look := LProc; q_name := snd it |}) (indexed 0 (b_targets b)))) (t_binds T)
  ++ map (fun it => {| q_scope := P; q_slot := SFinal (t_name T) (fst it); q_look := LProc; q_name := snd it |})
         (indexed 0 (t_finals T))
  ++ [{| q_scope := P; q_slot := SCtor (t_name T); q_look := LProc; q_name := t_name T |}].
Definition generic_reqs (P : list str) (G : generic) : list req :=
  map (fun it => {| q_scope := P; q_slot := SModproc (g_name G) (fst it); q_look := LProc; q_name := snd it |})
      (indexed 0 (g_modprocs G)).
(* resolved when the scope is set up (derived types are correlated before the contained
   procedures; the generic interfaces only read all_procs, which no later step changes) *)
Definition enter_reqs (Sc : srec) : list req :=
  flat_map (type_reqs (s_path Sc)) (s_types Sc) ++ flat_map (generic_reqs (s_path Sc)) (s_generics Sc).
(* resolved after the contained procedures and interface bodies have been correlated *)
Definition exit_reqs (Sc : srec) : list req := var_reqs (s_path Sc) SVar (s_vars Sc).

Definition model_resolver (ss : stores) (E : env) : resolver :=
  fun lk n =>
  match lk with
  | LType => assoc_get n (tab ss E CType)
  | LProc => assoc_get n (tab ss E CProc)
  | LProcAbs => match assoc_get n (tab ss E CProc) with
                | Some e => Some e
                | None => assoc_get n (tab ss E CAbs)
                end
  end.

(* ------------------------------------------------------------------ traversal *)
(* st_units: the environments of the units correlated so far (their dictionaries stay in the store) *)
Record state := { st_stores : stores; st_next : nat; st_stack : list env; st_out : list res;
                  st_units : list (list str * env) }.
Definition init_state : state :=
  {| st_stores := {| sp := []; sa := []; sy := [] |}; st_next := 0; st_stack := []; st_out := [];
     st_units := [] |}.
Fixpoint find_unit_env (units : list (list str * env)) (p : list str) : option env :=
  match units with
  | [] => None
  | (q, E) :: us => if list_eqb str_eqb q p then Some E else find_unit_env us p
  end.

Definition own (Sc : srec) (names : list str) : list (str * ent) :=
  map (fun n => (n, s_path Sc ++ [n])) names.
Definition imports_of (Sc : srec) (c : cls) : list (str * ent) :=
  map snd (filter (fun i => cls_eqb (fst i) c) (s_imports Sc)).
Definition own_names (Sc : srec) (c : cls) : list str :=
  match c with
  | CProc => s_procs Sc
  | CAbs => s_abs Sc
  | CType => map t_name (s_types Sc)
  end.

Definition parent_env (Sc : srec) (stack : list env) : option env :=
  match s_kind Sc, stack with
  | KUnit, _ => None
  | KSub, _ => None
  | _, E :: _ => Some E
  | _, [] => None
  end.
(* the scope whose dictionaries are copied: the enclosing scope; for a submodule its host unit *)
Definition host_env (Sc : srec) (s : state) : option env :=
  match s_kind Sc with
  | KSub => find_unit_env (st_units s) (s_host Sc)
  | _ => parent_env Sc (st_stack s)
  end.
(* a dictionary without the keys in [names] *)
Definition drop (names : list str) (t : table) : table :=
  filter (fun kv => negb (str_in (fst kv) names)) t.
(* the dictionary of class c of scope Sc, [base] being its host's:
     {**host's, **own declarations}, then .update(names from USED modules);
   all_procs: the host's entries named like an abstract interface of Sc (declared there, or
   obtained from a USED module) are left out *)
Definition abs_names (Sc : srec) : list str := s_abs Sc ++ map fst (imports_of Sc CAbs).
Definition scope_table (Sc : srec) (c : cls) (base : table) : table :=
  update (update (match c with CProc => drop (abs_names Sc) base | _ => base end)
                 (own Sc (own_names Sc c))) (imports_of Sc c).
Definition enter_scope (Sc : srec) (s : state) : state :=
  let ss := st_stores s in
  let n := st_next s in
  let mk := fun c => scope_table Sc c (match host_env Sc s with Some E => tab ss E c | None => [] end) in
  let ia := n in
  let it := n in
  let ss' := {| sp := st_set n (mk CProc) (sp ss); sa := st_set ia (mk CAbs) (sa ss);
                sy := st_set it (mk CType) (sy ss) |} in
  let E := {| e_scope := Sc; e_procs := n; e_abs := ia; e_types := it |} in
  {| st_stores := ss'; st_next := S n; st_stack := E :: st_stack s;
     st_out := st_out s ++ map (answer (model_resolver ss' E)) (enter_reqs Sc); st_units := st_units s |}.

Definition exit_scope (s : state) : state :=
  match st_stack s with
  | [] => s
  | E :: rest =>
    {| st_stores := st_stores s; st_next := st_next s; st_stack := rest;
       st_out := st_out s ++ map (answer (model_resolver (st_stores s) E)) (exit_reqs (e_scope E));
       st_units := match rest with
                   | [] => st_units s ++ [(s_path (e_scope E), E)]     (* a unit is finished *)
                   | _ => st_units s
                   end |}
  end.
Definition step (s : state) (ev : event) : state :=
  match ev with Enter Sc => enter_scope Sc s | Exit => exit_scope s end.
Definition correlate (evs : list event) : list res := st_out (fold_left step evs init_state).

(* ancestor_module / parent_submodule of a submodule: the first unit of that name *)
Fixpoint find_unit (units : list str) (n : str) : option str :=
  match units with
  | [] => None
  | u :: us => if str_eqb (lower u) (lower n) then Some u else find_unit us n
  end.

(* ------------------------------------------------------------------ Spec
   Fortran 2018 19.4 / 19.5.1.4 (host association), 14.2.2 (use association): a name denotes the
   entity declared in (or use-associated into) the innermost enclosing scoping unit that has such
   an identifier; nothing declared in a sibling or a contained scoping unit is visible. *)
Definition scopes_of (evs : list event) : list srec :=
  flat_map (fun ev => match ev with Enter Sc => [Sc] | Exit => [] end) evs.
(* the identifiers of class c a scope has itself: own declarations, then use-associated names *)
Definition local_lookup (Sc : srec) (c : cls) (n : str) : option ent :=
  if str_in n (own_names Sc c) then Some (s_path Sc ++ [n])
  else assoc_get n (imports_of Sc c).
Definition find_scope (all : list srec) (p : list str) : option srec :=
  find (fun Sc => list_eqb str_eqb (s_path Sc) p) all.
(* look in the scope with path p, then in its host (path without the last name), and so on *)
(* the host of the scope with path p: the enclosing scope; for a submodule its parent submodule or
   ancestor module *)
Definition next_path (all : list srec) (p : list str) : list str :=
  match find_scope all p with
  | Some Sc => match s_host Sc with [] => removelast p | h => h end
  | None => removelast p
  end.
Fixpoint resolve_fuel {A} (fuel : nat) (all : list srec) (p : list str) (lookf : srec -> option A) : option A :=
  match fuel with
  | 0 => None
  | S f =>
    match (match find_scope all p with Some Sc => lookf Sc | None => None end) with
    | Some e => Some e
    | None => match p with [] => None | _ :: _ => resolve_fuel f all (next_path all p) lookf end
    end
  end.
Definition walk {A} (all : list srec) (p : list str) (lookf : srec -> option A) : option A :=
  resolve_fuel (S (length p + length all)) all p lookf.
(* the names of procedures and of abstract interfaces are local identifiers of one kind (Fortran
   2018 19.3.1 class (1)): the innermost scope that has n in either role decides what n is there.
   true: a procedure; false: an abstract interface *)
Definition look_pa (Sc : srec) (n : str) : option (bool * ent) :=
  match local_lookup Sc CProc n with
  | Some e => Some (true, e)
  | None => match local_lookup Sc CAbs n with Some e => Some (false, e) | None => None end
  end.
(* type(n): the type n; a procedure name n (binding target, final, module procedure, constructor):
   n if it denotes a procedure; procedure(n): n, procedure or abstract interface *)
Definition spec_resolver (all : list srec) (p : list str) : resolver :=
  fun lk n =>
  match lk with
  | LType => walk all p (fun Sc => local_lookup Sc CType n)
  | LProc => match walk all p (fun Sc => look_pa Sc n) with Some (true, e) => Some e | _ => None end
  | LProcAbs => match walk all p (fun Sc => look_pa Sc n) with Some (_, e) => Some e | None => None end
  end.

(* the Spec's answer for every slot of a unit *)
Definition spec (evs : list event) : list res :=
  let all := scopes_of evs in
  flat_map (fun Sc => map (answer (spec_resolver all (s_path Sc))) (enter_reqs Sc ++ exit_reqs Sc)) all.

(* ------------------------------------------------------------------ well-formed input *)
(* events are well bracketed; a unit is entered on an empty stack, every other scope inside its
   host, its path being the host's path plus one name; the host unit of a submodule has been
   finished before; paths are pairwise different *)
Fixpoint wf_ev (closed stack : list (list str)) (evs : list event) : bool :=
  match evs with
  | [] => match stack with [] => true | _ => false end
  | Enter Sc :: evs' =>
    (match stack, s_kind Sc with
     | [], KUnit => Nat.eqb (length (s_path Sc)) 1 && Nat.eqb (length (s_host Sc)) 0
     | [], KSub => Nat.eqb (length (s_path Sc)) 1
                   && (Nat.eqb (length (s_host Sc)) 0 || existsb (list_eqb str_eqb (s_host Sc)) closed)
     | p :: _, KProc | p :: _, KBody =>
       list_eqb str_eqb (removelast (s_path Sc)) p && negb (Nat.eqb (length (s_path Sc)) 0)
       && Nat.eqb (length (s_host Sc)) 0
     | _, _ => false
     end) && wf_ev closed (s_path Sc :: stack) evs'
  | Exit :: evs' => match stack with
                    | [] => false
                    | [p] => wf_ev (closed ++ [p]) [] evs'
                    | _ :: st => wf_ev closed st evs'
                    end
  end.
Fixpoint nodup_paths (l : list (list str)) : bool :=
  match l with
  | [] => true
  | p :: l' => negb (existsb (list_eqb str_eqb p) l') && nodup_paths l'
  end.
Definition wf_events (evs : list event) : bool :=
  wf_ev [] [] evs && nodup_paths (map s_path (scopes_of evs)).

(* every declaration and use-associated name of class c in the unit *)
Definition all_decls (c : cls) (all : list srec) : list (str * ent) :=
  flat_map (fun Sc => own Sc (own_names Sc c) ++ imports_of Sc c) all.
Fixpoint functional_b (l : list (str * ent)) : bool :=
  match l with
  | [] => true
  | (n, e) :: l' => forallb (fun kv => negb (str_eqb (fst kv) n) || ent_eqb (snd kv) e) l' && functional_b l'
  end.
(* legality of the unit as far as this property needs it: in one scope a name obtained by use
   association is not declared again, and is not obtained twice for different entities *)
Definition scope_legal (Sc : srec) : bool :=
  forallb (fun c => functional_b (imports_of Sc c)
                    && forallb (fun n => negb (str_in n (map fst (imports_of Sc c)))) (own_names Sc c))
          [CProc; CAbs; CType].
Definition scopes_legal (evs : list event) : bool := forallb scope_legal (scopes_of evs).
(* the name is not declared or use-associated anywhere in the unit, in any role *)
Definition mentioned (evs : list event) (n : str) : bool :=
  let all := scopes_of evs in
  str_in n (map fst (all_decls CType all ++ all_decls CProc all ++ all_decls CAbs all)).
