(* Sem/CallsBridge.v — the reference heads the model finds level by level against the references the
   Spec collects in pre-order. *)
From Coq Require Import ZArith Lia.
From Ford Require Import Base.Str Base.StrFacts Gen.Intrinsics Sem.Calls Sem.CallsSpec Sem.CallsDefs Sem.CallsStrip Sem.CallsScan
  Sem.CallsStmt Sem.CallsProofs.

(* ------------------------------------------------------------------ level order against pre-order *)
Lemma deep_heads_app d : forall l1 l2, deep_heads d (l1 ++ l2) = deep_heads d l1 ++ deep_heads d l2.
Proof.
  induction d as [|d IH]; intros l1 l2; cbn [deep_heads]; [apply flat_map_app|].
  rewrite flat_map_app. apply IH.
Qed.

Lemma deep_heads_in d es e ch : In e es -> In ch (deep_heads d [e]) -> In ch (deep_heads d es).
Proof.
  intros Hin Hch. apply in_split in Hin as (l1 & l2 & ->).
  change (l1 ++ e :: l2) with (l1 ++ [e] ++ l2). rewrite !deep_heads_app, !in_app_iff. tauto.
Qed.

Lemma deep_heads_ex d es ch : In ch (deep_heads d es) -> exists e, In e es /\ In ch (deep_heads d [e]).
Proof.
  induction es as [|e es IH]; intros H.
  - exfalso. revert H. clear. induction d; cbn; auto.
  - change (e :: es) with ([e] ++ es) in H. rewrite deep_heads_app, in_app_iff in H. destruct H as [H|H].
    + exists e. split; [now left|exact H].
    + destruct (IH H) as (e' & Hin & Hch). exists e'. split; [now right|exact Hch].
Qed.

Lemma deep_heads_S d e : deep_heads (S d) [e] = deep_heads d (subs_e e).
Proof. cbn [deep_heads flat_map]. now rewrite app_nil_r. Qed.


Lemma refs_d_split :
  (forall e : expr, True) /\
  (forall d pre ch, In ch (refs_d pre d) <-> In ch (self_refs_d pre d) \/ In ch (arg_refs_d d)).
Proof.
  split; [trivial|]. induction d as [x|x a|x r IH|x a r IH]; intros pre ch; cbn [refs_d self_refs_d arg_refs_d].
  - tauto.
  - cbn [In]. tauto.
  - apply IH.
  - cbn [In]. rewrite !in_app_iff, IH. tauto.
Qed.

(* the head the model finds is the last of these *)
Lemma head_chain_last d : forall pre c, d_head_chain d = Some c -> self_refs_d pre d <> [] /\ last (self_refs_d pre d) [] = pre ++ c.
Proof.
  induction d as [x|x a|x r IH|x a r IH]; intros pre c H; cbn [d_head_chain self_refs_d] in *.
  - discriminate.
  - injection H as <-. split; [discriminate|reflexivity].
  - destruct (d_head_chain r) as [c'|]; [|discriminate]. injection H as <-.
    destruct (IH (pre ++ [lower x]) c' eq_refl) as [Hn Hl]. split; [exact Hn|]. rewrite Hl, <- app_assoc. reflexivity.
  - injection H as <-. destruct (d_head_chain r) as [c'|] eqn:E.
    + destruct (IH (pre ++ [lower x]) c' eq_refl) as [Hn Hl]. split; [discriminate|].
      destruct (self_refs_d (pre ++ [lower x]) r) eqn:Es; [contradiction|]. cbn [last] in *. rewrite Hl, <- app_assoc. reflexivity.
    + split; [discriminate|].
      assert (Hnil : forall p, self_refs_d p r = []).
      { clear -E. induction r as [y|y b|y r' IHr|y b r' IHr]; intros p; cbn [d_head_chain self_refs_d] in *;
          try reflexivity; try discriminate. destruct (d_head_chain r'); [discriminate|]. now apply IHr. }
      rewrite Hnil. reflexivity.
Qed.

Lemma head_chain_none d : d_head_chain d = None -> forall pre, self_refs_d pre d = [].
Proof.
  induction d as [y|y b|y r' IHr|y b r' IHr]; intros E p; cbn [d_head_chain self_refs_d] in *;
    try reflexivity; try discriminate. destruct (d_head_chain r'); [discriminate|]. now apply IHr.
Qed.



Lemma in_removelast_or {A} (l : list A) (d x : A) : In x l -> In x (removelast l) \/ x = last l d.
Proof.
  induction l as [|a l IH]; intros H; [contradiction|].
  destruct l as [|b l]; [destruct H as [<-|[]]; now right|].
  destruct H as [<-|H]; [left; now left|]. destruct (IH H) as [H1|H1]; [left; now right|right; exact H1].
Qed.

Lemma in_removelast {A} (l : list A) x : In x (removelast l) -> In x l.
Proof.
  induction l as [|a l IH]; intros H; [contradiction|]. destruct l as [|b l]; [contradiction|].
  destruct H as [<-|H]; [now left|right; now apply IH].
Qed.

Lemma d_heads0_in d ch : In ch (d_heads0 d) <-> d_head_chain d = Some ch.
Proof. unfold d_heads0. destruct (d_head_chain d); cbn; split; intros H; try tauto; try discriminate.
  - destruct H as [<-|[]]. reflexivity. - injection H as <-. now left. Qed.

(* arguments of a designator are its parenthesised parts *)
Lemma arg_refs_subs d ch : In ch (arg_refs_d d) <-> exists a, In a (subs_d d) /\ In ch (refs_e a).
Proof.
  induction d as [x|x a|x r IH|x a r IH]; cbn [arg_refs_d subs_d].
  - split; [contradiction|intros (a & [] & _)].
  - split; [intros H; exists a; split; [now left|exact H]|intros (a' & [<-|[]] & H); exact H].
  - exact IH.
  - rewrite in_app_iff, IH. split.
    + intros [H|(a' & Hin & H)]; [exists a; split; [now left|exact H]|exists a'; split; [now right|exact H]].
    + intros (a' & [<-|Hin] & H); [now left|right; eauto].
Qed.
Lemma inner_args_subs d ch : In ch (inner_args d) <-> exists a, In a (subs_d d) /\ In ch (inner_e a).
Proof.
  induction d as [x|x a|x r IH|x a r IH]; cbn [inner_args subs_d].
  - split; [contradiction|intros (a & [] & _)].
  - split; [intros H; exists a; split; [now left|exact H]|intros (a' & [<-|[]] & H); exact H].
  - exact IH.
  - rewrite in_app_iff, IH. split.
    + intros [H|(a' & Hin & H)]; [exists a; split; [now left|exact H]|exists a'; split; [now right|exact H]].
    + intros (a' & [<-|Hin] & H); [now left|right; eauto].
Qed.

(* (1) every head the model finds at some level is a reference of the Spec *)
Lemma heads0_refs :
  (forall e ch, In ch (e_heads0 e) -> In ch (refs_e e)) /\ (forall d : desig, True).
Proof.
  split; [|trivial]. induction e as [t|d|e IH|op e IH|a IHa op b IHb]; intros ch H; cbn [e_heads0 refs_e] in *.
  - contradiction.
  - apply d_heads0_in in H. apply (proj2 refs_d_split). left.
    destruct (head_chain_last d [] ch H) as [Hn Hl]. cbn [app] in Hl.
    destruct (exists_last Hn) as (l' & z & E). rewrite E in Hl |- *. rewrite last_last in Hl. subst z.
    apply in_or_app. right. now left.
  - contradiction.
  - now apply IH.
  - apply in_app_iff in H. apply in_app_iff. destruct H; [left; now apply IHa|right; now apply IHb].
Qed.

Lemma subs_refs :
  (forall e e' ch, In e' (subs_e e) -> In ch (refs_e e') -> In ch (refs_e e)) /\ (forall d : desig, True).
Proof.
  split; [|trivial]. induction e as [t|d|e IH|op e IH|a IHa op b IHb]; intros e' ch Hs Hr; cbn [subs_e refs_e] in *.
  - contradiction.
  - apply (proj2 refs_d_split). right. apply arg_refs_subs. eauto.
  - destruct Hs as [<-|[]]. exact Hr.
  - eapply IH; eauto.
  - apply in_app_iff in Hs. apply in_app_iff. destruct Hs; [left; eapply IHa; eauto|right; eapply IHb; eauto].
Qed.

Lemma deep_heads_refs d : forall es ch, In ch (deep_heads d es) -> exists e, In e es /\ In ch (refs_e e).
Proof.
  induction d as [|d IH]; intros es ch H; cbn [deep_heads] in H.
  - apply in_flat_map in H as (e & Hin & Hch). exists e. split; [exact Hin|now apply (proj1 heads0_refs)].
  - destruct (IH _ _ H) as (e' & Hin & Hch). apply in_flat_map in Hin as (e & He & He').
    exists e. split; [exact He|]. exact (proj1 subs_refs e e' ch He' Hch).
Qed.

(* (2) every reference of the Spec is found at some level, or is an inner part of a designator *)
Lemma refs_heads :
  (forall e ch, In ch (refs_e e) -> In ch (inner_e e) \/ exists d, In ch (deep_heads d [e])) /\
  (forall d ch, In ch (arg_refs_d d) -> In ch (inner_args d) \/ exists k a, In a (subs_d d) /\ In ch (deep_heads k [a])).
Proof.
  apply expr_desig_ind.
  - intros t ch H. contradiction.
  - intros d IH ch H. cbn [refs_e inner_e] in *. apply (proj2 refs_d_split) in H. destruct H as [H|H].
    + destruct (d_head_chain d) as [c|] eqn:E.
      * destruct (head_chain_last d [] c E) as [Hn Hl]. cbn [app] in Hl.
        destruct (in_removelast_or _ [] ch H) as [Hi|He].
        -- left. apply in_app_iff. left. exact Hi.
        -- right. exists 0. cbn [deep_heads flat_map e_heads0]. rewrite app_nil_r. apply d_heads0_in. rewrite E. f_equal. subst ch. symmetry. exact Hl.
      * rewrite (head_chain_none d E []) in H. contradiction.
    + destruct (IH ch H) as [Hi|(k & a & Ha & Hk)].
      * left. apply in_app_iff. now right.
      * right. exists (S k). rewrite deep_heads_S. cbn [subs_e]. exact (deep_heads_in k _ a ch Ha Hk).
  - intros e IH ch H. cbn [refs_e inner_e] in *. destruct (IH ch H) as [Hi|(k & Hk)]; [now left|].
    right. exists (S k). rewrite deep_heads_S. cbn [subs_e]. exact Hk.
  - intros op e IH ch H. cbn [refs_e inner_e] in *. destruct (IH ch H) as [Hi|(k & Hk)]; [now left|].
    right. exists k. destruct k; [exact Hk|]. rewrite deep_heads_S in *. exact Hk.
  - intros a IHa op b IHb ch H. cbn [refs_e inner_e] in *. apply in_app_iff in H. destruct H as [H|H].
    + destruct (IHa ch H) as [Hi|(k & Hk)]; [left; apply in_app_iff; now left|].
      right. exists k. destruct k.
      * cbn [deep_heads flat_map e_heads0] in *. rewrite app_nil_r in *. apply in_app_iff. now left.
      * rewrite deep_heads_S in *. cbn [subs_e]. rewrite deep_heads_app. apply in_app_iff. now left.
    + destruct (IHb ch H) as [Hi|(k & Hk)]; [left; apply in_app_iff; now right|].
      right. exists k. destruct k.
      * cbn [deep_heads flat_map e_heads0] in *. rewrite app_nil_r in *. apply in_app_iff. now right.
      * rewrite deep_heads_S in *. cbn [subs_e]. rewrite deep_heads_app. apply in_app_iff. now right.
  - intros x ch H. contradiction.
  - intros x a IH ch H. cbn [arg_refs_d inner_args subs_d] in *. destruct (IH ch H) as [Hi|(k & Hk)]; [now left|].
    right. exists k, a. split; [now left|exact Hk].
  - intros x r IH ch H. cbn [arg_refs_d inner_args subs_d] in *. exact (IH ch H).
  - intros x a IHa r IHr ch H. cbn [arg_refs_d inner_args subs_d] in *. apply in_app_iff in H. destruct H as [H|H].
    + destruct (IHa ch H) as [Hi|(k & Hk)]; [left; apply in_app_iff; now left|].
      right. exists k, a. split; [now left|exact Hk].
    + destruct (IHr ch H) as [Hi|(k & a' & Ha' & Hk)]; [left; apply in_app_iff; now right|].
      right. exists k, a'. split; [now right|exact Hk].
Qed.

Lemma seg_sub_refs g e' ch : In e' (subs_seg g) -> In ch (refs_e e') -> In ch (seg_refs g).
Proof.
  destruct g as [w|kw sp c|e]; cbn [subs_seg seg_refs]; intros Hs Hr.
  - contradiction.
  - destruct Hs as [<-|[]]. exact Hr.
  - exact (proj1 subs_refs e e' ch Hs Hr).
Qed.

