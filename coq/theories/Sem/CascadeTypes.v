(* Sem/CascadeTypes.v -- vocabulary of the statement-classification cascade of
   ford.sourceform.FortranContainer.__init__ (the if/elif chain over regular expressions that
   decides what a logical line is).  The generated table Gen/Cascade.v is written in these terms.
   Definitions only. *)
From Ford Require Import Base.Str.

(* the regular expressions the chain consults; each has a hand-written recogniser in Sem/Cascade.v *)
Inductive re_id :=
| FORMAT_RE | ATTRIB_RE | END_RE | MODPROC_RE | BLOCK_DATA_RE | BLOCK_RE | ASSOCIATE_RE
| MODULE_RE | SUBMODULE_RE | PROGRAM_RE | SUBROUTINE_RE | NAMELIST_RE | FUNCTION_RE | TYPE_RE
| INTERFACE_RE | ENUM_RE | BOUNDPROC_RE | COMMON_RE | FINAL_RE | VARIABLE_RE | USE_RE
| ARITH_GOTO_RE | CALL_RE | SUBCALL_RE.

(* the condition of one branch *)
Inductive cond :=
| CEqLower (lit : str)             (* line_lower == lit *)
| CInLower (lits : list str)       (* line_lower in [lits] *)
| CMatch (r : re_id)               (* self.R.match(line) *)
| CSearch (r : re_id)              (* self.R.search(line) *)
| CLevel0                          (* blocklevel == 0 *)
| CInContains                      (* incontains *)
| CGroup (r : re_id) (g : str)     (* match[g] of the match just made with R is not empty *)
| CIsInstance (cls : str)          (* isinstance(self, cls) *)
| CAnd (a b : cond)
| COr (a b : cond).

(* one branch: condition, and a summary of the body -- hasattr(self, ..) tests, isinstance(self, ..)
   tests, entity constructors called, effects on the loop state *)
Record branch := mkbranch {
  br_cond : cond;
  br_hasattr : list str;
  br_isinstance : list str;
  br_calls : list str;
  br_effects : list str
}.

Definition re_name (r : re_id) : str :=
  match r with
  | FORMAT_RE => s "FORMAT_RE" | ATTRIB_RE => s "ATTRIB_RE" | END_RE => s "END_RE"
  | MODPROC_RE => s "MODPROC_RE" | BLOCK_DATA_RE => s "BLOCK_DATA_RE" | BLOCK_RE => s "BLOCK_RE"
  | ASSOCIATE_RE => s "ASSOCIATE_RE" | MODULE_RE => s "MODULE_RE" | SUBMODULE_RE => s "SUBMODULE_RE"
  | PROGRAM_RE => s "PROGRAM_RE" | SUBROUTINE_RE => s "SUBROUTINE_RE" | NAMELIST_RE => s "NAMELIST_RE"
  | FUNCTION_RE => s "FUNCTION_RE" | TYPE_RE => s "TYPE_RE" | INTERFACE_RE => s "INTERFACE_RE"
  | ENUM_RE => s "ENUM_RE" | BOUNDPROC_RE => s "BOUNDPROC_RE" | COMMON_RE => s "COMMON_RE"
  | FINAL_RE => s "FINAL_RE" | VARIABLE_RE => s "VARIABLE_RE" | USE_RE => s "USE_RE"
  | ARITH_GOTO_RE => s "ARITH_GOTO_RE" | CALL_RE => s "CALL_RE" | SUBCALL_RE => s "SUBCALL_RE"
  end.
