(* Sem/UseAssoc.v — model of FORD's USE association (property C06) and the independent Spec.
   Definitions only; proofs are in Sem/UseAssocProofs.v.

   Mirrors:
     ford/sourceform.py   FortranModule._cleanup            -> own_pub / own_all
                          FortranCodeUnit.process_attribs   -> public_list / private_list
                          FortranModule.get_used_entities, renamed_entities
                                                            -> used_entities / use_hidden
                          FortranCodeUnit.correlate (USE part, should_be_public, filter_public)
                                                            -> use_step / correlate_module
     ford/fortran_project.py  find_used_modules             -> find_module (first module of that name)
                          get_deps + toposort_flatten       -> deps / toposort (levels; ties in list order)
                          Project.correlate (ranklist loop) -> correlate_all (fold in a given order)

   FORD keeps four independent dictionaries per scope (procedures, abstract interfaces, types,
   variables) and treats them identically; the model is parametrised by the class [c] of the
   dictionary.  Names are assumed lower-cased (Corr/C06.v lower-cases the harness input, as FORD
   lower-cases every key).

   Scopes nested in a module (module procedures, internal procedures, interface bodies) with USE
   statements of their own are carried as [m_nested]: they feed the dependency order (get_deps) and
   [nested_imports_model] gives what their USE statements add to their dictionaries.

   Outside the model: submodules, external modules (ExternalModule objects), operator / assignment
   generic-specs in ONLY lists, how the accessibility of own declarations is computed (C04: d_perm
   is an input), and the declarations local to nested scopes (C07).  Since /repo 3f6f480 a scope's
   dictionaries are copies of its host's: the module's dictionaries are compared exactly, and of a
   nested scope's dictionary the use-associated part is compared exactly (Corr/C06.v).
   A program unit is projected as a module that nobody uses (only its all_* dictionaries are
   compared). *)
From Ford Require Import Base.Str.

Inductive perm := Public | Private | Protected.
Inductive kind := KVar | KType | KProc | KGeneric | KAbs | KProcPtr.
Inductive cls := CProc | CAbs | CType | CVar.

(* which dictionaries an own declaration of a module goes to.  A procedure pointer declared in a
   module is a variable and, by FortranModule._cleanup, also an entry of all_procs/pub_procs. *)
Definition kind_in_cls (k : kind) (c : cls) : bool :=
  match k, c with
  | KVar, CVar | KType, CType | KProc, CProc | KGeneric, CProc | KAbs, CAbs => true
  | KProcPtr, CVar | KProcPtr, CProc => true
  | _, _ => false
  end.
Definition cls_eqb (a b : cls) : bool :=
  match a, b with CProc, CProc | CAbs, CAbs | CType, CType | CVar, CVar => true | _, _ => false end.
Definition all_cls : list cls := [CProc; CAbs; CType; CVar].
Definition is_private (p : perm) : bool := match p with Private => true | _ => false end.
Definition is_public (p : perm) : bool := match p with Public => true | _ => false end.

Record decl := { d_name : str; d_kind : kind; d_perm : perm }.

(* USE t [, rename-list]            : u_only = None,       u_renames = the (local, remote) pairs
   USE t, ONLY: only-list           : u_only = Some items, an item [x] is (x, x), [l => r] is (l, r) *)
(* u_intrinsic: the statement is written USE, INTRINSIC :: t *)
Record use_stmt := { u_target : str; u_only : option (list (str * str)); u_renames : list (str * str);
                     u_intrinsic : bool }.

(* m_access: PUBLIC/PRIVATE statements naming entities that are not declared in the module itself
   (true = public).  The accessibility of own declarations is already resolved in d_perm (C04). *)
(* A scope nested in a module that has USE statements of its own: a module procedure, an internal
   procedure, or the body of an interface.  [s_path] names the scopes from the module's child down
   to the scope itself, [s_kinds] their kinds (same length).  The list of nested scopes of a
   module is flat; hosts are recovered from the paths. *)
Inductive nkind := NRoutine    (* function / subroutine: in `routines` of its host *)
                 | NIfBody     (* body of a non-generic, non-abstract interface block *)
                 | NAbsBody    (* body of an abstract interface block *)
                 | NGenBody.   (* body written inside a generic interface block *)
Record nscope := { s_path : list str; s_kinds : list nkind; s_decls : list decl; s_uses : list use_stmt }.

Record module := { m_name : str; m_default : perm; m_decls : list decl;
                   m_access : list (str * bool); m_uses : list use_stmt; m_nested : list nscope }.
(* is the scope the body of an interface *)
Definition is_body (S : nscope) : bool :=
  match last (s_kinds S) NRoutine with NRoutine => false | _ => true end.

Definition graph := list module.

(* an entity is identified by its defining module and its declared name *)
Definition ent := (str * str)%type.
Definition ent_eqb (a b : ent) : bool := str_eqb (fst a) (fst b) && str_eqb (snd a) (snd b).
Definition table := list (str * ent).

Definition names (g : graph) : list str := map m_name g.
Fixpoint find_module (g : graph) (n : str) : option module :=
  match g with
  | [] => None
  | M :: g' => if str_eqb (m_name M) n then Some M else find_module g' n
  end.

(* ------------------------------------------------------------------ Model *)

(* find_used_modules: a USEd name is matched with the first candidate of that name in
   chain(modules, external_modules) -- the project's modules in project order, then the link
   objects for settings.extra_mods (which always holds settings.INTRINSIC_MODS); a name that some
   statement of the scope uses with the module nature INTRINSIC (scope.intrinsic_uses, a set of
   names) is matched among the link objects only.  So, outside intrinsic_uses, a project module is
   found whenever one has the name ([find_used_spec], UseAssocProofs), which is why [used_module]
   below uses [find_module]: an ExternalModule has empty tables and a name that matches nothing
   stays a string, either way the statement adds no entry. *)
Inductive cand := CMod (M : module) | CExt (n : str).
Definition cand_name (x : cand) : str := match x with CMod M => m_name M | CExt n => n end.
Definition chain (g : list module) (ext : list str) : list cand := map CMod g ++ map CExt ext.
Fixpoint first_match (l : list cand) (n : str) : option cand :=
  match l with
  | [] => None
  | x :: l' => if str_eqb (cand_name x) n then Some x else first_match l' n
  end.
Definition find_used (g : list module) (ext : list str) (n : str) : option cand := first_match (chain g ext) n.
(* a name in scope.intrinsic_uses: only the link objects are candidates *)
Definition find_used_in (g : list module) (ext : list str) (intrinsic : bool) (n : str) : option cand :=
  if intrinsic then first_match (map CExt ext) n else find_used g ext n.

(* dict.update / repeated item assignment *)
Definition update {V} (t : list (str * V)) (l : list (str * V)) : list (str * V) :=
  fold_left (fun t kv => assoc_set (fst kv) (snd kv) t) l t.

Definition decls_of (c : cls) (M : module) : list decl :=
  filter (fun d => kind_in_cls (d_kind d) c) (m_decls M).
Definition entry (M : module) (d : decl) : str * ent := (d_name d, (m_name M, d_name d)).

(* _cleanup: all_<c> holds every own declaration, pub_<c> those whose permission is public or
   protected *)
Definition own_all (c : cls) (M : module) : table := update [] (map (entry M) (decls_of c M)).
Definition own_pub (c : cls) (M : module) : table :=
  update [] (map (entry M) (filter (fun d => negb (is_private (d_perm d))) (decls_of c M))).

Definition declared (M : module) (n : str) : bool := str_in n (map d_name (m_decls M)).
(* process_attribs: own entities with permission == "public", then the names left in attr_dict
   (not matched by an own declaration) that carry a "public" attribute *)
Definition public_list (M : module) : list str :=
  map d_name (filter (fun d => is_public (d_perm d)) (m_decls M))
  ++ map fst (filter (fun a => snd a && negb (declared M (fst a))) (m_access M)).
(* ... and those that carry a "private" attribute *)
Definition private_list (M : module) : list str :=
  map fst (filter (fun a => negb (snd a) && negb (declared M (fst a))) (m_access M)).
Definition should_be_public (M : module) (n : str) : bool :=
  str_in n (public_list M) || (is_public (m_default M) && negb (str_in n (private_list M))).
Definition filter_public (M : module) (t : table) : table :=
  filter (fun kv => should_be_public M (fst kv)) t.

(* renamed_entities: the names of the used module that a USE statement gives another local name *)
Definition proper_renames (u : use_stmt) : list (str * str) :=
  filter (fun lr => negb (str_eqb (fst lr) (snd lr)))
         (match u_only u with Some items => items | None => u_renames u end).
(* FortranCodeUnit.correlate: per used module, the names renamed by any USE statement of the scope *)
Definition use_hidden (M : module) (t : str) : list str :=
  flat_map (fun u => if str_eqb (u_target u) t then map snd (proper_renames u) else []) (m_uses M).

(* get_used_entities: the items (local name, name in the module) in statement order; each item
   whose name the module exports adds result[local] = entity.  Without ONLY the result starts
   with every exported entity whose name is not renamed (by this statement or, [hid], by another
   USE statement of the same module in the scope). *)
Definition rename_list (tpub : table) (items : list (str * str)) : list (str * ent) :=
  flat_map (fun lr => match assoc_get (snd lr) tpub with Some e => [(fst lr, e)] | None => [] end) items.
Definition used_entities (tpub : table) (hid : list str) (u : use_stmt) : table :=
  match u_only u with
  | None => update (filter (fun kv => negb (str_in (fst kv) hid)) tpub) (rename_list tpub (u_renames u))
  | Some items => update [] (rename_list tpub items)
  end.

(* intrinsic_uses of the scope holds t: some USE statement of the scope for t says INTRINSIC *)
Definition scope_intrinsic (M : module) (t : str) : bool :=
  existsb (fun u => u_intrinsic u && str_eqb (u_target u) t) (m_uses M).
(* the project module a USE statement of scope M is matched with *)
Definition used_module (g : graph) (M : module) (u : use_stmt) : option module :=
  if scope_intrinsic M (u_target u) then None else find_module g (u_target u).

(* one USE statement of M; [h] gives the current (pub, all) tables of a module object *)
Definition tabs := (table * table)%type.
Definition use_step (g : graph) (M : module) (h : module -> tabs) (acc : tabs) (u : use_stmt) : tabs :=
  match used_module g M u with
  | None => acc                      (* the name stays a string: skipped *)
  | Some T =>
    let used := used_entities (fst (h T)) (use_hidden M (u_target u)) u in
    (update (fst acc) (filter_public M used), update (snd acc) used)
  end.
Definition mstep (c : cls) (g : graph) (M : module) (h : module -> tabs) (pub0 : table) : tabs :=
  fold_left (use_step g M h) (m_uses M) (pub0, own_all c M).

(* the state: the tables of every module object, keyed by module name *)
Definition state := list (str * tabs).
Definition init_state (c : cls) (g : graph) : state :=
  map (fun M => (m_name M, (own_pub c M, own_all c M))) g.
Definition st_tabs (st : state) (M : module) : tabs :=
  match assoc_get (m_name M) st with Some t => t | None => ([], []) end.
Definition correlate_module (c : cls) (g : graph) (st : state) (n : str) : state :=
  match find_module g n with
  | None => st
  | Some M => assoc_set n (mstep c g M (st_tabs st) (fst (st_tabs st M))) st
  end.
Definition correlate_all (c : cls) (g : graph) (order : list str) : state :=
  fold_left (correlate_module c g) order (init_state c g).

(* A nested scope S of module M is correlated inside M.correlate, i.e. when exactly the modules
   before M in the processing order have merged their imports.  The entries its own USE statements
   add to its dictionaries are those of the module rule applied with an empty PUBLIC filter;
   [as_module] views the scope as a module for that purpose. *)
Fixpoint before (n : str) (o : list str) : list str :=
  match o with
  | [] => []
  | x :: o' => if str_eqb x n then [] else x :: before n o'
  end.
Definition as_module (M : module) (S : nscope) : module :=
  {| m_name := m_name M; m_default := Public; m_decls := s_decls S; m_access := []; m_uses := s_uses S;
     m_nested := [] |}.
Definition nested_imports_model (c : cls) (g : graph) (order : list str) (M : module) (S : nscope) : table :=
  snd (fold_left (use_step g (as_module M S) (st_tabs (correlate_all c g (before (m_name M) order))))
                 (s_uses S) ([], [])).
(* the hosts of S inside M (S included): the nested scopes whose path is a prefix of S's *)
Fixpoint prefix_b (a b : list str) : bool :=
  match a, b with
  | [], _ => true
  | x :: a', y :: b' => str_eqb x y && prefix_b a' b'
  | _ :: _, [] => false
  end.
Fixpoint insert_by_depth (H : nscope) (l : list nscope) : list nscope :=
  match l with
  | [] => [H]
  | X :: l' => if Nat.leb (length (s_path H)) (length (s_path X)) then H :: l else X :: insert_by_depth H l'
  end.
(* outermost host first *)
Definition hosts (M : module) (S : nscope) : list nscope :=
  fold_right insert_by_depth [] (filter (fun H => prefix_b (s_path H) (s_path S)) (m_nested M)).
(* what an inner scope adds hides the same-named entries it gets from its host: the names it
   obtains by use association (merged last into its copy of the host's dictionary) and its local
   declarations (which this model does not carry: their names are just dropped) *)
Definition layer (outer : list (str * ent)) (locals : list str) (inner : list (str * ent)) : list (str * ent) :=
  inner ++ filter (fun kv => negb (str_in (fst kv) (map fst inner)) && negb (str_in (fst kv) locals)) outer.
(* what the dictionary of class c of scope S holds when S is correlated, apart from declarations
   local to procedures: the module's dictionary (host association: every scope starts from a copy
   of its host's dictionary), over it what the USE statements of each host add, outermost first,
   and last what S's own USE statements add *)
Definition nested_lower_model (c : cls) (g : graph) (order : list str) (M : module) (S : nscope) : list (str * ent) :=
  match c, is_body S with
  | CVar, true =>
    (* FortranInterface.correlate hands all_procs, all_types and all_absinterfaces of the host to
       the body but no all_vars: the body's procedure starts from an empty dictionary *)
    nested_imports_model c g order M S
  | _, _ => fold_left (fun acc H => layer acc (map d_name (s_decls H)) (nested_imports_model c g order M H))
                      (hosts M S) (snd (st_tabs (correlate_all c g order) M))
  end.

(* toposort_flatten over {module: modules it uses}: self-dependencies are discarded, every round
   takes the modules all of whose dependencies are done; None = CircularDependencyError *)
(* get_deps: the USE statements of the module and, recursively, those of its routines and of the
   procedure bodies of its interface blocks of every kind (plain, abstract, generic); likewise
   find_used_modules matches the USE statements of all of them with module objects *)
(* (a name in intrinsic_uses of its scope is matched with a link object: no dependency) *)
Definition scope_targets (M : module) : list str :=
  map u_target (filter (fun u => negb (scope_intrinsic M (u_target u))) (m_uses M)).
Definition nested_targets (M : module) : list str :=
  flat_map (fun S => scope_targets (as_module M S)) (m_nested M).
Definition resolved_targets (g : graph) (M : module) : list str :=
  filter (fun t => str_in t (names g)) (scope_targets M ++ nested_targets M).
Definition deps (g : graph) (M : module) : list str :=
  filter (fun t => negb (str_eqb t (m_name M))) (resolved_targets g M).
Fixpoint topo_rounds (fuel : nat) (g : graph) (rem : list module) (done : list str) : option (list str) :=
  match rem with
  | [] => Some done
  | _ :: _ =>
    match fuel with
    | 0 => None
    | S f =>
      let ready := fun M => forallb (fun t => str_in t done) (deps g M) in
      match filter ready rem with
      | [] => None
      | r => topo_rounds f g (filter (fun M => negb (ready M)) rem) (done ++ map m_name r)
      end
    end
  end.
Definition toposort (g : graph) : option (list str) := topo_rounds (length g) g g [].

(* Project.correlate restricted to modules *)
Definition ford_tables (c : cls) (g : graph) : option state :=
  match toposort g with Some o => Some (correlate_all c g o) | None => None end.

(* [order] lists every module once and every module after the modules it uses (a module that
   names itself in a USE statement is not a dependency of itself, as in toposort) *)
Definition no_self_use (g : graph) : bool :=
  forallb (fun M => forallb (fun u => negb (str_eqb (u_target u) (m_name M)))
                            (m_uses M ++ flat_map s_uses (m_nested M))) g.
Fixpoint nodup_b (l : list str) : bool :=
  match l with [] => true | x :: l' => negb (str_in x l') && nodup_b l' end.
Fixpoint topo_from (g : graph) (seen : list str) (o : list str) : bool :=
  match o with
  | [] => true
  | n :: o' =>
    match find_module g n with
    | None => false
    | Some M => forallb (fun t => str_in t seen) (deps g M) && topo_from g (n :: seen) o'
    end
  end.
Definition topo_b (g : graph) (o : list str) : bool :=
  nodup_b (names g) && nodup_b o && forallb (fun n => str_in n o) (names g)
  && forallb (fun n => str_in n (names g)) o && topo_from g [] o.

(* ------------------------------------------------------------------ Spec
   Fortran 2018 14.2.2 (USE statement), 8.5.2 / 8.6.1 (accessibility), written from the standard.
   The result of a scope is a set of pairs (local identifier, entity). *)

Definition own_public (c : cls) (M : module) : list (str * ent) :=
  map (entry M) (filter (fun d => negb (is_private (d_perm d))) (decls_of c M)).
Definition own_scope (c : cls) (M : module) : list (str * ent) := map (entry M) (decls_of c M).

(* use-names that appear in a rename (local => name, local different from name) of any USE
   statement of M for module t: Fortran 2018 14.2.2 *)
Definition hidden (M : module) (t : str) : list str :=
  flat_map (fun u => if str_eqb (u_target u) t
                     then map snd (filter (fun lr => negb (str_eqb (fst lr) (snd lr)))
                                          (match u_only u with Some items => items | None => u_renames u end))
                     else []) (m_uses M).

Definition pick (items : list (str * str)) (accT : list (str * ent)) : list (str * ent) :=
  flat_map (fun lr => map (fun re => (fst lr, snd re))
                          (filter (fun re => str_eqb (fst re) (snd lr)) accT)) items.
(* identifiers given by one USE statement of M to the accessible entities [accT] of its module:
   with ONLY, the only-use-names and the local names of its renames; without, the local names of
   its renames and the module's own identifier unless that is a use-name of some rename *)
Definition import_stmt (M : module) (u : use_stmt) (accT : list (str * ent)) : list (str * ent) :=
  match u_only u with
  | Some items => pick items accT
  | None => pick (u_renames u) accT
            ++ filter (fun re => negb (str_in (fst re) (hidden M (u_target u)))) accT
  end.
(* the module a USE statement designates (Fortran 2018 14.2.2): with the module nature INTRINSIC an
   intrinsic module, never a module of the project; with NON_INTRINSIC, or without a module nature,
   the nonintrinsic module of that name if there is one (of several project modules of one name,
   excluded by wf_graph, the first).  Entities of intrinsic and other external modules are not
   entities of the project: such a statement contributes nothing here. *)
Definition spec_module (g : graph) (u : use_stmt) : option module :=
  if u_intrinsic u then None else find_module g (u_target u).
Definition imports (g : graph) (M : module) (acc : module -> list (str * ent)) : list (str * ent) :=
  flat_map (fun u => match spec_module g u with
                     | Some T => import_stmt M u (acc T)
                     | None => []
                     end) (m_uses M).
(* accessibility in M of an identifier obtained by use association: an access statement naming
   it, otherwise the default of M *)
Definition reexported (M : module) (n : str) : bool :=
  match assoc_get n (m_access M) with
  | Some b => b
  | None => is_public (m_default M)
  end.

(* approximants: [accessible_n f] follows chains of at most f re-exporting modules; f = number of
   modules is enough on an acyclic graph (UseAssocProofs.accessible_fuel_enough) *)
Fixpoint accessible_n (f : nat) (c : cls) (g : graph) (M : module) : list (str * ent) :=
  match f with
  | 0 => own_public c M
  | S f' => own_public c M
            ++ filter (fun ne => reexported M (fst ne)) (imports g M (accessible_n f' c g))
  end.
Definition accessible (c : cls) (g : graph) (M : module) := accessible_n (length g) c g M.
(* every identifier of class c that scope M can reference *)
Definition scope (c : cls) (g : graph) (M : module) : list (str * ent) :=
  own_scope c M ++ imports g M (accessible_n (length g) c g).

(* nested scopes: identifiers of class c that scope S of module M obtains by use association
   (its own USE statements), and the use-associated or module-level identifiers it can reference
   (its own, those of its hosts, the module's scope by host association) *)
Definition nested_imports (c : cls) (g : graph) (M : module) (S : nscope) : list (str * ent) :=
  imports g (as_module M S) (accessible_n (length g) c g).
(* an interface body has no host association (without IMPORT): only its own USE statements count.
   Elsewhere (Fortran 2018 19.4, 19.5.1.4): an identifier obtained by use association or declared
   in an inner scope hides the host-associated entity of that name *)
Definition nested_lower_spec (c : cls) (g : graph) (M : module) (S : nscope) : list (str * ent) :=
  if is_body S then nested_imports c g M S
  else fold_left (fun acc H => layer acc (map d_name (s_decls H)) (nested_imports c g M H))
                 (hosts M S) (scope c g M).

(* ------------------------------------------------------------------ comparison, wf *)

Fixpoint functional_b (l : list (str * ent)) : bool :=
  match l with
  | [] => true
  | (n, e) :: l' => forallb (fun kv => negb (str_eqb (fst kv) n) || ent_eqb (snd kv) e) l' && functional_b l'
  end.
Definition in_b (n : str) (e : ent) (l : list (str * ent)) : bool :=
  existsb (fun kv => str_eqb (fst kv) n && ent_eqb (snd kv) e) l.
(* a dictionary (distinct keys) denotes the set of pairs l *)
Definition table_is (t : table) (l : list (str * ent)) : bool :=
  forallb (fun kv => in_b (fst kv) (snd kv) l) t
  && forallb (fun kv => match assoc_get (fst kv) t with Some e => ent_eqb e (snd kv) | None => false end) l.

(* legality of the program as far as this property needs it: module names distinct, names
   declared in a module distinct, access statements of m_access name no own declaration, no
   module uses itself, in every scope an identifier denotes one entity (over all classes), and
   no identifier obtained by use association is declared again in the scope *)
Definition scope_all (g : graph) (M : module) : list (str * ent) := flat_map (fun c => scope c g M) all_cls.
Definition wf_module (g : graph) (M : module) : bool :=
  nodup_b (map d_name (m_decls M))
  && forallb (fun a => negb (declared M (fst a))) (m_access M)
  && nodup_b (map fst (m_access M))
  && forallb (fun u => negb (str_eqb (u_target u) (m_name M))) (m_uses M)
  && functional_b (scope_all g M)
  && forallb (fun ne => negb (declared M (fst ne)))
             (flat_map (fun c => imports g M (accessible_n (length g) c g)) all_cls).
(* nested scopes: the identifiers a scope obtains by use association are unambiguous *)
Definition wf_nested (g : graph) (M : module) (S : nscope) : bool :=
  functional_b (flat_map (fun c => nested_imports c g M S) all_cls)
  && forallb (fun ne => negb (str_in (fst ne) (map d_name (s_decls S))))
             (flat_map (fun c => nested_imports c g M S) all_cls).
(* Fortran 2018 C1412: a scoping unit does not reference an intrinsic module and a nonintrinsic
   module of the same name: if a statement of the scope says USE, INTRINSIC :: t, no statement of
   the scope for t without INTRINSIC finds a module t of the project *)
Definition nature_legal_m (g : graph) (M : module) : bool :=
  forallb (fun u => negb (u_intrinsic u)
                    || forallb (fun u' => negb (str_eqb (u_target u) (u_target u')) || u_intrinsic u'
                                          || match find_module g (u_target u') with Some _ => false | None => true end)
                               (m_uses M))
          (m_uses M).
Definition nature_legal (g : graph) : bool :=
  forallb (fun M => nature_legal_m g M && forallb (fun S => nature_legal_m g (as_module M S)) (m_nested M)) g.
Definition wf_graph (g : graph) : bool :=
  nature_legal g && nodup_b (names g) && forallb (wf_module g) g
  && forallb (fun M => forallb (wf_nested g M) (m_nested M)) g
  && forallb (fun M => forallb (fun u => negb (str_eqb (u_target u) (m_name M)))
                               (flat_map s_uses (m_nested M))) g.

(* the tables FORD ends with for module M denote exactly the Spec's sets *)
Definition tables_ok (c : cls) (g : graph) (st : state) (M : module) : Prop :=
  (forall n e, assoc_get n (fst (st_tabs st M)) = Some e <-> In (n, e) (accessible c g M)) /\
  (forall n e, assoc_get n (snd (st_tabs st M)) = Some e <-> In (n, e) (scope c g M)).
Definition tables_ok_b (c : cls) (g : graph) (st : state) (M : module) : bool :=
  table_is (fst (st_tabs st M)) (accessible c g M) && table_is (snd (st_tabs st M)) (scope c g M).

(* an entity that is a non-private declaration of class c of a module of g *)
Definition exported_decl (c : cls) (g : graph) (e : ent) : Prop :=
  exists T d, In T g /\ m_name T = fst e /\ In d (decls_of c T) /\ d_name d = snd e /\ is_private (d_perm d) = false.
