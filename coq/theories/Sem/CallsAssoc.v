(* Sem/CallsAssoc.v — the ASSOCIATE statement in the model: ASSOCIATE_RE, the split of the association
   list, Associations.add_batch; the batch it adds is the one the Spec adds. *)
From Coq Require Import ZArith Lia.
From Ford Require Import Base.Str Base.StrFacts Gen.Intrinsics Sem.Calls Sem.CallsSpec Sem.CallsDefs Sem.CallsStrip
  Sem.CallsScan Sem.CallsStmt Sem.CallsProofs Sem.CallsBridge Sem.CallsGate.

(* ------------------------------------------------------------------ lookups: model = Spec *)
Lemma batch_get_rev k b : forall found,
  batch_get k b found = match assoc_get k (rev b) with Some v => Some v | None => found end.
Proof.
  induction b as [|[k' v] b IH]; intros found; [reflexivity|]. cbn [batch_get rev]. rewrite IH.
  assert (Happ : forall (l : list (str * option chain)) x, assoc_get k (l ++ [x]) =
                 match assoc_get k l with Some v => Some v | None => if str_eqb k (fst x) then Some (snd x) else None end).
  { induction l as [|[k1 v1] l IHl]; intros [kx vx]; cbn [app assoc_get fst snd]; [reflexivity|].
    destruct (str_eqb k k1); [reflexivity|]. apply IHl. }
  rewrite Happ. cbn [fst snd]. destruct (assoc_get k (rev b)); [reflexivity|]. destruct (str_eqb k k'); reflexivity.
Qed.

Lemma assocs_get_aenv k rb : assocs_get_rev k rb = aenv_get k rb.
Proof.
  induction rb as [|b rb IH]; [reflexivity|]. cbn [assocs_get_rev aenv_get]. rewrite batch_get_rev, IH.
  destruct (assoc_get k (rev b)); reflexivity.
Qed.

Lemma subst_head_expand (a : assocs) ch : subst_head a ch = expand a ch.
Proof.
  destruct ch as [|h t]; [reflexivity|]. cbn [subst_head expand]. unfold assocs_get. rewrite assocs_get_aenv.
  unfold assocs, batch, aenv in *. destruct (aenv_get h (rev a)) as [[v|]|]; reflexivity.
Qed.

(* ------------------------------------------------------------------ Python string functions on selector text *)
Lemma replace_fuel_enough o old new n : forall x f1 f2, length x <= n -> n <= f1 -> n <= f2 ->
  replace_fuel f1 (o :: old) new x = replace_fuel f2 (o :: old) new x.
Proof.
  induction n as [|n IH]; intros x f1 f2 Hx H1 H2.
  - destruct x; [|cbn in Hx; lia]. destruct f1, f2; reflexivity.
  - destruct f1 as [|f1]; [lia|]. destruct f2 as [|f2]; [lia|]. cbn [replace_fuel].
    destruct x as [|c x]; [reflexivity|].
    destruct (starts_with (o :: old) (c :: x)).
    + f_equal. apply IH; try lia. cbn [length skipn].
      pose proof (skipn_length (length old) x). cbn [length] in Hx. lia.
    + f_equal. apply IH; try lia. cbn [length] in Hx. lia.
Qed.

Definition rp (x : str) : str := replace par2 [] x.

Lemma replace_fuel_S f old new c x :
  replace_fuel (S f) old new (c :: x) =
  if starts_with old (c :: x) then new ++ replace_fuel f old new (skipn (length old) (c :: x))
  else c :: replace_fuel f old new x.
Proof. reflexivity. Qed.

Lemma rp_cons c x : Ascii.eqb lpar c = false -> rp (c :: x) = c :: rp x.
Proof.
  intros H. unfold rp, replace, par2. change (length (c :: x)) with (S (length x)). rewrite replace_fuel_S.
  assert (E : starts_with [lpar; rpar] (c :: x) = false) by (cbn [starts_with]; now rewrite H). now rewrite E.
Qed.
Lemma rp_nil : rp [] = [].
Proof. reflexivity. Qed.
Lemma rp_par x : rp (lpar :: rpar :: x) = rp x.
Proof.
  unfold rp, replace, par2. change (length (lpar :: rpar :: x)) with (S (S (length x))). rewrite replace_fuel_S.
  assert (E : starts_with [lpar; rpar] (lpar :: rpar :: x) = true) by reflexivity. rewrite E.
  change (skipn (length [lpar; rpar]) (lpar :: rpar :: x)) with x. cbn [app].
  apply (replace_fuel_enough _ _ _ (length x)); lia.
Qed.

Definition nonspace (c : ascii) : bool := negb (Ascii.eqb c space).
(* .replace("()", "").replace(" ", "") *)
Definition squeeze (x : str) : str := filter nonspace (rp x).

Lemma word_not_lpar' c : is_word c = true -> Ascii.eqb lpar c = false.
Proof. intros H. rewrite Ascii.eqb_sym. now apply word_not_lpar. Qed.
Lemma word_nonspace c : is_word c = true -> nonspace c = true.
Proof. destruct c as [[|] [|] [|] [|] [|] [|] [|] [|]]; intros H; try discriminate H; reflexivity. Qed.

Lemma squeeze_words w x : forallb is_word w = true -> squeeze (w ++ x) = w ++ squeeze x.
Proof.
  induction w as [|c w IH]; intros H; [reflexivity|]. cbn [forallb] in H. apply andb_true_iff in H as [Hc H].
  unfold squeeze in *. cbn [app]. rewrite (rp_cons c _ (word_not_lpar' c Hc)). cbn [filter].
  rewrite (word_nonspace c Hc), (IH H). reflexivity.
Qed.
Lemma squeeze_par x : squeeze (lpar :: rpar :: x) = squeeze x.
Proof. unfold squeeze. now rewrite rp_par. Qed.
Lemma squeeze_pct x : squeeze (pct :: x) = pct :: squeeze x.
Proof. unfold squeeze. rewrite rp_cons by reflexivity. reflexivity. Qed.
Lemma squeeze_space x : squeeze (space :: x) = squeeze x.
Proof. unfold squeeze. rewrite rp_cons by reflexivity. reflexivity. Qed.

Lemma lower_app a b : lower (a ++ b) = lower a ++ lower b.
Proof. unfold lower. apply map_app. Qed.

(* the level-0 text of a designator, lower case, without "()": the names joined by "%" *)
Lemma squeeze_sh_d d : wf_d d = true -> split_on pct [] (squeeze (lower (sh_d d))) = names_d d.
Proof.
  induction d as [x|x a|x r IH|x a r IH]; intros Hwf; pose proof (wf_d_name _ Hwf) as Hn; cbn [sh_d names_d].
  - pose proof (lower_words x (proj1 (name_wordy x Hn))) as Hl.
    rewrite <- (app_nil_r (lower x)) at 1. rewrite (squeeze_words _ [] Hl). cbn [squeeze rp filter]. rewrite !app_nil_r.
    now rewrite (split_on_word [] (lower x) Hl).
  - destruct Hn as [Hx _]. pose proof (lower_words x (proj1 (name_wordy x Hx))) as Hl.
    rewrite lower_app, (squeeze_words _ _ Hl). cbn [lower map]. change (lower_ch lpar) with lpar. change (lower_ch rpar) with rpar.
    rewrite squeeze_par. cbn [squeeze rp filter]. rewrite app_nil_r. now rewrite (split_on_word [] (lower x) Hl).
  - destruct Hn as [Hx Hr]. pose proof (lower_words x (proj1 (name_wordy x Hx))) as Hl.
    rewrite lower_app, (squeeze_words _ _ Hl). cbn [lower map]. change (lower_ch pct) with pct. fold (lower (sh_d r)).
    rewrite squeeze_pct, (split_on_word_pct [] (lower x) _ Hl), (IH Hr). reflexivity.
  - destruct Hn as (Hx & _ & Hr). pose proof (lower_words x (proj1 (name_wordy x Hx))) as Hl.
    rewrite lower_app, (squeeze_words _ _ Hl). cbn [lower map]. change (lower_ch lpar) with lpar. change (lower_ch rpar) with rpar.
    change (lower_ch pct) with pct. fold (lower (sh_d r)).
    rewrite squeeze_par, squeeze_pct, (split_on_word_pct [] (lower x) _ Hl), (IH Hr). reflexivity.
Qed.

Lemma names_d_words d : wf_d d = true -> forallb (fun p => negb (is_nil p) && forallb is_word p) (names_d d) = true.
Proof.
  assert (Hx : forall x, name_ok x = true -> negb (is_nil (lower x)) && forallb is_word (lower x) = true).
  { intros x H. destruct (name_wordy x H) as [Hw Hne]. rewrite (lower_words x Hw). destruct x; [contradiction|reflexivity]. }
  induction d as [x|x a|x r IH|x a r IH]; intros Hwf; pose proof (wf_d_name _ Hwf) as Hn; cbn [names_d forallb].
  - now rewrite (Hx x Hn).
  - destruct Hn as [Hn _]. now rewrite (Hx x Hn).
  - destruct Hn as [Hn Hr]. now rewrite (Hx x Hn), (IH Hr).
  - destruct Hn as (Hn & _ & Hr). now rewrite (Hx x Hn), (IH Hr).
Qed.

(* Associations.add_batch on a designator selector: the chain of its names *)
Lemma assoc_target_d d : wf_d d = true -> assoc_target (space :: sh_d d) = Some (names_d d).
Proof.
  intros Hwf. unfold assoc_target. cbn [lower map]. change (lower_ch space) with space. fold (lower (sh_d d)).
  change (filter (fun c => negb (Ascii.eqb c space)) (replace [lpar; rpar] [] (space :: lower (sh_d d))))
    with (squeeze (space :: lower (sh_d d))).
  rewrite squeeze_space, (squeeze_sh_d d Hwf), (names_d_words d Hwf). reflexivity.
Qed.

(* ------------------------------------------------------------------ paren_split on level-0 text *)
(* in level-0 text every "(" is followed at once by ")" *)
Fixpoint flatpar (x : str) : bool :=
  match x with
  | [] => true
  | c :: x' =>
    if Ascii.eqb c lpar then match x' with d :: x'' => Ascii.eqb d rpar && flatpar x'' | [] => false end
    else negb (Ascii.eqb c rpar) && flatpar x'
  end.

Lemma flatpar_app_n n : forall a b, length a <= n -> flatpar a = true -> flatpar (a ++ b) = flatpar b.
Proof.
  induction n as [|n IH]; intros a b Hl H.
  - destruct a; [reflexivity|cbn in Hl; lia].
  - destruct a as [|c a]; [reflexivity|]. cbn [flatpar app length] in *.
    destruct (Ascii.eqb c lpar).
    + destruct a as [|d a]; [discriminate|]. apply andb_true_iff in H as [Hd H]. cbn [app]. rewrite Hd. cbn [andb].
      apply IH; [cbn [length] in Hl; lia|exact H].
    + apply andb_true_iff in H as [Hc H]. rewrite Hc. cbn [andb]. apply IH; [lia|exact H].
Qed.
Lemma flatpar_app a b : flatpar a = true -> flatpar (a ++ b) = flatpar b.
Proof. apply (flatpar_app_n (length a)). apply le_n. Qed.

Lemma flatpar_noparen t : no_paren t = true -> flatpar t = true.
Proof.
  induction t as [|c t IH]; intros H; [reflexivity|]. rewrite no_paren_cons in H.
  apply andb_true_iff in H as [H Ht]. apply andb_true_iff in H as [H1 H2]. apply negb_true_iff in H1.
  cbn [flatpar]. rewrite H1, H2. now apply IH.
Qed.

Lemma flatpar_sh_d d : wf_d d = true -> flatpar (sh_d d) = true.
Proof.
  induction d as [x|x a|x r IH|x a r IH]; intros Hwf; pose proof (wf_d_name _ Hwf) as Hn; cbn [sh_d].
  - apply flatpar_noparen, word_no_paren. exact (proj1 (name_wordy x Hn)).
  - destruct Hn as [Hx _]. rewrite flatpar_app; [reflexivity|]. apply flatpar_noparen, word_no_paren. exact (proj1 (name_wordy x Hx)).
  - destruct Hn as [Hx Hr]. rewrite flatpar_app; [|apply flatpar_noparen, word_no_paren; exact (proj1 (name_wordy x Hx))].
    cbn [flatpar]. change (Ascii.eqb pct lpar) with false. change (Ascii.eqb pct rpar) with false. cbn [negb andb]. now apply IH.
  - destruct Hn as (Hx & _ & Hr). rewrite flatpar_app; [|apply flatpar_noparen, word_no_paren; exact (proj1 (name_wordy x Hx))].
    cbn [flatpar]. change (Ascii.eqb lpar lpar) with true. change (Ascii.eqb rpar rpar) with true.
    change (Ascii.eqb pct lpar) with false. change (Ascii.eqb pct rpar) with false. cbn [negb andb]. now apply IH.
Qed.

Lemma flatpar_sh_e e : wf_e e = true -> flatpar (sh_e e) = true.
Proof.
  induction e as [t|d|e IH|op e IH|a IHa op b IHb]; intros Hwf; cbn [wf_e sh_e] in *.
  - exact (flatpar_noparen t (inert_from_no_paren false t (lit_ok_inert t Hwf))).
  - now apply flatpar_sh_d.
  - reflexivity.
  - apply andb_true_iff in Hwf as [Hop He]. rewrite flatpar_app; [now apply IH|].
    exact (flatpar_noparen op (inert_from_no_paren false op (unop_ok_inert op Hop))).
  - apply andb_true_iff in Hwf as [Hwf Hb]. apply andb_true_iff in Hwf as [Ha Hop].
    rewrite flatpar_app by now apply IHa. rewrite flatpar_app; [now apply IHb|].
    exact (flatpar_noparen op (inert_from_no_paren false op (op_ok_inert op Hop))).
Qed.

Lemma nosep_app a b : nosep (a ++ b) = nosep a && nosep b.
Proof. unfold nosep. apply forallb_app. Qed.

(* paren_split does not cut inside such a text *)
Lemma psplit_flat_n n : forall t cur rest, length t <= n -> flatpar t = true -> nosep t = true ->
  psplit comma 0 0 cur (t ++ rest) = psplit comma 0 0 (cur ++ t) rest.
Proof.
  induction n as [|n IH]; intros t cur rest Hl Hf Hn.
  { destruct t; [now rewrite app_nil_r|cbn in Hl; lia]. }
  destruct t as [|c t]; [now rewrite app_nil_r|].
  cbn [flatpar] in Hf. cbn [nosep forallb] in Hn. apply andb_true_iff in Hn as [Hc Hn].
  apply negb_true_iff in Hc. apply orb_false_iff in Hc as [Hc H3]. apply orb_false_iff in Hc as [H1 H2].
  destruct (Ascii.eqb c lpar) eqn:El.
  - destruct t as [|d t]; [discriminate|]. apply andb_true_iff in Hf as [Hd Hf]. apply Ascii.eqb_eq in El, Hd. subst c d.
    cbn [nosep forallb] in Hn. apply andb_true_iff in Hn as [_ Hn].
    cbn [app psplit]. change (Ascii.eqb lpar lpar) with true. cbn iota.
    change (Ascii.eqb rpar lpar) with false. change (Ascii.eqb rpar rpar) with true. cbn iota.
    change (0 + 1 - 1)%Z with 0%Z. rewrite (IH t); [|cbn [length] in Hl; lia|exact Hf|exact Hn].
    now rewrite <- !app_assoc.
  - apply andb_true_iff in Hf as [Hr Hf]. apply negb_true_iff in Hr.
    cbn [app psplit]. rewrite El, Hr, H2, H3, H1. cbn [andb]. rewrite (IH t); [|cbn [length] in Hl; lia|exact Hf|exact Hn].
    now rewrite <- app_assoc.
Qed.
Lemma psplit_flat t cur rest : flatpar t = true -> nosep t = true ->
  psplit comma 0 0 cur (t ++ rest) = psplit comma 0 0 (cur ++ t) rest.
Proof. apply (psplit_flat_n (length t)). apply le_n. Qed.

(* ------------------------------------------------------------------ split("=>"), strip() *)
Lemma split_arrow_free u : forall cur, arrow_free u = true -> split_arrow cur u = [cur ++ u].
Proof.
  induction u as [|a u IH]; intros cur H; [cbn; now rewrite app_nil_r|].
  cbn [split_arrow]. destruct u as [|b u']; [reflexivity|].
  cbn [arrow_free] in H. apply andb_true_iff in H as [Hab H]. apply negb_true_iff in Hab. rewrite Hab.
  rewrite (IH _ H). now rewrite <- app_assoc.
Qed.

Definition eq_ch : ascii := "="%char.
Definition gt_ch : ascii := ">"%char.
Definition noeq (t : str) : bool := forallb (fun c => negb (Ascii.eqb c eq_ch)) t.

Lemma split_arrow_at t : forall cur u, noeq t = true ->
  split_arrow cur (t ++ eq_ch :: gt_ch :: u) = (cur ++ t) :: split_arrow [] u.
Proof.
  induction t as [|a t IH]; intros cur u H.
  - cbn [app split_arrow]. change (Ascii.eqb eq_ch "="%char && Ascii.eqb gt_ch ">"%char) with true. cbn iota. now rewrite app_nil_r.
  - cbn [noeq forallb] in H. apply andb_true_iff in H as [Ha H]. apply negb_true_iff in Ha.
    cbn [app split_arrow]. destruct (t ++ eq_ch :: gt_ch :: u) as [|b x''] eqn:E; [destruct t; discriminate|].
    unfold eq_ch in Ha. rewrite Ha. cbn [andb]. rewrite <- E, (IH _ _ H). now rewrite <- app_assoc.
Qed.

Lemma lstrip_word c x : is_word c = true -> lstrip (c :: x) = c :: x.
Proof. intros H. cbn [lstrip]. now rewrite (word_not_space c H). Qed.

Lemma strip_name lead n : forallb is_space lead = true -> wordy n -> strip (lead ++ n ++ [space]) = n.
Proof.
  intros Hl Hn. unfold strip.
  assert (E1 : lstrip (lead ++ n ++ [space]) = n ++ [space]).
  { induction lead as [|c lead IH]; cbn [app].
    - destruct (wordy_hd n Hn) as (c & w & -> & Hc). cbn [app]. now apply lstrip_word.
    - cbn [forallb] in Hl. apply andb_true_iff in Hl as [Hc Hl]. cbn [lstrip]. rewrite Hc. now apply IH. }
  rewrite E1. unfold rstrip. rewrite rev_app_distr. cbn [rev app lstrip]. change (is_space space) with true. cbn iota.
  destruct (rev n) as [|c r] eqn:Er.
  - apply (f_equal (@rev ascii)) in Er. rewrite rev_involutive in Er. destruct Hn as [_ Hne]. now contradiction Hne.
  - assert (Hc : is_word c = true).
    { destruct Hn as [Hw _]. rewrite forallb_forall in Hw. apply Hw. apply in_rev. rewrite Er. now left. }
    rewrite (lstrip_word c r Hc), <- Er. apply rev_involutive.
Qed.

(* ------------------------------------------------------------------ ASSOCIATE_RE on a rendered header *)
Lemma no_nl_existsb x : no_nl x = true -> existsb (Ascii.eqb nl) x = false.
Proof. unfold no_nl. intros H. now apply negb_true_iff in H. Qed.

Lemma rstrip_rpar body : rstrip (body ++ [rpar]) = body ++ [rpar].
Proof.
  unfold rstrip. rewrite rev_app_distr. cbn [rev app lstrip]. change (is_space rpar) with false. cbn iota.
  change (rpar :: rev body) with ([rpar] ++ rev body). rewrite rev_app_distr, rev_involutive. reflexivity.
Qed.

Lemma associate_re_render sp body : body <> [] -> no_nl body = true ->
  associate_re (s "associate" ++ kw_sp sp ++ lpar :: body ++ [rpar]) = Some body.
Proof.
  intros Hne Hnl.
  set (x := s "associate" ++ kw_sp sp ++ lpar :: body ++ [rpar]).
  assert (Hskip : skip_label x = x).
  { unfold skip_label, x.
    rewrite (span_app is_word (s "associate") (kw_sp sp ++ lpar :: body ++ [rpar])) by (destruct sp; reflexivity).
    cbn [is_nil].
    assert (E1 : snd (span is_space (s "associate" ++ kw_sp sp ++ lpar :: body ++ [rpar]))
                 = s "associate" ++ kw_sp sp ++ lpar :: body ++ [rpar]) by reflexivity.
    rewrite E1.
    assert (E2 : snd (span is_space (kw_sp sp ++ lpar :: body ++ [rpar])) = lpar :: body ++ [rpar]) by (destruct sp; reflexivity).
    rewrite E2. reflexivity. }
  unfold associate_re. rewrite Hskip. unfold x.
  assert (E0 : starts_ci (s "associate") (s "associate" ++ kw_sp sp ++ lpar :: body ++ [rpar]) = true) by reflexivity.
  rewrite E0.
  assert (E2 : snd (span is_space (skipn 9 (s "associate" ++ kw_sp sp ++ lpar :: body ++ [rpar]))) = lpar :: body ++ [rpar])
    by (destruct sp; reflexivity).
  rewrite E2. change (Ascii.eqb lpar lpar) with true. cbn iota.
  rewrite rstrip_rpar, rev_app_distr. cbn [rev app]. change (Ascii.eqb rpar rpar) with true.
  assert (E3 : is_nil (rev body) = false).
  { destruct (rev body) eqn:E; [|reflexivity]. apply (f_equal (@rev ascii)) in E. rewrite rev_involutive in E. contradiction. }
  rewrite E3.
  assert (E4 : existsb (Ascii.eqb nl) (body ++ [rpar]) = false).
  { rewrite existsb_app, (no_nl_existsb body Hnl). reflexivity. }
  rewrite E4. cbn [andb negb]. now rewrite rev_involutive.
Qed.

(* ------------------------------------------------------------------ the association list *)
Definition arrow : str := s " => ".

Fixpoint items_text (lead : str) (pairs : list (str * expr)) : list str :=
  match pairs with
  | [] => []
  | (n, e) :: rest => (lead ++ n ++ arrow ++ sh_e e) :: items_text [space] rest
  end.

Lemma sh_assoc_list p pairs :
  sh_e (assoc_list (p :: pairs)) =
  match pairs with
  | [] => fst p ++ arrow ++ sh_e (snd p)
  | _ => (fst p ++ arrow ++ sh_e (snd p)) ++ s ", " ++ sh_e (assoc_list pairs)
  end.
Proof. destruct p as [n e]. destruct pairs as [|q pairs]; reflexivity. Qed.

Lemma wf_assoc_list pairs : pairs <> [] -> wf_e (assoc_list pairs) = true ->
  forallb (fun p => name_ok (fst p) && wf_e (snd p)) pairs = true.
Proof.
  induction pairs as [|[n e] pairs IH]; intros Hne H; [contradiction|].
  destruct pairs as [|q pairs].
  - cbn [assoc_list wf_e wf_d] in H. cbn [forallb fst snd]. apply andb_true_iff in H as [H He]. apply andb_true_iff in H as [Hn _].
    now rewrite Hn, He.
  - change (assoc_list ((n, e) :: q :: pairs)) with (EBin (EBin (EDes (DLast0 n)) (s " => ") e) (s ", ") (assoc_list (q :: pairs))) in H.
    cbn [wf_e wf_d] in H. apply andb_true_iff in H as [H Hr]. apply andb_true_iff in H as [H _].
    apply andb_true_iff in H as [H He]. apply andb_true_iff in H as [Hn _].
    cbn [forallb fst snd]. rewrite Hn, He. cbn [andb]. apply IH; [discriminate|exact Hr].
Qed.

Definition desig_char (c : ascii) : bool := is_word c || Ascii.eqb c lpar || Ascii.eqb c rpar || Ascii.eqb c pct.

Lemma desig_char_ok c : desig_char c = true ->
  negb (Ascii.eqb c comma || Ascii.eqb c lbrk || Ascii.eqb c rbrk) = true /\ negb (Ascii.eqb c eq_ch) = true.
Proof. destruct c as [[|] [|] [|] [|] [|] [|] [|] [|]]; intros H; try discriminate H; split; reflexivity. Qed.

Lemma sh_d_chars d : wf_d d = true -> forallb desig_char (sh_d d) = true.
Proof.
  assert (Hw : forall x, name_ok x = true -> forallb desig_char x = true).
  { intros x H. destruct (name_wordy x H) as [Hx _]. rewrite forallb_forall in *. intros c Hc. unfold desig_char. now rewrite (Hx c Hc). }
  induction d as [x|x a|x r IH|x a r IH]; intros Hwf; pose proof (wf_d_name _ Hwf) as Hn; cbn [sh_d]; rewrite ?forallb_app.
  - now apply Hw.
  - destruct Hn as [Hx _]. now rewrite (Hw x Hx).
  - destruct Hn as [Hx Hr]. rewrite (Hw x Hx). cbn [forallb]. now rewrite (IH Hr).
  - destruct Hn as (Hx & _ & Hr). rewrite (Hw x Hx). cbn [forallb]. now rewrite (IH Hr).
Qed.

Lemma chars_nosep x : forallb desig_char x = true -> nosep x = true /\ noeq x = true.
Proof.
  induction x as [|c x IH]; intros H; [split; reflexivity|]. cbn [forallb] in H. apply andb_true_iff in H as [Hc H].
  destruct (desig_char_ok c Hc) as [H1 H2]. destruct (IH H) as [I1 I2]. unfold nosep, noeq in *. cbn [forallb].
  now rewrite H1, H2, I1, I2.
Qed.

Lemma noeq_arrow_free x : noeq x = true -> arrow_free x = true.
Proof.
  induction x as [|a x IH]; intros H; [reflexivity|]. cbn [noeq forallb] in H. apply andb_true_iff in H as [Ha H].
  cbn [arrow_free]. destruct x as [|b x']; [reflexivity|]. apply negb_true_iff in Ha. unfold eq_ch in Ha. rewrite Ha.
  cbn [andb negb]. now apply IH.
Qed.

(* what a selector's level-0 text must be like for the splitting (proved for designators, assumed —
   [sel_ok] — for expressions) *)
Lemma sel_text e : wf_e e = true -> sel_ok e = true -> nosep (sh_e e) = true /\ arrow_free (sh_e e) = true.
Proof.
  intros Hwf Hs. destruct e as [t|d|e|op e|a op b]; cbn [sel_ok] in Hs;
    try (apply andb_true_iff in Hs as [Hs _]; apply andb_true_iff in Hs as [H1 H2]; now split).
  cbn [wf_e sh_e] in *. destruct (chars_nosep _ (sh_d_chars d Hwf)) as [H1 H2]. split; [exact H1|now apply noeq_arrow_free].
Qed.

Lemma word_chars_flat n : forallb is_word n = true -> flatpar n = true /\ nosep n = true /\ noeq n = true.
Proof.
  intros H. split; [apply flatpar_noparen; now apply word_no_paren|].
  apply chars_nosep. rewrite forallb_forall in *. intros c Hc. unfold desig_char. now rewrite (H c Hc).
Qed.

Definition pair_ok (p : str * expr) : Prop :=
  wordy (fst p) /\ wf_e (snd p) = true /\ nosep (sh_e (snd p)) = true /\ arrow_free (sh_e (snd p)) = true.

Lemma item_flat n e : wordy n -> wf_e e = true -> nosep (sh_e e) = true ->
  flatpar (n ++ arrow ++ sh_e e) = true /\ nosep (n ++ arrow ++ sh_e e) = true.
Proof.
  intros [Hn _] He Hs. destruct (word_chars_flat n Hn) as (F1 & N1 & _). split.
  - rewrite flatpar_app by exact F1. rewrite flatpar_app by reflexivity. now apply flatpar_sh_e.
  - rewrite !nosep_app, N1, Hs. reflexivity.
Qed.

Lemma psplit_items pairs : forall lead, pairs <> [] -> Forall pair_ok pairs ->
  psplit comma 0 0 lead (sh_e (assoc_list pairs)) = items_text lead pairs.
Proof.
  induction pairs as [|[n e] pairs IH]; intros lead Hne Hok; [contradiction|].
  inversion Hok as [|? ? (Hn & He & Hs & _) Hrest]; subst. cbn [fst snd] in *.
  destruct (item_flat n e Hn He Hs) as [Hf Hns].
  rewrite sh_assoc_list. cbn [fst snd]. destruct pairs as [|q pairs].
  - pose proof (psplit_flat (n ++ arrow ++ sh_e e) lead [] Hf Hns) as H. rewrite app_nil_r in H. rewrite H. reflexivity.
  - rewrite (psplit_flat _ lead _ Hf Hns). cbn [items_text].
    change (s ", " ++ sh_e (assoc_list (q :: pairs))) with (comma :: space :: sh_e (assoc_list (q :: pairs))).
    cbn [psplit]. change (Ascii.eqb comma lpar) with false. change (Ascii.eqb comma rpar) with false.
    change (Ascii.eqb comma lbrk) with false. change (Ascii.eqb comma rbrk) with false.
    change (Ascii.eqb comma comma && Z.eqb 0 0 && Z.eqb 0 0) with true. cbn iota.
    change (Ascii.eqb space lpar) with false. change (Ascii.eqb space rpar) with false.
    change (Ascii.eqb space lbrk) with false. change (Ascii.eqb space rbrk) with false.
    change (Ascii.eqb space comma) with false. cbn [andb]. cbn iota.
    f_equal. cbn [app]. apply IH; [discriminate|exact Hrest].
Qed.

Lemma build_items a pairs : forall lead cur, forallb is_space lead = true -> Forall pair_ok pairs ->
  forallb (fun p => sel_ok (snd p)) pairs = true ->
  build_batch a (items_text lead pairs) cur = Some (cur ++ new_batch a pairs).
Proof.
  induction pairs as [|[n e] pairs IH]; intros lead cur Hl Hok Hsel; [cbn; now rewrite app_nil_r|].
  inversion Hok as [|? ? (Hn & He & Hs & Ha) Hrest]; subst. cbn [fst snd] in *.
  cbn [forallb snd] in Hsel. apply andb_true_iff in Hsel as [Hse Hsel].
  cbn [items_text build_batch].
  assert (Et : lead ++ n ++ arrow ++ sh_e e = (lead ++ n ++ [space]) ++ eq_ch :: gt_ch :: (space :: sh_e e)).
  { unfold arrow. rewrite <- !app_assoc. reflexivity. }
  rewrite Et.
  assert (Hnoeq : noeq (lead ++ n ++ [space]) = true).
  { unfold noeq. rewrite !forallb_app. destruct (word_chars_flat n (proj1 Hn)) as (_ & _ & N). unfold noeq in N. rewrite N.
    cbn [forallb]. rewrite andb_true_r. rewrite forallb_forall in *. intros c Hc. specialize (Hl c Hc).
    destruct (Ascii.eqb c eq_ch) eqn:E; [|reflexivity]. apply Ascii.eqb_eq in E. subst c. discriminate. }
  rewrite (split_arrow_at _ [] _ Hnoeq).
  assert (Haf : arrow_free (space :: sh_e e) = true).
  { cbn [arrow_free]. destruct (sh_e e); [reflexivity|]. change (Ascii.eqb space "="%char) with false. cbn [andb negb]. exact Ha. }
  rewrite (split_arrow_free _ [] Haf). cbn [app].
  rewrite (strip_name lead n Hl Hn).
  assert (Etarget : match assoc_target (space :: sh_e e) with Some ch => subst_head a ch | None => None end = selector_chain a e).
  { destruct e as [t|d|e'|op e'|e1 op e2]; cbn [sel_ok] in Hse;
      try (apply andb_true_iff in Hse as [_ Hse]; destruct (assoc_target _); [discriminate|reflexivity]).
    cbn [sh_e selector_chain wf_e] in *. rewrite (assoc_target_d d He). apply subst_head_expand. }
  rewrite Etarget. rewrite (IH [space] _ eq_refl Hrest Hsel). cbn [new_batch map fst snd]. now rewrite <- app_assoc.
Qed.

(* ------------------------------------------------------------------ the ASSOCIATE statement in the cascade *)
Lemma assoc_pairs_ok sp pairs : wf_stmt (SAssoc sp pairs) = true -> forallb (fun p => sel_ok (snd p)) pairs = true ->
  pairs <> [] /\ wf_e (assoc_list pairs) = true /\ Forall pair_ok pairs.
Proof.
  intros Hwf Hsel. cbn [wf_stmt] in Hwf. apply andb_true_iff in Hwf as [Hwf _]. apply andb_true_iff in Hwf as [Hne Hsegs].
  assert (Hp : pairs <> []) by (destruct pairs; [discriminate|discriminate]).
  cbn [stmt_segs wf_segs] in Hsegs. apply andb_true_iff in Hsegs as [Hsegs _]. apply andb_true_iff in Hsegs as [_ He].
  split; [exact Hp|]. split; [exact He|].
  pose proof (wf_assoc_list pairs Hp He) as Hall. rewrite forallb_forall in Hall, Hsel. apply Forall_forall.
  intros [n e] Hin. specialize (Hall _ Hin). specialize (Hsel _ Hin). cbn [fst snd] in *.
  apply andb_true_iff in Hall as [Hn Hwe]. destruct (sel_text e Hwe Hsel) as [H1 H2].
  repeat split; try assumption; [exact (proj1 (name_wordy n Hn))|exact (proj2 (name_wordy n Hn))].
Qed.

Lemma assoc_list_nonempty pairs : pairs <> [] -> Forall pair_ok pairs ->
  render_e (assoc_list pairs) <> [] /\ sh_e (assoc_list pairs) <> [].
Proof.
  intros Hne Hok. destruct pairs as [|[n e] pairs]; [contradiction|].
  inversion Hok as [|? ? (Hn & _) _]; subst. cbn [fst] in Hn. destruct Hn as [_ Hn].
  destruct pairs as [|q pairs]; cbn [assoc_list render_e render_d sh_e sh_d]; split; destruct n; try contradiction; discriminate.
Qed.

(* C08_assoc_step: the ASSOCIATE statement records the references of its selectors under the
   associations in force and adds the batch the Spec adds: every name bound to its selector's chain
   (with a leading associate name of an enclosing construct replaced), or to None for an expression *)
Lemma assoc_step_gen upd a calls sp pairs :
  wf_stmt (SAssoc sp pairs) = true -> forallb (fun p => sel_ok (snd p)) pairs = true ->
  line_step_gen upd (a, calls) (render_stmt (SAssoc sp pairs)) =
  Some (a ++ [new_batch a pairs], add_gen upd a calls (render_stmt (SAssoc sp pairs))).
Proof.
  intros Hwf Hsel. destruct (assoc_pairs_ok sp pairs Hwf Hsel) as (Hne & He & Hok).
  destruct (assoc_list_nonempty pairs Hne Hok) as [Hr Hs].
  assert (Er : render_stmt (SAssoc sp pairs) = s "associate" ++ kw_sp sp ++ lpar :: render_e (assoc_list pairs) ++ [rpar]).
  { unfold render_stmt, stmt_segs, render_segs. cbn [map join render_seg]. unfold kw_sp. reflexivity. }
  unfold line_step_gen. rewrite Er.
  assert (E1 : format_re (s "associate" ++ kw_sp sp ++ lpar :: render_e (assoc_list pairs) ++ [rpar]) = false) by reflexivity.
  assert (E2 : end_associate_re (s "associate" ++ kw_sp sp ++ lpar :: render_e (assoc_list pairs) ++ [rpar]) = false) by reflexivity.
  rewrite E1, E2, (associate_re_render sp _ Hr (proj1 render_no_nl _ He)).
  rewrite <- (proj1 tree_flat (assoc_list pairs)), (strip_levels _ 0 (proj1 tree_ok _ He)). cbn [level_slices].
  rewrite (proj1 tree_shallow). destruct (sh_e (assoc_list pairs)) as [|c0 x0] eqn:Esh; [contradiction|]. rewrite <- Esh.
  unfold paren_split. rewrite (psplit_items pairs [] Hne Hok).
  unfold add_batch. rewrite (build_items a pairs [] [] eq_refl Hok Hsel). cbn [app].
  rewrite (proj1 tree_flat). reflexivity.
Qed.

Theorem assoc_step a calls sp pairs :
  wf_stmt (SAssoc sp pairs) = true -> forallb (fun p => sel_ok (snd p)) pairs = true ->
  line_step (a, calls) (render_stmt (SAssoc sp pairs)) =
  Some (a ++ [new_batch a pairs], add_calls a calls (render_stmt (SAssoc sp pairs))).
Proof. exact (assoc_step_gen append_calls a calls sp pairs). Qed.

Lemma end_assoc_step app a calls :
  line_step_gen app (a, calls) (render_stmt SEndAssoc) = match rev a with [] => None | _ :: ra => Some (rev ra, calls) end.
Proof. reflexivity. Qed.

Lemma rev_removelast {A} (a : list A) x ra : rev a = x :: ra -> rev ra = removelast a.
Proof.
  intros H. apply (f_equal (@rev A)) in H. rewrite rev_involutive in H. cbn [rev] in H. subst a.
  now rewrite removelast_last.
Qed.
