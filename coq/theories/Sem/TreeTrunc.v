(* Sem/TreeTrunc.v — a file that stops inside a program unit is rejected (C20) *)
From Ford Require Import Base.Str Sem.Tree Sem.TreeSpec Sem.TreeProofs.
From Coq Require Import Lia.

Lemma prefix_no_doc_head p q : no_doc_head (p ++ q) -> no_doc_head p.
Proof. destruct p as [|[] p]; simpl; auto. Qed.

Lemma parse_nil f k nm a g st : k <> KFile -> parse_body (S f) k nm a g st [] = PErr ENested.
Proof. intros H. cbn [parse_body]. destruct k; congruence. Qed.

Definition is_container (d : decl) : bool :=
  match d with DUnit _ _ _ _ _ | DIface _ _ _ _ => true | _ => false end.

(* a proper prefix of the statements of one declaration never closes the enclosing unit *)
Definition trunc_rejected (d : decl) : Prop :=
  forall parent nm a g st f p q,
    wf_decl parent (cs_incontains st) d = true -> level0 st ->
    flatten d = p ++ q -> q <> [] ->
    (parent <> KFile \/ (p <> [] /\ is_container d = true)) ->
    length p < f ->
    parse_body f parent nm a g st p = PErr ENested.

Lemma level0_add es st : level0 st -> level0 (add_children es st).
Proof. intros H. exact H. Qed.

Lemma list_trunc ds : Forall trunc_rejected ds ->
  forall parent nm a g st f p q,
    parent <> KFile -> forallb (wf_decl parent (cs_incontains st)) ds = true -> level0 st ->
    flat_map flatten ds = p ++ q -> length p < f ->
    parse_body f parent nm a g st p = PErr ENested.
Proof.
  intros H. induction H as [|d ds Hd _ IH]; intros parent nm a g st f p q Hp Hwf Hl E Hf.
  - simpl in E. symmetry in E. apply app_eq_nil in E as [-> _].
    destruct f as [|f]; [simpl in Hf; lia|]. now apply parse_nil.
  - simpl in Hwf. apply andb_true_iff in Hwf as [Hw1 Hw2]. cbn [flat_map] in E.
    apply app_eq_app in E as [l [[E1 E2]|[E1 E2]]].
    + (* the cut lies inside (or at the end of) d *)
      destruct l as [|x l].
      * rewrite app_nil_r in E1. subst p.
        destruct (every_decl_consumed d parent nm a g st f [] Hw1 Hl I) as (f' & Hf' & Ec).
        { now rewrite app_nil_r. }
        rewrite app_nil_r in Ec. rewrite Ec.
        destruct f' as [|f']; [simpl in Hf'; lia|]. now apply parse_nil.
      * apply (Hd parent nm a g st f p (x :: l) Hw1 Hl E1); [discriminate|now left|exact Hf].
    + (* d is complete; the cut lies further on *)
      subst p.
      assert (Hnd : no_doc_head l).
      { apply (prefix_no_doc_head l q). rewrite <- E2. rewrite <- (app_nil_r (flat_map flatten ds)).
        apply flat_no_doc_head. exact I. }
      destruct (every_decl_consumed d parent nm a g st f l Hw1 Hl Hnd Hf) as (f' & Hf' & Ec).
      rewrite Ec. apply (IH parent nm a g (add_children (tree_of d) st) f' l q Hp Hw2 Hl E2 Hf').
Qed.

Lemma noops_trunc m : forall f parent nm a g st,
  parent <> KFile -> m < f -> parse_body f parent nm a g st (repeat SNoop m) = PErr ENested.
Proof.
  induction m as [|m IH]; intros f parent nm a g st Hp Hf.
  - destruct f as [|f]; [lia|]. now apply parse_nil.
  - destruct f as [|f]; [lia|]. cbn [repeat parse_body]. apply IH; [exact Hp|lia].
Qed.

(* a proper prefix of a unit's body (its END not reached) *)
Lemma body_trunc k name a g docs spec cont :
  Forall trunc_rejected spec -> Forall trunc_rejected cont ->
  forallb (wf_decl k false) spec = true ->
  (match cont with [] => true | _ => can_contain k end) = true ->
  forallb (wf_decl k true) cont = true ->
  k <> KFile ->
  forall f p q,
    flat_map flatten spec ++ contains_part cont ++ [SEnd EndPlain] = p ++ q -> q <> [] ->
    length p < f ->
    parse_body f k name a g (fresh docs) p = PErr ENested.
Proof.
  intros Hs Hc Hws Hcan Hwc Hk f p q E Hq Hf.
  destruct (exists_last Hq) as (q' & x & ->).
  rewrite !app_assoc in E. apply app_inj_tail in E as [E _].
  apply app_eq_app in E as [l [[E1 E2]|[E1 E2]]].
  - (* the cut lies in the specification part *)
    apply (list_trunc spec Hs k name a g (fresh docs) f p l Hk Hws (fresh_level0 docs) E1 Hf).
  - subst p.
    assert (Hcons : Forall consumed spec) by (apply Forall_forall; intros; apply every_decl_consumed).
    assert (Hnd : no_doc_head l).
    { apply (prefix_no_doc_head l q'). rewrite <- E2. destruct cont; exact I. }
    destruct (consumed_list spec Hcons k name a g (fresh docs) f l Hws (fresh_level0 docs) Hnd Hf) as (f1 & Hf1 & Ec).
    rewrite Ec. clear Ec.
    destruct l as [|y l].
    + destruct f1 as [|f1]; [simpl in Hf1; lia|]. now apply parse_nil.
    + destruct cont as [|c0 cont']; [simpl in E2; destruct q'; discriminate|].
      remember (c0 :: cont') as cont eqn:Ec0.
      assert (Ecp : contains_part cont = SContains :: flat_map flatten cont) by (subst cont; reflexivity).
      rewrite Ecp in E2. injection E2 as <- E2.
      destruct f1 as [|f1]; [simpl in Hf1; lia|].
      cbn [parse_body].
      match goal with |- parse_body _ _ _ _ _ ?S _ = _ => set (st1 := S) end.
      assert (Hinc : cs_incontains st1 = true).
      { unfold st1. cbn [cs_incontains add_children fresh]. subst cont. rewrite Hcan. apply orb_true_r. }
      assert (Hwc' : forallb (wf_decl k (cs_incontains st1)) cont = true) by (rewrite Hinc; exact Hwc).
      apply (list_trunc cont Hc k name a g st1 f1 l q' Hk Hwc' (conj eq_refl eq_refl) E2).
      simpl in Hf1. lia.
Qed.

Lemma take_docs_only docs : take_docs (map SDoc docs) = (docs, []).
Proof. induction docs as [|d docs IH]; simpl; [reflexivity|]. now rewrite IH. Qed.

(* the first line of a unit has been read, the cut lies before its END *)
Lemma unit_tail_trunc k name a g docs spec cont :
  Forall trunc_rejected spec -> Forall trunc_rejected cont ->
  forallb (wf_decl k false) spec = true ->
  (match cont with [] => true | _ => can_contain k end) = true ->
  forallb (wf_decl k true) cont = true ->
  k <> KFile ->
  forall f p1 q,
    map SDoc docs ++ flat_map flatten spec ++ contains_part cont ++ [SEnd EndPlain] = p1 ++ q -> q <> [] ->
    length p1 < f ->
    (let (d, l1) := take_docs p1 in parse_body f k name a g (fresh d) l1) = PErr ENested.
Proof.
  intros Hs Hc Hws Hcan Hwc Hk f p1 q E Hq Hf.
  apply app_eq_app in E as [l [[E1 E2]|[E1 E2]]].
  - (* the cut lies inside the documentation lines *)
    apply map_eq_app in E1 as (d1 & d2 & _ & <- & _).
    rewrite take_docs_only. destruct f as [|f]; [lia|]. now apply parse_nil.
  - subst p1.
    assert (Hnd : no_doc_head l).
    { apply (prefix_no_doc_head l q). rewrite <- E2. apply flat_no_doc_head. destruct cont; exact I. }
    rewrite (take_docs_app docs l Hnd).
    apply (body_trunc k name a g docs spec cont Hs Hc Hws Hcan Hwc Hk f l q E2 Hq).
    rewrite app_length in Hf. lia.
Qed.

Theorem every_decl_trunc_rejected : forall d, trunc_rejected d.
Proof.
  fix IH 1. intros d.
  destruct d as [l names docs|n|k name docs spec cont|ab name docs body].
  - (* leaf statement *)
    intros parent nm a g st f p q Hwf (Hb & Hn) E Hq [Hp|[_ Hc]] Hf; [|discriminate].
    cbn [flatten] in E.
    destruct p as [|s0 p1].
    + destruct f as [|f]; [simpl in Hf; lia|]. now apply parse_nil.
    + cbn [app] in E. injection E as <- E.
      apply map_eq_app in E as (d1 & d2 & _ & <- & _).
      destruct f as [|f]; [simpl in Hf; lia|].
      destruct st as [inc blk neg ds ch]. simpl in Hb, Hn. subst blk neg.
      cbn [parse_body cs_block cs_negblock cs_incontains] in *.
      cbn [wf_decl] in Hwf. apply andb_true_iff in Hwf as [Hwf Hpos]. apply andb_true_iff in Hwf as [Hacc Hne].
      rewrite Hacc. cbn [negb orb].
      assert (Hg : match l with
                   | LVariable => false
                   | LBoundProc | LFinal => negb inc
                   | _ => false
                   end = false).
      { destruct l; try reflexivity; now rewrite Hpos. }
      rewrite Hg. cbn [orb]. rewrite take_docs_only.
      cbn [length] in Hf. rewrite map_length in Hf.
      destruct f as [|f]; [lia|]. now apply parse_nil.
  - (* statements that declare nothing *)
    intros parent nm a g st f p q Hwf Hl E Hq [Hp|[_ Hc]] Hf; [|discriminate].
    cbn [flatten] in E. apply repeat_eq_app in E as [E _]. rewrite <- E.
    apply noops_trunc; assumption.
  - (* program unit / procedure / type / enum / block data *)
    assert (Hs : Forall trunc_rejected spec) by (induction spec as [|x xs IHx]; constructor; [apply IH|exact IHx]).
    assert (Hc : Forall trunc_rejected cont) by (induction cont as [|x xs IHx]; constructor; [apply IH|exact IHx]).
    intros parent nm a g st f p q Hwf Hl E Hq Hor Hf.
    cbn [wf_decl] in Hwf.
    apply andb_true_iff in Hwf as [Hwf Hshape]. apply andb_true_iff in Hwf as [Hwf Hwc].
    apply andb_true_iff in Hwf as [Hwf Hcan]. apply andb_true_iff in Hwf as [Hwf Hws].
    apply andb_true_iff in Hwf as [Hwf Hnf]. apply andb_true_iff in Hwf as [Hacc Hpos].
    assert (Hk : k <> KFile) by (intros ->; discriminate).
    destruct p as [|s0 p1].
    + destruct Hor as [Hp|[Hp _]]; [|congruence].
      destruct f as [|f]; [simpl in Hf; lia|]. now apply parse_nil.
    + cbn [flatten app] in E. injection E as <- E.
      change (map SDoc docs ++ flat_map flatten spec
              ++ (match cont with [] => [] | _ :: _ => SContains :: flat_map flatten cont end) ++ [SEnd EndPlain])
        with (map SDoc docs ++ flat_map flatten spec ++ contains_part cont ++ [SEnd EndPlain]) in E.
      destruct f as [|f]; [simpl in Hf; lia|]. cbn [length] in Hf.
      pose proof (unit_tail_trunc k name false false docs spec cont Hs Hc Hws Hcan Hwc Hk f p1 q E Hq
                                  ltac:(lia)) as Htail.
      destruct (ckind_is_modproc k) eqn:Emp.
      * destruct k; try discriminate Emp.
        rewrite (parse_modproc_stmt f parent nm a g st name p1 Hacc).
        destruct (take_docs p1) as [d1 l1]. now rewrite Htail.
      * assert (Hbc : (match k with KSubroutine | KFunction => is_codeunit parent && negb (cs_incontains st) | _ => false end) = false).
        { destruct k; try reflexivity; simpl in Hpos;
            (destruct (is_codeunit parent); [|reflexivity]); rewrite orb_false_r in Hpos; now rewrite Hpos. }
        assert (Efirst : (match k with KModProcImpl => SModProcImpl name | _ => SUnit k name end) = SUnit k name)
          by (destruct k; try reflexivity; discriminate Emp).
        rewrite Efirst.
        rewrite (parse_unit_stmt f parent nm a g st k name p1 Hl Hacc Hbc).
        destruct (take_docs p1) as [d1 l1]. now rewrite Htail.
  - (* interface block *)
    assert (Hs : Forall trunc_rejected body) by (induction body as [|x xs IHx]; constructor; [apply IH|exact IHx]).
    intros parent nm a g st f p q Hwf Hl E Hq Hor Hf.
    cbn [wf_decl] in Hwf. apply andb_true_iff in Hwf as [Hwf Hwb]. apply andb_true_iff in Hwf as [Hacc Hpos].
    destruct p as [|s0 p1].
    + destruct Hor as [Hp|[Hp _]]; [|congruence].
      destruct f as [|f]; [simpl in Hf; lia|]. now apply parse_nil.
    + cbn [flatten app] in E. injection E as <- E.
      change (map SDoc docs ++ flat_map flatten body ++ [SEnd EndPlain])
        with (map SDoc docs ++ flat_map flatten body ++ contains_part [] ++ [SEnd EndPlain]) in E.
      destruct f as [|f]; [simpl in Hf; lia|]. cbn [length] in Hf.
      assert (Hki : KInterface <> KFile) by discriminate.
      pose proof (unit_tail_trunc KInterface name ab (is_generic name) docs body [] Hs (Forall_nil _) Hwb eq_refl eq_refl
                                  Hki f p1 q E Hq ltac:(lia)) as Htail.
      rewrite (parse_iface_stmt f parent nm a g st ab name p1 Hl Hacc).
      destruct (take_docs p1) as [d1 l1]. now rewrite Htail.
Qed.

(* C20: cut a well-formed file anywhere strictly inside one of its program units (any nesting
   depth: in a documentation block, a declaration, an internal procedure, before the END) and
   the parser rejects it with "File ended while still nested" *)
Theorem truncation_rejected fname before d after p q :
  forallb (wf_decl KFile false) (before ++ d :: after) = true ->
  is_container d = true ->
  flatten d = p ++ q -> p <> [] -> q <> [] ->
  parse_file fname (file_stmts before ++ p) = PErr ENested.
Proof.
  intros Hwf Hcont E Hp Hq.
  rewrite forallb_app in Hwf. apply andb_true_iff in Hwf as [Hwb Hwd]. simpl in Hwd.
  apply andb_true_iff in Hwd as [Hwd _].
  unfold parse_file, file_stmts.
  assert (Hc : Forall consumed before) by (apply Forall_forall; intros; apply every_decl_consumed).
  assert (Hnd : no_doc_head p).
  { apply (prefix_no_doc_head p q). rewrite <- E. rewrite <- (app_nil_r (flatten d)).
    apply flatten_no_doc_head. exact I. }
  destruct (consumed_list before Hc KFile fname false false (fresh []) (S (length (flat_map flatten before ++ p)))
              p Hwb (fresh_level0 []) Hnd (Nat.lt_succ_diag_r _)) as (f' & Hf' & Ec).
  change (parse_body (S (length (flat_map flatten before ++ p))) KFile fname false false (fresh [])
            (flat_map flatten before ++ p) = PErr ENested).
  rewrite Ec.
  apply (every_decl_trunc_rejected d KFile fname false false (add_children (flat_map tree_of before) (fresh [])) f' p q
           Hwd (conj eq_refl eq_refl) E Hq); [|exact Hf'].
  right. auto.
Qed.

(* a stray END between program units is an error *)
Theorem stray_end_rejected fname units e rest :
  forallb (wf_decl KFile false) units = true ->
  parse_file fname (file_stmts units ++ SEnd e :: rest) = PErr EEndAtFile.
Proof.
  intros Hwf. unfold parse_file, file_stmts.
  assert (Hc : Forall consumed units) by (apply Forall_forall; intros; apply every_decl_consumed).
  destruct (consumed_list units Hc KFile fname false false (fresh [])
              (S (length (flat_map flatten units ++ SEnd e :: rest))) (SEnd e :: rest) Hwf (fresh_level0 []) I
              (Nat.lt_succ_diag_r _)) as (f' & Hf' & Ec).
  change (parse_body (S (length (flat_map flatten units ++ SEnd e :: rest))) KFile fname false false (fresh [])
            (flat_map flatten units ++ SEnd e :: rest) = PErr EEndAtFile).
  rewrite Ec. destruct f' as [|f']; [simpl in Hf'; lia|]. reflexivity.
Qed.
