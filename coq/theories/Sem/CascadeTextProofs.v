(* Sem/CascadeTextProofs.v -- from the text of a program to its entity tree in one theorem: the
   statement loop on text (Sem/CascadeTree.v: Sem/Tree.v's structural parser, the kind of every
   line decided by Sem/Cascade.v's classify in the state the parser is in) returns exactly the
   declared tree for every spelled well-formed program (Sem/CascadeText.v).  The induction is that
   of Sem/TreeProofs.v; every step is discharged by the dispatch theorem (Sem/CascadeProofs.v) in
   the parser state the structure determines. *)
From Coq Require Import Lia.
From Ford Require Import Base.Str Base.StrX Sem.Tree Sem.TreeSpec Sem.TreeProofs Sem.TypeSpec Sem.DeclSpec
     Sem.CascadeTypes Sem.Cascade Sem.CascadeSpec Sem.CascadeTree Sem.CascadeProofs Sem.CascadeText.
Local Open Scope nat_scope.

(* ------------------------------------------------------------------ lines and documentation *)
Definition tno_doc_head (l : list str) : Prop := match l with x :: _ => doc_text x = None | [] => True end.

Lemma doc_text_doc_line d : doc_text (doc_line d) = Some d.
Proof. reflexivity. Qed.

Lemma take_docs_text_app docs l : tno_doc_head l -> take_docs_text (map doc_line docs ++ l) = (docs, l).
Proof.
  intros H. induction docs as [|d docs IH].
  - cbn [map app]. destruct l as [|x l]; [reflexivity|]. cbn [take_docs_text]. cbn in H. now rewrite H.
  - cbn [map app take_docs_text]. rewrite doc_text_doc_line, IH. reflexivity.
Qed.

(* the dispatch theorem in the state of the structural parser *)
Lemma classify_here parent st l : level0 st -> here parent (cs_incontains st) l = true ->
  exists key, classify (ctx_of parent st) (render l) = Fired key (stmt_of l).
Proof.
  intros (Hb & Hn) H. unfold here in H. apply andb_true_iff in H as [LO PO].
  destruct st as [inc blk neg ds ch]. cbn [cs_block cs_negblock cs_incontains] in *. subst blk neg.
  unfold ctx_of. cbn [cs_block cs_negblock cs_incontains]. now apply dispatch_correct.
Qed.

(* a statement is not a documentation line *)
Lemma nodoc_here k ac l : here k ac l = true -> doc_text (render l) = None.
Proof.
  intros H. unfold here in H. apply andb_true_iff in H as [LO PO].
  destruct (dispatch_correct k ac true l LO PO) as (key & E). unfold classify in E. unfold doc_text.
  destruct (prefix (s "!!") (render l)); [|reflexivity].
  injection E as _ E. destruct l; discriminate E.
Qed.

Lemma lines_ok_head parent ac d T : lines_ok parent ac d = true -> tno_doc_head T -> tno_doc_head (text_of d ++ T).
Proof.
  intros H HT. destruct d as [l docs|ls|h docs spec cl cont e|h docs body e]; cbn [text_of lines_ok app] in *.
  - apply andb_true_iff in H as [H _]. exact (nodoc_here _ _ _ H).
  - destruct ls as [|l ls]; [exact HT|]. cbn [map app forallb] in *. apply andb_true_iff in H as [H _].
    apply andb_true_iff in H as [H _]. exact (nodoc_here _ _ _ H).
  - apply andb_true_iff in H as [H _]. exact (nodoc_here _ _ _ H).
  - apply andb_true_iff in H as [H _]. exact (nodoc_here _ _ _ H).
Qed.

Lemma lines_ok_list_head parent ac ds T : forallb (lines_ok parent ac) ds = true -> tno_doc_head T ->
  tno_doc_head (flat_map text_of ds ++ T).
Proof.
  intros H HT. induction ds as [|d ds IH]; [exact HT|]. cbn [flat_map forallb] in *.
  apply andb_true_iff in H as [H1 H2]. rewrite <- app_assoc. apply (lines_ok_head parent ac); [exact H1|now apply IH].
Qed.

(* ------------------------------------------------------------------ one step of the loop on text *)
Lemma tl_noop f parent nm a g st line key l' : classify (ctx_of parent st) line = Fired key SNoop ->
  parse_lines (S f) parent nm a g st (line :: l') = parse_lines f parent nm a g st l'.
Proof. intros E. cbn [parse_lines]. now rewrite E. Qed.

Lemma tl_contains f parent nm a g st line key l' : classify (ctx_of parent st) line = Fired key SContains ->
  parse_lines (S f) parent nm a g st (line :: l')
  = parse_lines f parent nm a g
      {| cs_incontains := cs_incontains st || can_contain parent; cs_block := cs_block st;
         cs_negblock := cs_negblock st; cs_docs := cs_docs st; cs_children := cs_children st |} l'.
Proof. intros E. cbn [parse_lines]. now rewrite E. Qed.

Lemma tl_end f parent nm a g st line key l' : classify (ctx_of parent st) line = Fired key (SEnd EndPlain) ->
  level0 st -> parent <> KFile ->
  parse_lines (S f) parent nm a g st (line :: l')
  = TOk (Container parent nm a g (cs_docs st) (cs_children st)) l'.
Proof.
  intros E (Hb & Hn) Hk. destruct st as [inc blk neg ds ch]; cbn [cs_block cs_negblock cs_incontains cs_docs cs_children] in *; subst blk neg.
  cbn [parse_lines]. rewrite E. cbn [cs_block cs_negblock cs_docs cs_children]. destruct parent; try reflexivity. congruence.
Qed.

Lemma tl_leaf f parent nm a g st line key lk names l' : classify (ctx_of parent st) line = Fired key (SLeaf lk names) ->
  level0 st -> accepts_leaf parent lk = true ->
  (match lk with LBoundProc | LFinal => negb (cs_incontains st) | _ => false end) = false ->
  parse_lines (S f) parent nm a g st (line :: l') =
  (let (d, l1) := take_docs_text l' in parse_lines f parent nm a g (add_children (leaf_ents lk names d) st) l1).
Proof.
  intros E (Hb & Hn) Hacc Hg. destruct st as [inc blk neg ds ch]; cbn [cs_block cs_negblock cs_incontains cs_docs cs_children] in *; subst blk neg.
  cbn [parse_lines]. rewrite E. cbn [cs_block cs_negblock cs_incontains]. rewrite Hacc.
  assert (Hg' : (match lk with LVariable => negb true | LBoundProc | LFinal => negb inc | _ => false end) = false)
    by (destruct lk; try reflexivity; exact Hg).
  rewrite Hg'. cbn [orb negb]. destruct (take_docs_text l') as [d l1]. reflexivity.
Qed.

Lemma tl_unit f parent nm a g st line key k name l' : classify (ctx_of parent st) line = Fired key (SUnit k name) ->
  level0 st -> accepts_unit parent k = true ->
  (match k with KSubroutine | KFunction => is_codeunit parent && negb (cs_incontains st) | _ => false end) = false ->
  parse_lines (S f) parent nm a g st (line :: l') =
  (let (d, l1) := take_docs_text l' in
   match parse_lines f k name false false (fresh d) l1 with
   | TOk child rest => parse_lines f parent nm a g (add_children [child] st) rest
   | other => other
   end).
Proof.
  intros E (Hb & Hn) Hacc Hbc. destruct st as [inc blk neg ds ch]; cbn [cs_block cs_negblock cs_incontains cs_docs cs_children] in *; subst blk neg.
  cbn [parse_lines]. rewrite E. cbn [cs_block cs_negblock cs_incontains]. rewrite Hacc, Hbc.
  destruct k; reflexivity.
Qed.

Lemma tl_modproc f parent nm a g st line key name l' : classify (ctx_of parent st) line = Fired key (SModProcImpl name) ->
  accepts_unit parent KModProcImpl = true ->
  parse_lines (S f) parent nm a g st (line :: l') =
  (let (d, l1) := take_docs_text l' in
   match parse_lines f KModProcImpl name false false (fresh d) l1 with
   | TOk child rest => parse_lines f parent nm a g (add_children [child] st) rest
   | other => other
   end).
Proof. intros E Hacc. cbn [parse_lines]. rewrite E, Hacc. reflexivity. Qed.

Lemma tl_iface f parent nm a g st line key ab name l' : classify (ctx_of parent st) line = Fired key (SIface ab name) ->
  level0 st -> accepts_unit parent KInterface = true ->
  parse_lines (S f) parent nm a g st (line :: l') =
  (let (d, l1) := take_docs_text l' in
   match parse_lines f KInterface name ab (is_generic name) (fresh d) l1 with
   | TOk child rest => parse_lines f parent nm a g (add_children (flatten_iface child) st) rest
   | other => other
   end).
Proof.
  intros E (Hb & Hn) Hacc. destruct st as [inc blk neg ds ch]; cbn [cs_block cs_negblock cs_incontains cs_docs cs_children] in *; subst blk neg.
  cbn [parse_lines]. rewrite E. cbn [cs_block cs_negblock]. rewrite Hacc. reflexivity.
Qed.

(* ------------------------------------------------------------------ the induction of Sem/TreeProofs.v, on text *)
(* one spelled declaration: its lines are consumed, its tree is added to the open container, and
   enough fuel remains *)
Definition tconsumed (d : tdecl) : Prop :=
  forall parent nm a g st f rest,
    wf_decl parent (cs_incontains st) (erase d) = true -> lines_ok parent (cs_incontains st) d = true ->
    level0 st -> tno_doc_head rest ->
    length (text_of d ++ rest) < f ->
    exists f', length rest < f' /\
      parse_lines f parent nm a g st (text_of d ++ rest)
      = parse_lines f' parent nm a g (add_children (tree_of (erase d)) st) rest.

Lemma tconsumed_list ds : Forall tconsumed ds ->
  forall parent nm a g st f rest,
    forallb (wf_decl parent (cs_incontains st)) (map erase ds) = true ->
    forallb (lines_ok parent (cs_incontains st)) ds = true -> level0 st -> tno_doc_head rest ->
    length (flat_map text_of ds ++ rest) < f ->
    exists f', length rest < f' /\
      parse_lines f parent nm a g st (flat_map text_of ds ++ rest)
      = parse_lines f' parent nm a g (add_children (flat_map tree_of (map erase ds)) st) rest.
Proof.
  intros H. induction H as [|d ds Hd _ IH]; intros parent nm a g st f rest Hwf Hlo Hl Hnd Hf.
  - exists f. cbn [flat_map map app] in *. rewrite add_children_nil. auto.
  - cbn [map forallb] in Hwf, Hlo. apply andb_true_iff in Hwf as [Hw1 Hw2]. apply andb_true_iff in Hlo as [Hl1 Hl2].
    cbn [flat_map map] in *. rewrite <- app_assoc in *.
    destruct (Hd parent nm a g st f (flat_map text_of ds ++ rest) Hw1 Hl1 Hl
                 (lines_ok_list_head _ _ ds rest Hl2 Hnd) Hf) as (f1 & Hf1 & E1).
    rewrite E1.
    destruct (IH parent nm a g (add_children (tree_of (erase d)) st) f1 rest Hw2 Hl2 Hl Hnd Hf1) as (f2 & Hf2 & E2).
    exists f2. split; [exact Hf2|]. rewrite E2, add_children_app. reflexivity.
Qed.

Definition tcontains_part (cl : sline) (cont : list tdecl) : list str :=
  match cont with [] => [] | _ => render cl :: flat_map text_of cont end.
Definition some_contained (cont : list tdecl) : bool := match cont with [] => false | _ => true end.

Lemma tbody_parsed k name a g docs spec cl cont e :
  Forall tconsumed spec -> Forall tconsumed cont ->
  forallb (wf_decl k false) (map erase spec) = true -> forallb (lines_ok k false) spec = true ->
  (match cont with [] => true | _ => can_contain k end) = true ->
  (match cont with [] => true | _ => here k false cl && is_contains (stmt_of cl) end) = true ->
  forallb (wf_decl k true) (map erase cont) = true -> forallb (lines_ok k true) cont = true ->
  here k (some_contained cont) e = true -> is_end_plain (stmt_of e) = true ->
  k <> KFile ->
  forall f rest,
    length (flat_map text_of spec ++ tcontains_part cl cont ++ [render e] ++ rest) < f ->
    parse_lines f k name a g (fresh docs)
      (flat_map text_of spec ++ tcontains_part cl cont ++ [render e] ++ rest)
    = TOk (Container k name a g docs (flat_map tree_of (map erase spec) ++ flat_map tree_of (map erase cont))) rest.
Proof.
  intros Hs Hc Hws Hls Hcan Hcl Hwc Hlc He Hee Hk f rest Hf.
  assert (Ee : stmt_of e = SEnd EndPlain).
  { destruct (stmt_of e) as [| | |[]| | | | |]; try discriminate Hee; reflexivity. }
  assert (Hnd : tno_doc_head (tcontains_part cl cont ++ [render e] ++ rest)).
  { destruct cont; cbn [tcontains_part app tno_doc_head].
    - exact (nodoc_here _ _ _ He).
    - apply andb_true_iff in Hcl as [Hcl _]. exact (nodoc_here _ _ _ Hcl). }
  destruct (tconsumed_list spec Hs k name a g (fresh docs) f _ Hws Hls (fresh_level0 docs) Hnd Hf) as (f1 & Hf1 & E1).
  rewrite E1. clear E1.
  destruct cont as [|c0 cont'].
  - cbn [tcontains_part app] in *. destruct f1 as [|f1]; [simpl in Hf1; lia|].
    set (st0 := add_children (flat_map tree_of (map erase spec)) (fresh docs)).
    assert (Hl0 : level0 st0) by (split; reflexivity).
    destruct (classify_here k st0 e Hl0 He) as (key & E). rewrite Ee in E.
    rewrite (tl_end f1 k name a g st0 (render e) key rest E Hl0 Hk).
    unfold st0. cbn [add_children fresh cs_docs cs_children app map flat_map]. now rewrite app_nil_r.
  - remember (c0 :: cont') as cont eqn:Ec.
    assert (Ecp : tcontains_part cl cont = render cl :: flat_map text_of cont) by (subst cont; reflexivity).
    assert (Hcl' : here k false cl = true /\ stmt_of cl = SContains).
    { subst cont. apply andb_true_iff in Hcl as [H1 H2]. split; [exact H1|].
      destruct (stmt_of cl); try discriminate H2; reflexivity. }
    destruct Hcl' as [Hcl1 Hcl2].
    assert (Hsome : some_contained cont = true) by (subst cont; reflexivity).
    assert (Hcan' : can_contain k = true) by (subst cont; exact Hcan).
    rewrite Ecp in *. clear Ecp.
    destruct f1 as [|f1]; [simpl in Hf1; lia|].
    set (st0 := add_children (flat_map tree_of (map erase spec)) (fresh docs)).
    assert (Hl0 : level0 st0) by (split; reflexivity).
    destruct (classify_here k st0 cl Hl0 Hcl1) as (key & E). rewrite Hcl2 in E.
    cbn [app]. rewrite (tl_contains f1 k name a g st0 (render cl) key _ E).
    match goal with |- parse_lines _ _ _ _ _ ?S _ = _ => set (st1 := S) end.
    assert (Hinc : cs_incontains st1 = true).
    { unfold st1, st0. cbn [cs_incontains add_children fresh]. now rewrite Hcan'. }
    assert (Hl1 : level0 st1) by (split; reflexivity).
    assert (Hf1' : length (flat_map text_of cont ++ [render e] ++ rest) < f1).
    { simpl in Hf1. simpl. lia. }
    assert (Hwc' : forallb (wf_decl k (cs_incontains st1)) (map erase cont) = true) by (rewrite Hinc; exact Hwc).
    assert (Hlc' : forallb (lines_ok k (cs_incontains st1)) cont = true) by (rewrite Hinc; exact Hlc).
    assert (Hnd' : tno_doc_head ([render e] ++ rest)) by exact (nodoc_here _ _ _ He).
    destruct (tconsumed_list cont Hc k name a g st1 f1 ([render e] ++ rest) Hwc' Hlc' Hl1 Hnd' Hf1') as (f2 & Hf2 & E2).
    change ([render e] ++ rest) with (render e :: rest) in E2, Hf2.
    rewrite E2. destruct f2 as [|f2]; [simpl in Hf2; lia|].
    set (st2 := add_children (flat_map tree_of (map erase cont)) st1).
    assert (Hl2 : level0 st2) by (split; reflexivity).
    assert (He2 : here k (cs_incontains st2) e = true).
    { unfold st2. cbn [cs_incontains add_children]. rewrite Hinc. rewrite Hsome in He. exact He. }
    destruct (classify_here k st2 e Hl2 He2) as (key2 & E3). rewrite Ee in E3.
    cbn [app]. rewrite (tl_end f2 k name a g st2 (render e) key2 rest E3 Hl2 Hk).
    unfold st2, st1, st0. cbn [add_children fresh cs_docs cs_children app]. reflexivity.
Qed.

Lemma texec_consumed ls : tconsumed (TExec ls).
Proof.
  induction ls as [|l ls IH]; intros parent nm a g st f rest Hwf Hlo Hl Hnd Hf.
  - exists f. cbn [text_of map app erase tree_of length] in *. rewrite add_children_nil. auto.
  - cbn [text_of map app] in *. destruct f as [|f]; [simpl in Hf; lia|].
    cbn [lines_ok forallb] in Hlo. apply andb_true_iff in Hlo as [H1 H2]. apply andb_true_iff in H1 as [Hh Hn].
    assert (En : stmt_of l = SNoop) by (destruct (stmt_of l); try discriminate Hn; reflexivity).
    destruct (classify_here parent st l Hl Hh) as (key & E). rewrite En in E.
    rewrite (tl_noop f parent nm a g st (render l) key _ E).
    assert (Hf' : length (map render ls ++ rest) < f) by (cbn [length] in Hf; lia).
    destruct (IH parent nm a g st f rest eq_refl H2 Hl Hnd Hf') as (f' & Hf2 & E'). exists f'. split; [exact Hf2|].
    cbn [text_of erase tree_of] in E'. cbn [erase tree_of]. exact E'.
Qed.

Lemma unit_of_stmt st k name : unit_of st = Some (k, name) ->
  st = (match k with KModProcImpl => SModProcImpl name | _ => SUnit k name end).
Proof.
  destruct st as [| | | | |c n| | |n]; cbn [unit_of]; try discriminate.
  - destruct c; intros H; try discriminate H; injection H as <- <-; reflexivity.
  - intros H. injection H as <- <-. reflexivity.
Qed.

Lemma map_erase_nil (cont : list tdecl) :
  (match map erase cont with [] => true | _ => false end) = (match cont with [] => true | _ => false end).
Proof. now destruct cont. Qed.

Theorem every_tdecl_consumed : forall d, tconsumed d.
Proof.
  fix IH 1. intros d.
  destruct d as [l docs|ls|h docs spec cl cont e|h docs body e].
  - (* leaf statement *)
    intros parent nm a g st f rest Hwf Hlo Hl Hnd Hf. cbn [text_of app lines_ok erase] in *.
    apply andb_true_iff in Hlo as [Hh Hleaf].
    destruct (stmt_of l) as [| | | | | | |lk names|] eqn:Es; try discriminate Hleaf.
    destruct f as [|f]; [simpl in Hf; lia|]. exists f.
    split; [cbn [length] in Hf; rewrite app_length in Hf; lia|].
    destruct (classify_here parent st l Hl Hh) as (key & E). rewrite Es in E.
    cbn [wf_decl] in Hwf. apply andb_true_iff in Hwf as [Hwf Hpos]. apply andb_true_iff in Hwf as [Hacc Hne].
    assert (Hg : (match lk with LBoundProc | LFinal => negb (cs_incontains st) | _ => false end) = false).
    { destruct lk; try reflexivity; now rewrite Hpos. }
    rewrite (tl_leaf f parent nm a g st (render l) key lk names _ E Hl Hacc Hg).
    rewrite (take_docs_text_app docs rest Hnd). reflexivity.
  - apply texec_consumed.
  - (* program unit / procedure / type / enum / block data *)
    assert (Hs : Forall tconsumed spec) by (induction spec as [|x xs IHx]; constructor; [apply IH|exact IHx]).
    assert (Hc : Forall tconsumed cont) by (induction cont as [|x xs IHx]; constructor; [apply IH|exact IHx]).
    intros parent nm a g st f rest Hwf Hlo Hl Hnd Hf.
    cbn [lines_ok erase] in Hlo, Hwf |- *. apply andb_true_iff in Hlo as [Hh Hlo].
    destruct (unit_of (stmt_of h)) as [[k name]|] eqn:Eu; [|discriminate Hlo].
    apply andb_true_iff in Hlo as [Hlo Hee]. apply andb_true_iff in Hlo as [Hlo He].
    apply andb_true_iff in Hlo as [Hlo Hlc]. apply andb_true_iff in Hlo as [Hls Hcl].
    cbn [wf_decl] in Hwf.
    apply andb_true_iff in Hwf as [Hwf Hshape]. apply andb_true_iff in Hwf as [Hwf Hwc].
    apply andb_true_iff in Hwf as [Hwf Hcan]. apply andb_true_iff in Hwf as [Hwf Hws].
    apply andb_true_iff in Hwf as [Hwf Hnf]. apply andb_true_iff in Hwf as [Hacc Hpos].
    assert (Hcan' : (match cont with [] => true | _ => can_contain k end) = true) by (destruct cont; [reflexivity|exact Hcan]).
    assert (Hk : k <> KFile) by (intros ->; discriminate).
    pose proof (unit_of_stmt _ _ _ Eu) as Eh.
    cbn [text_of tree_of] in Hf |- *.
    fold (tcontains_part cl cont) in Hf |- *.
    set (BODY := flat_map text_of spec ++ tcontains_part cl cont ++ [render e]) in *.
    assert (Hndb : tno_doc_head (BODY ++ rest)).
    { unfold BODY. rewrite <- !app_assoc. apply (lines_ok_list_head k false); [exact Hls|].
      destruct cont; cbn [tcontains_part app tno_doc_head].
      - exact (nodoc_here _ _ _ He).
      - apply andb_true_iff in Hcl as [Hcl _]. exact (nodoc_here _ _ _ Hcl). }
    destruct f as [|f]; [simpl in Hf; lia|]. exists f.
    assert (Hlen : length rest < f).
    { cbn [app length] in Hf. rewrite !app_length in Hf. lia. }
    split; [exact Hlen|].
    assert (Hfb : length (flat_map text_of spec ++ tcontains_part cl cont ++ [render e] ++ rest) < f).
    { cbn [app length] in Hf. unfold BODY in Hf. rewrite !app_length in *. cbn [length] in *. lia. }
    pose proof (tbody_parsed k name false false docs spec cl cont e Hs Hc Hws Hls Hcan' Hcl Hwc Hlc He Hee Hk f rest Hfb) as Hbody.
    assert (Erest : (map doc_line docs ++ BODY) ++ rest = map doc_line docs ++ (BODY ++ rest)) by now rewrite app_assoc.
    assert (Eb2 : BODY ++ rest = flat_map text_of spec ++ tcontains_part cl cont ++ [render e] ++ rest).
    { unfold BODY. now rewrite <- !app_assoc. }
    destruct (classify_here parent st h Hl Hh) as (key & E). rewrite Eh in E.
    change ((render h :: map doc_line docs ++ BODY) ++ rest) with (render h :: (map doc_line docs ++ BODY) ++ rest).
    rewrite Erest.
    destruct (ckind_is_modproc k) eqn:Emp.
    + destruct k; try discriminate Emp.
      rewrite (tl_modproc f parent nm a g st (render h) key name _ E Hacc).
      rewrite (take_docs_text_app docs _ Hndb), Eb2, Hbody. reflexivity.
    + assert (Hbc : (match k with KSubroutine | KFunction => is_codeunit parent && negb (cs_incontains st) | _ => false end) = false).
      { destruct k; try reflexivity; simpl in Hpos;
          (destruct (is_codeunit parent); [|reflexivity]); rewrite orb_false_r in Hpos; now rewrite Hpos. }
      assert (Efirst : (match k with KModProcImpl => SModProcImpl name | _ => SUnit k name end) = SUnit k name)
        by (destruct k; try reflexivity; discriminate Emp).
      rewrite Efirst in E.
      rewrite (tl_unit f parent nm a g st (render h) key k name _ E Hl Hacc Hbc).
      rewrite (take_docs_text_app docs _ Hndb), Eb2, Hbody. reflexivity.
  - (* interface block *)
    assert (Hs : Forall tconsumed body) by (induction body as [|x xs IHx]; constructor; [apply IH|exact IHx]).
    intros parent nm a g st f rest Hwf Hlo Hl Hnd Hf.
    cbn [lines_ok erase] in Hlo, Hwf |- *. apply andb_true_iff in Hlo as [Hh Hlo].
    destruct (stmt_of h) as [| | | | | |ab name| |] eqn:Eh; try discriminate Hlo.
    apply andb_true_iff in Hlo as [Hlo Hee]. apply andb_true_iff in Hlo as [Hlb He].
    cbn [wf_decl] in Hwf. apply andb_true_iff in Hwf as [Hwf Hwb]. apply andb_true_iff in Hwf as [Hacc Hpos].
    cbn [text_of tree_of] in Hf |- *.
    set (BODY := flat_map text_of body ++ [render e]) in *.
    assert (Hndb : tno_doc_head (BODY ++ rest)).
    { unfold BODY. rewrite <- app_assoc. apply (lines_ok_list_head KInterface false); [exact Hlb|].
      exact (nodoc_here _ _ _ He). }
    destruct f as [|f]; [simpl in Hf; lia|]. exists f.
    assert (Hlen : length rest < f).
    { cbn [app length] in Hf. rewrite !app_length in Hf. lia. }
    split; [exact Hlen|].
    assert (Hfb : length (flat_map text_of body ++ tcontains_part e [] ++ [render e] ++ rest) < f).
    { cbn [app length tcontains_part] in *. unfold BODY in Hf. rewrite !app_length in *. cbn [length] in *. lia. }
    assert (Hki : KInterface <> KFile) by discriminate.
    pose proof (tbody_parsed KInterface name ab (is_generic name) docs body e [] e Hs (Forall_nil _) Hwb Hlb
                  eq_refl eq_refl eq_refl eq_refl He Hee Hki f rest Hfb) as Hbody.
    cbn [tcontains_part app flat_map map] in Hbody. rewrite app_nil_r in Hbody.
    destruct (classify_here parent st h Hl Hh) as (key & E). rewrite Eh in E.
    change ((render h :: map doc_line docs ++ BODY) ++ rest) with (render h :: (map doc_line docs ++ BODY) ++ rest).
    rewrite <- app_assoc.
    rewrite (tl_iface f parent nm a g st (render h) key ab name _ E Hl Hacc).
    rewrite (take_docs_text_app docs _ Hndb). unfold BODY. rewrite <- app_assoc. cbn [app]. rewrite Hbody. reflexivity.
Qed.

(* C01, from text to tree: the lines of every spelled well-formed file are parsed -- every line
   classified by the chain in the state the parser is in -- into exactly the declared tree *)
Theorem text_roundtrip fname units :
  forallb (wf_decl KFile false) (map erase units) = true ->
  forallb (lines_ok KFile false) units = true ->
  parse_text fname (file_text units) = TOk (file_tree fname (map erase units)) [].
Proof.
  intros H HL. unfold parse_text, file_text, file_tree.
  assert (Hc : Forall tconsumed units) by (apply Forall_forall; intros; apply every_tdecl_consumed).
  pose proof (tconsumed_list units Hc KFile fname false false (fresh []) (S (length (flat_map text_of units))) []
                H HL (fresh_level0 []) I) as Hx.
  rewrite app_nil_r in Hx. destruct (Hx (Nat.lt_succ_diag_r _)) as (f' & Hf' & E). clear Hx.
  change (parse_lines (S (length (flat_map text_of units))) KFile fname false false (fresh []) (flat_map text_of units)
          = TOk (Container KFile fname false false [] (flat_map tree_of (map erase units))) []).
  rewrite E. destruct f' as [|f']; [simpl in Hf'; lia|].
  reflexivity.
Qed.

(* non-vacuity: a module (use, statements that declare nothing, an abstract type with components, bindings and a
   FINAL without "::" after CONTAINS, a generic interface, a variable, a contained pure function whose END
   carries a statement label), a block data unit closed by "end blockdata", a program closed by a bare END *)
Definition ireal := XDecl (mkts [true] [] 1 1 1 1 0 0) (ANum BReal (Some (s "dp"))) (Some 0) 1.
Definition example_text_units : list tdecl :=
  [TUnit (XModule [true] 2 (s "Mesh_Tools")) [s " a module"]
     [TLeaf (XUse [] 1 (s "iso")) [];
      TExec [XImplicitNone [] [true] 1; XAccess APrivate [true]];
      TUnit (XType [true; true] (TAttrs 0 1 1 0 [(TAbstract, [])]) (s "shape")) [s " a type"]
        [TLeaf (ireal [s "a"; s "b"]) [s " sides"]]
        (XContains [true])
        [TLeaf (XBound [] [true] 1 0 1 1 1 [(s "draw", s "draw_impl")]) [s " binding"];
         TLeaf (XFinal [] None 0 0 [s "f1"]) []]
        (XEndUnit None [] [] 0 1 EType (Some (1, s "shape")));
      TIface (XInterface [] (Some (1, s "area"))) [s " generic"]
        [TLeaf (XModProcRef [] [] 1 None 0 1 [s "area_r"; s "area_i"]) []]
        (XEndUnit None [] [] 1 1 EInterface None);
      TLeaf (ireal [s "tol"]) [s " tolerance"]]
     (XContains [])
     [TUnit (XFunction [(PPure, [], 0)] [] 0 (s "area_r") 1 0 [s "x"] (Some (0, [true], 1, s "r"))) [s " area"]
        [TLeaf (ireal [s "x"; s "r"]) []; TExec [XExec 0; XExec 8]] (XContains []) []
        (XEndUnit (Some (s "99", 0)) [] [] 1 1 EFunction (Some (0, s "area_r")))]
     (XEndUnit None [true; true; true] [] 0 1 EModule (Some (1, s "Mesh_Tools")));
   TUnit (XBlockData [] [] 0 (Some (0, s "bd"))) [] [TLeaf (XCommon [] 0 0 0 1 (s "blk") [s "u"; s "v"]) []]
     (XContains []) [] (XEndUnit None [] [] 1 0 EBlockData (Some (0, s "bd")));
   TUnit (XProgram [] (Some (0, s "main"))) [s " the program"] [TExec [XExec 1]] (XContains []) [] (XEnd None [true])].
Example text_roundtrip_example :
  forallb (wf_decl KFile false) (map erase example_text_units) = true /\
  forallb (lines_ok KFile false) example_text_units = true /\
  parse_text (s "t.f90") (file_text example_text_units) = TOk (file_tree (s "t.f90") (map erase example_text_units)) [].
Proof. repeat split; vm_compute; reflexivity. Qed.
