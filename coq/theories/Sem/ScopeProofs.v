(* Sem/ScopeProofs.v — proofs about Sem/Scope.v (property C07) *)
From Ford Require Import Base.Str Base.StrFacts Sem.Scope.
From Coq Require Import Lia.

(* ================================================================== 0. association lists, stores *)

Lemma str_in_In n l : str_in n l = true <-> In n l.
Proof.
  induction l as [|x l IH]; simpl; [split; [discriminate | tauto]|].
  rewrite orb_true_iff, IH, str_eqb_eq. split; intros [H|H]; auto.
Qed.
Lemma str_in_false n l : str_in n l = false <-> ~ In n l.
Proof. rewrite <- str_in_In. destruct (str_in n l); split; congruence. Qed.

Lemma path_eqb_eq (a b : list str) : list_eqb str_eqb a b = true <-> a = b.
Proof. apply list_eqb_eq. apply str_eqb_eq. Qed.
Lemma ent_eqb_eq (a b : ent) : ent_eqb a b = true <-> a = b.
Proof. apply path_eqb_eq. Qed.

Lemma get_set_same (k : str) (v : ent) t : assoc_get k (assoc_set k v t) = Some v.
Proof.
  induction t as [|[k' v'] t IH]; simpl.
  - now rewrite str_eqb_refl.
  - destruct (str_eqb k k') eqn:E; simpl; [now rewrite str_eqb_refl | now rewrite E].
Qed.
Lemma get_set_other (k k' : str) (v : ent) t : k <> k' -> assoc_get k' (assoc_set k v t) = assoc_get k' t.
Proof.
  intros N. induction t as [|[k2 v2] t IH]; simpl.
  - apply not_eq_sym in N. apply str_eqb_neq in N. now rewrite N.
  - destruct (str_eqb k k2) eqn:E; simpl.
    + apply str_eqb_eq in E. subst k2. apply not_eq_sym in N. apply str_eqb_neq in N. now rewrite N.
    + destruct (str_eqb k' k2); auto.
Qed.
Lemma get_In (k : str) (v : ent) t : assoc_get k t = Some v -> In (k, v) t.
Proof.
  induction t as [|[k' v'] t IH]; simpl; [discriminate|].
  destruct (str_eqb k k') eqn:E.
  - apply str_eqb_eq in E. intros H; injection H as ->. subst. now left.
  - intros H. right. auto.
Qed.
Lemma In_get_some (k : str) (v : ent) t : In (k, v) t -> exists v', assoc_get k t = Some v'.
Proof.
  induction t as [|[k' v'] t IH]; simpl; [tauto|].
  intros [H|H].
  - injection H as -> ->. rewrite str_eqb_refl. eauto.
  - destruct (str_eqb k k'); eauto.
Qed.
Lemma In_set (k : str) (v : ent) t x : In x (assoc_set k v t) -> x = (k, v) \/ In x t.
Proof.
  induction t as [|[k' v'] t IH]; simpl.
  - intros [H|[]]; auto.
  - destruct (str_eqb k k'); simpl; intros [H|H]; auto. apply IH in H. tauto.
Qed.
Lemma update_cons (t : table) kv l : update t (kv :: l) = update (assoc_set (fst kv) (snd kv) t) l.
Proof. reflexivity. Qed.
Lemma In_update (t l : table) x : In x (update t l) -> In x l \/ In x t.
Proof.
  revert t. induction l as [|kv l IH]; intros t H; [now right|].
  rewrite update_cons in H. apply IH in H as [H|H]; [left; now right|].
  apply In_set in H as [H|H]; [|now right]. left. left. subst. now destruct kv.
Qed.
(* keys only grow *)
Lemma get_set_some (k k' : str) (v : ent) t :
  assoc_get k' t <> None -> assoc_get k' (assoc_set k v t) <> None.
Proof.
  intros H. destruct (str_eqb k k') eqn:E.
  - apply str_eqb_eq in E. subst. rewrite get_set_same. discriminate.
  - apply str_eqb_neq in E. now rewrite get_set_other.
Qed.
Lemma get_update_keep (t l : table) k : assoc_get k t <> None -> assoc_get k (update t l) <> None.
Proof.
  revert t. induction l as [|kv l IH]; intros t H; [exact H|].
  rewrite update_cons. apply IH. now apply get_set_some.
Qed.
Lemma get_update_new (t l : table) k : In k (map fst l) -> assoc_get k (update t l) <> None.
Proof.
  revert t. induction l as [|[k1 v1] l IH]; intros t H; [destruct H|].
  rewrite update_cons. simpl in *. destruct H as [H|H].
  - subst. apply get_update_keep. rewrite get_set_same. discriminate.
  - now apply IH.
Qed.

Lemma st_get_set_same i t st : st_get i (st_set i t st) = t.
Proof.
  induction st as [|[j t'] st IH]; simpl.
  - now rewrite Nat.eqb_refl.
  - destruct (Nat.eqb i j) eqn:E; simpl; [now rewrite Nat.eqb_refl | now rewrite E].
Qed.
Lemma st_get_set_other i j t st : i <> j -> st_get j (st_set i t st) = st_get j st.
Proof.
  intros N. induction st as [|[k t'] st IH]; simpl.
  - apply Nat.eqb_neq in N. rewrite Nat.eqb_sym in N. now rewrite N.
  - destruct (Nat.eqb i k) eqn:E; simpl.
    + apply Nat.eqb_eq in E. subst k. assert (Nat.eqb j i = false) by (apply Nat.eqb_neq; auto). now rewrite H.
    + destruct (Nat.eqb j k); auto.
Qed.

Lemma flat_map_ext_in' {A B} (f1 f2 : A -> list B) l :
  (forall x, In x l -> f1 x = f2 x) -> flat_map f1 l = flat_map f2 l.
Proof.
  induction l as [|x l IH]; intros H; simpl; auto.
  rewrite (H x (or_introl eq_refl)), IH; auto. intros y Hy. apply H. now right.
Qed.

(* ================================================================== 1. an undeclared name stays a string *)

(* every key of every table satisfies P, P holding for all own and use-associated names *)
Definition keys_ok (P : str -> Prop) (st : store) : Prop := forall i k e, In (k, e) (st_get i st) -> P k.
Definition scope_names_ok (P : str -> Prop) (Sc : srec) : Prop :=
  forall c k e, In (k, e) (own Sc (own_names Sc c) ++ imports_of Sc c) -> P k.

Lemma keys_ok_set (P : str -> Prop) i t st : keys_ok P st -> (forall k e, In (k, e) t -> P k) -> keys_ok P (st_set i t st).
Proof.
  intros H Ht j k e Hin. destruct (Nat.eq_dec i j) as [->|N].
  - rewrite st_get_set_same in Hin. eauto.
  - rewrite st_get_set_other in Hin by auto. eauto.
Qed.
Lemma update_keys (P : str -> Prop) (t l : table) :
  (forall k e, In (k, e) t -> P k) -> (forall k e, In (k, e) l -> P k) -> forall k e, In (k, e) (update t l) -> P k.
Proof. intros Ht Hl k e H. apply In_update in H as [H|H]; eauto. Qed.

Definition stores_ok (P : str -> Prop) (ss : stores) : Prop :=
  keys_ok P (sp ss) /\ keys_ok P (sa ss) /\ keys_ok P (sy ss).

Lemma model_resolver_key (P : str -> Prop) ss E lk n e :
  stores_ok P ss -> model_resolver ss E lk n = Some e -> P n.
Proof.
  intros (Hp & Ha & Hy) H. unfold model_resolver, tab in H. destruct lk; simpl in H.
  - apply get_In in H. eapply Hy; eauto.
  - apply get_In in H. eapply Hp; eauto.
  - destruct (assoc_get n (st_get (e_procs E) (sp ss))) eqn:E1.
    + apply get_In in E1. eapply Hp; eauto.
    + apply get_In in H. eapply Ha; eauto.
  - apply get_In in H. eapply Ha; eauto.
Qed.

Definition out_ok (P : str -> Prop) (out : list res) : Prop :=
  forall r, In r out -> r_ent r <> None -> P (r_name r).

Lemma step_keys (P : str -> Prop) s ev :
  (forall Sc, ev = Enter Sc -> scope_names_ok P Sc) ->
  stores_ok P (st_stores s) -> out_ok P (st_out s) ->
  stores_ok P (st_stores (step s ev)) /\ out_ok P (st_out (step s ev)).
Proof.
  intros Hev Hss Hout. destruct ev as [Sc|]; simpl.
  - specialize (Hev Sc eq_refl). unfold enter_scope.
    set (parent := parent_env Sc (st_stack s)).
    set (ss := st_stores s) in *. destruct Hss as (Hp & Ha & Hy).
    assert (Hmk : forall c, (forall i k e, In (k, e) (st_get i (store_of ss c)) -> P k) ->
              forall k e, In (k, e) (update (update (match parent with Some E => tab ss E c | None => [] end)
                                                    (own Sc (own_names Sc c))) (imports_of Sc c)) -> P k).
    { intros c Hc. apply update_keys.
      - apply update_keys.
        + destruct parent as [E|]; [|intros k e []]. intros k e H. unfold tab in H. eapply Hc; eauto.
        + intros k e H. apply (Hev c k e). apply in_app_iff. now left.
      - intros k e H. apply (Hev c k e). apply in_app_iff. now right. }
    assert (Hss' : stores_ok P
              {| sp := st_set (st_next s) (update (update (match parent with Some E => tab ss E CProc | None => [] end)
                                                          (own Sc (own_names Sc CProc))) (imports_of Sc CProc)) (sp ss);
                 sa := st_set (st_next s) (update (update (match parent with Some E => tab ss E CAbs | None => [] end)
                                                          (own Sc (own_names Sc CAbs))) (imports_of Sc CAbs)) (sa ss);
                 sy := st_set (st_next s) (update (update (match parent with Some E => tab ss E CType | None => [] end)
                                                          (own Sc (own_names Sc CType))) (imports_of Sc CType)) (sy ss) |}).
    { repeat split; simpl; apply keys_ok_set; auto.
      - apply (Hmk CProc). exact Hp.
      - apply (Hmk CAbs). exact Ha.
      - apply (Hmk CType). exact Hy. }
    split; [exact Hss'|]. simpl.
    intros r Hr Hne. apply in_app_iff in Hr as [Hr|Hr]; [now apply Hout|].
    apply in_map_iff in Hr as (q & <- & _). simpl in *.
    destruct (model_resolver _ _ (q_look q) (q_name q)) eqn:E; [|congruence].
    eapply model_resolver_key; eauto.
  - unfold exit_scope. destruct (st_stack s) as [|E rest]; [split; assumption|]. simpl. split; auto.
    intros r Hr Hne. apply in_app_iff in Hr as [Hr|Hr]; [now apply Hout|].
    apply in_map_iff in Hr as (q & <- & _). simpl in *.
    destruct (model_resolver _ _ (q_look q) (q_name q)) eqn:E'; [|congruence].
    eapply model_resolver_key; eauto.
Qed.

Lemma fold_keys (P : str -> Prop) evs s :
  (forall Sc, In (Enter Sc) evs -> scope_names_ok P Sc) ->
  stores_ok P (st_stores s) -> out_ok P (st_out s) ->
  out_ok P (st_out (fold_left step evs s)).
Proof.
  revert s. induction evs as [|ev evs IH]; intros s Hev Hss Hout; simpl; auto.
  destruct (step_keys P s ev) as [H1 H2]; auto.
  - intros Sc ->. apply Hev. now left.
  - apply IH; auto. intros Sc H. apply Hev. now right.
Qed.

Lemma mentioned_scope evs Sc c k e :
  In (Enter Sc) evs -> In (k, e) (own Sc (own_names Sc c) ++ imports_of Sc c) -> mentioned evs k = true.
Proof.
  intros HS H. unfold mentioned. apply str_in_In. apply in_map_iff. exists (k, e). split; auto.
  assert (Hall : In Sc (scopes_of evs)).
  { unfold scopes_of. apply in_flat_map. exists (Enter Sc). split; auto. now left. }
  assert (Hd : In (k, e) (all_decls c (scopes_of evs))).
  { unfold all_decls. apply in_flat_map. eauto. }
  rewrite !in_app_iff. destruct c; auto.
Qed.

(* whatever the unit looks like: a slot that FORD resolves was looked up under a name that some
   scope of the unit declares or obtains by use association *)
Theorem unresolved_stays_text evs r :
  In r (correlate evs) -> mentioned evs (r_name r) = false -> r_ent r = None.
Proof.
  intros Hr Hm. destruct (r_ent r) eqn:E; auto. exfalso.
  assert (H : out_ok (fun k => mentioned evs k = true) (correlate evs)).
  { unfold correlate. apply fold_keys.
    - intros Sc HS c k e' H. eapply mentioned_scope; eauto.
    - repeat split; intros i k e' [].
    - intros r' []. }
  specialize (H r Hr). rewrite E in H. rewrite H in Hm; [discriminate|discriminate].
Qed.

(* ================================================================== 2. Model = Spec *)

Definition functional (l : list (str * ent)) : Prop :=
  forall n e1 e2, In (n, e1) l -> In (n, e2) l -> e1 = e2.
Lemma functional_b_iff l : functional_b l = true <-> functional l.
Proof.
  induction l as [|[n e] l IH]; simpl.
  - split; auto. intros _ n e1 e2 [].
  - rewrite andb_true_iff, forallb_forall, IH. split.
    + intros [H1 H2] n' e1 e2 [A|A] [B|B].
      * congruence.
      * injection A as <- <-. apply H1 in B. simpl in B. rewrite str_eqb_refl in B. simpl in B.
        symmetry. now apply ent_eqb_eq.
      * injection B as <- <-. apply H1 in A. simpl in A. rewrite str_eqb_refl in A. simpl in A.
        now apply ent_eqb_eq.
      * eapply H2; eauto.
    + intros F. split.
      * intros [k v] Hin. simpl. destruct (str_eqb k n) eqn:E; simpl; auto.
        apply str_eqb_eq in E. subst k. apply ent_eqb_eq. apply (F n); [now right | now left].
      * intros n' e1 e2 A B. apply (F n'); now right.
Qed.


Lemma opt_ent_eqb_eq (a b : option ent) : opt_eqb ent_eqb a b = true <-> a = b.
Proof.
  destruct a, b; simpl; split; try discriminate; auto.
  - intros H. f_equal. now apply ent_eqb_eq.
  - intros H. injection H as ->. now apply ent_eqb_eq.
Qed.

Lemma update_get_or k (t l : table) :
  (exists v, In (k, v) l /\ assoc_get k (update t l) = Some v) \/
  ((forall v, ~ In (k, v) l) /\ assoc_get k (update t l) = assoc_get k t).
Proof.
  revert t. induction l as [|[k1 v1] l IH]; intros t.
  - right. split; auto.
  - rewrite update_cons. simpl fst; simpl snd.
    destruct (IH (assoc_set k1 v1 t)) as [(v & Hin & E)|(Hn & E)].
    + left. exists v. split; [now right | exact E].
    + destruct (str_eqb k1 k) eqn:Ek.
      * apply str_eqb_eq in Ek. subst k1. left. exists v1. split; [now left|].
        now rewrite E, get_set_same.
      * apply str_eqb_neq in Ek. right. split.
        -- intros v [H|H]; [injection H as -> _; congruence | now apply Hn in H].
        -- now rewrite E, get_set_other.
Qed.

(* the look-up along a host chain, innermost scope first *)
Fixpoint stack_look (f : srec -> option ent) (l : list srec) : option ent :=
  match l with
  | [] => None
  | Sc :: r => match f Sc with Some e => Some e | None => stack_look f r end
  end.
Fixpoint chain (l : list srec) : Prop :=
  match l with
  | [] => True
  | Sc :: r => match r with
               | [] => length (s_path Sc) = 1
               | H :: _ => removelast (s_path Sc) = s_path H /\ s_path Sc <> []
               end /\ chain r
  end.

Lemma find_scope_unique all Sc :
  NoDup (map s_path all) -> In Sc all -> find_scope all (s_path Sc) = Some Sc.
Proof.
  unfold find_scope. induction all as [|X all IH]; simpl; [tauto|]. intros ND [H|H].
  - subst. now rewrite (proj2 (path_eqb_eq _ _) eq_refl).
  - inversion ND as [|? ? Hn ND']; subst. destruct (list_eqb str_eqb (s_path X) (s_path Sc)) eqn:E.
    + apply path_eqb_eq in E. exfalso. apply Hn. rewrite E. now apply in_map.
    + auto.
Qed.
Lemma find_scope_nil all : (forall Sc, In Sc all -> s_path Sc <> []) -> find_scope all [] = None.
Proof.
  unfold find_scope. induction all as [|X all IH]; simpl; auto. intros H.
  destruct (list_eqb str_eqb (s_path X) []) eqn:E.
  - apply path_eqb_eq in E. exfalso. apply (H X); auto.
  - apply IH. intros Sc HS. apply H. now right.
Qed.

Lemma resolve_fuel_stack all (f : srec -> option ent) :
  NoDup (map s_path all) -> (forall Sc, In Sc all -> s_path Sc <> []) ->
  forall l, chain l -> (forall Sc, In Sc l -> In Sc all) ->
  forall Sc r, l = Sc :: r -> forall fuel, length (s_path Sc) <= fuel ->
  resolve_fuel fuel all (s_path Sc) f = stack_look f l.
Proof.
  intros ND NE. induction l as [|X l IH]; intros Hc Hin Sc r El fuel Hf; [discriminate|].
  injection El as -> ->. destruct Hc as [Hx Hc].
  assert (HX : In Sc all) by (apply Hin; now left).
  destruct fuel as [|fuel].
  { exfalso. specialize (NE Sc HX). destruct (s_path Sc); simpl in *; [congruence | lia]. }
  simpl. rewrite (find_scope_unique all Sc ND HX). destruct (f Sc) eqn:Ef; auto.
  destruct (s_path Sc) as [|x p] eqn:Ep; [exfalso; now apply (NE Sc HX)|].
  destruct r as [|H r'].
  - (* the unit: its path has one name *)
    simpl in Hx. injection Hx as Hp. destruct p; [|discriminate]. simpl.
    destruct fuel; simpl; auto. rewrite (find_scope_nil all NE). reflexivity.
  - destruct Hx as [Hrm _]. rewrite Hrm.
    apply (IH Hc (fun S0 HS0 => Hin S0 (or_intror HS0)) H r' eq_refl).
    rewrite <- Hrm. assert (length (removelast (x :: p)) = length p).
    { clear. revert x. induction p as [|y p IHp]; intros x; simpl; auto. simpl in IHp. now rewrite IHp. }
    rewrite H0. simpl in Hf. lia.
Qed.

Lemma spec_resolver_stack all l Sc r lk n :
  NoDup (map s_path all) -> (forall S0, In S0 all -> s_path S0 <> []) ->
  chain l -> (forall S0, In S0 l -> In S0 all) -> l = Sc :: r ->
  spec_resolver all (s_path Sc) lk n = stack_look (fun S0 => look_in S0 lk n) l.
Proof.
  intros ND NE Hc Hin El. unfold spec_resolver.
  apply (resolve_fuel_stack all _ ND NE l Hc Hin Sc r El). lia.
Qed.

Lemma stack_look_in (f : srec -> option ent) l e :
  stack_look f l = Some e -> exists Sc, In Sc l /\ f Sc = Some e.
Proof.
  induction l as [|X l IH]; simpl; [discriminate|]. destruct (f X) eqn:E.
  - intros H; injection H as <-. eauto.
  - intros H. apply IH in H as (Sc & HS & Hf). eauto.
Qed.
Lemma stack_look_some (f : srec -> option ent) l Sc :
  In Sc l -> f Sc <> None -> stack_look f l <> None.
Proof.
  induction l as [|X l IH]; simpl; [tauto|]. intros [->|H] Hf.
  - destruct (f Sc); congruence.
  - destruct (f X); [discriminate|]. auto.
Qed.


(* ---- the table of a scope as a function of its host chain (innermost scope first) *)
Fixpoint tabf (c : cls) (hosts : list srec) : table :=
  match hosts with
  | [] => []
  | Sc :: r => update (update (tabf c r) (own Sc (own_names Sc c))) (imports_of Sc c)
  end.

Lemma scope_legal_facts Sc c :
  scope_legal Sc = true ->
  functional (imports_of Sc c) /\ (forall n, In n (own_names Sc c) -> ~ In n (map fst (imports_of Sc c))).
Proof.
  unfold scope_legal. rewrite forallb_forall. intros H.
  assert (Hc : In c [CProc; CAbs; CType]) by (destruct c; simpl; auto).
  specialize (H c Hc). apply andb_true_iff in H as [H1 H2]. split; [now apply functional_b_iff|].
  rewrite forallb_forall in H2. intros n Hn. specialize (H2 n Hn). apply negb_true_iff in H2.
  now apply str_in_false.
Qed.

Lemma own_get Sc names n (t : table) :
  assoc_get n (update t (own Sc names)) = if str_in n names then Some (s_path Sc ++ [n]) else assoc_get n t.
Proof.
  destruct (update_get_or n t (own Sc names)) as [(v & Hin & E)|(Hn & E)]; rewrite E.
  - unfold own in Hin. apply in_map_iff in Hin as (x & Ex & Hx). injection Ex as -> <-.
    apply str_in_In in Hx. now rewrite Hx.
  - destruct (str_in n names) eqn:Es; auto. apply str_in_In in Es. exfalso.
    apply (Hn (s_path Sc ++ [n])). unfold own. apply in_map_iff. exists n. auto.
Qed.

(* the dictionary of a scope answers as Fortran's host association does, class by class *)
Lemma tabf_get c hosts n :
  (forall Sc, In Sc hosts -> scope_legal Sc = true) ->
  assoc_get n (tabf c hosts) = stack_look (fun Sc => local_lookup Sc c n) hosts.
Proof.
  induction hosts as [|Sc r IH]; intros Hl; [reflexivity|]. simpl.
  destruct (scope_legal_facts Sc c (Hl Sc (or_introl eq_refl))) as [Hf Hd].
  unfold local_lookup.
  destruct (update_get_or n (update (tabf c r) (own Sc (own_names Sc c))) (imports_of Sc c)) as [(v & Hin & E)|(Hn & E)];
    rewrite E.
  - (* use-associated in Sc *)
    assert (Hno : str_in n (own_names Sc c) = false).
    { apply str_in_false. intros Ho. apply (Hd n Ho). now apply (in_map fst) in Hin. }
    rewrite Hno. destruct (In_get_some _ _ _ Hin) as (v' & Ev'). rewrite Ev'. f_equal.
    apply get_In in Ev'. apply (Hf n); assumption.
  - rewrite own_get. destruct (str_in n (own_names Sc c)); auto.
    assert (Eg : assoc_get n (imports_of Sc c) = None).
    { destruct (assoc_get n (imports_of Sc c)) eqn:G; auto. apply get_In in G. now apply Hn in G. }
    rewrite Eg. apply IH. intros S0 H0. apply Hl. now right.
Qed.

(* ---- the invariant of the traversal *)
Definition new_env (Sc : srec) (s : state) : env :=
  {| e_scope := Sc; e_procs := st_next s; e_abs := st_next s; e_types := st_next s |}.
Lemma enter_stack Sc s : st_stack (enter_scope Sc s) = new_env Sc s :: st_stack s.
Proof. reflexivity. Qed.
Lemma enter_next Sc s : st_next (enter_scope Sc s) = S (st_next s).
Proof. reflexivity. Qed.

Record Inv (all : list srec) (s : state) : Prop := {
  inv_in : forall E, In E (st_stack s) -> In (e_scope E) all;
  inv_chain : chain (map e_scope (st_stack s));
  inv_tab : forall pre E post c, st_stack s = pre ++ E :: post ->
            tab (st_stores s) E c = tabf c (map e_scope (E :: post));
  inv_ids : forall E, In E (st_stack s) ->
            e_procs E < st_next s /\ e_abs E < st_next s /\ e_types E < st_next s }.

Definition enter_ok (Sc : srec) (s : state) : Prop :=
  (st_stack s = [] /\ s_kind Sc = KUnit /\ length (s_path Sc) = 1) \/
  (exists E0 rest, st_stack s = E0 :: rest /\ s_kind Sc <> KUnit /\
                   removelast (s_path Sc) = s_path (e_scope E0) /\ s_path Sc <> []).

Lemma parent_env_cases Sc s :
  enter_ok Sc s ->
  (parent_env Sc (st_stack s) = None /\ st_stack s = []) \/
  (exists E0 rest, parent_env Sc (st_stack s) = Some E0 /\ st_stack s = E0 :: rest).
Proof.
  intros [(Hs & Hk & _)|(E0 & rest & Hs & Hk & _)]; unfold parent_env; rewrite Hs.
  - left. rewrite Hk. auto.
  - right. exists E0, rest. split; auto. destruct (s_kind Sc); congruence.
Qed.

Lemma init_inv all : Inv all init_state.
Proof.
  constructor; simpl; try tauto. intros pre E post c H. destruct pre; discriminate.
Qed.

Lemma enter_tab_new Sc s c :
  tab (st_stores (enter_scope Sc s)) (new_env Sc s) c
  = update (update (match parent_env Sc (st_stack s) with Some E => tab (st_stores s) E c | None => [] end)
                   (own Sc (own_names Sc c))) (imports_of Sc c).
Proof. unfold tab, enter_scope, new_env. destruct c; simpl; now rewrite st_get_set_same. Qed.
Lemma enter_tab_old Sc s E c :
  e_procs E < st_next s -> e_abs E < st_next s -> e_types E < st_next s ->
  tab (st_stores (enter_scope Sc s)) E c = tab (st_stores s) E c.
Proof.
  intros Hp Ha Hy. unfold tab, enter_scope. destruct c; simpl; apply st_get_set_other; lia.
Qed.

Lemma inv_enter all Sc s : Inv all s -> In Sc all -> enter_ok Sc s -> Inv all (enter_scope Sc s).
Proof.
  intros [Iin Ich Itab Iid] HSc Hok.
  pose proof (parent_env_cases Sc s Hok) as Hpar.
  constructor.
  - rewrite enter_stack. intros E [<-|H]; auto.
  - rewrite enter_stack. simpl. split; [|exact Ich].
    destruct Hok as [(Hs & _ & Hl)|(E0 & rest & Hs & _ & Hr & Hn)]; rewrite Hs; simpl; auto.
  - rewrite enter_stack. intros pre E post c Hst. destruct pre as [|X pre]; simpl in Hst; injection Hst as <- Hst.
    + subst post. rewrite enter_tab_new. simpl. f_equal. f_equal.
      destruct Hpar as [[Hp Hs]|(E0 & rest & Hp & Hs)]; rewrite Hp, Hs.
      * reflexivity.
      * apply (Itab [] E0 rest c). exact Hs.
    + assert (HE : In E (st_stack s)) by (rewrite Hst; apply in_app_iff; right; now left).
      destruct (Iid E HE) as (Hp & Ha & Hy). rewrite enter_tab_old by assumption.
      now apply (Itab pre E post c).
  - rewrite enter_stack, enter_next. intros E [<-|H].
    + simpl. lia.
    + destruct (Iid E H) as (Hp & Ha & Hy). lia.
Qed.

Lemma inv_exit all s : Inv all s -> Inv all (exit_scope s).
Proof.
  intros HI. unfold exit_scope. destruct (st_stack s) as [|E rest] eqn:Hs; [exact HI|].
  destruct HI as [Iin Ich Itab Iid]. rewrite Hs in *.
  constructor; simpl.
  - intros E' H. apply Iin. now right.
  - simpl in Ich. tauto.
  - intros pre E' post c Hst. apply (Itab (E :: pre) E' post c). now rewrite Hst.
  - intros E' H. apply Iid. now right.
Qed.

(* ---- the answers *)
Lemma look_in_class lk c n :
  match lk, c with LType, CType | LProc, CProc | LAbs, CAbs => True | _, _ => False end ->
  forall hosts, stack_look (fun Sc => look_in Sc lk n) hosts = stack_look (fun Sc => local_lookup Sc c n) hosts.
Proof. intros H hosts. destruct lk, c; try tauto; reflexivity. Qed.

Lemma answers_agree all s E rest reqs :
  NoDup (map s_path all) -> (forall S0, In S0 all -> s_path S0 <> []) ->
  (forall S0, In S0 all -> scope_legal S0 = true) ->
  Inv all s -> st_stack s = E :: rest ->
  map (answer (model_resolver (st_stores s) E)) reqs
  = map (answer (procs_first (spec_resolver all (s_path (e_scope E))))) reqs.
Proof.
  intros ND NE LG [Iin Ich Itab Iid] Hs. apply map_ext_in. intros q _.
  unfold answer. f_equal.
  set (hosts := map e_scope (E :: rest)).
  assert (Hhosts : forall S0, In S0 hosts -> In S0 all).
  { intros S0 H. apply in_map_iff in H as (E' & <- & H). apply Iin. now rewrite Hs. }
  assert (Hleg : forall S0, In S0 hosts -> scope_legal S0 = true) by (intros S0 H; apply LG; auto).
  assert (Hspec : forall lk n, spec_resolver all (s_path (e_scope E)) lk n
                               = stack_look (fun S0 => look_in S0 lk n) hosts).
  { intros lk n. apply (spec_resolver_stack all hosts (e_scope E) (map e_scope rest)); auto.
    unfold hosts. rewrite <- Hs. exact Ich. }
  assert (Htab : forall c n, assoc_get n (tab (st_stores s) E c) = stack_look (fun S0 => local_lookup S0 c n) hosts).
  { intros c n. rewrite (Itab [] E rest c Hs). now apply tabf_get. }
  unfold model_resolver, procs_first. destruct (q_look q).
  - rewrite Htab, Hspec. symmetry. now apply (look_in_class LType CType).
  - rewrite Htab, Hspec. symmetry. now apply (look_in_class LProc CProc).
  - rewrite !Htab, !Hspec. rewrite (look_in_class LProc CProc), (look_in_class LAbs CAbs) by exact I. reflexivity.
  - rewrite Htab, Hspec. symmetry. now apply (look_in_class LAbs CAbs).
Qed.

Definition chunkE (all : list srec) (Sc : srec) : list res :=
  map (answer (procs_first (spec_resolver all (s_path Sc)))) (enter_reqs Sc).
Definition chunkX (all : list srec) (Sc : srec) : list res :=
  map (answer (procs_first (spec_resolver all (s_path Sc)))) (exit_reqs Sc).

Lemma run_spec all :
  NoDup (map s_path all) -> (forall S0, In S0 all -> s_path S0 <> []) ->
  (forall S0, In S0 all -> scope_legal S0 = true) ->
  forall post s entered exited,
  (forall Sc, In (Enter Sc) post -> In Sc all) ->
  wf_ev (map (fun E => s_path (e_scope E)) (st_stack s)) post = true ->
  Inv all s ->
  (forall S0, In S0 entered <-> In S0 exited \/ In S0 (map e_scope (st_stack s))) ->
  (forall r, In r (st_out s) <->
             (exists S0, In S0 entered /\ In r (chunkE all S0)) \/
             (exists S0, In S0 exited /\ In r (chunkX all S0))) ->
  forall r, In r (st_out (fold_left step post s)) <->
            (exists S0, In S0 (entered ++ scopes_of post) /\ In r (chunkE all S0)) \/
            (exists S0, In S0 (entered ++ scopes_of post) /\ In r (chunkX all S0)).
Proof.
  intros ND NE LG. induction post as [|ev post IH]; intros s entered exited Hall Hwf HI Hrel Hout r.
  - simpl in *. destruct (st_stack s) eqn:Hs; [|discriminate]. simpl in Hwf.
    rewrite app_nil_r. rewrite Hout. split; (intros [H|(S0 & H1 & H2)]; [now left|]); right; exists S0; split; auto.
    + apply Hrel. now left.
    + apply Hrel in H1 as [H1|[]]. exact H1.
  - destruct ev as [Sc|].
    + assert (HSc : In Sc all) by (apply Hall; now left).
      simpl in Hwf. apply andb_true_iff in Hwf as [Hcond Hwf].
      assert (Hok : enter_ok Sc s).
      { unfold enter_ok. destruct (st_stack s) as [|E0 rest] eqn:Hs; simpl in Hcond.
        - left. destruct (s_kind Sc); try discriminate. apply Nat.eqb_eq in Hcond. auto.
        - right. exists E0, rest. split; auto.
          destruct (s_kind Sc); try discriminate; apply andb_true_iff in Hcond as [H1 H2];
            apply path_eqb_eq in H1; apply negb_true_iff, Nat.eqb_neq in H2;
            (repeat split; [discriminate | exact H1 | intros Hn; rewrite Hn in H2; simpl in H2; congruence]). }
      pose proof (inv_enter all Sc s HI HSc Hok) as HI'.
      simpl fold_left. simpl scopes_of.
      replace (entered ++ Sc :: scopes_of post) with ((entered ++ [Sc]) ++ scopes_of post)
        by (now rewrite <- app_assoc).
      apply (IH (enter_scope Sc s) (entered ++ [Sc]) exited).
      * intros S0 H. apply Hall. now right.
      * rewrite enter_stack. simpl. exact Hwf.
      * exact HI'.
      * intros S0. rewrite enter_stack, in_app_iff. simpl. rewrite Hrel. intuition.
      * intros r0.
        assert (Hchunk : st_out (enter_scope Sc s) = st_out s ++ chunkE all Sc).
        { unfold chunkE. change (st_out (enter_scope Sc s))
            with (st_out s ++ map (answer (model_resolver (st_stores (enter_scope Sc s)) (new_env Sc s))) (enter_reqs Sc)).
          f_equal.
          apply (answers_agree all (enter_scope Sc s) (new_env Sc s) (st_stack s)); auto. }
        rewrite Hchunk, in_app_iff, Hout. split.
        -- intros [[(S0 & H1 & H2)|(S0 & H1 & H2)]|H].
           ++ left. exists S0. split; auto. apply in_app_iff. now left.
           ++ right. eauto.
           ++ left. exists Sc. split; auto. apply in_app_iff. right. now left.
        -- intros [(S0 & H1 & H2)|(S0 & H1 & H2)].
           ++ apply in_app_iff in H1 as [H1|[<-|[]]]; [left; left; eauto | now right].
           ++ left. right. eauto.
    + simpl in Hwf. destruct (st_stack s) as [|E rest] eqn:Hs; simpl in Hwf; [discriminate|].
      simpl fold_left. simpl scopes_of.
      assert (Hstep : exit_scope s = {| st_stores := st_stores s; st_next := st_next s; st_stack := rest;
                                        st_out := st_out s ++ chunkX all (e_scope E) |}).
      { unfold exit_scope. rewrite Hs. f_equal. f_equal. unfold chunkX.
        apply (answers_agree all s E rest); auto. }
      apply (IH (exit_scope s) entered (exited ++ [e_scope E])).
      * intros S0 H. apply Hall. now right.
      * rewrite Hstep. simpl. exact Hwf.
      * now apply inv_exit.
      * intros S0. rewrite Hstep. simpl. rewrite Hrel, in_app_iff. simpl. intuition.
      * intros r0. rewrite Hstep. simpl. rewrite in_app_iff, Hout. split.
        -- intros [[H|(S0 & H1 & H2)]|H]; [now left | |].
           ++ right. exists S0. split; auto. apply in_app_iff. now left.
           ++ right. exists (e_scope E). split; auto. apply in_app_iff. right. now left.
        -- intros [H|(S0 & H1 & H2)]; [now left; left|].
           apply in_app_iff in H1 as [H1|[<-|[]]]; [left; right; eauto | now right].
Qed.

Lemma nodup_paths_NoDup l : nodup_paths l = true -> NoDup l.
Proof.
  induction l as [|p l IH]; simpl; [constructor|]. intros H. apply andb_true_iff in H as [H1 H2].
  constructor; auto. intros Hin. apply negb_true_iff in H1.
  assert (existsb (list_eqb str_eqb p) l = true).
  { apply existsb_exists. exists p. split; auto. now apply path_eqb_eq. }
  congruence.
Qed.
Lemma wf_ev_nonempty stack evs Sc :
  wf_ev stack evs = true -> In (Enter Sc) evs -> s_path Sc <> [].
Proof.
  revert stack. induction evs as [|ev evs IH]; intros stack Hwf Hin; [destruct Hin|].
  destruct ev as [X|]; simpl in Hwf.
  - apply andb_true_iff in Hwf as [Hc Hwf]. destruct Hin as [H|H]; [|eauto].
    injection H as ->. intros Hn. rewrite Hn in Hc. simpl in Hc.
    destruct stack, (s_kind Sc); simpl in Hc; try discriminate;
      rewrite ?andb_false_r in Hc; discriminate.
  - destruct Hin as [H|H]; [discriminate|]. destruct stack; [discriminate|]. eauto.
Qed.
Lemma scopes_of_In evs Sc : In Sc (scopes_of evs) <-> In (Enter Sc) evs.
Proof.
  unfold scopes_of. rewrite in_flat_map. split.
  - intros (ev & Hev & H). destruct ev; [|destruct H]. destruct H as [->|[]]. exact Hev.
  - intros H. exists (Enter Sc). split; auto. now left.
Qed.


(* For every legal unit the slots FORD fills are those of the Spec in which procedure(n) is read
   "a visible procedure n, else a visible abstract interface n" *)
Theorem model_is_spec_procs_first evs :
  wf_events evs = true -> scopes_legal evs = true ->
  forall r, In r (correlate evs) <-> In r (spec_procs_first evs).
Proof.
  intros Hwf Hl r. unfold wf_events in Hwf. apply andb_true_iff in Hwf as [Hwf Hnd].
  set (all := scopes_of evs) in *.
  assert (ND : NoDup (map s_path all)) by now apply nodup_paths_NoDup.
  assert (NE : forall S0, In S0 all -> s_path S0 <> []).
  { intros S0 H. apply scopes_of_In in H. eapply wf_ev_nonempty; eauto. }
  assert (LG : forall S0, In S0 all -> scope_legal S0 = true).
  { unfold scopes_legal in Hl. rewrite forallb_forall in Hl. exact Hl. }
  pose proof (run_spec all ND NE LG evs init_state [] []) as H.
  unfold correlate. rewrite H; clear H.
  - simpl. unfold spec_procs_first. fold all. rewrite in_flat_map. unfold chunkE, chunkX. split.
    + intros [(S0 & H1 & H2)|(S0 & H1 & H2)]; exists S0; (split; [exact H1|]); rewrite map_app, in_app_iff; auto.
    + intros (S0 & H1 & H2). rewrite map_app, in_app_iff in H2. destruct H2; [left | right]; eauto.
  - intros Sc H. now apply scopes_of_In.
  - exact Hwf.
  - apply init_inv.
  - simpl. tauto.
  - simpl. intros r0. split; [tauto|]. intros [(S0 & [] & _)|(S0 & [] & _)].
Qed.

(* the two readings of procedure(n) coincide unless an inner abstract interface hides an outer procedure *)
Lemma spec_procs_first_eq evs : procabs_consistent evs = true -> spec_procs_first evs = spec evs.
Proof.
  intros H. unfold spec_procs_first, spec. unfold procabs_consistent in H. rewrite forallb_forall in H.
  apply flat_map_ext_in'. intros Sc HS. apply map_ext_in. intros q Hq.
  specialize (H Sc HS). rewrite forallb_forall in H. specialize (H q Hq).
  unfold answer. f_equal. unfold procs_first. destruct (q_look q); auto.
  unfold procabs_ok in H. apply opt_ent_eqb_eq in H. now rewrite H.
Qed.

Theorem partial_correct evs :
  wf_events evs = true -> scopes_legal evs = true -> procabs_consistent evs = true ->
  forall r, In r (correlate evs) <-> In r (spec evs).
Proof.
  intros Hwf Hl Hp r. rewrite <- (spec_procs_first_eq evs Hp). now apply model_is_spec_procs_first.
Qed.

(* every slot that is not a procedure(n) reference: no region at all *)
Theorem types_and_procs_correct evs :
  wf_events evs = true -> scopes_legal evs = true ->
  forall r, r_look r <> LProcAbs -> (In r (correlate evs) <-> In r (spec evs)).
Proof.
  intros Hwf Hl r Hr. rewrite (model_is_spec_procs_first evs Hwf Hl r).
  unfold spec_procs_first, spec. rewrite !in_flat_map.
  split; intros (Sc & HS & Hin); exists Sc; (split; [exact HS|]);
    apply in_map_iff in Hin as (q & Eq & Hq); apply in_map_iff; exists q; (split; [|exact Hq]);
    subst r; unfold answer in *; simpl in *; f_equal; unfold procs_first; destruct (q_look q); auto; congruence.
Qed.

(* ================================================================== 3. witnesses and examples *)

Definition key_of (r : res) : list str * str * option ent := (r_scope r, r_name r, r_ent r).
Definition key_eqb (a b : list str * str * option ent) : bool :=
  list_eqb str_eqb (fst (fst a)) (fst (fst b)) && str_eqb (snd (fst a)) (snd (fst b))
  && opt_eqb ent_eqb (snd a) (snd b).
Lemma key_eqb_refl a : key_eqb a a = true.
Proof.
  destruct a as [[p n] e]. unfold key_eqb. simpl.
  rewrite (proj2 (path_eqb_eq p p) eq_refl), str_eqb_refl. simpl.
  destruct e as [e|]; simpl; auto. now apply ent_eqb_eq.
Qed.
Lemma not_in_spec r l : existsb (key_eqb (key_of r)) (map key_of l) = false -> ~ In r l.
Proof.
  intros H Hin. assert (existsb (key_eqb (key_of r)) (map key_of l) = true).
  { apply existsb_exists. exists (key_of r). split; [now apply in_map | apply key_eqb_refl]. }
  congruence.
Qed.

Definition mkS (p : list string) k procs abs ts gs vs imps : srec :=
  {| s_path := map s p; s_kind := k; s_procs := map s procs; s_abs := map s abs; s_types := ts;
     s_generics := gs; s_vars := vs; s_imports := imps |}.
Definition mkV (n : string) (r : option tyref) : var := {| v_name := s n; v_ref := r |}.
Definition mkT (n : string) (e : option str) cs bs fs : dtype :=
  {| t_name := s n; t_extends := e; t_comps := cs; t_binds := bs; t_finals := fs |}.

Local Open Scope string_scope.
(* module m
     contains
       subroutine helper
       subroutine a:  procedure(helper), pointer :: p ; contains subroutine helper *)
Definition w_shadow : list event :=
  [Enter (mkS ["m"] KUnit ["helper"; "a"] [] [] [] [] []);
   Enter (mkS ["m"; "helper"] KProc [] [] [] [] [] []); Exit;
   Enter (mkS ["m"; "a"] KProc ["helper"] [] [] [] [mkV "p" (Some (TRProc (s "helper")))] []);
   Enter (mkS ["m"; "a"; "helper"] KProc [] [] [] [] [] []); Exit;
   Exit; Exit].
(* module m:  type(t) :: z
     contains
       subroutine a:  type t ; type(t) :: x
       subroutine b:  type(t) :: y *)
Definition w_leak : list event :=
  [Enter (mkS ["m"] KUnit ["a"; "b"] [] [] [] [mkV "z" (Some (TRType (s "t")))] []);
   Enter (mkS ["m"; "a"] KProc [] [] [mkT "t" None [] [] []] [] [mkV "x" (Some (TRType (s "t")))] []); Exit;
   Enter (mkS ["m"; "b"] KProc [] [] [] [] [mkV "y" (Some (TRType (s "t")))] []); Exit;
   Exit].
(* module m
     contains
       subroutine x
       subroutine a:  abstract interface x ; procedure(x), pointer :: p *)
Definition w_absproc : list event :=
  [Enter (mkS ["m"] KUnit ["x"; "a"] [] [] [] [] []);
   Enter (mkS ["m"; "x"] KProc [] [] [] [] [] []); Exit;
   Enter (mkS ["m"; "a"] KProc [] ["x"] [] [] [mkV "p" (Some (TRProc (s "x")))] []);
   Enter (mkS ["m"; "a"; "x"] KBody [] [] [] [] [] []); Exit;
   Exit; Exit].
Local Close Scope string_scope.

Definition refuted_by (evs : list event) (r : res) : Prop :=
  wf_events evs = true /\ scopes_legal evs = true /\ In r (correlate evs) /\ ~ In r (spec evs).

(* inside a, "x" is a's abstract interface; FORD takes the module procedure x *)
Lemma refuted_abs_over_proc :
  refuted_by w_absproc {| r_scope := map s ["m"; "a"]%string; r_slot := SVar (s "p"); r_look := LProcAbs;
                          r_name := s "x"; r_ent := Some (map s ["m"; "x"]%string) |}
  /\ procabs_consistent w_absproc = false.
Proof.
  split; [|vm_compute; reflexivity]. split; [vm_compute; reflexivity|]. split; [vm_compute; reflexivity|]. split.
  - vm_compute. repeat (first [left; reflexivity | right]).
  - apply not_in_spec. vm_compute. reflexivity.
Qed.

(* the two defects repaired in FortranCodeUnit.correlate: their witnesses now get Fortran's answer
   (a's own helper; nothing for the type that only the sibling declares) *)
Example fixed_proc_shadow :
  wf_events w_shadow = true /\ scopes_legal w_shadow = true /\ procabs_consistent w_shadow = true /\
  In {| r_scope := map s ["m"; "a"]%string; r_slot := SVar (s "p"); r_look := LProcAbs;
        r_name := s "helper"; r_ent := Some (map s ["m"; "a"; "helper"]%string) |} (correlate w_shadow).
Proof.
  repeat split; try (vm_compute; reflexivity). vm_compute. repeat (first [left; reflexivity | right]).
Qed.
Example fixed_sibling_leak :
  wf_events w_leak = true /\ scopes_legal w_leak = true /\ procabs_consistent w_leak = true /\
  In {| r_scope := map s ["m"; "b"]%string; r_slot := SVar (s "y"); r_look := LType;
        r_name := s "t"; r_ent := None |} (correlate w_leak) /\
  In {| r_scope := map s ["m"]%string; r_slot := SVar (s "z"); r_look := LType;
        r_name := s "t"; r_ent := None |} (correlate w_leak) /\
  In {| r_scope := map s ["m"; "a"]%string; r_slot := SVar (s "x"); r_look := LType;
        r_name := s "t"; r_ent := Some (map s ["m"; "a"; "t"]%string) |} (correlate w_leak).
Proof.
  repeat split; try (vm_compute; reflexivity); vm_compute; repeat (first [left; reflexivity | right]).
Qed.

(* a unit with unique names: every kind of slot, three nesting levels, an interface body, names
   obtained by use association, and names declared nowhere *)
Local Open Scope string_scope.
Definition ex_unit : list event :=
  [Enter (mkS ["ma"] KUnit ["worker"; "fin"; "make_child"; "child"; "gen"; "extp"] ["cb"]
            [mkT "base" None [mkV "c1" (Some (TRType (s "nosuch_t")))] [] [];
             mkT "child" (Some (s "base"))
                 [mkV "c2" (Some (TRType (s "base"))); mkV "c3" (Some (TRProc (s "cb")))]
                 [{| b_name := s "b1"; b_deferred := false; b_proto := None; b_targets := [s "worker"] |};
                  {| b_name := s "b2"; b_deferred := true; b_proto := Some (s "cb"); b_targets := [] |};
                  {| b_name := s "b3"; b_deferred := false; b_proto := None; b_targets := [s "phantom"] |}]
                 [s "fin"]]
            [{| g_name := s "child"; g_modprocs := [s "make_child"] |};
             {| g_name := s "gen"; g_modprocs := [s "worker"; s "fin"] |}]
            [mkV "v1" (Some (TRType (s "child"))); mkV "v2" (Some (TRProc (s "cb")));
             mkV "v3" (Some (TRType (s "ghost"))); mkV "v4" (Some (TRType (s "imported_t")))]
            [(CType, (s "imported_t", map s ["lib"; "imported_t"]))]);
   Enter (mkS ["ma"; "worker"] KProc ["inner"] [] [] [] [mkV "w1" (Some (TRType (s "base")))] []);
   Enter (mkS ["ma"; "worker"; "inner"] KProc [] [] [] []
            [mkV "i1" (Some (TRType (s "child"))); mkV "i2" (Some (TRProc (s "worker")));
             mkV "i3" (Some (TRType (s "imported_t")))] []); Exit;
   Exit;
   Enter (mkS ["ma"; "fin"] KProc [] [] [] [] [mkV "self" (Some (TRType (s "child")))] []); Exit;
   Enter (mkS ["ma"; "make_child"] KProc [] [] [] [] [] []); Exit;
   Enter (mkS ["ma"; "extp"] KBody [] [] [] [] [mkV "e1" (Some (TRType (s "base")))] []); Exit;
   Enter (mkS ["ma"; "cb"] KBody [] [] [] [] [mkV "a1" (Some (TRType (s "base")))] []); Exit;
   Exit].
Local Close Scope string_scope.

Example ex_unit_hypotheses :
  wf_events ex_unit = true /\ scopes_legal ex_unit = true /\ procabs_consistent ex_unit = true /\
  length (correlate ex_unit) = 24 /\
  existsb (fun r => match r_ent r with Some _ => true | None => false end) (correlate ex_unit) = true /\
  existsb (fun r => match r_ent r with Some _ => false | None => true end) (correlate ex_unit) = true /\
  existsb (fun r => match r_look r with LProcAbs => true | _ => false end) (correlate ex_unit) = true.
Proof. repeat split; vm_compute; reflexivity. Qed.
