(* Sem/ScopeProofs.v — proofs about Sem/Scope.v (property C07) *)
From Ford Require Import Base.Str Base.StrFacts Sem.Scope.
From Coq Require Import Lia.

(* ================================================================== 0. association lists, stores *)

Lemma str_in_In n l : str_in n l = true <-> In n l.
Proof.
  induction l as [|x l IH]; simpl; [split; [discriminate | tauto]|].
  rewrite orb_true_iff, IH, str_eqb_eq. split; intros [H|H]; auto.
Qed.
Lemma str_in_false n l : str_in n l = false <-> ~ In n l.
Proof. rewrite <- str_in_In. destruct (str_in n l); split; congruence. Qed.

Lemma path_eqb_eq (a b : list str) : list_eqb str_eqb a b = true <-> a = b.
Proof. apply list_eqb_eq. apply str_eqb_eq. Qed.
Lemma ent_eqb_eq (a b : ent) : ent_eqb a b = true <-> a = b.
Proof. apply path_eqb_eq. Qed.

Lemma get_set_same (k : str) (v : ent) t : assoc_get k (assoc_set k v t) = Some v.
Proof.
  induction t as [|[k' v'] t IH]; simpl.
  - now rewrite str_eqb_refl.
  - destruct (str_eqb k k') eqn:E; simpl; [now rewrite str_eqb_refl | now rewrite E].
Qed.
Lemma get_set_other (k k' : str) (v : ent) t : k <> k' -> assoc_get k' (assoc_set k v t) = assoc_get k' t.
Proof.
  intros N. induction t as [|[k2 v2] t IH]; simpl.
  - apply not_eq_sym in N. apply str_eqb_neq in N. now rewrite N.
  - destruct (str_eqb k k2) eqn:E; simpl.
    + apply str_eqb_eq in E. subst k2. apply not_eq_sym in N. apply str_eqb_neq in N. now rewrite N.
    + destruct (str_eqb k' k2); auto.
Qed.
Lemma get_In (k : str) (v : ent) t : assoc_get k t = Some v -> In (k, v) t.
Proof.
  induction t as [|[k' v'] t IH]; simpl; [discriminate|].
  destruct (str_eqb k k') eqn:E.
  - apply str_eqb_eq in E. intros H; injection H as ->. subst. now left.
  - intros H. right. auto.
Qed.
Lemma In_get_some (k : str) (v : ent) t : In (k, v) t -> exists v', assoc_get k t = Some v'.
Proof.
  induction t as [|[k' v'] t IH]; simpl; [tauto|].
  intros [H|H].
  - injection H as -> ->. rewrite str_eqb_refl. eauto.
  - destruct (str_eqb k k'); eauto.
Qed.
Lemma In_set (k : str) (v : ent) t x : In x (assoc_set k v t) -> x = (k, v) \/ In x t.
Proof.
  induction t as [|[k' v'] t IH]; simpl.
  - intros [H|[]]; auto.
  - destruct (str_eqb k k'); simpl; intros [H|H]; auto. apply IH in H. tauto.
Qed.
Lemma update_cons (t : table) kv l : update t (kv :: l) = update (assoc_set (fst kv) (snd kv) t) l.
Proof. reflexivity. Qed.
Lemma In_update (t l : table) x : In x (update t l) -> In x l \/ In x t.
Proof.
  revert t. induction l as [|kv l IH]; intros t H; [now right|].
  rewrite update_cons in H. apply IH in H as [H|H]; [left; now right|].
  apply In_set in H as [H|H]; [|now right]. left. left. subst. now destruct kv.
Qed.
(* keys only grow *)
Lemma get_set_some (k k' : str) (v : ent) t :
  assoc_get k' t <> None -> assoc_get k' (assoc_set k v t) <> None.
Proof.
  intros H. destruct (str_eqb k k') eqn:E.
  - apply str_eqb_eq in E. subst. rewrite get_set_same. discriminate.
  - apply str_eqb_neq in E. now rewrite get_set_other.
Qed.
Lemma get_update_keep (t l : table) k : assoc_get k t <> None -> assoc_get k (update t l) <> None.
Proof.
  revert t. induction l as [|kv l IH]; intros t H; [exact H|].
  rewrite update_cons. apply IH. now apply get_set_some.
Qed.
Lemma get_update_new (t l : table) k : In k (map fst l) -> assoc_get k (update t l) <> None.
Proof.
  revert t. induction l as [|[k1 v1] l IH]; intros t H; [destruct H|].
  rewrite update_cons. simpl in *. destruct H as [H|H].
  - subst. apply get_update_keep. rewrite get_set_same. discriminate.
  - now apply IH.
Qed.

Lemma st_get_set_same i t st : st_get i (st_set i t st) = t.
Proof.
  induction st as [|[j t'] st IH]; simpl.
  - now rewrite Nat.eqb_refl.
  - destruct (Nat.eqb i j) eqn:E; simpl; [now rewrite Nat.eqb_refl | now rewrite E].
Qed.
Lemma st_get_set_other i j t st : i <> j -> st_get j (st_set i t st) = st_get j st.
Proof.
  intros N. induction st as [|[k t'] st IH]; simpl.
  - apply Nat.eqb_neq in N. rewrite Nat.eqb_sym in N. now rewrite N.
  - destruct (Nat.eqb i k) eqn:E; simpl.
    + apply Nat.eqb_eq in E. subst k. assert (Nat.eqb j i = false) by (apply Nat.eqb_neq; auto). now rewrite H.
    + destruct (Nat.eqb j k); auto.
Qed.

Lemma flat_map_ext_in' {A B} (f1 f2 : A -> list B) l :
  (forall x, In x l -> f1 x = f2 x) -> flat_map f1 l = flat_map f2 l.
Proof.
  induction l as [|x l IH]; intros H; simpl; auto.
  rewrite (H x (or_introl eq_refl)), IH; auto. intros y Hy. apply H. now right.
Qed.

(* ================================================================== 1. an undeclared name stays a string *)

(* every key of every table satisfies P, P holding for all own and use-associated names *)
Definition keys_ok (P : str -> Prop) (st : store) : Prop := forall i k e, In (k, e) (st_get i st) -> P k.
Definition scope_names_ok (P : str -> Prop) (Sc : srec) : Prop :=
  forall c k e, In (k, e) (own Sc (own_names Sc c) ++ imports_of Sc c) -> P k.

Lemma keys_ok_set (P : str -> Prop) i t st : keys_ok P st -> (forall k e, In (k, e) t -> P k) -> keys_ok P (st_set i t st).
Proof.
  intros H Ht j k e Hin. destruct (Nat.eq_dec i j) as [->|N].
  - rewrite st_get_set_same in Hin. eauto.
  - rewrite st_get_set_other in Hin by auto. eauto.
Qed.
Lemma update_keys (P : str -> Prop) (t l : table) :
  (forall k e, In (k, e) t -> P k) -> (forall k e, In (k, e) l -> P k) -> forall k e, In (k, e) (update t l) -> P k.
Proof. intros Ht Hl k e H. apply In_update in H as [H|H]; eauto. Qed.

Definition stores_ok (P : str -> Prop) (ss : stores) : Prop :=
  keys_ok P (sp ss) /\ keys_ok P (sa ss) /\ keys_ok P (sy ss).

Lemma model_resolver_key (P : str -> Prop) ss E lk n e :
  stores_ok P ss -> model_resolver ss E lk n = Some e -> P n.
Proof.
  intros (Hp & Ha & Hy) H. unfold model_resolver, tab in H. destruct lk; simpl in H.
  - apply get_In in H. eapply Hy; eauto.
  - apply get_In in H. eapply Hp; eauto.
  - destruct (assoc_get n (st_get (e_procs E) (sp ss))) eqn:E1.
    + apply get_In in E1. eapply Hp; eauto.
    + apply get_In in H. eapply Ha; eauto.
Qed.

Definition out_ok (P : str -> Prop) (out : list res) : Prop :=
  forall r, In r out -> r_ent r <> None -> P (r_name r).

Lemma step_keys (P : str -> Prop) s ev :
  (forall Sc, ev = Enter Sc -> scope_names_ok P Sc) ->
  stores_ok P (st_stores s) -> out_ok P (st_out s) ->
  stores_ok P (st_stores (step s ev)) /\ out_ok P (st_out (step s ev)).
Proof.
  intros Hev Hss Hout. destruct ev as [Sc|]; simpl.
  - specialize (Hev Sc eq_refl). unfold enter_scope.
    set (ss := st_stores s) in *. destruct Hss as (Hp & Ha & Hy).
    set (mk := fun c => scope_table Sc c (match host_env Sc s with Some E => tab ss E c | None => [] end)).
    assert (Hmk : forall c, (forall i k e, In (k, e) (st_get i (store_of ss c)) -> P k) ->
                            forall k e, In (k, e) (mk c) -> P k).
    { intros c Hc.
      assert (Hown : forall k e, In (k, e) (own Sc (own_names Sc c)) -> P k).
      { intros k e H. apply (Hev c k e). apply in_app_iff. now left. }
      assert (Himp : forall k e, In (k, e) (imports_of Sc c) -> P k).
      { intros k e H. apply (Hev c k e). apply in_app_iff. now right. }
      assert (Htab : forall E k e, In (k, e) (tab ss E c) -> P k).
      { intros E k e H. unfold tab in H. eapply Hc; eauto. }
      assert (Hbase : forall k e, In (k, e) (match host_env Sc s with Some E => tab ss E c | None => [] end) -> P k).
      { destruct (host_env Sc s); [apply Htab | intros k e []]. }
      unfold mk, scope_table. apply update_keys; auto. apply update_keys; auto.
      destruct c; auto. intros k e H. unfold drop in H. apply filter_In in H as [H _]. eauto. }
    assert (Hss' : stores_ok P {| sp := st_set (st_next s) (mk CProc) (sp ss);
                                  sa := st_set (st_next s) (mk CAbs) (sa ss);
                                  sy := st_set (st_next s) (mk CType) (sy ss) |}).
    { repeat split; simpl; apply keys_ok_set; auto.
      - apply (Hmk CProc). exact Hp.
      - apply (Hmk CAbs). exact Ha.
      - apply (Hmk CType). exact Hy. }
    split; [exact Hss'|]. simpl.
    intros r Hr Hne. apply in_app_iff in Hr as [Hr|Hr]; [now apply Hout|].
    apply in_map_iff in Hr as (q & <- & _). simpl in *.
    destruct (model_resolver _ _ (q_look q) (q_name q)) eqn:E; [|congruence].
    eapply model_resolver_key; eauto.
  - unfold exit_scope. destruct (st_stack s) as [|E rest]; [split; assumption|]. simpl. split; auto.
    intros r Hr Hne. apply in_app_iff in Hr as [Hr|Hr]; [now apply Hout|].
    apply in_map_iff in Hr as (q & <- & _). simpl in *.
    destruct (model_resolver _ _ (q_look q) (q_name q)) eqn:E'; [|congruence].
    eapply model_resolver_key; eauto.
Qed.

Lemma fold_keys (P : str -> Prop) evs s :
  (forall Sc, In (Enter Sc) evs -> scope_names_ok P Sc) ->
  stores_ok P (st_stores s) -> out_ok P (st_out s) ->
  out_ok P (st_out (fold_left step evs s)).
Proof.
  revert s. induction evs as [|ev evs IH]; intros s Hev Hss Hout; simpl; auto.
  destruct (step_keys P s ev) as [H1 H2]; auto.
  - intros Sc ->. apply Hev. now left.
  - apply IH; auto. intros Sc H. apply Hev. now right.
Qed.

Lemma mentioned_scope evs Sc c k e :
  In (Enter Sc) evs -> In (k, e) (own Sc (own_names Sc c) ++ imports_of Sc c) -> mentioned evs k = true.
Proof.
  intros HS H. unfold mentioned. apply str_in_In. apply in_map_iff. exists (k, e). split; auto.
  assert (Hall : In Sc (scopes_of evs)).
  { unfold scopes_of. apply in_flat_map. exists (Enter Sc). split; auto. now left. }
  assert (Hd : In (k, e) (all_decls c (scopes_of evs))).
  { unfold all_decls. apply in_flat_map. eauto. }
  rewrite !in_app_iff. destruct c; auto.
Qed.

(* whatever the unit looks like: a slot that FORD resolves was looked up under a name that some
   scope of the unit declares or obtains by use association *)
Theorem unresolved_stays_text evs r :
  In r (correlate evs) -> mentioned evs (r_name r) = false -> r_ent r = None.
Proof.
  intros Hr Hm. destruct (r_ent r) eqn:E; auto. exfalso.
  assert (H : out_ok (fun k => mentioned evs k = true) (correlate evs)).
  { unfold correlate. apply fold_keys.
    - intros Sc HS c k e' H. eapply mentioned_scope; eauto.
    - repeat split; intros i k e' [].
    - intros r' []. }
  specialize (H r Hr). rewrite E in H. rewrite H in Hm; [discriminate|discriminate].
Qed.

(* ================================================================== 2. Model = Spec *)

Definition functional (l : list (str * ent)) : Prop :=
  forall n e1 e2, In (n, e1) l -> In (n, e2) l -> e1 = e2.
Lemma functional_b_iff l : functional_b l = true <-> functional l.
Proof.
  induction l as [|[n e] l IH]; simpl.
  - split; auto. intros _ n e1 e2 [].
  - rewrite andb_true_iff, forallb_forall, IH. split.
    + intros [H1 H2] n' e1 e2 [A|A] [B|B].
      * congruence.
      * injection A as <- <-. apply H1 in B. simpl in B. rewrite str_eqb_refl in B. simpl in B.
        symmetry. now apply ent_eqb_eq.
      * injection B as <- <-. apply H1 in A. simpl in A. rewrite str_eqb_refl in A. simpl in A.
        now apply ent_eqb_eq.
      * eapply H2; eauto.
    + intros F. split.
      * intros [k v] Hin. simpl. destruct (str_eqb k n) eqn:E; simpl; auto.
        apply str_eqb_eq in E. subst k. apply ent_eqb_eq. apply (F n); [now right | now left].
      * intros n' e1 e2 A B. apply (F n'); now right.
Qed.


Lemma opt_ent_eqb_eq (a b : option ent) : opt_eqb ent_eqb a b = true <-> a = b.
Proof.
  destruct a, b; simpl; split; try discriminate; auto.
  - intros H. f_equal. now apply ent_eqb_eq.
  - intros H. injection H as ->. now apply ent_eqb_eq.
Qed.

Lemma update_get_or k (t l : table) :
  (exists v, In (k, v) l /\ assoc_get k (update t l) = Some v) \/
  ((forall v, ~ In (k, v) l) /\ assoc_get k (update t l) = assoc_get k t).
Proof.
  revert t. induction l as [|[k1 v1] l IH]; intros t.
  - right. split; auto.
  - rewrite update_cons. simpl fst; simpl snd.
    destruct (IH (assoc_set k1 v1 t)) as [(v & Hin & E)|(Hn & E)].
    + left. exists v. split; [now right | exact E].
    + destruct (str_eqb k1 k) eqn:Ek.
      * apply str_eqb_eq in Ek. subst k1. left. exists v1. split; [now left|].
        now rewrite E, get_set_same.
      * apply str_eqb_neq in Ek. right. split.
        -- intros v [H|H]; [injection H as -> _; congruence | now apply Hn in H].
        -- now rewrite E, get_set_other.
Qed.

(* the look-up along a host chain, innermost scope first *)
Fixpoint stack_look {A} (f : srec -> option A) (l : list srec) : option A :=
  match l with
  | [] => None
  | Sc :: r => match f Sc with Some e => Some e | None => stack_look f r end
  end.
Lemma find_scope_unique all Sc :
  NoDup (map s_path all) -> In Sc all -> find_scope all (s_path Sc) = Some Sc.
Proof.
  unfold find_scope. induction all as [|X all IH]; simpl; [tauto|]. intros ND [H|H].
  - subst. now rewrite (proj2 (path_eqb_eq _ _) eq_refl).
  - inversion ND as [|? ? Hn ND']; subst. destruct (list_eqb str_eqb (s_path X) (s_path Sc)) eqn:E.
    + apply path_eqb_eq in E. exfalso. apply Hn. rewrite E. now apply in_map.
    + auto.
Qed.
Lemma find_scope_nil all : (forall Sc, In Sc all -> s_path Sc <> []) -> find_scope all [] = None.
Proof.
  unfold find_scope. induction all as [|X all IH]; simpl; auto. intros H.
  destruct (list_eqb str_eqb (s_path X) []) eqn:E.
  - apply path_eqb_eq in E. exfalso. apply (H X); auto.
  - apply IH. intros Sc HS. apply H. now right.
Qed.

Lemma stack_look_in {A} (f : srec -> option A) l e :
  stack_look f l = Some e -> exists Sc, In Sc l /\ f Sc = Some e.
Proof.
  induction l as [|X l IH]; simpl; [discriminate|]. destruct (f X) eqn:E.
  - intros H; injection H as <-. eauto.
  - intros H. apply IH in H as (Sc & HS & Hf). eauto.
Qed.
Lemma stack_look_some {A} (f : srec -> option A) l Sc :
  In Sc l -> f Sc <> None -> stack_look f l <> None.
Proof.
  induction l as [|X l IH]; simpl; [tauto|]. intros [->|H] Hf.
  - destruct (f Sc); congruence.
  - destruct (f X); [discriminate|]. auto.
Qed.


(* ---- the table of a scope as a function of its host chain (innermost scope first) *)
(* ---- host chains: the scopes a name is looked up in, innermost first; a submodule continues
   with its parent submodule / ancestor module *)
Fixpoint gchain (all : list srec) (l : list srec) : Prop :=
  match l with
  | [] => True
  | Sc :: r => s_path Sc <> [] /\
               next_path all (s_path Sc) = match r with [] => [] | H :: _ => s_path H end /\
               gchain all r
  end.
Lemma gchain_app_r all a b : gchain all (a ++ b) -> gchain all b.
Proof. induction a as [|x a IH]; simpl; auto. intros (_ & _ & H). auto. Qed.

Lemma resolve_fuel_stack {A} all (f : srec -> option A) :
  NoDup (map s_path all) -> (forall Sc, In Sc all -> s_path Sc <> []) ->
  forall l, gchain all l -> (forall Sc, In Sc l -> In Sc all) ->
  forall Sc r, l = Sc :: r -> forall fuel, length l <= fuel ->
  resolve_fuel fuel all (s_path Sc) f = stack_look f l.
Proof.
  intros ND NE. induction l as [|X l IH]; intros Hc Hin Sc r El fuel Hf; [discriminate|].
  injection El as -> ->. destruct Hc as (Hne & Hnext & Hc).
  assert (HX : In Sc all) by (apply Hin; now left).
  destruct fuel as [|fuel]; [simpl in Hf; lia|].
  simpl. rewrite (find_scope_unique all Sc ND HX). destruct (f Sc) eqn:Ef; auto.
  destruct (s_path Sc) as [|x p] eqn:Ep; [congruence|]. rewrite Hnext.
  destruct r as [|H r'].
  - simpl. destruct fuel; simpl; auto. rewrite (find_scope_nil all NE). reflexivity.
  - apply (IH Hc (fun S0 HS0 => Hin S0 (or_intror HS0)) H r' eq_refl). simpl in *. lia.
Qed.

Lemma walk_stack {A} all l Sc r (f : srec -> option A) :
  NoDup (map s_path all) -> (forall S0, In S0 all -> s_path S0 <> []) ->
  gchain all l -> (forall S0, In S0 l -> In S0 all) -> l = Sc :: r -> length l <= length all ->
  walk all (s_path Sc) f = stack_look f l.
Proof.
  intros ND NE Hc Hin El Hlen. unfold walk.
  apply (resolve_fuel_stack all _ ND NE l Hc Hin Sc r El). lia.
Qed.

(* ---- the table of a scope as a function of its host chain *)
Fixpoint tabf (c : cls) (hosts : list srec) : table :=
  match hosts with
  | [] => []
  | Sc :: r => scope_table Sc c (tabf c r)
  end.

Lemma keys_set (k : str) (v : ent) t : forall x, In x (map fst (assoc_set k v t)) <-> x = k \/ In x (map fst t).
Proof.
  induction t as [|[k' v'] t IH]; simpl; intros x.
  - intuition congruence.
  - destruct (str_eqb k k') eqn:E; simpl.
    + apply str_eqb_eq in E. subst. intuition congruence.
    + rewrite IH. intuition congruence.
Qed.
Lemma nodup_set (k : str) (v : ent) t : NoDup (map fst t) -> NoDup (map fst (assoc_set k v t)).
Proof.
  induction t as [|[k' v'] t IH]; simpl; intros ND.
  - constructor; [tauto | constructor].
  - destruct (str_eqb k k') eqn:E; simpl.
    + apply str_eqb_eq in E. now subst.
    + inversion ND as [|? ? Hn ND']; subst. constructor; auto.
      rewrite keys_set. intros [H|H]; auto. subst. now rewrite str_eqb_refl in E.
Qed.
Lemma nodup_update (t l : table) : NoDup (map fst t) -> NoDup (map fst (update t l)).
Proof.
  revert t. induction l as [|kv l IH]; intros t ND; [exact ND|].
  rewrite update_cons. apply IH. now apply nodup_set.
Qed.
Lemma In_get_nodup (k : str) (v : ent) t : NoDup (map fst t) -> In (k, v) t -> assoc_get k t = Some v.
Proof.
  induction t as [|[k' v'] t IH]; simpl; [tauto|].
  intros ND [H|H].
  - injection H as -> ->. now rewrite str_eqb_refl.
  - inversion ND as [|? ? Hn ND']; subst. destruct (str_eqb k k') eqn:E.
    + apply str_eqb_eq in E. subst k'. exfalso. apply Hn. now apply (in_map fst) in H.
    + auto.
Qed.
Lemma nodup_drop names (t : table) : NoDup (map fst t) -> NoDup (map fst (drop names t)).
Proof.
  unfold drop. induction t as [|[k v] t IH]; simpl; intros ND; [constructor|].
  inversion ND as [|? ? Hn ND']; subst. destruct (negb (str_in k names)); simpl; auto.
  constructor; auto. intros H. apply Hn. apply in_map_iff in H as (x & E & Hx). apply filter_In in Hx as [Hx _].
  apply in_map_iff. eauto.
Qed.
Lemma tabf_nodup c l : NoDup (map fst (tabf c l)).
Proof.
  induction l as [|Sc r IH]; simpl; [constructor|].
  unfold scope_table. repeat apply nodup_update. destruct c; auto. now apply nodup_drop.
Qed.
Lemma drop_get names (t : table) n :
  NoDup (map fst t) ->
  assoc_get n (drop names t) = if str_in n names then None else assoc_get n t.
Proof.
  unfold drop. induction t as [|[k v] t IH]; simpl; intros ND.
  - now destruct (str_in n names).
  - inversion ND as [|? ? Hn ND']; subst. specialize (IH ND').
    destruct (str_eqb n k) eqn:E.
    + apply str_eqb_eq in E. subst k. destruct (str_in n names) eqn:Es; simpl.
      * rewrite IH. reflexivity.
      * now rewrite str_eqb_refl.
    + destruct (negb (str_in k names)); simpl; [rewrite E|]; exact IH.
Qed.

Lemma scope_legal_facts Sc c :
  scope_legal Sc = true ->
  functional (imports_of Sc c) /\ (forall n, In n (own_names Sc c) -> ~ In n (map fst (imports_of Sc c))).
Proof.
  unfold scope_legal. rewrite forallb_forall. intros H.
  assert (Hc : In c [CProc; CAbs; CType]) by (destruct c; simpl; auto).
  specialize (H c Hc). apply andb_true_iff in H as [H1 H2]. split; [now apply functional_b_iff|].
  rewrite forallb_forall in H2. intros n Hn. specialize (H2 n Hn). apply negb_true_iff in H2.
  now apply str_in_false.
Qed.

Lemma own_get Sc names n (t : table) :
  assoc_get n (update t (own Sc names)) = if str_in n names then Some (s_path Sc ++ [n]) else assoc_get n t.
Proof.
  destruct (update_get_or n t (own Sc names)) as [(v & Hin & E)|(Hn & E)]; rewrite E.
  - unfold own in Hin. apply in_map_iff in Hin as (x & Ex & Hx). injection Ex as -> <-.
    apply str_in_In in Hx. now rewrite Hx.
  - destruct (str_in n names) eqn:Es; auto. apply str_in_In in Es. exfalso.
    apply (Hn (s_path Sc ++ [n])). unfold own. apply in_map_iff. exists n. auto.
Qed.

(* one step: own declarations over the base, the use-associated names over both *)
Lemma layer_get Sc c n (base : table) :
  scope_legal Sc = true ->
  assoc_get n (update (update base (own Sc (own_names Sc c))) (imports_of Sc c))
  = match local_lookup Sc c n with Some e => Some e | None => assoc_get n base end.
Proof.
  intros Hl. destruct (scope_legal_facts Sc c Hl) as [Hf Hd].
  destruct (update_get_or n (update base (own Sc (own_names Sc c))) (imports_of Sc c)) as [(v & Hin & E)|(Hn & E)];
    rewrite E.
  - unfold local_lookup.
    assert (Hno : str_in n (own_names Sc c) = false).
    { apply str_in_false. intros Ho. apply (Hd n Ho). now apply (in_map fst) in Hin. }
    rewrite Hno. destruct (In_get_some _ _ _ Hin) as (v' & Ev'). rewrite Ev'. f_equal.
    apply get_In in Ev'. apply (Hf n); assumption.
  - assert (Eg : assoc_get n (imports_of Sc c) = None).
    { destruct (assoc_get n (imports_of Sc c)) eqn:G; auto. apply get_In in G. now apply Hn in G. }
    rewrite own_get. unfold local_lookup. rewrite Eg.
    destruct (str_in n (own_names Sc c)); reflexivity.
Qed.

(* the dictionaries of types and of abstract interfaces answer as Fortran's host association does *)
Lemma tabf_get c hosts n :
  c <> CProc ->
  (forall Sc, In Sc hosts -> scope_legal Sc = true) ->
  assoc_get n (tabf c hosts) = stack_look (fun Sc => local_lookup Sc c n) hosts.
Proof.
  intros Hc. induction hosts as [|Sc r IH]; intros Hl; [reflexivity|]. simpl.
  assert (IHr : assoc_get n (tabf c r) = stack_look (fun S0 => local_lookup S0 c n) r).
  { apply IH; auto. intros S0 H0. apply Hl. now right. }
  assert (E : scope_table Sc c (tabf c r) = update (update (tabf c r) (own Sc (own_names Sc c))) (imports_of Sc c)).
  { destruct c; try reflexivity. congruence. }
  rewrite E, (layer_get Sc c n _ (Hl Sc (or_introl eq_refl))), IHr. reflexivity.
Qed.

Lemma local_abs_none Sc n :
  local_lookup Sc CAbs n = None <-> str_in n (abs_names Sc) = false.
Proof.
  unfold local_lookup, abs_names. simpl.
  assert (E2 : forall l1 l2, str_in n (l1 ++ l2) = str_in n l1 || str_in n l2).
  { induction l1; simpl; intros; auto. now rewrite IHl1, orb_assoc. }
  rewrite E2. destruct (str_in n (s_abs Sc)) eqn:E; simpl; [split; discriminate|].
  split.
  - intros H. apply str_in_false. intros Hin. apply in_map_iff in Hin as ([k v] & Ek & Hin). simpl in Ek. subst k.
    destruct (In_get_some _ _ _ Hin) as (v' & Ev). congruence.
  - intros H. apply str_in_false in H. destruct (assoc_get n (imports_of Sc CAbs)) eqn:G; auto.
    apply get_In in G. exfalso. apply H. apply in_map_iff. exists (n, e). auto.
Qed.

(* the dictionary of procedures: the innermost scope that has n as a procedure or as an abstract
   interface decides; n is there only if it is a procedure *)
Lemma tabf_get_proc hosts n :
  (forall Sc, In Sc hosts -> scope_legal Sc = true) ->
  assoc_get n (tabf CProc hosts)
  = match stack_look (fun Sc => look_pa Sc n) hosts with Some (true, e) => Some e | _ => None end.
Proof.
  induction hosts as [|Sc r IH]; intros Hl; [reflexivity|]. simpl.
  assert (IHr : assoc_get n (tabf CProc r)
                = match stack_look (fun S0 => look_pa S0 n) r with Some (true, e) => Some e | _ => None end).
  { apply IH; auto. intros S0 H0. apply Hl. now right. }
  unfold scope_table. rewrite (layer_get Sc CProc n _ (Hl Sc (or_introl eq_refl))).
  unfold look_pa at 1. destruct (local_lookup Sc CProc n) as [e|]; [reflexivity|].
  rewrite (drop_get _ _ n (tabf_nodup CProc r)).
  destruct (local_lookup Sc CAbs n) as [a|] eqn:Ea.
  - destruct (str_in n (abs_names Sc)) eqn:E1; auto.
    apply local_abs_none in E1. congruence.
  - apply local_abs_none in Ea. rewrite Ea. exact IHr.
Qed.

(* when the innermost scope that knows n has it as an abstract interface, that is the abstract
   interface the dictionary of abstract interfaces holds; when no scope knows n, none *)
Lemma pa_abs hosts n :
  match stack_look (fun Sc => look_pa Sc n) hosts with
  | Some (true, _) => True
  | Some (false, a) => stack_look (fun Sc => local_lookup Sc CAbs n) hosts = Some a
  | None => stack_look (fun Sc => local_lookup Sc CAbs n) hosts = None
  end.
Proof.
  induction hosts as [|Sc r IH]; simpl; auto. unfold look_pa at 1.
  destruct (local_lookup Sc CProc n); [exact I|].
  destruct (local_lookup Sc CAbs n); [reflexivity|]. exact IH.
Qed.

(* ---- the invariant of the traversal *)
Definition new_env (Sc : srec) (s : state) : env :=
  {| e_scope := Sc; e_procs := st_next s; e_abs := st_next s; e_types := st_next s |}.
Lemma enter_stack Sc s : st_stack (enter_scope Sc s) = new_env Sc s :: st_stack s.
Proof. reflexivity. Qed.
Lemma enter_next Sc s : st_next (enter_scope Sc s) = S (st_next s).
Proof. reflexivity. Qed.
Lemma enter_units Sc s : st_units (enter_scope Sc s) = st_units s.
Proof. reflexivity. Qed.

Definition ids_below (E : env) (n : nat) : Prop := e_procs E < n /\ e_abs E < n /\ e_types E < n.
(* a finished unit: its host chain l (the unit itself first) and its settled dictionaries *)
Definition unit_ok (all : list srec) (bound : nat) (s : state) (p : list str) (E : env) : Prop :=
  s_path (e_scope E) = p /\ ids_below E (st_next s) /\
  exists l, (forall S0, In S0 (e_scope E :: l) -> In S0 all) /\ gchain all (e_scope E :: l) /\
            (forall c, tab (st_stores s) E c = tabf c (e_scope E :: l)) /\ length (e_scope E :: l) <= bound.

Record Inv (all : list srec) (bound : nat) (hc : list srec) (s : state) : Prop := {
  inv_in : forall S0, In S0 (map e_scope (st_stack s) ++ hc) -> In S0 all;
  inv_chain : gchain all (map e_scope (st_stack s) ++ hc);
  inv_len : length (map e_scope (st_stack s) ++ hc) <= bound;
  inv_tab : forall pre E post c, st_stack s = pre ++ E :: post ->
            tab (st_stores s) E c = tabf c (map e_scope (E :: post) ++ hc);
  inv_ids : forall E, In E (st_stack s) -> ids_below E (st_next s);
  inv_units : forall p E, find_unit_env (st_units s) p = Some E -> unit_ok all bound s p E }.

Lemma unit_ok_mono all b b' s s' p E :
  b <= b' -> st_next s <= st_next s' ->
  (forall c, tab (st_stores s') E c = tab (st_stores s) E c) ->
  unit_ok all b s p E -> unit_ok all b' s' p E.
Proof.
  intros Hb Hn Ht (Hp & (I1 & I2 & I3) & l & Hin & Hg & Htab & Hlen).
  split; auto. split; [unfold ids_below; lia|]. exists l.
  split; [exact Hin|]. split; [exact Hg|]. split; [|lia].
  intros c. rewrite (Ht c). apply Htab.
Qed.

Lemma enter_tab_old Sc s E c :
  ids_below E (st_next s) ->
  tab (st_stores (enter_scope Sc s)) E c = tab (st_stores s) E c.
Proof.
  intros (Hp & Ha & Hy). unfold tab, enter_scope. destruct c; simpl; apply st_get_set_other; lia.
Qed.
Lemma enter_tab_new Sc s c :
  tab (st_stores (enter_scope Sc s)) (new_env Sc s) c
  = scope_table Sc c (match host_env Sc s with Some E => tab (st_stores s) E c | None => [] end).
Proof. unfold tab, enter_scope, new_env. destruct c; simpl; now rewrite st_get_set_same. Qed.

Lemma find_unit_env_key units p :
  existsb (list_eqb str_eqb p) (map fst units) = true -> exists E, find_unit_env units p = Some E.
Proof.
  induction units as [|[q E] us IH]; simpl; [discriminate|].
  destruct (list_eqb str_eqb q p) eqn:E1; [eauto|].
  destruct (list_eqb str_eqb p q) eqn:E2.
  - apply path_eqb_eq in E2. subst. rewrite (proj2 (path_eqb_eq q q) eq_refl) in E1. discriminate.
  - simpl. exact IH.
Qed.
Lemma find_unit_env_app units p E q :
  find_unit_env (units ++ [(p, E)]) q
  = match find_unit_env units q with
    | Some x => Some x
    | None => if list_eqb str_eqb p q then Some E else None
    end.
Proof.
  induction units as [|[p' E'] us IH]; simpl; [reflexivity|].
  destruct (list_eqb str_eqb p' q); auto.
Qed.

(* entering a scope; the host chain hc' of the new stack *)
Definition enter_ok (all : list srec) (Sc : srec) (s : state) : Prop :=
  find_scope all (s_path Sc) = Some Sc /\
  ((st_stack s = [] /\ s_kind Sc = KUnit /\ length (s_path Sc) = 1 /\ s_host Sc = []) \/
   (st_stack s = [] /\ s_kind Sc = KSub /\ length (s_path Sc) = 1 /\
    (s_host Sc = [] \/ existsb (list_eqb str_eqb (s_host Sc)) (map fst (st_units s)) = true)) \/
   (exists E0 rest, st_stack s = E0 :: rest /\ (s_kind Sc = KProc \/ s_kind Sc = KBody) /\
                    removelast (s_path Sc) = s_path (e_scope E0) /\ s_path Sc <> [] /\ s_host Sc = [])).

Lemma next_path_of all Sc :
  find_scope all (s_path Sc) = Some Sc ->
  next_path all (s_path Sc) = match s_host Sc with [] => removelast (s_path Sc) | h => h end.
Proof. intros H. unfold next_path. now rewrite H. Qed.

Lemma path_len1 (p : list str) : length p = 1 -> p <> [] /\ removelast p = [].
Proof. destruct p as [|x [|y p]]; simpl; intros H; try discriminate. split; [discriminate | reflexivity]. Qed.

Lemma inv_enter all bound hc Sc s :
  (forall S0, In S0 all -> s_path S0 <> []) ->
  Inv all bound hc s -> In Sc all -> enter_ok all Sc s ->
  exists hc', Inv all (S bound) hc' (enter_scope Sc s).
Proof.
  intros NE [Iin Ich Ilen Itab Iid Iun] HSc [Hfind Hok].
  assert (Hunits : forall p E, find_unit_env (st_units (enter_scope Sc s)) p = Some E ->
                               unit_ok all (S bound) (enter_scope Sc s) p E).
  { intros p E H. rewrite enter_units in H. specialize (Iun p E H).
    apply (unit_ok_mono all bound (S bound) s); auto.
    - rewrite enter_next. lia.
    - intros c. apply enter_tab_old. now destruct Iun as (_ & Hid & _). }
  assert (Hids : forall E, In E (st_stack (enter_scope Sc s)) -> ids_below E (st_next (enter_scope Sc s))).
  { rewrite enter_stack, enter_next. intros E [<-|H]; unfold ids_below.
    - simpl. lia.
    - destruct (Iid E H) as (A & B & C). lia. }
  destruct Hok as [(Hs & Hk & Hl & Hh)|[(Hs & Hk & Hl & Hh)|(E0 & rest & Hs & Hk & Hr & Hn & Hh)]].
  - (* a unit on the empty stack *)
    destruct (path_len1 _ Hl) as [Hne Hrm].
    exists []. constructor; auto.
    + rewrite enter_stack, Hs. simpl. intros S0 [<-|[]]. exact HSc.
    + rewrite enter_stack, Hs. simpl. repeat split; auto. rewrite (next_path_of all Sc Hfind), Hh. exact Hrm.
    + rewrite enter_stack, Hs. simpl. lia.
    + rewrite enter_stack, Hs. intros pre E post c Hst. destruct pre as [|X pre]; simpl in Hst.
      * injection Hst as <- <-. rewrite enter_tab_new. unfold host_env, parent_env. rewrite Hk. reflexivity.
      * injection Hst as _ Hst. destruct pre; discriminate.
  - (* a submodule on the empty stack *)
    destruct (path_len1 _ Hl) as [Hne Hrm].
    assert (Hnounit : find_unit_env (st_units s) [] = None).
    { destruct (find_unit_env (st_units s) []) as [E|] eqn:G; auto.
      destruct (Iun [] E G) as (Hp & _ & l & Hin & _). exfalso. apply (NE (e_scope E)); auto. apply Hin. now left. }
    destruct Hh as [Hh|Hh].
    + exists []. constructor; auto.
      * rewrite enter_stack, Hs. simpl. intros S0 [<-|[]]. exact HSc.
      * rewrite enter_stack, Hs. simpl. repeat split; auto. rewrite (next_path_of all Sc Hfind), Hh. exact Hrm.
      * rewrite enter_stack, Hs. simpl. lia.
      * rewrite enter_stack, Hs. intros pre E post c Hst. destruct pre as [|X pre]; simpl in Hst.
        -- injection Hst as <- <-. rewrite enter_tab_new. unfold host_env. rewrite Hk, Hh, Hnounit. reflexivity.
        -- injection Hst as _ Hst. destruct pre; discriminate.
    + destruct (find_unit_env_key _ _ Hh) as (Eh & Efind).
      destruct (Iun _ _ Efind) as (Hp & Hidh & l & Hin & Hg & Htab & Hlen).
      assert (Hhne : s_host Sc <> []).
      { intros H0. rewrite H0 in Efind. congruence. }
      exists (e_scope Eh :: l). constructor; auto.
      * rewrite enter_stack, Hs. simpl. intros S0 [<-|H]; auto.
      * rewrite enter_stack, Hs. simpl. split; [exact Hne|]. split; [|exact Hg].
        rewrite (next_path_of all Sc Hfind). destruct (s_host Sc) eqn:Eh'; [congruence|]. now rewrite Hp.
      * rewrite enter_stack, Hs. simpl. simpl in Hlen. lia.
      * rewrite enter_stack, Hs. intros pre E post c Hst. destruct pre as [|X pre]; simpl in Hst.
        -- injection Hst as <- <-. rewrite enter_tab_new. unfold host_env. rewrite Hk, Efind. simpl. now rewrite Htab.
        -- injection Hst as _ Hst. destruct pre; discriminate.
  - (* a scope inside its host *)
    assert (Hpar : host_env Sc s = Some E0).
    { unfold host_env, parent_env. rewrite Hs. destruct Hk as [-> | ->]; reflexivity. }
    exists hc. constructor; auto.
    + rewrite enter_stack. simpl. intros S0 [<-|H]; auto.
    + rewrite enter_stack. simpl. split; [exact Hn|]. split; [|exact Ich].
      rewrite (next_path_of all Sc Hfind), Hh, Hr, Hs. reflexivity.
    + rewrite enter_stack. simpl. lia.
    + rewrite enter_stack. intros pre E post c Hst. destruct pre as [|X pre]; simpl in Hst; injection Hst as <- Hst.
      * subst post. rewrite enter_tab_new, Hpar. simpl.
        rewrite (Itab [] E0 rest c Hs). rewrite Hs. reflexivity.
      * assert (HE : In E (st_stack s)) by (rewrite Hst; apply in_app_iff; right; now left).
        rewrite enter_tab_old by (now apply Iid). now apply (Itab pre E post c).
Qed.

Lemma inv_exit all bound hc s :
  Inv all bound hc s -> exists hc', Inv all bound hc' (exit_scope s).
Proof.
  intros HI. unfold exit_scope. destruct (st_stack s) as [|E rest] eqn:Hs; [exists hc; exact HI|].
  destruct HI as [Iin Ich Ilen Itab Iid Iun]. rewrite Hs in *.
  assert (Hunit_old : forall p E', find_unit_env (st_units s) p = Some E' ->
            unit_ok all bound {| st_stores := st_stores s; st_next := st_next s; st_stack := rest;
                                 st_out := st_out s ++ map (answer (model_resolver (st_stores s) E)) (exit_reqs (e_scope E));
                                 st_units := match rest with [] => st_units s ++ [(s_path (e_scope E), E)] | _ => st_units s end |}
                    p E').
  { intros p E' H. apply (unit_ok_mono all bound bound s); auto. }
  destruct rest as [|E1 rest'].
  - (* a unit is finished: it is registered with its chain *)
    exists []. constructor; simpl.
    + tauto.
    + exact I.
    + lia.
    + intros pre E' post c H. destruct pre; discriminate.
    + tauto.
    + intros p E' H. rewrite find_unit_env_app in H.
      destruct (find_unit_env (st_units s) p) eqn:G.
      * injection H as <-. now apply Hunit_old.
      * destruct (list_eqb str_eqb (s_path (e_scope E)) p) eqn:Ep; [|discriminate]. injection H as <-.
        apply path_eqb_eq in Ep. split; [exact Ep|]. split; [apply Iid; now left|].
        exists hc. split; [exact Iin|]. split; [exact Ich|]. split; [|exact Ilen].
        intros c. apply (Itab [] E [] c eq_refl).
  - exists hc. constructor; simpl.
    + intros S0 H. apply Iin. simpl. now right.
    + simpl in Ich. tauto.
    + simpl in Ilen. lia.
    + intros pre E' post c Hst. apply (Itab (E :: pre) E' post c). simpl. now rewrite Hst.
    + intros E' H. apply Iid. now right.
    + exact Hunit_old.
Qed.

Lemma init_inv all : Inv all 0 [] init_state.
Proof.
  constructor; simpl; auto; try tauto.
  - intros pre E post c H. destruct pre; discriminate.
  - intros p E H. discriminate.
Qed.

(* ---- the answers *)
Lemma answers_agree all bound hc s E rest reqs :
  NoDup (map s_path all) -> (forall S0, In S0 all -> s_path S0 <> []) ->
  (forall S0, In S0 all -> scope_legal S0 = true) ->
  Inv all bound hc s -> bound <= length all -> st_stack s = E :: rest ->
  map (answer (model_resolver (st_stores s) E)) reqs
  = map (answer (spec_resolver all (s_path (e_scope E)))) reqs.
Proof.
  intros ND NE LG [Iin Ich Ilen Itab Iid Iun] Hb Hs. apply map_ext_in. intros q _.
  unfold answer. f_equal. rewrite Hs in *.
  set (l := map e_scope (E :: rest) ++ hc) in *.
  assert (Hl : l = e_scope E :: (map e_scope rest ++ hc)) by reflexivity.
  assert (Hlen : length l <= length all) by lia.
  assert (Hleg : forall S0, In S0 l -> scope_legal S0 = true) by (intros S0 H; apply LG; auto).
  assert (Hwalk : forall A (f : srec -> option A), walk all (s_path (e_scope E)) f = stack_look f l).
  { intros A f. apply (walk_stack all l (e_scope E) (map e_scope rest ++ hc)); auto. }
  assert (Htab : forall c n, c <> CProc ->
            assoc_get n (tab (st_stores s) E c) = stack_look (fun S0 => local_lookup S0 c n) l).
  { intros c n Hc. rewrite (Itab [] E rest c eq_refl). apply tabf_get; auto. }
  assert (Hproc : forall n, assoc_get n (tab (st_stores s) E CProc)
            = match stack_look (fun S0 => look_pa S0 n) l with Some (true, e) => Some e | _ => None end).
  { intros n. rewrite (Itab [] E rest CProc eq_refl). apply tabf_get_proc; auto. }
  unfold model_resolver, spec_resolver. destruct (q_look q).
  - rewrite Htab by discriminate. now rewrite Hwalk.
  - rewrite Hproc, Hwalk. reflexivity.
  - rewrite Hproc, Hwalk, Htab by discriminate.
    pose proof (pa_abs l (q_name q)) as Hpa.
    destruct (stack_look (fun S0 => look_pa S0 (q_name q)) l) as [[[|] e]|]; auto.
Qed.

Definition chunkE (all : list srec) (Sc : srec) : list res :=
  map (answer (spec_resolver all (s_path Sc))) (enter_reqs Sc).
Definition chunkX (all : list srec) (Sc : srec) : list res :=
  map (answer (spec_resolver all (s_path Sc))) (exit_reqs Sc).

Lemma run_spec all :
  NoDup (map s_path all) -> (forall S0, In S0 all -> s_path S0 <> []) ->
  (forall S0, In S0 all -> scope_legal S0 = true) ->
  forall post s entered exited hc,
  all = entered ++ scopes_of post ->
  wf_ev (map fst (st_units s)) (map (fun E => s_path (e_scope E)) (st_stack s)) post = true ->
  Inv all (length entered) hc s ->
  (forall S0, In S0 entered <-> In S0 exited \/ In S0 (map e_scope (st_stack s))) ->
  (forall r, In r (st_out s) <->
             (exists S0, In S0 entered /\ In r (chunkE all S0)) \/
             (exists S0, In S0 exited /\ In r (chunkX all S0))) ->
  forall r, In r (st_out (fold_left step post s)) <->
            (exists S0, In S0 all /\ In r (chunkE all S0)) \/
            (exists S0, In S0 all /\ In r (chunkX all S0)).
Proof.
  intros ND NE LG. induction post as [|ev post IH]; intros s entered exited hc Hall Hwf HI Hrel Hout r.
  - simpl in *. rewrite app_nil_r in Hall. subst entered.
    destruct (st_stack s) eqn:Hs; [|discriminate]. simpl in Hwf.
    rewrite Hout. split; (intros [H|(S0 & H1 & H2)]; [now left|]); right; exists S0; split; auto.
    + apply Hrel. now left.
    + apply Hrel in H1 as [H1|[]]. exact H1.
  - destruct ev as [Sc|].
    + assert (HSc : In Sc all) by (rewrite Hall; apply in_app_iff; right; now left).
      simpl in Hwf. apply andb_true_iff in Hwf as [Hcond Hwf].
      assert (Hok : enter_ok all Sc s).
      { split; [now apply find_scope_unique|].
        destruct (st_stack s) as [|E0 rest] eqn:Hs; simpl in Hcond.
        - destruct (s_kind Sc) eqn:Ek; try discriminate.
          + left. apply andb_true_iff in Hcond as [H1 H2]. apply Nat.eqb_eq in H1, H2.
            repeat split; auto. now destruct (s_host Sc).
          + right. left. apply andb_true_iff in Hcond as [H1 H2]. apply Nat.eqb_eq in H1.
            repeat split; auto. apply orb_true_iff in H2 as [H2|H2]; [left | now right].
            apply Nat.eqb_eq in H2. now destruct (s_host Sc).
        - right. right. exists E0, rest. split; auto.
          destruct (s_kind Sc) eqn:Ek; try discriminate;
            apply andb_true_iff in Hcond as [H12 H3]; apply andb_true_iff in H12 as [H1 H2];
            apply path_eqb_eq in H1; apply negb_true_iff, Nat.eqb_neq in H2; apply Nat.eqb_eq in H3;
            (repeat split; [auto | exact H1 | intros Hn; rewrite Hn in H2; simpl in H2; congruence
                            | now destruct (s_host Sc)]). }
      destruct (inv_enter all (length entered) hc Sc s NE HI HSc Hok) as (hc' & HI').
      simpl fold_left.
      assert (Hlen' : length (entered ++ [Sc]) = S (length entered)) by (rewrite app_length; simpl; lia).
      apply (IH (enter_scope Sc s) (entered ++ [Sc]) exited hc').
      * rewrite Hall. simpl. now rewrite <- app_assoc.
      * rewrite enter_stack, enter_units. simpl. exact Hwf.
      * rewrite Hlen'. exact HI'.
      * intros S0. rewrite enter_stack, in_app_iff. simpl. rewrite Hrel. intuition.
      * intros r0.
        assert (Hchunk : st_out (enter_scope Sc s) = st_out s ++ chunkE all Sc).
        { unfold chunkE. change (st_out (enter_scope Sc s))
            with (st_out s ++ map (answer (model_resolver (st_stores (enter_scope Sc s)) (new_env Sc s))) (enter_reqs Sc)).
          f_equal.
          apply (answers_agree all (S (length entered)) hc' (enter_scope Sc s) (new_env Sc s) (st_stack s)); auto.
          rewrite Hall, app_length. simpl. lia. }
        rewrite Hchunk, in_app_iff, Hout. split.
        -- intros [[(S0 & H1 & H2)|(S0 & H1 & H2)]|H].
           ++ left. exists S0. split; auto. apply in_app_iff. now left.
           ++ right. eauto.
           ++ left. exists Sc. split; auto. apply in_app_iff. right. now left.
        -- intros [(S0 & H1 & H2)|(S0 & H1 & H2)].
           ++ apply in_app_iff in H1 as [H1|[<-|[]]]; [left; left; eauto | now right].
           ++ left. right. eauto.
    + simpl in Hwf. destruct (st_stack s) as [|E rest] eqn:Hs; simpl in Hwf; [discriminate|].
      simpl fold_left.
      assert (Hb : length entered <= length all) by (rewrite Hall, app_length; lia).
      assert (Hstep : exit_scope s = {| st_stores := st_stores s; st_next := st_next s; st_stack := rest;
                                        st_out := st_out s ++ chunkX all (e_scope E);
                                        st_units := match rest with
                                                    | [] => st_units s ++ [(s_path (e_scope E), E)]
                                                    | _ => st_units s
                                                    end |}).
      { unfold exit_scope. rewrite Hs. f_equal. f_equal. unfold chunkX.
        apply (answers_agree all (length entered) hc s E rest); auto. }
      destruct (inv_exit all (length entered) hc s HI) as (hc' & HI').
      apply (IH (exit_scope s) entered (exited ++ [e_scope E]) hc').
      * rewrite Hall. reflexivity.
      * rewrite Hstep. simpl. destruct rest as [|E1 rest']; simpl in *.
        -- rewrite map_app. simpl. exact Hwf.
        -- exact Hwf.
      * exact HI'.
      * intros S0. rewrite Hstep. simpl. rewrite Hrel, in_app_iff. simpl. intuition.
      * intros r0. rewrite Hstep. simpl. rewrite in_app_iff, Hout. split.
        -- intros [[H|(S0 & H1 & H2)]|H]; [now left | |].
           ++ right. exists S0. split; auto. apply in_app_iff. now left.
           ++ right. exists (e_scope E). split; auto. apply in_app_iff. right. now left.
        -- intros [H|(S0 & H1 & H2)]; [now left; left|].
           apply in_app_iff in H1 as [H1|[<-|[]]]; [left; right; eauto | now right].
Qed.

Lemma nodup_paths_NoDup l : nodup_paths l = true -> NoDup l.
Proof.
  induction l as [|p l IH]; simpl; [constructor|]. intros H. apply andb_true_iff in H as [H1 H2].
  constructor; auto. intros Hin. apply negb_true_iff in H1.
  assert (existsb (list_eqb str_eqb p) l = true).
  { apply existsb_exists. exists p. split; auto. now apply path_eqb_eq. }
  congruence.
Qed.
Lemma wf_ev_facts closed stack evs Sc :
  wf_ev closed stack evs = true -> In (Enter Sc) evs ->
  s_path Sc <> [] /\ (s_kind Sc = KSub -> length (s_path Sc) = 1).
Proof.
  revert closed stack. induction evs as [|ev evs IH]; intros closed stack Hwf Hin; [destruct Hin|].
  destruct ev as [X|]; simpl in Hwf.
  - apply andb_true_iff in Hwf as [Hc Hwf]. destruct Hin as [H|H]; [|eauto].
    injection H as ->. destruct stack as [|p st], (s_kind Sc) eqn:Ek; simpl in Hc; try discriminate.
    + apply andb_true_iff in Hc as [H1 _]. apply Nat.eqb_eq in H1. split; [|discriminate].
      intros Hn. rewrite Hn in H1. discriminate.
    + apply andb_true_iff in Hc as [H1 _]. apply Nat.eqb_eq in H1. split; auto.
      intros Hn. rewrite Hn in H1. discriminate.
    + apply andb_true_iff in Hc as [H12 _]. apply andb_true_iff in H12 as [_ H2].
      apply negb_true_iff, Nat.eqb_neq in H2. split; [|discriminate]. intros Hn. rewrite Hn in H2. simpl in H2. congruence.
    + apply andb_true_iff in Hc as [H12 _]. apply andb_true_iff in H12 as [_ H2].
      apply negb_true_iff, Nat.eqb_neq in H2. split; [|discriminate]. intros Hn. rewrite Hn in H2. simpl in H2. congruence.
  - destruct Hin as [H|H]; [discriminate|]. destruct stack as [|p [|q st]]; [discriminate | eauto | eauto].
Qed.
Lemma scopes_of_In evs Sc : In Sc (scopes_of evs) <-> In (Enter Sc) evs.
Proof.
  unfold scopes_of. rewrite in_flat_map. split.
  - intros (ev & Hev & H). destruct ev; [|destruct H]. destruct H as [->|[]]. exact Hev.
  - intros H. exists (Enter Sc). split; auto. now left.
Qed.



(* For every legal unit the slots FORD fills are those of the Spec *)
Theorem full_correct evs :
  wf_events evs = true -> scopes_legal evs = true ->
  forall r, In r (correlate evs) <-> In r (spec evs).
Proof.
  intros Hwf Hl r. unfold wf_events in Hwf. apply andb_true_iff in Hwf as [Hwf Hnd].
  set (all := scopes_of evs) in *.
  assert (ND : NoDup (map s_path all)) by now apply nodup_paths_NoDup.
  assert (NE : forall S0, In S0 all -> s_path S0 <> []).
  { intros S0 H. apply scopes_of_In in H. now apply (wf_ev_facts [] [] evs S0 Hwf). }
  assert (LG : forall S0, In S0 all -> scope_legal S0 = true).
  { unfold scopes_legal in Hl. rewrite forallb_forall in Hl. exact Hl. }
  pose proof (run_spec all ND NE LG evs init_state [] [] []) as H.
  unfold correlate. rewrite H; clear H.
  - unfold spec. fold all. rewrite in_flat_map. unfold chunkE, chunkX. split.
    + intros [(S0 & H1 & H2)|(S0 & H1 & H2)]; exists S0; (split; [exact H1|]); rewrite map_app, in_app_iff; auto.
    + intros (S0 & H1 & H2). rewrite map_app, in_app_iff in H2. destruct H2; [left | right]; eauto.
  - reflexivity.
  - exact Hwf.
  - apply init_inv.
  - simpl. tauto.
  - simpl. intros r0. split; [tauto|]. intros [(S0 & [] & _)|(S0 & [] & _)].
Qed.

(* ================================================================== 3. witnesses and examples *)

Definition key_of (r : res) : list str * str * option ent := (r_scope r, r_name r, r_ent r).
Definition key_eqb (a b : list str * str * option ent) : bool :=
  list_eqb str_eqb (fst (fst a)) (fst (fst b)) && str_eqb (snd (fst a)) (snd (fst b))
  && opt_eqb ent_eqb (snd a) (snd b).
Lemma key_eqb_refl a : key_eqb a a = true.
Proof.
  destruct a as [[p n] e]. unfold key_eqb. simpl.
  rewrite (proj2 (path_eqb_eq p p) eq_refl), str_eqb_refl. simpl.
  destruct e as [e|]; simpl; auto. now apply ent_eqb_eq.
Qed.
Lemma not_in_spec r l : existsb (key_eqb (key_of r)) (map key_of l) = false -> ~ In r l.
Proof.
  intros H Hin. assert (existsb (key_eqb (key_of r)) (map key_of l) = true).
  { apply existsb_exists. exists (key_of r). split; [now apply in_map | apply key_eqb_refl]. }
  congruence.
Qed.

Definition mkSh (p : list string) k procs abs ts gs vs imps (h : list string) : srec :=
  {| s_path := map s p; s_kind := k; s_procs := map s procs; s_abs := map s abs; s_types := ts;
     s_generics := gs; s_vars := vs; s_imports := imps; s_host := map s h |}.
Definition mkS (p : list string) k procs abs ts gs vs imps : srec := mkSh p k procs abs ts gs vs imps [].
Definition mkV (n : string) (r : option tyref) : var := {| v_name := s n; v_ref := r |}.
Definition mkT (n : string) (e : option str) cs bs fs : dtype :=
  {| t_name := s n; t_extends := e; t_comps := cs; t_binds := bs; t_finals := fs |}.

Local Open Scope string_scope.
(* module m
     contains
       subroutine helper
       subroutine a:  procedure(helper), pointer :: p ; contains subroutine helper *)
Definition w_shadow : list event :=
  [Enter (mkS ["m"] KUnit ["helper"; "a"] [] [] [] [] []);
   Enter (mkS ["m"; "helper"] KProc [] [] [] [] [] []); Exit;
   Enter (mkS ["m"; "a"] KProc ["helper"] [] [] [] [mkV "p" (Some (TRProc (s "helper")))] []);
   Enter (mkS ["m"; "a"; "helper"] KProc [] [] [] [] [] []); Exit;
   Exit; Exit].
(* module m:  type(t) :: z
     contains
       subroutine a:  type t ; type(t) :: x
       subroutine b:  type(t) :: y *)
Definition w_leak : list event :=
  [Enter (mkS ["m"] KUnit ["a"; "b"] [] [] [] [mkV "z" (Some (TRType (s "t")))] []);
   Enter (mkS ["m"; "a"] KProc [] [] [mkT "t" None [] [] []] [] [mkV "x" (Some (TRType (s "t")))] []); Exit;
   Enter (mkS ["m"; "b"] KProc [] [] [] [] [mkV "y" (Some (TRType (s "t")))] []); Exit;
   Exit].
(* module m
     contains
       subroutine x
       subroutine a:  abstract interface x ; procedure(x), pointer :: p *)
Definition w_absproc : list event :=
  [Enter (mkS ["m"] KUnit ["x"; "a"] [] [] [] [] []);
   Enter (mkS ["m"; "x"] KProc [] [] [] [] [] []); Exit;
   Enter (mkS ["m"; "a"] KProc [] ["x"] [] [] [mkV "p" (Some (TRProc (s "x")))] []);
   Enter (mkS ["m"; "a"; "x"] KBody [] [] [] [] [] []); Exit;
   Exit; Exit].
Local Close Scope string_scope.

Local Open Scope string_scope.
(* module m: type t.   submodule (m) s1: its own type t; type(t) :: v *)
Definition w_subshadow : list event :=
  [Enter (mkS ["m"] KUnit [] [] [mkT "t" None [] [] []] [] [] []); Exit;
   Enter (mkSh ["s1"] KSub [] [] [mkT "t" None [] [] []] [] [mkV "v" (Some (TRType (s "t")))] [] ["m"]); Exit].
(* lib: type u.  module m: types t, u; subroutine helper.  submodule (m) s1: use lib, only: u;
   subroutine local1.  submodule (m:s1) s2: type(t), type(u), procedure(helper), procedure(local1) *)
Definition ex_subs : list event :=
  [Enter (mkS ["m"] KUnit ["helper"] [] [mkT "t" None [] [] []; mkT "u" None [] [] []] [] [] []);
   Enter (mkS ["m"; "helper"] KProc [] [] [] [] [] []); Exit; Exit;
   Enter (mkSh ["s1"] KSub ["local1"] [] [] []
            [mkV "v1" (Some (TRType (s "t"))); mkV "v2" (Some (TRType (s "u")))]
            [(CType, (s "u", map s ["lib"; "u"]))] ["m"]);
   Enter (mkS ["s1"; "local1"] KProc [] [] [] [] [mkV "w" (Some (TRType (s "u")))] []); Exit; Exit;
   Enter (mkSh ["s2"] KSub [] [] [] []
            [mkV "x1" (Some (TRType (s "t"))); mkV "x2" (Some (TRType (s "u")));
             mkV "x3" (Some (TRProc (s "helper"))); mkV "x4" (Some (TRProc (s "local1")));
             mkV "x5" (Some (TRType (s "nosuch_t")))] [] ["s1"]); Exit].
Local Close Scope string_scope.

(* inside s1, "t" is s1's own type (FORD took the module's before the repair of the submodule merge) *)
Example fixed_sub_shadow :
  wf_events w_subshadow = true /\ scopes_legal w_subshadow = true /\  In {| r_scope := map s ["s1"]%string; r_slot := SVar (s "v"); r_look := LType;
        r_name := s "t"; r_ent := Some (map s ["s1"; "t"]%string) |} (correlate w_subshadow).
Proof.
  repeat split; try (vm_compute; reflexivity). vm_compute. repeat (first [left; reflexivity | right]).
Qed.
(* a chain of submodules: s2 sees the module's t, lib's u (through s1's USE, which hides the
   module's u), the module's helper and s1's local1; an undeclared name stays a string *)
Example ex_subs_hypotheses :
  wf_events ex_subs = true /\ scopes_legal ex_subs = true /\
   In {| r_scope := map s ["s2"]%string; r_slot := SVar (s "x1"); r_look := LType; r_name := s "t";
        r_ent := Some (map s ["m"; "t"]%string) |} (correlate ex_subs) /\
  In {| r_scope := map s ["s2"]%string; r_slot := SVar (s "x2"); r_look := LType; r_name := s "u";
        r_ent := Some (map s ["lib"; "u"]%string) |} (correlate ex_subs) /\
  In {| r_scope := map s ["s2"]%string; r_slot := SVar (s "x4"); r_look := LProcAbs; r_name := s "local1";
        r_ent := Some (map s ["s1"; "local1"]%string) |} (correlate ex_subs) /\
  In {| r_scope := map s ["s2"]%string; r_slot := SVar (s "x5"); r_look := LType; r_name := s "nosuch_t";
        r_ent := None |} (correlate ex_subs).
Proof.
  repeat split; try (vm_compute; reflexivity); vm_compute; repeat (first [left; reflexivity | right]).
Qed.

(* inside a, "x" is a's abstract interface (FORD took the module procedure x before an abstract
   interface hid the host's procedure of the same name) *)
Example fixed_abs_over_proc :
  wf_events w_absproc = true /\ scopes_legal w_absproc = true /\
  In {| r_scope := map s ["m"; "a"]%string; r_slot := SVar (s "p"); r_look := LProcAbs;
        r_name := s "x"; r_ent := Some (map s ["m"; "a"; "x"]%string) |} (correlate w_absproc).
Proof.
  repeat split; try (vm_compute; reflexivity). vm_compute. repeat (first [left; reflexivity | right]).
Qed.

(* the two defects repaired in FortranCodeUnit.correlate: their witnesses now get Fortran's answer
   (a's own helper; nothing for the type that only the sibling declares) *)
Example fixed_proc_shadow :
  wf_events w_shadow = true /\ scopes_legal w_shadow = true /\
   In {| r_scope := map s ["m"; "a"]%string; r_slot := SVar (s "p"); r_look := LProcAbs;
        r_name := s "helper"; r_ent := Some (map s ["m"; "a"; "helper"]%string) |} (correlate w_shadow).
Proof.
  repeat split; try (vm_compute; reflexivity). vm_compute. repeat (first [left; reflexivity | right]).
Qed.
Example fixed_sibling_leak :
  wf_events w_leak = true /\ scopes_legal w_leak = true /\
   In {| r_scope := map s ["m"; "b"]%string; r_slot := SVar (s "y"); r_look := LType;
        r_name := s "t"; r_ent := None |} (correlate w_leak) /\
  In {| r_scope := map s ["m"]%string; r_slot := SVar (s "z"); r_look := LType;
        r_name := s "t"; r_ent := None |} (correlate w_leak) /\
  In {| r_scope := map s ["m"; "a"]%string; r_slot := SVar (s "x"); r_look := LType;
        r_name := s "t"; r_ent := Some (map s ["m"; "a"; "t"]%string) |} (correlate w_leak).
Proof.
  repeat split; try (vm_compute; reflexivity); vm_compute; repeat (first [left; reflexivity | right]).
Qed.

(* hiding across the two kinds of procedure identifiers:
   module m: subroutines x, y, z; generic gg with module procedures x, z
     subroutine a: use lib, only: x (an abstract interface); abstract interface y;
                   procedure(x) :: p; procedure(y) :: q; procedure(z) :: r
                   type t with  procedure :: b => x  (illegal Fortran: x is not a procedure there;
                                the slot stays a string)  and  procedure :: c => z *)
Local Open Scope string_scope.
Definition ex_hiding : list event :=
  [Enter (mkS ["m"] KUnit ["x"; "y"; "z"; "a"; "gg"] [] [] [{| g_name := s "gg"; g_modprocs := [s "x"; s "z"] |}] [] []);
   Enter (mkS ["m"; "x"] KProc [] [] [] [] [] []); Exit;
   Enter (mkS ["m"; "y"] KProc [] [] [] [] [] []); Exit;
   Enter (mkS ["m"; "z"] KProc [] [] [] [] [] []); Exit;
   Enter (mkS ["m"; "a"] KProc [] ["y"]
            [mkT "t" None [] [{| b_name := s "b"; b_deferred := false; b_proto := None; b_targets := [s "x"] |};
                              {| b_name := s "c"; b_deferred := false; b_proto := None; b_targets := [s "z"] |}] []] []
            [mkV "p" (Some (TRProc (s "x"))); mkV "q" (Some (TRProc (s "y"))); mkV "r" (Some (TRProc (s "z")))]
            [(CAbs, (s "x", map s ["lib"; "x"]))]);
   Enter (mkS ["m"; "a"; "y"] KBody [] [] [] [] [] []); Exit;
   Exit; Exit].
Local Close Scope string_scope.
Definition ent_of (evs : list event) (p : list string) (d : sdesc) : option (option ent) :=
  match find (fun r => list_eqb str_eqb (r_scope r) (map s p)
                       && match r_slot r, d with
                          | SVar a, SVar b => str_eqb a b
                          | SBindTarget t1 b1 i1, SBindTarget t2 b2 i2 => str_eqb t1 t2 && str_eqb b1 b2 && Nat.eqb i1 i2
                          | SModproc g1 i1, SModproc g2 i2 => str_eqb g1 g2 && Nat.eqb i1 i2
                          | _, _ => false
                          end) (correlate evs) with
  | Some r => Some (r_ent r)
  | None => None
  end.
Example ex_hiding_facts :
  wf_events ex_hiding = true /\ scopes_legal ex_hiding = true /\
  ent_of ex_hiding ["m"; "a"]%string (SVar (s "p")) = Some (Some (map s ["lib"; "x"]%string)) /\
  ent_of ex_hiding ["m"; "a"]%string (SVar (s "q")) = Some (Some (map s ["m"; "a"; "y"]%string)) /\
  ent_of ex_hiding ["m"; "a"]%string (SVar (s "r")) = Some (Some (map s ["m"; "z"]%string)) /\
  ent_of ex_hiding ["m"; "a"]%string (SBindTarget (s "t") (s "b") 0) = Some None /\
  ent_of ex_hiding ["m"; "a"]%string (SBindTarget (s "t") (s "c") 0) = Some (Some (map s ["m"; "z"]%string)) /\
  ent_of ex_hiding ["m"]%string (SModproc (s "gg") 0) = Some (Some (map s ["m"; "x"]%string)).
Proof. repeat split; vm_compute; reflexivity. Qed.

(* a unit with unique names: every kind of slot, three nesting levels, an interface body, names
   obtained by use association, and names declared nowhere *)
Local Open Scope string_scope.
Definition ex_unit : list event :=
  [Enter (mkS ["ma"] KUnit ["worker"; "fin"; "make_child"; "child"; "gen"; "extp"] ["cb"]
            [mkT "base" None [mkV "c1" (Some (TRType (s "nosuch_t")))] [] [];
             mkT "child" (Some (s "base"))
                 [mkV "c2" (Some (TRType (s "base"))); mkV "c3" (Some (TRProc (s "cb")))]
                 [{| b_name := s "b1"; b_deferred := false; b_proto := None; b_targets := [s "worker"] |};
                  {| b_name := s "b2"; b_deferred := true; b_proto := Some (s "cb"); b_targets := [] |};
                  {| b_name := s "b3"; b_deferred := false; b_proto := None; b_targets := [s "phantom"] |}]
                 [s "fin"]]
            [{| g_name := s "child"; g_modprocs := [s "make_child"] |};
             {| g_name := s "gen"; g_modprocs := [s "worker"; s "fin"] |}]
            [mkV "v1" (Some (TRType (s "child"))); mkV "v2" (Some (TRProc (s "cb")));
             mkV "v3" (Some (TRType (s "ghost"))); mkV "v4" (Some (TRType (s "imported_t")))]
            [(CType, (s "imported_t", map s ["lib"; "imported_t"]))]);
   Enter (mkS ["ma"; "worker"] KProc ["inner"] [] [] [] [mkV "w1" (Some (TRType (s "base")))] []);
   Enter (mkS ["ma"; "worker"; "inner"] KProc [] [] [] []
            [mkV "i1" (Some (TRType (s "child"))); mkV "i2" (Some (TRProc (s "worker")));
             mkV "i3" (Some (TRType (s "imported_t")))] []); Exit;
   Exit;
   Enter (mkS ["ma"; "fin"] KProc [] [] [] [] [mkV "self" (Some (TRType (s "child")))] []); Exit;
   Enter (mkS ["ma"; "make_child"] KProc [] [] [] [] [] []); Exit;
   Enter (mkS ["ma"; "extp"] KBody [] [] [] [] [mkV "e1" (Some (TRType (s "base")))] []); Exit;
   Enter (mkS ["ma"; "cb"] KBody [] [] [] [] [mkV "a1" (Some (TRType (s "base")))] []); Exit;
   Exit].
Local Close Scope string_scope.

Example ex_unit_hypotheses :
  wf_events ex_unit = true /\ scopes_legal ex_unit = true /\
   length (correlate ex_unit) = 24 /\
  existsb (fun r => match r_ent r with Some _ => true | None => false end) (correlate ex_unit) = true /\
  existsb (fun r => match r_ent r with Some _ => false | None => true end) (correlate ex_unit) = true /\
  existsb (fun r => match r_look r with LProcAbs => true | _ => false end) (correlate ex_unit) = true.
Proof. repeat split; vm_compute; reflexivity. Qed.
