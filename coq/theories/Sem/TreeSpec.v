(* Sem/TreeSpec.v — the declared structure of a program (what C01 calls "the declared ones") and
   its rendering as a statement-kind sequence.  Written from the property text / the Fortran
   grammar of program units, not from FORD's code.  Executable definitions only. *)
From Ford Require Import Base.Str Sem.Tree.

Inductive decl :=
| DLeaf (l : lkind) (names : list str) (docs : list str)
      (* one declaration statement for leaf entities, followed by its documentation *)
| DExec (n : nat)
      (* n statements that declare nothing (implicit none, access/attribute statements, executable
         statements outside BLOCK constructs) *)
| DUnit (k : ckind) (name : str) (docs : list str) (spec : list decl) (contained : list decl)
      (* a program unit / procedure / type / enum / block data: first line, documentation, the
         specification (and execution) part, and what follows CONTAINS *)
| DIface (abstract : bool) (name : str) (docs : list str) (body : list decl).
      (* an interface block; name = "" for a nameless one *)

Fixpoint flatten (d : decl) : list stmt :=
  match d with
  | DLeaf l names docs => SLeaf l names :: map SDoc docs
  | DExec n => repeat SNoop n
  | DUnit k name docs spec contained =>
    (match k with KModProcImpl => SModProcImpl name | _ => SUnit k name end)
    :: map SDoc docs ++ flat_map flatten spec
    ++ (match contained with [] => [] | _ => SContains :: flat_map flatten contained end)
    ++ [SEnd EndPlain]
  | DIface abstract name docs body =>
    SIface abstract name :: map SDoc docs ++ flat_map flatten body ++ [SEnd EndPlain]
  end.

Definition is_generic (name : str) : bool := match name with [] => false | _ => true end.

(* the documented entities a declaration gives rise to *)
Fixpoint tree_of (d : decl) : list ent :=
  match d with
  | DLeaf l names docs => leaf_ents l names docs
  | DExec _ => []
  | DUnit k name docs spec contained =>
    [Container k name false false docs (flat_map tree_of spec ++ flat_map tree_of contained)]
  | DIface abstract name docs body =>
    flatten_iface (Container KInterface name abstract (is_generic name) docs (flat_map tree_of body))
  end.

(* well-formedness: what may be declared where (the Fortran grammar of scoping units, as far as
   the documented entity kinds go) *)
Definition is_proc_kind (k : ckind) : bool :=
  match k with KSubroutine | KFunction | KModProcImpl => true | _ => false end.

Fixpoint wf_decl (parent : ckind) (after_contains : bool) (d : decl) : bool :=
  match d with
  | DLeaf l names _ =>
    accepts_leaf parent l && negb (match names with [] => true | _ => false end)
    && match l with LBoundProc | LFinal => after_contains | _ => negb after_contains || negb (is_codeunit parent) end
  | DExec _ => true
  | DUnit k name _ spec contained =>
    accepts_unit parent k
    && (if is_proc_kind k then (after_contains || negb (is_codeunit parent)) else negb after_contains)
    && match k with KFile => false | _ => true end
    && forallb (wf_decl k false) spec
    && (match contained with [] => true | _ => can_contain k end)
    && forallb (wf_decl k true) contained
    && forallb (fun c => match c with
                         | DUnit ck _ _ _ _ => is_proc_kind ck
                         | DLeaf (LBoundProc | LFinal) _ _ => true
                         | DExec _ => true
                         | _ => false
                         end) contained
  | DIface _ _ _ body =>
    accepts_unit parent KInterface && negb after_contains
    && forallb (wf_decl KInterface false) body
  end.

Definition file_stmts (units : list decl) : list stmt := flat_map flatten units.
Definition file_tree (fname : str) (units : list decl) : ent :=
  Container KFile fname false false [] (flat_map tree_of units).
