(* Sem/CallsScan.v — what the CALL_RE / SUBCALL_RE recognisers of Sem/Calls.v find in the text of
   one nesting level of a rendered expression or statement (towards C08_raw). *)
From Coq Require Import Lia.
From Ford Require Import Base.Str Base.StrFacts Gen.Intrinsics Sem.Calls Sem.CallsSpec Sem.CallsDefs Sem.CallsStrip.

(* ------------------------------------------------------------------ character classes *)
Lemma word_not_space c : is_word c = true -> is_space c = false.
Proof. destruct c as [[|] [|] [|] [|] [|] [|] [|] [|]]; intros H; try discriminate H; reflexivity. Qed.
Lemma word_not_bad c : is_word c = true -> bad_char c = false.
Proof. destruct c as [[|] [|] [|] [|] [|] [|] [|] [|]]; intros H; try discriminate H; reflexivity. Qed.
Lemma word_not_pct c : is_word c = true -> Ascii.eqb c pct = false.
Proof. destruct c as [[|] [|] [|] [|] [|] [|] [|] [|]]; intros H; try discriminate H; reflexivity. Qed.
Lemma word_not_lpar c : is_word c = true -> Ascii.eqb c lpar = false.
Proof. destruct c as [[|] [|] [|] [|] [|] [|] [|] [|]]; intros H; try discriminate H; reflexivity. Qed.
Lemma word_not_rpar c : is_word c = true -> Ascii.eqb c rpar = false.
Proof. destruct c as [[|] [|] [|] [|] [|] [|] [|] [|]]; intros H; try discriminate H; reflexivity. Qed.
Lemma space_not_bad_paren c : is_space c = true -> Ascii.eqb c lpar = false /\ Ascii.eqb c pct = false /\ Ascii.eqb c rpar = false.
Proof. destruct c as [[|] [|] [|] [|] [|] [|] [|] [|]]; intros H; try discriminate H; repeat split; reflexivity. Qed.
Lemma bad_cases c : bad_char c = false ->
  Ascii.eqb c lpar = false /\ Ascii.eqb c rpar = false /\ Ascii.eqb c pct = false /\ Ascii.eqb c nl = false.
Proof.
  unfold bad_char. intros B. apply orb_false_iff in B as [B B4]. apply orb_false_iff in B as [B B3].
  apply orb_false_iff in B as [B1 B2]. auto.
Qed.

(* ------------------------------------------------------------------ span *)
Definition hd_not (p : ascii -> bool) (x : str) : Prop :=
  match x with [] => True | c :: _ => p c = false end.

Lemma span_app p a b : forallb p a = true -> hd_not p b -> span p (a ++ b) = (a, b).
Proof.
  induction a as [|c a IH]; cbn [app forallb span]; intros H Hb.
  - destruct b as [|d b]; [reflexivity|]. cbn [span]. cbn in Hb. now rewrite Hb.
  - apply andb_true_iff in H as [Hc H]. rewrite Hc, (IH H Hb). reflexivity.
Qed.

Lemma span_nil p x : hd_not p x -> span p x = ([], x).
Proof. destruct x as [|c x]; [reflexivity|]. cbn. intros H. now rewrite H. Qed.

Lemma span_snd_hd p x : hd_not p (snd (span p x)).
Proof.
  induction x as [|c x IH]; cbn [span]; [exact I|].
  destruct (p c) eqn:E; [|cbn; exact E]. destruct (span p x). exact IH.
Qed.

Lemma span_eq p x : x = fst (span p x) ++ snd (span p x).
Proof.
  induction x as [|c x IH]; cbn [span]; [reflexivity|].
  destruct (p c); [|reflexivity]. destruct (span p x) as [a b]. cbn [fst snd app] in *. now f_equal.
Qed.

Lemma span_fst_all p x : forallb p (fst (span p x)) = true.
Proof.
  induction x as [|c x IH]; cbn [span]; [reflexivity|].
  destruct (p c) eqn:E; [|reflexivity]. destruct (span p x) as [a b]. cbn [fst forallb] in *. now rewrite E.
Qed.


Lemma span_space x : span is_space x = (fst (span is_space x), lstrip_s x).
Proof. unfold lstrip_s. now destruct (span is_space x). Qed.

Lemma lstrip_s_hd x : hd_not is_space (lstrip_s x).
Proof. apply span_snd_hd. Qed.

Lemma lstrip_s_idem x : span is_space (lstrip_s x) = ([], lstrip_s x).
Proof. apply span_nil, lstrip_s_hd. Qed.

(* what may follow a name for it not to be a reference: no word character directly, and after any
   white space neither "(" nor "%" *)
Definition name_after (rest : str) : Prop :=
  hd_not is_word rest /\
  match lstrip_s rest with c :: _ => Ascii.eqb c lpar = false /\ Ascii.eqb c pct = false | [] => True end.
(* what may follow a closing parenthesis: after any white space no "%" *)
Definition close_after (rest : str) : Prop :=
  match lstrip_s rest with c :: _ => Ascii.eqb c pct = false | [] => True end.

Lemma name_after_close rest : name_after rest -> close_after rest.
Proof. unfold name_after, close_after. intros [_ H]. destruct (lstrip_s rest); [exact I|tauto]. Qed.

Definition wordy (w : str) : Prop := forallb is_word w = true /\ w <> [].

Lemma wordy_hd w : wordy w -> exists c w', w = c :: w' /\ is_word c = true.
Proof.
  intros [H N]. destruct w as [|c w']; [contradiction|]. cbn in H. apply andb_true_iff in H as [H _]. eauto.
Qed.

Lemma span_space_word w rest : wordy w -> span is_space (w ++ rest) = ([], w ++ rest).
Proof.
  intros Hw. destruct (wordy_hd w Hw) as (c & w' & -> & Hc). apply span_nil. cbn. now apply word_not_space.
Qed.

(* ------------------------------------------------------------------ a name that is not a reference *)
Lemma parse_item_name w rest : wordy w -> name_after rest -> parse_item (w ++ rest) = None.
Proof.
  intros Hw [Hr Ha]. unfold parse_item.
  rewrite (span_space_word w rest Hw). cbn [app].
  rewrite (span_app is_word w rest (proj1 Hw) Hr).
  destruct w as [|c0 w0]; [destruct Hw; contradiction|]. cbn [is_nil].
  rewrite (span_space rest).
  destruct (lstrip_s rest) as [|a r] eqn:E.
  - cbn. reflexivity.
  - destruct Ha as [Ha1 Ha2].
    assert (Hsp : is_space a = false) by (pose proof (lstrip_s_hd rest) as H; rewrite E in H; exact H).
    destruct r as [|b r].
    + cbn [span]. rewrite Hsp. rewrite Ha2. reflexivity.
    + rewrite Ha1. cbn [andb]. cbn [span]. rewrite Hsp. rewrite Ha2. reflexivity.
Qed.

Lemma match_req_name w rest : wordy w -> name_after rest -> match_req (w ++ rest) = None.
Proof.
  intros Hw [Hr Ha]. unfold match_req.
  rewrite (span_app is_word w rest (proj1 Hw) Hr).
  destruct w as [|c0 w0]; [destruct Hw; contradiction|]. cbn [is_nil].
  rewrite (span_space rest).
  destruct (lstrip_s rest) as [|a r]; [reflexivity|]. destruct Ha as [Ha1 _]. now rewrite Ha1.
Qed.

Lemma parse_items_none fuel x : parse_item x = None -> parse_items fuel x = ([], x).
Proof. intros H. destruct fuel; [reflexivity|]. cbn [parse_items]. now rewrite H. Qed.

Lemma match_call_name w rest : wordy w -> name_after rest -> match_call (w ++ rest) = None.
Proof.
  intros Hw Ha. unfold match_call.
  rewrite (parse_items_none _ _ (parse_item_name w rest Hw Ha)).
  cbn [map concat]. rewrite (match_req_name w rest Hw Ha). reflexivity.
Qed.


(* the prefix iterations a designator offers: every part but the last *)
Fixpoint d_items (d : desig) : list (bool * str * str) :=
  match d with
  | DLast0 _ => []
  | DLastA _ _ => []
  | DPart0 x r => (false, x, x ++ [pct]) :: d_items r
  | DPartA x _ r => (true, x ++ par2, x ++ par2 ++ [pct]) :: d_items r
  end.
Fixpoint d_last (d : desig) : str :=
  match d with
  | DLast0 x => x
  | DLastA x _ => x ++ par2
  | DPart0 _ r => d_last r
  | DPartA _ _ r => d_last r
  end.

(* the text up to and including the "()" of the last part that has one, and what follows it *)
Fixpoint d_split (d : desig) : option (str * str) :=
  match d with
  | DLast0 _ => None
  | DLastA x _ => Some (x ++ par2, [])
  | DPart0 x r => match d_split r with Some (h, t) => Some (x ++ pct :: h, t) | None => None end
  | DPartA x _ r =>
    match d_split r with
    | Some (h, t) => Some (x ++ par2 ++ pct :: h, t)
    | None => Some (x ++ par2, pct :: sh_d r)
    end
  end.

Lemma sh_d_items d : sh_d d = concat (map (fun it => snd it) (d_items d)) ++ d_last d.
Proof.
  induction d as [x|x a|x r IH|x a r IH]; cbn [sh_d d_items d_last map concat snd app]; try reflexivity.
  - rewrite IH. rewrite <- !app_assoc. reflexivity.
  - rewrite IH. unfold par2. rewrite <- !app_assoc. reflexivity.
Qed.

Lemma d_split_eq d h t : d_split d = Some (h, t) -> sh_d d = h ++ t.
Proof.
  revert h t. induction d as [x|x a|x r IH|x a r IH]; cbn [d_split sh_d]; intros h t H.
  - discriminate.
  - injection H as <- <-. now rewrite app_nil_r.
  - destruct (d_split r) as [[h' t']|]; [|discriminate]. injection H as <- <-.
    rewrite (IH h' t' eq_refl). rewrite <- app_assoc. reflexivity.
  - destruct (d_split r) as [[h' t']|].
    + injection H as <- <-. rewrite (IH h' t' eq_refl). unfold par2. rewrite <- !app_assoc. reflexivity.
    + injection H as <- <-. unfold par2. rewrite <- app_assoc. reflexivity.
Qed.

Lemma d_split_last_args d : last_has_args d = true -> d_split d = Some (sh_d d, []).
Proof.
  induction d as [x|x a|x r IH|x a r IH]; cbn [last_has_args d_split sh_d]; intros H.
  - discriminate.
  - reflexivity.
  - change (last_has_args r = true) in H. now rewrite (IH H).
  - change (last_has_args r = true) in H. rewrite (IH H). unfold par2. reflexivity.
Qed.

Lemma wf_d_head d : wf_d d = true -> exists c y, sh_d d = c :: y /\ is_word c = true.
Proof.
  assert (Hn : forall x y, name_ok x = true -> exists c z, x ++ y = c :: z /\ is_word c = true).
  { intros x y H. destruct (name_ok_word x H) as [Hw Hne]. destruct x as [|c x]; [contradiction|].
    cbn in Hw. apply andb_true_iff in Hw as [Hc _]. exists c, (x ++ y). split; [reflexivity|exact Hc]. }
  destruct d as [x|x a|x r|x a r]; cbn [wf_d sh_d]; intros H;
    repeat match goal with H : _ && _ = true |- _ => apply andb_true_iff in H as [H ?] end.
  - destruct (Hn x [] H) as (c & z & E & W). rewrite app_nil_r in E. eauto.
  - exact (Hn x _ H).
  - exact (Hn x _ H).
  - exact (Hn x _ H).
Qed.

Lemma hd_not_word_pct y : hd_not is_word (pct :: y).
Proof. reflexivity. Qed.
Lemma hd_not_word_lpar y : hd_not is_word (lpar :: y).
Proof. reflexivity. Qed.

(* x%y  : one iteration without "()" *)
Lemma parse_item_part0 x y : wordy x -> hd_not is_space y ->
  parse_item (x ++ pct :: y) = Some (false, x, x ++ [pct], y).
Proof.
  intros Hw Hy. unfold parse_item.
  rewrite (span_space_word x _ Hw). cbn [app].
  rewrite (span_app is_word x (pct :: y) (proj1 Hw) (hd_not_word_pct y)).
  destruct x as [|c0 x0]; [destruct Hw; contradiction|]. cbn [is_nil].
  cbn [span is_space]. change (is_space pct) with false. cbn iota.
  change (Ascii.eqb pct lpar) with false. cbn [andb].
  destruct y as [|b y']; cbn [span]; change (is_space pct) with false; cbn iota;
    change (Ascii.eqb pct pct) with true; cbn iota.
  - cbn [span]. cbn [app]; rewrite ?app_nil_r; reflexivity.
  - rewrite (span_nil is_space (b :: y') Hy). cbn [app]; rewrite ?app_nil_r; reflexivity.
Qed.

(* x()%y : one iteration with "()" *)
Lemma parse_item_partA x y : wordy x -> hd_not is_space y ->
  parse_item (x ++ par2 ++ pct :: y) = Some (true, x ++ par2, x ++ par2 ++ [pct], y).
Proof.
  intros Hw Hy. unfold parse_item, par2. cbn [app].
  rewrite (span_space_word x _ Hw). cbn [app].
  rewrite (span_app is_word x (lpar :: rpar :: pct :: y) (proj1 Hw) (hd_not_word_lpar _)).
  destruct x as [|c0 x0]; [destruct Hw; contradiction|]. cbn [is_nil].
  cbn [span]. change (is_space lpar) with false. cbn iota.
  change (Ascii.eqb lpar lpar && Ascii.eqb rpar rpar) with true. cbn iota.
  cbn [span]. change (is_space pct) with false. cbn iota.
  change (Ascii.eqb pct pct) with true. cbn iota.
  rewrite (span_nil is_space y Hy). cbn [app]; rewrite ?app_nil_r; reflexivity.
Qed.

(* x() followed by something that does not continue the chain *)
Lemma parse_item_lastA x rest : wordy x -> close_after rest -> parse_item (x ++ par2 ++ rest) = None.
Proof.
  intros Hw Hc. unfold parse_item, par2. cbn [app].
  rewrite (span_space_word x _ Hw). cbn [app].
  rewrite (span_app is_word x (lpar :: rpar :: rest) (proj1 Hw) (hd_not_word_lpar _)).
  destruct x as [|c0 x0]; [destruct Hw; contradiction|]. cbn [is_nil].
  cbn [span]. change (is_space lpar) with false. cbn iota.
  change (Ascii.eqb lpar lpar && Ascii.eqb rpar rpar) with true. cbn iota.
  rewrite (span_space rest). unfold close_after in Hc.
  destruct (lstrip_s rest) as [|a r]; [reflexivity|]. now rewrite Hc.
Qed.

Lemma match_req_lastA x rest : wordy x -> match_req (x ++ par2 ++ rest) = Some (x ++ par2, rest).
Proof.
  intros Hw. unfold match_req, par2. cbn [app].
  rewrite (span_app is_word x (lpar :: rpar :: rest) (proj1 Hw) (hd_not_word_lpar _)).
  destruct x as [|c0 x0]; [destruct Hw; contradiction|]. cbn [is_nil].
  cbn [span]. change (is_space lpar) with false. cbn iota.
  change (Ascii.eqb lpar lpar) with true. cbn iota.
  change (Ascii.eqb rpar rpar || Ascii.eqb rpar nl) with true. cbn [negb]. cbn iota.
  change (Ascii.eqb rpar rpar) with true. cbn iota. reflexivity.
Qed.

Lemma name_wordy x : name_ok x = true -> wordy x.
Proof. intros H. exact (name_ok_word x H). Qed.

Lemma hd_not_space_word c y : is_word c = true -> hd_not is_space (c :: y).
Proof. intros H. cbn. now apply word_not_space. Qed.

Lemma parse_items_d d rest fuel : wf_d d = true -> name_after rest -> length (d_items d) <= fuel ->
  parse_items fuel (sh_d d ++ rest) = (d_items d, d_last d ++ rest).
Proof.
  revert fuel. induction d as [x|x a|x r IH|x a r IH]; intros fuel Hwf Ha Hf; cbn [wf_d] in Hwf;
    cbn [sh_d d_items d_last].
  - apply parse_items_none. apply parse_item_name; [now apply name_wordy|exact Ha].
  - apply andb_true_iff in Hwf as [Hx _].
    apply parse_items_none. rewrite <- app_assoc. apply parse_item_lastA; [now apply name_wordy|].
    now apply name_after_close.
  - apply andb_true_iff in Hwf as [Hx Hr].
    cbn [d_items length] in Hf. destruct fuel as [|fuel]; [lia|]. cbn [parse_items].
    destruct (wf_d_head r Hr) as (c & y & E & W).
    rewrite <- app_assoc. cbn [app]. rewrite E. cbn [app].
    rewrite (parse_item_part0 x (c :: y ++ rest) (name_wordy x Hx) (hd_not_space_word c _ W)).
    change (c :: y ++ rest) with ((c :: y) ++ rest). rewrite <- E.
    rewrite (IH fuel Hr Ha) by lia. reflexivity.
  - apply andb_true_iff in Hwf as [Hx Hr]. apply andb_true_iff in Hx as [Hx _].
    cbn [d_items length] in Hf. destruct fuel as [|fuel]; [lia|]. cbn [parse_items].
    destruct (wf_d_head r Hr) as (c & y & E & W).
    change (x ++ lpar :: rpar :: pct :: sh_d r) with (x ++ par2 ++ pct :: sh_d r).
    rewrite <- !app_assoc. cbn [app]. rewrite E. cbn [app].
    change (x ++ lpar :: rpar :: pct :: c :: y ++ rest) with (x ++ par2 ++ pct :: (c :: y ++ rest)).
    rewrite (parse_item_partA x (c :: y ++ rest) (name_wordy x Hx) (hd_not_space_word c _ W)).
    change (c :: y ++ rest) with ((c :: y) ++ rest). rewrite <- E.
    rewrite (IH fuel Hr Ha) by lia. reflexivity.
Qed.

Lemma d_items_len d : length (d_items d) <= length (sh_d d).
Proof.
  induction d as [x|x a|x r IH|x a r IH]; cbn [d_items sh_d length]; try lia.
  - rewrite app_length. cbn [length]. lia.
  - rewrite app_length. cbn [length]. lia.
Qed.

Lemma d_last_cases d : wf_d d = true ->
  exists x, wordy x /\ d_last d = (if last_has_args d then x ++ par2 else x).
Proof.
  induction d as [x|x a|x r IH|x a r IH]; cbn [wf_d d_last]; intros H.
  - exists x. split; [now apply name_wordy|reflexivity].
  - apply andb_true_iff in H as [H _]. exists x. split; [now apply name_wordy|reflexivity].
  - apply andb_true_iff in H as [_ H]. exact (IH H).
  - apply andb_true_iff in H as [_ H]. exact (IH H).
Qed.

Lemma fallback_d d pre best : last_has_args d = false ->
  fallback pre (d_items d) best = match d_split d with Some (h, _) => Some (pre ++ h) | None => best end.
Proof.
  revert pre best. induction d as [x|x a|x r IH|x a r IH]; intros pre best H; cbn [d_items d_split fallback].
  - reflexivity.
  - discriminate.
  - change (last_has_args r = false) in H. rewrite (IH _ _ H).
    destruct (d_split r) as [[h t]|]; [|reflexivity]. rewrite <- ?app_assoc; cbn [app]; reflexivity.
  - change (last_has_args r = false) in H. rewrite (IH _ _ H).
    destruct (d_split r) as [[h t]|]; [|reflexivity]. unfold par2. rewrite <- ?app_assoc; cbn [app]; reflexivity.
Qed.

Lemma skipn_app_len {A} (a b : list A) : skipn (length a) (a ++ b) = b.
Proof. induction a as [|x a IH]; [reflexivity|exact IH]. Qed.

Lemma match_call_d d rest : wf_d d = true -> name_after rest ->
  match_call (sh_d d ++ rest) = match d_split d with Some (h, t) => Some (h, t ++ rest) | None => None end.
Proof.
  intros Hwf Ha. unfold match_call.
  rewrite (parse_items_d d rest _ Hwf Ha) by (rewrite app_length; pose proof (d_items_len d); lia).
  destruct (d_last_cases d Hwf) as (x & Hx & El).
  destruct (last_has_args d) eqn:La.
  - rewrite El, <- app_assoc, (match_req_lastA x rest Hx).
    rewrite (d_split_last_args d La). rewrite <- El, <- sh_d_items. reflexivity.
  - rewrite El, (match_req_name x rest Hx Ha).
    rewrite (fallback_d d [] None La).
    destruct (d_split d) as [[h t]|] eqn:Es; [|reflexivity].
    cbn [app]. rewrite (d_split_eq d h t Es), <- app_assoc, skipn_app_len. reflexivity.
Qed.

(* ------------------------------------------------------------------ the scan *)
Lemma call_scan_skip p y : call_scan (length p) (p ++ y) = call_scan 0 y.
Proof. induction p as [|c p IH]; [reflexivity|]. cbn [length app call_scan]. exact IH. Qed.

Lemma call_scan_nonword c y : is_word c = false -> call_scan 0 (c :: y) = call_scan 0 y.
Proof. intros H. cbn [call_scan]. now rewrite H. Qed.

Lemma call_scan_word_none w rest : wordy w -> hd_not is_word rest -> match_call (w ++ rest) = None ->
  call_scan 0 (w ++ rest) = call_scan 0 rest.
Proof.
  intros Hw Hr Hm. destruct (wordy_hd w Hw) as (c & w' & -> & Hc).
  cbn [app call_scan]. rewrite Hc. change (c :: w' ++ rest) with ((c :: w') ++ rest). rewrite Hm.
  rewrite (span_app is_word (c :: w') rest (proj1 Hw) Hr). cbn [fst].
  replace (length (c :: w') - 1) with (length w') by (cbn [length]; lia). apply call_scan_skip.
Qed.

Lemma call_scan_match c h t rest' : is_word c = true ->
  match_call ((c :: h) ++ t) = Some (c :: h, rest') -> call_scan 0 ((c :: h) ++ t) = (c :: h) :: call_scan 0 t.
Proof.
  intros Hc Hm. cbn [app call_scan]. rewrite Hc. change (c :: h ++ t) with ((c :: h) ++ t). rewrite Hm.
  replace (length (c :: h) - 1) with (length h) by (cbn [length]; lia). now rewrite call_scan_skip.
Qed.

(* ---- inert text ---- *)
Lemma inert_word_run b w t : forallb is_word w = true -> w <> [] -> inert_from b (w ++ t) = inert_from true t.
Proof.
  revert b. induction w as [|c w IH]; intros b Hw Hn; [contradiction|].
  cbn [forallb] in Hw. apply andb_true_iff in Hw as [Hc Hw]. cbn [app inert_from]. rewrite Hc.
  destruct w as [|c' w']; [reflexivity|]. apply IH; [exact Hw|discriminate].
Qed.

Lemma last_nonword_app a b : b <> [] -> last_nonword (a ++ b) = last_nonword b.
Proof.
  intros Hb. unfold last_nonword. rewrite rev_app_distr.
  destruct (rev b) as [|c r] eqn:E; [|reflexivity].
  apply (f_equal (@rev ascii)) in E. rewrite rev_involutive in E. contradiction.
Qed.

Lemma last_nonword_wordy w : wordy w -> last_nonword w = false.
Proof.
  intros [Hw Hn]. unfold last_nonword, first_nonword.
  destruct (rev w) as [|c r] eqn:E; [reflexivity|].
  assert (Hin : In c w) by (apply in_rev; rewrite E; now left).
  rewrite forallb_forall in Hw. now rewrite (Hw c Hin).
Qed.

Lemma scan_inert_n n : forall t rest, length t <= n -> inert_from false t = true ->
  (last_nonword t = true \/ name_after rest) ->
  call_scan 0 (t ++ rest) = call_scan 0 rest.
Proof.
  induction n as [|n IH]; intros t rest Hlen Hin Htail.
  - destruct t; [reflexivity|cbn in Hlen; lia].
  - destruct t as [|c t1]; [reflexivity|].
    destruct (is_word c) eqn:Wc.
    + pose (w := fst (span is_word (c :: t1))). pose (t2 := snd (span is_word (c :: t1))).
      assert (Et : c :: t1 = w ++ t2) by apply span_eq.
      assert (Hw : wordy w).
      { split; [apply span_fst_all|]. unfold w. cbn [span]. rewrite Wc. destruct (span is_word t1). discriminate. }
      assert (Ht2 : hd_not is_word t2) by apply span_snd_hd.
      rewrite Et in Hin |- *. rewrite (inert_word_run false w t2 (proj1 Hw) (proj2 Hw)) in Hin.
      rewrite <- app_assoc.
      destruct t2 as [|h t3].
      * rewrite app_nil_r in Et. cbn [app].
        assert (Ha : name_after rest).
        { destruct Htail as [Hl|Ha]; [|exact Ha]. rewrite Et, (last_nonword_wordy w Hw) in Hl. discriminate. }
        apply call_scan_word_none; [exact Hw|exact (proj1 Ha)|now apply match_call_name].
      * cbn in Ht2. cbn [inert_from] in Hin. rewrite Ht2 in Hin.
        destruct (bad_char h) eqn:Bh; [discriminate|]. cbn [andb] in Hin.
        destruct (is_space h) eqn:Sh; [discriminate|].
        destruct (bad_cases h Bh) as (B1 & B2 & B3 & B4).
        assert (Ha : name_after ((h :: t3) ++ rest)).
        { split; [exact Ht2|]. unfold lstrip_s. cbn [app span]. rewrite Sh. cbn [snd]. split; assumption. }
        rewrite (call_scan_word_none w ((h :: t3) ++ rest) Hw Ht2 (match_call_name w _ Hw Ha)).
        apply IH.
        -- assert (length (c :: t1) = length w + length (h :: t3)) by (rewrite Et; apply app_length).
           destruct Hw as [_ Hne]. destruct w; [contradiction|]. cbn [length] in *. lia.
        -- cbn [inert_from]. rewrite Ht2, Bh. cbn [andb]. exact Hin.
        -- destruct Htail as [Hl|Ha']; [|now right]. left.
           rewrite Et in Hl. rewrite last_nonword_app in Hl by discriminate. exact Hl.
    + cbn [inert_from] in Hin. rewrite Wc in Hin. destruct (bad_char c) eqn:Bc; [discriminate|]. cbn [andb] in Hin.
      cbn [app]. rewrite (call_scan_nonword c _ Wc).
      destruct t1 as [|c1 t1']; [reflexivity|].
      apply IH; [cbn [length] in *; lia|exact Hin|].
      destruct Htail as [Hl|Ha]; [|now right]. left.
      change (c :: c1 :: t1') with ([c] ++ c1 :: t1') in Hl. rewrite last_nonword_app in Hl by discriminate. exact Hl.
Qed.

Lemma scan_inert t rest : inert t = true -> (last_nonword t = true \/ name_after rest) ->
  call_scan 0 (t ++ rest) = call_scan 0 rest.
Proof. intros H1 H2. exact (scan_inert_n (length t) t rest (le_n _) H1 H2). Qed.

(* ---- designators ---- *)
Lemma wf_d_name d : wf_d d = true ->
  match d with
  | DLast0 x => name_ok x = true
  | DLastA x a => name_ok x = true /\ wf_e a = true
  | DPart0 x r => name_ok x = true /\ wf_d r = true
  | DPartA x a r => name_ok x = true /\ wf_e a = true /\ wf_d r = true
  end.
Proof.
  destruct d; cbn [wf_d]; intros H; repeat (apply andb_true_iff in H as [H ?]); auto.
Qed.

(* a chain without any argument list is skipped *)
Lemma scan_d_noargs d rest : d_split d = None -> wf_d d = true -> name_after rest ->
  call_scan 0 (sh_d d ++ rest) = call_scan 0 rest.
Proof.
  induction d as [x|x a|x r IH|x a r IH]; intros Hs Hwf Ha; cbn [d_split] in Hs.
  - cbn [sh_d]. pose proof (wf_d_name _ Hwf) as Hx. cbn in Hx.
    apply call_scan_word_none; [now apply name_wordy|exact (proj1 Ha)|apply match_call_name; [now apply name_wordy|exact Ha]].
  - discriminate.
  - destruct (wf_d_name _ Hwf) as [Hx Hr].
    destruct (d_split r) as [[h t]|] eqn:Er; [discriminate|].
    pose proof (match_call_d (DPart0 x r) rest Hwf Ha) as Hm. cbn [d_split] in Hm. rewrite Er in Hm.
    cbn [sh_d] in *. rewrite <- app_assoc in *. cbn [app] in *.
    rewrite (call_scan_word_none x _ (name_wordy x Hx) (hd_not_word_pct _) Hm).
    rewrite call_scan_nonword by reflexivity. now apply IH.
  - destruct (d_split r) as [[h t]|]; discriminate.
Qed.

Lemma scan_d_tail d h t rest : d_split d = Some (h, t) -> wf_d d = true -> name_after rest ->
  call_scan 0 (t ++ rest) = call_scan 0 rest.
Proof.
  revert h t. induction d as [x|x a|x r IH|x a r IH]; intros h t Hs Hwf Ha; cbn [d_split] in Hs.
  - discriminate.
  - injection Hs as <- <-. reflexivity.
  - destruct (wf_d_name _ Hwf) as [Hx Hr].
    destruct (d_split r) as [[h' t']|] eqn:Er; [|discriminate]. injection Hs as <- <-.
    exact (IH h' t' eq_refl Hr Ha).
  - destruct (wf_d_name _ Hwf) as (Hx & _ & Hr).
    destruct (d_split r) as [[h' t']|] eqn:Er.
    + injection Hs as <- <-. exact (IH h' t' eq_refl Hr Ha).
    + injection Hs as <- <-. cbn [app]. rewrite call_scan_nonword by reflexivity.
      now apply scan_d_noargs.
Qed.

Lemma d_split_head d h t : d_split d = Some (h, t) -> wf_d d = true ->
  exists c h', h = c :: h' /\ is_word c = true.
Proof.
  intros Hs Hwf. destruct (wf_d_head d Hwf) as (c & y & E & W).
  rewrite (d_split_eq d h t Hs) in E.
  destruct h as [|c' h'].
  - exfalso. destruct d as [x|x a|x r|x a r]; cbn [d_split] in Hs.
    + discriminate.
    + injection Hs as Hh _. destruct x; discriminate.
    + destruct (d_split r) as [[? ?]|]; [|discriminate]. injection Hs as Hh _. destruct x; discriminate.
    + destruct (d_split r) as [[? ?]|]; injection Hs as Hh _; destruct x; discriminate.
  - cbn [app] in E. injection E as -> _. eauto.
Qed.

Definition d_heads (d : desig) : list str :=
  match d_split d with Some (h, _) => [h] | None => [] end.

Lemma scan_d d rest : wf_d d = true -> name_after rest ->
  call_scan 0 (sh_d d ++ rest) = d_heads d ++ call_scan 0 rest.
Proof.
  intros Hwf Ha. unfold d_heads. destruct (d_split d) as [[h t]|] eqn:Es.
  - pose proof (match_call_d d rest Hwf Ha) as Hm. rewrite Es in Hm.
    rewrite (d_split_eq d h t Es) in *. rewrite <- app_assoc in *.
    destruct (d_split_head d h t Es Hwf) as (c & h' & -> & Wc).
    rewrite (call_scan_match c h' (t ++ rest) _ Wc Hm). cbn [app]. f_equal.
    exact (scan_d_tail d _ t rest Es Hwf Ha).
  - cbn [app]. now apply scan_d_noargs.
Qed.

(* ---- expressions ---- *)
Fixpoint e_heads (e : expr) : list str :=
  match e with
  | ELit _ => []
  | EDes d => d_heads d
  | EPar _ => []
  | EUn _ e' => e_heads e'
  | EBin a _ b => e_heads a ++ e_heads b
  end.

Lemma inert_first_nonspace b op y : inert_from b op = true -> has_nonspace op = true ->
  match lstrip_s (op ++ y) with c :: _ => Ascii.eqb c lpar = false /\ Ascii.eqb c pct = false | [] => True end.
Proof.
  revert b. induction op as [|c op IH]; intros b Hin Hns; [discriminate|].
  cbn [has_nonspace existsb] in Hns. cbn [inert_from] in Hin.
  unfold lstrip_s. cbn [app span].
  destruct (is_space c) eqn:Sc.
  - cbn [negb orb] in Hns.
    assert (Wc : is_word c = false).
    { destruct (is_word c) eqn:W; [|reflexivity]. apply word_not_space in W. congruence. }
    rewrite Wc in Hin. destruct (bad_char c); [discriminate|]. destruct (b && true) eqn:Eb; [discriminate|].
    specialize (IH false Hin Hns). unfold lstrip_s in IH. destruct (span is_space (op ++ y)). exact IH.
  - cbn [snd]. destruct (is_word c) eqn:Wc.
    + split; [now apply word_not_lpar|now apply word_not_pct].
    + destruct (bad_char c) eqn:Bc; [discriminate|]. destruct (bad_cases c Bc) as (B1 & _ & B3 & _). now split.
Qed.

Lemma op_name_after op y : op_ok op = true -> name_after (op ++ y).
Proof.
  unfold op_ok. intros H. apply andb_true_iff in H as [H Hns]. apply andb_true_iff in H as [H _].
  apply andb_true_iff in H as [Hin Hf].
  split.
  - destruct op as [|c op]; [discriminate|]. cbn in Hf |- *. now apply negb_true_iff in Hf.
  - exact (inert_first_nonspace false op y Hin Hns).
Qed.

Lemma op_tail_ok op rest : op_ok op = true -> last_nonword op = true \/ name_after rest.
Proof.
  unfold op_ok. intros H. apply andb_true_iff in H as [H _]. apply andb_true_iff in H as [_ H]. now left.
Qed.
Lemma unop_tail_ok op rest : unop_ok op = true -> last_nonword op = true \/ name_after rest.
Proof.
  unfold unop_ok. intros H. repeat (apply andb_true_iff in H as [H ?]). now left.
Qed.

Lemma scan_e_d :
  (forall e, wf_e e = true -> forall rest, name_after rest ->
     call_scan 0 (sh_e e ++ rest) = e_heads e ++ call_scan 0 rest) /\
  (forall d, wf_d d = true -> forall rest, name_after rest ->
     call_scan 0 (sh_d d ++ rest) = d_heads d ++ call_scan 0 rest).
Proof.
  split; [|intros d Hwf rest Ha; now apply scan_d].
  induction e as [t|d|e IH|op e IH|a IHa op b IHb]; intros Hwf rest Ha; cbn [wf_e sh_e e_heads] in *.
  - cbn [app]. apply scan_inert; [now apply lit_ok_inert|now right].
  - now apply scan_d.
  - cbn [app]. rewrite call_scan_nonword by reflexivity. now rewrite call_scan_nonword by reflexivity.
  - apply andb_true_iff in Hwf as [Hop He]. rewrite <- app_assoc.
    rewrite (scan_inert op _ (unop_ok_inert op Hop) (unop_tail_ok op _ Hop)). now apply IH.
  - apply andb_true_iff in Hwf as [Hwf Hb]. apply andb_true_iff in Hwf as [Hwa Hop].
    rewrite <- !app_assoc.
    rewrite (IHa Hwa _ (op_name_after op _ Hop)).
    rewrite (scan_inert op _ (op_ok_inert op Hop) (op_tail_ok op _ Hop)).
    rewrite (IHb Hb rest Ha). now rewrite app_assoc.
Qed.

Definition scan_e := proj1 scan_e_d.

(* ------------------------------------------------------------------ normalised chains *)
Lemma strip_cw_word a x : is_word a = true -> strip_cw (a :: x) = a :: strip_cw x.
Proof.
  intros W. cbn [strip_cw]. rewrite (word_not_lpar a W), (word_not_space a W). cbn [andb].
  destruct x; reflexivity.
Qed.
Lemma strip_cw_words w x : forallb is_word w = true -> strip_cw (w ++ x) = w ++ strip_cw x.
Proof.
  induction w as [|a w IH]; intros H; [reflexivity|]. cbn [forallb] in H. apply andb_true_iff in H as [Ha H].
  cbn [app]. rewrite (strip_cw_word a _ Ha), (IH H). reflexivity.
Qed.
Lemma strip_cw_par x : strip_cw (lpar :: rpar :: x) = strip_cw x.
Proof. reflexivity. Qed.
Lemma strip_cw_pct x : strip_cw (pct :: x) = pct :: strip_cw x.
Proof. destruct x; reflexivity. Qed.

Lemma lower_word c : is_word c = true -> is_word (lower_ch c) = true.
Proof. destruct c as [[|] [|] [|] [|] [|] [|] [|] [|]]; intros H; try discriminate H; reflexivity. Qed.

Lemma split_on_word cur w : forallb is_word w = true -> split_on pct cur w = [cur ++ w].
Proof.
  revert cur. induction w as [|c w IH]; intros cur H; [cbn; now rewrite app_nil_r|].
  cbn [forallb] in H. apply andb_true_iff in H as [Hc H]. cbn [split_on].
  rewrite (word_not_pct c Hc). rewrite (IH _ H). now rewrite <- app_assoc.
Qed.
Lemma split_on_word_pct cur w y : forallb is_word w = true ->
  split_on pct cur (w ++ pct :: y) = (cur ++ w) :: split_on pct [] y.
Proof.
  revert cur. induction w as [|c w IH]; intros cur H.
  - cbn [app split_on]. change (Ascii.eqb pct pct) with true. cbn iota. now rewrite app_nil_r.
  - cbn [forallb] in H. apply andb_true_iff in H as [Hc H]. cbn [app split_on].
    rewrite (word_not_pct c Hc). rewrite (IH _ H). now rewrite <- app_assoc.
Qed.
Lemma lower_words w : forallb is_word w = true -> forallb is_word (lower w) = true.
Proof.
  induction w as [|c w IH]; intros H; [reflexivity|]. cbn [forallb] in H. apply andb_true_iff in H as [Hc H].
  cbn [lower map forallb]. rewrite (lower_word c Hc). exact (IH H).
Qed.


Lemma norm_word_par x : forallb is_word x = true -> norm_chain (x ++ par2) = [lower x].
Proof.
  intros H. unfold norm_chain, par2. rewrite (strip_cw_words x _ H). cbn [strip_cw]. rewrite app_nil_r.
  rewrite (split_on_word [] (lower x) (lower_words x H)). reflexivity.
Qed.
Lemma norm_word_pct x h : forallb is_word x = true -> norm_chain (x ++ pct :: h) = lower x :: norm_chain h.
Proof.
  intros H. unfold norm_chain. rewrite (strip_cw_words x _ H), strip_cw_pct.
  unfold lower. rewrite map_app. cbn [map]. change (lower_ch pct) with pct.
  rewrite (split_on_word_pct [] (map lower_ch x) _ (lower_words x H)). reflexivity.
Qed.
Lemma norm_word_par_pct x h : forallb is_word x = true -> norm_chain (x ++ par2 ++ pct :: h) = lower x :: norm_chain h.
Proof.
  intros H. unfold norm_chain, par2. rewrite (strip_cw_words x _ H). cbn [app]. rewrite strip_cw_par, strip_cw_pct.
  unfold lower. rewrite map_app. cbn [map]. change (lower_ch pct) with pct.
  rewrite (split_on_word_pct [] (map lower_ch x) _ (lower_words x H)). reflexivity.
Qed.

Lemma d_head_norm d : wf_d d = true ->
  d_head_chain d = match d_split d with Some (h, _) => Some (norm_chain h) | None => None end.
Proof.
  induction d as [x|x a|x r IH|x a r IH]; intros Hwf; pose proof (wf_d_name _ Hwf) as Hn; cbn [d_head_chain d_split].
  - reflexivity.
  - destruct Hn as [Hx _]. now rewrite (norm_word_par x (proj1 (name_wordy x Hx))).
  - destruct Hn as [Hx Hr]. rewrite (IH Hr). destruct (d_split r) as [[h t]|]; [|reflexivity].
    now rewrite (norm_word_pct x h (proj1 (name_wordy x Hx))).
  - destruct Hn as (Hx & _ & Hr). rewrite (IH Hr). destruct (d_split r) as [[h t]|].
    + now rewrite (norm_word_par_pct x h (proj1 (name_wordy x Hx))).
    + now rewrite (norm_word_par x (proj1 (name_wordy x Hx))).
Qed.


Lemma e_heads_norm e : wf_e e = true -> map norm_chain (e_heads e) = e_heads0 e.
Proof.
  induction e as [t|d|e IH|op e IH|a IHa op b IHb]; intros Hwf; cbn [wf_e e_heads e_heads0] in *.
  - reflexivity.
  - unfold d_heads, d_heads0. rewrite (d_head_norm d Hwf). destruct (d_split d) as [[h t]|]; reflexivity.
  - reflexivity.
  - apply andb_true_iff in Hwf as [_ He]. now apply IH.
  - apply andb_true_iff in Hwf as [Hwf Hb]. apply andb_true_iff in Hwf as [Ha _].
    rewrite map_app, (IHa Ha), (IHb Hb). reflexivity.
Qed.
