(* Sem/CallsScan.v — what the CALL_RE / SUBCALL_RE recognisers of Sem/Calls.v find in the text of
   one nesting level of a rendered expression or statement (towards C08_raw). *)
From Coq Require Import Lia.
From Ford Require Import Base.Str Base.StrFacts Gen.Intrinsics Sem.Calls Sem.CallsSpec Sem.CallsStrip.

(* ------------------------------------------------------------------ character classes *)
Lemma word_not_space c : is_word c = true -> is_space c = false.
Proof. destruct c as [[|] [|] [|] [|] [|] [|] [|] [|]]; intros H; try discriminate H; reflexivity. Qed.
Lemma word_not_bad c : is_word c = true -> bad_char c = false.
Proof. destruct c as [[|] [|] [|] [|] [|] [|] [|] [|]]; intros H; try discriminate H; reflexivity. Qed.
Lemma word_not_pct c : is_word c = true -> Ascii.eqb c pct = false.
Proof. destruct c as [[|] [|] [|] [|] [|] [|] [|] [|]]; intros H; try discriminate H; reflexivity. Qed.
Lemma word_not_lpar c : is_word c = true -> Ascii.eqb c lpar = false.
Proof. destruct c as [[|] [|] [|] [|] [|] [|] [|] [|]]; intros H; try discriminate H; reflexivity. Qed.
Lemma word_not_rpar c : is_word c = true -> Ascii.eqb c rpar = false.
Proof. destruct c as [[|] [|] [|] [|] [|] [|] [|] [|]]; intros H; try discriminate H; reflexivity. Qed.
Lemma space_not_bad_paren c : is_space c = true -> Ascii.eqb c lpar = false /\ Ascii.eqb c pct = false /\ Ascii.eqb c rpar = false.
Proof. destruct c as [[|] [|] [|] [|] [|] [|] [|] [|]]; intros H; try discriminate H; repeat split; reflexivity. Qed.
Lemma bad_cases c : bad_char c = false ->
  Ascii.eqb c lpar = false /\ Ascii.eqb c rpar = false /\ Ascii.eqb c pct = false /\ Ascii.eqb c nl = false.
Proof.
  unfold bad_char. intros B. apply orb_false_iff in B as [B B4]. apply orb_false_iff in B as [B B3].
  apply orb_false_iff in B as [B1 B2]. auto.
Qed.

(* ------------------------------------------------------------------ span *)
Definition hd_not (p : ascii -> bool) (x : str) : Prop :=
  match x with [] => True | c :: _ => p c = false end.

Lemma span_app p a b : forallb p a = true -> hd_not p b -> span p (a ++ b) = (a, b).
Proof.
  induction a as [|c a IH]; cbn [app forallb span]; intros H Hb.
  - destruct b as [|d b]; [reflexivity|]. cbn [span]. cbn in Hb. now rewrite Hb.
  - apply andb_true_iff in H as [Hc H]. rewrite Hc, (IH H Hb). reflexivity.
Qed.

Lemma span_nil p x : hd_not p x -> span p x = ([], x).
Proof. destruct x as [|c x]; [reflexivity|]. cbn. intros H. now rewrite H. Qed.

Lemma span_snd_hd p x : hd_not p (snd (span p x)).
Proof.
  induction x as [|c x IH]; cbn [span]; [exact I|].
  destruct (p c) eqn:E; [|cbn; exact E]. destruct (span p x). exact IH.
Qed.

Lemma span_eq p x : x = fst (span p x) ++ snd (span p x).
Proof.
  induction x as [|c x IH]; cbn [span]; [reflexivity|].
  destruct (p c); [|reflexivity]. destruct (span p x) as [a b]. cbn [fst snd app] in *. now f_equal.
Qed.

Lemma span_fst_all p x : forallb p (fst (span p x)) = true.
Proof.
  induction x as [|c x IH]; cbn [span]; [reflexivity|].
  destruct (p c) eqn:E; [|reflexivity]. destruct (span p x) as [a b]. cbn [fst forallb] in *. now rewrite E.
Qed.

Definition lstrip_s (x : str) : str := snd (span is_space x).

Lemma span_space x : span is_space x = (fst (span is_space x), lstrip_s x).
Proof. unfold lstrip_s. now destruct (span is_space x). Qed.

Lemma lstrip_s_hd x : hd_not is_space (lstrip_s x).
Proof. apply span_snd_hd. Qed.

Lemma lstrip_s_idem x : span is_space (lstrip_s x) = ([], lstrip_s x).
Proof. apply span_nil, lstrip_s_hd. Qed.

(* what may follow a name for it not to be a reference: no word character directly, and after any
   white space neither "(" nor "%" *)
Definition name_after (rest : str) : Prop :=
  hd_not is_word rest /\
  match lstrip_s rest with c :: _ => Ascii.eqb c lpar = false /\ Ascii.eqb c pct = false | [] => True end.
(* what may follow a closing parenthesis: after any white space no "%" *)
Definition close_after (rest : str) : Prop :=
  match lstrip_s rest with c :: _ => Ascii.eqb c pct = false | [] => True end.

Lemma name_after_close rest : name_after rest -> close_after rest.
Proof. unfold name_after, close_after. intros [_ H]. destruct (lstrip_s rest); [exact I|tauto]. Qed.

Definition wordy (w : str) : Prop := forallb is_word w = true /\ w <> [].

Lemma wordy_hd w : wordy w -> exists c w', w = c :: w' /\ is_word c = true.
Proof.
  intros [H N]. destruct w as [|c w']; [contradiction|]. cbn in H. apply andb_true_iff in H as [H _]. eauto.
Qed.

Lemma span_space_word w rest : wordy w -> span is_space (w ++ rest) = ([], w ++ rest).
Proof.
  intros Hw. destruct (wordy_hd w Hw) as (c & w' & -> & Hc). apply span_nil. cbn. now apply word_not_space.
Qed.

(* ------------------------------------------------------------------ a name that is not a reference *)
Lemma parse_item_name w rest : wordy w -> name_after rest -> parse_item (w ++ rest) = None.
Proof.
  intros Hw [Hr Ha]. unfold parse_item.
  rewrite (span_space_word w rest Hw). cbn [app].
  rewrite (span_app is_word w rest (proj1 Hw) Hr).
  destruct w as [|c0 w0]; [destruct Hw; contradiction|]. cbn [is_nil].
  rewrite (span_space rest).
  destruct (lstrip_s rest) as [|a r] eqn:E.
  - cbn. reflexivity.
  - destruct Ha as [Ha1 Ha2].
    assert (Hsp : is_space a = false) by (pose proof (lstrip_s_hd rest) as H; rewrite E in H; exact H).
    destruct r as [|b r].
    + cbn [span]. rewrite Hsp. rewrite Ha2. reflexivity.
    + rewrite Ha1. cbn [andb]. cbn [span]. rewrite Hsp. rewrite Ha2. reflexivity.
Qed.

Lemma match_req_name w rest : wordy w -> name_after rest -> match_req (w ++ rest) = None.
Proof.
  intros Hw [Hr Ha]. unfold match_req.
  rewrite (span_app is_word w rest (proj1 Hw) Hr).
  destruct w as [|c0 w0]; [destruct Hw; contradiction|]. cbn [is_nil].
  rewrite (span_space rest).
  destruct (lstrip_s rest) as [|a r]; [reflexivity|]. destruct Ha as [Ha1 _]. now rewrite Ha1.
Qed.

Lemma parse_items_none fuel x : parse_item x = None -> parse_items fuel x = ([], x).
Proof. intros H. destruct fuel; [reflexivity|]. cbn [parse_items]. now rewrite H. Qed.

Lemma match_call_name w rest : wordy w -> name_after rest -> match_call (w ++ rest) = None.
Proof.
  intros Hw Ha. unfold match_call.
  rewrite (parse_items_none _ _ (parse_item_name w rest Hw Ha)).
  cbn [map concat]. rewrite (match_req_name w rest Hw Ha). reflexivity.
Qed.
