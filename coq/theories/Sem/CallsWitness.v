(* Sem/CallsWitness.v — property C08: each call recorded once, FORMAT / GO TO statements, the full
   statement and its refutations (concrete witnesses closed by vm_compute), non-vacuity examples. *)
From Coq Require Import ZArith Lia.
From Ford Require Import Base.Str Base.StrFacts Gen.Intrinsics Sem.Calls Sem.CallsSpec Sem.CallsDefs Sem.CallsStrip Sem.CallsScan
  Sem.CallsStmt Sem.CallsProofs Sem.CallsExact.

(* ------------------------------------------------------------------ recorded once *)
Lemma line_step_inv a calls line a' calls' : calls_inv calls -> line_step (a, calls) line = Some (a', calls') -> calls_inv calls'.
Proof.
  intros Hinv H. unfold line_step, line_step_gen in H.
  destruct (format_re line); [injection H as _ <-; exact Hinv|].
  destruct (end_associate_re line).
  { destruct (rev a); [discriminate|]. injection H as _ <-. exact Hinv. }
  destruct (associate_re line) as [body|].
  { destruct (strip_paren body 0) as [|first rest0]; [discriminate|]. destruct (add_batch a (paren_split comma first)); [|discriminate].
    injection H as _ <-. unfold add_calls, add_gen. now apply append_calls_inv. }
  destruct (goto_rewrite false [] line) as [line'|].
  { destruct (call_gate line'); injection H as _ <-; [unfold add_calls, add_gen; now apply append_calls_inv|exact Hinv]. }
  destruct (call_gate line); injection H as _ <-; [unfold add_calls, add_gen; now apply append_calls_inv|exact Hinv].
Qed.

Lemma run_stmts_inv stmts : forall a calls a' calls', calls_inv calls ->
  run_stmts (a, calls) stmts = Some (a', calls') -> calls_inv calls'.
Proof.
  induction stmts as [|x stmts IH]; intros a calls a' calls' Hinv H; cbn [run_stmts] in H.
  - injection H as _ <-. exact Hinv.
  - unfold stmt_step in H. destruct (line_step (a, calls) (mask_quotes x)) as [[a1 c1]|] eqn:E; [|discriminate].
    exact (IH a1 c1 a' calls' (line_step_inv _ _ _ _ _ Hinv E) H).
Qed.

(* for every list of statement texts whatsoever: no chain twice in unit.calls before correlate, none
   ending in an entry of INTRINSICS; and after correlate no procedure twice *)
Theorem once stmts :
  (forall calls, unit_raw_calls stmts = Some calls ->
     NoDup calls /\ forall ch, In ch calls -> str_in (last_of ch) INTRINSICS = false) /\
  (forall tb l, recorded tb stmts = Some l -> NoDup l).
Proof.
  split.
  - intros calls. unfold unit_raw_calls. destruct (run_stmts ([], []) stmts) as [[a c]|] eqn:E; [|discriminate].
    intros H. injection H as <-.
    assert (H0 : calls_inv []) by (split; [constructor|intros ch []]).
    destruct (run_stmts_inv stmts [] [] a c H0 E) as [Hn Hk]. split; [exact Hn|].
    intros ch Hin. specialize (Hk ch Hin). unfold keep in Hk. now apply negb_true_iff in Hk.
  - intros tb l. unfold recorded. destruct (unit_raw_calls stmts); [|discriminate].
    destruct (unit_named_calls stmts); [|discriminate]. intros H. injection H as <-.
    apply resolve_named_nodup, resolve_loop_nodup. constructor.
Qed.

(* ------------------------------------------------------------------ the full statement and its refutations *)
Definition same_set (a b : list str) : bool :=
  forallb (fun x => str_in x b) a && forallb (fun x => str_in x a) b.

Definition tables_unique (tb : symtab) : bool :=
  keys_unique (st_scope tb) && forallb (fun p => keys_unique (snd p)) (st_types tb).

(* C08 in full: for every well-formed executable part and every name table with one meaning per
   name, what is left in unit.calls is exactly the set of user procedures the part invokes *)
Definition C08_statement : Prop :=
  forall tb ss srcs, map mask_quotes srcs = map render_stmt ss -> forallb wf_stmt ss = true -> tables_unique tb = true ->
    exists l, recorded tb srcs = Some l /\ same_set l (calls_of tb ss) = true.

Definition refutes (tb : symtab) (ss : list stmt) : Prop :=
  forallb wf_stmt ss = true /\ tables_unique tb = true /\
  match recorded tb (map render_stmt ss) with
  | Some l => same_set l (calls_of tb ss) = false
  | None => True
  end /\ map mask_quotes (map render_stmt ss) = map render_stmt ss.

Lemma refutes_statement tb ss : refutes tb ss -> ~ C08_statement.
Proof.
  intros (Hwf & Hu & Hr & Hm) Hall. destruct (Hall tb ss (map render_stmt ss) Hm Hwf Hu) as (l & Hl & Hs).
  rewrite Hl in Hr. congruence.
Qed.

Definition name (x : string) : expr := EDes (DLast0 (s x)).
Definition ref1 (x : string) (a : expr) : expr := EDes (DLastA (s x) a).
Definition num (x : string) : expr := ELit (s x).
Definition tb0 (scope : labels) : symtab := mk_symtab scope [] [].

(* formerly region 2: de-duplication on the last component before resolution *)
Definition w_same_last_tb : symtab :=
  mk_symtab [(s "a", EVar (s "t1") true false); (s "b", EVar (s "t2") true false)]
            [(s "t1", [(s "run", EProc (s "m.t1.run"))]); (s "t2", [(s "run", EProc (s "m.t2.run"))])] [].
Definition w_same_last : list stmt :=
  [SCall None (DPart0 (s "a") (DLastA (s "run") (ELit []))); SCall None (DPart0 (s "b") (DLastA (s "run") (ELit [])))].

(* formerly region 3: user procedures spelled like entries of INTRINSICS *)
Definition w_intrinsic_tb : symtab :=
  tb0 [(s "wait", EProc (s "m.wait")); (s "system", EFunc (s "m.system") (s "integer")); (s "i", EVar (s "integer") true false)].
Definition w_intrinsic : list stmt :=
  [SCall None (DLastA (s "wait") (num "3")); SForm None true (FAssign (name "i") (ref1 "system" (num "2")))].

(* region 3: a statement keyword followed by "(" that is also the name of a procedure the unit sees *)
Definition w_keyword : list stmt := [SForm None true (FIo KWait (num "10"))].

(* region 4: labelled CALL without argument list *)
Definition w_labelled_tb : symtab := tb0 [(s "sub0", EProc (s "m.sub0"))].
Definition w_labelled : list stmt := [SCall (Some (s "10")) (DLast0 (s "sub0"))].

(* region 5: FORMAT without the blank *)
Definition w_format : list stmt :=
  [SFormat (s "100") false (pt_app (pt_str (s "i5, 3")) (PGrp (pt_str (s "f8.2, a")) PNil))].

(* region 6: ASSOCIATE selector that is an expression *)
Definition w_assoc_expr_tb : symtab := tb0 [(s "arr", EVar (s "integer") true false); (s "i", EVar (s "integer") true false)].
Definition w_assoc_expr : list stmt :=
  [SAssoc true [(s "tmp", EBin (ref1 "arr" (EBin (num "1") (s ":") (num "3"))) (s " + ") (num "1"))];
   SForm None true (FAssign (name "i") (ref1 "tmp" (num "2")));
   SEndAssoc].

(* region 8: resolving through a function that has not been correlated yet raises *)
Definition w_crash_tb : symtab :=
  mk_symtab [(s "mk", EFunc (s "m.mk") (s "t"))] [(s "t", [(s "run", EProc (s "m.t.run"))])] [].
Definition w_crash : list stmt :=
  [SAssoc true [(s "a", ref1 "mk" (num "1"))];
   SCall None (DPart0 (s "a") (DLastA (s "run") (ELit [])));
   SEndAssoc].

(* region 9: the GO TO pattern swallows the statement *)
Definition w_goto_tb : symtab := tb0 [(s "f", EFunc (s "m.f") (s "integer")); (s "i", EVar (s "integer") true false)].
Definition w_goto : list stmt := [SGoto [s "10"; s "20"] (ref1 "f" (name "i"))].

(* ---- still open ---- *)
Theorem refuted_keyword_named : refutes w_intrinsic_tb w_keyword /\ region_keyword_named w_intrinsic_tb = true /\
  region_of w_intrinsic_tb w_intrinsic_tb w_keyword = 3 /\ region_of w_intrinsic_tb w_intrinsic_tb w_intrinsic = 0 /\
  map render_stmt w_keyword = [s "wait (10)"] /\
  recorded w_intrinsic_tb (map render_stmt w_keyword) = Some [s "m.wait"] /\ calls_of w_intrinsic_tb w_keyword = [].
Proof. unfold refutes. repeat match goal with |- _ /\ _ => split end; vm_compute; reflexivity. Qed.

(* ---- repaired in FORD: the former witnesses now come out right (regression inputs) ---- *)
Definition agrees (tb : symtab) (ss : list stmt) : Prop :=
  forallb wf_stmt ss = true /\ map mask_quotes (map render_stmt ss) = map render_stmt ss /\
  match recorded tb (map render_stmt ss) with Some l => same_set l (calls_of tb ss) = true | None => False end.

Theorem fixed_same_last : agrees w_same_last_tb w_same_last /\
  recorded w_same_last_tb (map render_stmt w_same_last) = Some [s "m.t1.run"; s "m.t2.run"].
Proof. unfold agrees. repeat match goal with |- _ /\ _ => split end; vm_compute; reflexivity. Qed.

Theorem fixed_intrinsic_named : agrees w_intrinsic_tb w_intrinsic /\
  map render_stmt w_intrinsic = [s "call wait(3)"; s "i = system(2)"] /\
  unit_raw_calls (map render_stmt w_intrinsic) = Some [] /\
  unit_named_calls (map render_stmt w_intrinsic) = Some [[s "wait"]; [s "system"]] /\
  recorded w_intrinsic_tb (map render_stmt w_intrinsic) = Some [s "m.wait"; s "m.system"].
Proof. unfold agrees. repeat match goal with |- _ /\ _ => split end; vm_compute; reflexivity. Qed.

Theorem fixed_labelled_call : agrees w_labelled_tb w_labelled /\
  map render_stmt w_labelled = [s "10 call sub0"] /\
  recorded w_labelled_tb (map render_stmt w_labelled) = Some [s "m.sub0"].
Proof. unfold agrees. repeat match goal with |- _ /\ _ => split end; vm_compute; reflexivity. Qed.

Theorem fixed_format_nospace : agrees (tb0 []) w_format /\
  map render_stmt w_format = [s "100 format(i5, 3(f8.2, a))"] /\
  recorded (tb0 []) (map render_stmt w_format) = Some [].
Proof. unfold agrees. repeat match goal with |- _ /\ _ => split end; vm_compute; reflexivity. Qed.

Theorem fixed_assoc_expr : agrees w_assoc_expr_tb w_assoc_expr /\
  map render_stmt w_assoc_expr = [s "associate (tmp => arr(1:3) + 1)"; s "i = tmp(2)"; s "end associate"] /\
  recorded w_assoc_expr_tb (map render_stmt w_assoc_expr) = Some [].
Proof. unfold agrees. repeat match goal with |- _ /\ _ => split end; vm_compute; reflexivity. Qed.

Theorem fixed_assoc_function_selector : agrees w_crash_tb w_crash /\
  map render_stmt w_crash = [s "associate (a => mk(1))"; s "call a%run()"; s "end associate"] /\
  recorded w_crash_tb (map render_stmt w_crash) = Some [s "m.mk"; s "m.t.run"].
Proof. unfold agrees. repeat match goal with |- _ /\ _ => split end; vm_compute; reflexivity. Qed.

Theorem fixed_goto : agrees w_goto_tb w_goto /\
  map render_stmt w_goto = [s "go to (10, 20), f(i)"] /\
  recorded w_goto_tb (map render_stmt w_goto) = Some [s "m.f"] /\
  recorded (tb0 [(s "mygoto", EProc (s "m.mygoto"))]) [s "call mygoto(1, 2)"] = Some [s "m.mygoto"].
Proof. unfold agrees. repeat match goal with |- _ /\ _ => split end; vm_compute; reflexivity. Qed.

(* region 1: FORD's tables lack a declaration the program has (an array declared by a DIMENSION or
   COMMON statement, inside a BLOCK, or in a module outside the project): the array is recorded *)
Theorem refuted_unresolved_array :
  let ss := [SForm None true (FAssign (ref1 "w" (num "1")) (ref1 "z" (num "2")))] in
  let tb_ford := tb0 [] in
  let tb_true := tb0 [(s "w", EVar (s "real") true false); (s "z", EVar (s "real") true false)] in
  forallb wf_stmt ss = true /\ map render_stmt ss = [s "w(1) = z(2)"] /\
  region_unresolved tb_ford tb_true ss = true /\
  recorded tb_ford (map render_stmt ss) = Some [s "w"; s "z"] /\ calls_of tb_true ss = [].
Proof. cbv zeta. repeat match goal with |- _ /\ _ => split end; vm_compute; reflexivity. Qed.

(* ------------------------------------------------------------------ non-vacuity *)
Definition ex_tb : symtab :=
  mk_symtab [(s "f", EFunc (s "m.f") (s "integer")); (s "g", EFunc (s "m.g") (s "integer"));
             (s "sub", EProc (s "m.sub")); (s "t", EProc (s "m.t"));
             (s "arr", EVar (s "integer") true false); (s "sums", EVar (s "integer") true false);
             (s "i", EVar (s "integer") true false); (s "x", EVar (s "integer") true false);
             (s "obj", EVar (s "ty") true false); (s "ty", EType (s "ty"))]
            [(s "ty", [(s "items", EVar (s "integer") true false); (s "n", EVar (s "integer") true false);
                       (s "run", EProc (s "m.ty.run")); (s "get", EFunc (s "m.ty.get") (s "integer"))])]
            [(s "ext_fn", s "ext_fn@file")].

Definition ex_unit : list stmt :=
  [ SIfCall None true (EBin (ref1 "f" (name "i")) (s " > ") (num "0")) (DLast0 (s "t"));
    SForm None true (FAssign (ref1 "arr" (ref1 "g" (num "2"))) (EBin (ref1 "sums" (num "1")) (s " + ") (ref1 "size" (name "arr"))));
    SForm (Some (s "10")) false (FIfAssign (EPar (name "x")) (name "x") (ref1 "ext_fn" (EBin (num "1") (s ", ") (EDes (DPart0 (s "obj") (DLastA (s "get") (name "i")))))));
    SCall None (DPart0 (s "obj") (DLast0 (s "run")));
    SForm None true (FIoItems KWrite (EBin (ELit (s "*")) (s ", ") (ELit (s """0"""))) (EBin (ELit (s """1""")) (s ", ") (EDes (DPartA (s "obj") (name "i") (DLast0 (s "n"))))));
    SForm None true (FDoWhile (EBin (ref1 "f" (ref1 "f" (name "x"))) (s " < ") (num "3")));
    SFormat (s "100") true (pt_app (pt_str (s "i5, 3")) (PGrp (pt_str (s "f8.2, a")) PNil));
    SForm None true (FPlain (s "end") (s "do")) ].

Example exact_example :
  resolvable ex_tb ex_unit = true /\
  map render_stmt ex_unit =
    [s "if (f(i) > 0) call t"; s "arr(g(2)) = sums(1) + size(arr)"; s "10 if((x)) x = ext_fn(1, obj%get(i))";
     s "call obj%run"; s "write (*, ""0"") ""1"", obj(i)%n"; s "do while (f(f(x)) < 3)"; s "100 format (i5, 3(f8.2, a))";
     s "end do"] /\
  recorded ex_tb (map render_stmt ex_unit) = Some [s "m.t"; s "m.f"; s "m.g"; s "ext_fn@file"; s "m.ty.get"; s "m.ty.run"] /\
  calls_of ex_tb ex_unit = [s "m.f"; s "m.t"; s "m.g"; s "ext_fn@file"; s "m.ty.get"; s "m.ty.run"; s "m.f"; s "m.f"].
Proof. repeat match goal with |- _ /\ _ => split end; vm_compute; reflexivity. Qed.

Example raw_example :
  let st := SIfCall None true (EBin (ref1 "f" (ref1 "arr" (name "i"))) (s " > ") (num "0"))
                    (DPartA (s "obj") (name "i") (DLastA (s "run") (ref1 "g" (num "2")))) in
  wf_stmt st = true /\ plain_ok st = true /\ render_stmt st = s "if (f(arr(i)) > 0) call obj(i)%run(g(2))" /\
  map norm_chain (chain_texts (render_stmt st)) = [[s "obj"; s "run"]; [s "f"]; [s "g"]; [s "arr"]].
Proof. cbv zeta. repeat match goal with |- _ /\ _ => split end; vm_compute; reflexivity. Qed.

Example strip_example :
  let gs := [GKw (s "if") true (EBin (ref1 "f" (ref1 "arr" (name "i"))) (s " > ") (num "0"));
             GExpr (assign (name "x") (EBin (num "2") (s "*") (EPar (ref1 "g" (name "y")))))] in
  wf_segs gs = true /\ render_segs gs = s "if (f(arr(i)) > 0) x = 2*(g(y))" /\
  strip_paren (render_segs gs) 0 = [s "if () x = 2*()"] /\
  strip_paren (render_segs gs) 1 = [s "(f() > 0)"; s "(g())"] /\
  strip_paren (render_segs gs) 2 = [s "(arr())"; s "(y)"] /\ strip_paren (render_segs gs) 3 = [s "(i)"].
Proof. cbv zeta. repeat match goal with |- _ /\ _ => split end; vm_compute; reflexivity. Qed.

(* inside the hypothesis of C08_exact since the repairs: labelled CALL without argument list, computed
   GO TO with a reference in its selector, FORMAT without blank, the same binding name on two types *)
Example exact_repaired_example :
  let tb := mk_symtab [(s "f", EFunc (s "m.f") (s "integer")); (s "t", EProc (s "m.t")); (s "i", EVar (s "integer") true false);
                       (s "a", EVar (s "t1") true false); (s "b", EVar (s "t2") true false)]
                      [(s "t1", [(s "run", EProc (s "m.t1.run"))]); (s "t2", [(s "run", EProc (s "m.t2.run"))])] [] in
  let ss := [SCall (Some (s "10")) (DLast0 (s "t"));
             SGoto [s "10"; s "20"] (ref1 "f" (name "i"));
             SFormat (s "100") false (pt_app (pt_str (s "i5, 3")) (PGrp (pt_str (s "f8.2, a")) PNil));
             SCall None (DPart0 (s "a") (DLastA (s "run") (ELit [])));
             SIfCall (Some (s "20")) true (EBin (ref1 "f" (ref1 "f" (name "i"))) (s " > ") (ref1 "f" (name "i")))
                     (DPart0 (s "b") (DLast0 (s "run")))] in
  resolvable tb ss = true /\
  map render_stmt ss = [s "10 call t"; s "go to (10, 20), f(i)"; s "100 format(i5, 3(f8.2, a))"; s "call a%run()";
                        s "20 if (f(f(i)) > f(i)) call b%run"] /\
  recorded tb (map render_stmt ss) = Some [s "m.t"; s "m.f"; s "m.t1.run"; s "m.t2.run"].
Proof. cbv zeta. repeat match goal with |- _ /\ _ => split end; vm_compute; reflexivity. Qed.

(* nested ASSOCIATE constructs inside the hypothesis of C08_exact: a chain selector, a function
   selector, an expression selector, a name bound again in an inner construct, references headed by
   each of them, END ASSOCIATE restoring the outer meaning *)
Definition assoc_tb : symtab :=
  mk_symtab [(s "f", EFunc (s "m.f") (s "ty")); (s "g", EFunc (s "m.g") (s "integer")); (s "t", EProc (s "m.t"));
             (s "arr", EVar (s "integer") true false); (s "i", EVar (s "integer") true false);
             (s "obj", EVar (s "ty") true false); (s "ty", EType (s "ty"))]
            [(s "ty", [(s "items", EVar (s "integer") true false); (s "inner", EVar (s "ty") true false);
                       (s "run", EProc (s "m.ty.run")); (s "get", EFunc (s "m.ty.get") (s "integer"))])] [].

Definition assoc_unit : list stmt :=
  [ SAssoc true [(s "aa", EDes (DPart0 (s "obj") (DLast0 (s "inner")))); (s "bb", ref1 "f" (name "i"));
                 (s "cc", EBin (ref1 "arr" (EBin (num "1") (s ":") (num "3"))) (s " + ") (num "1"))];
    SCall None (DPart0 (s "aa") (DLast0 (s "run")));
    SForm None true (FAssign (name "i") (EBin (EDes (DPart0 (s "bb") (DLastA (s "get") (ref1 "g" (num "2")))))
                                             (s " + ") (ref1 "cc" (num "2"))));
    SAssoc false [(s "aa", EDes (DPart0 (s "aa") (DLast0 (s "items"))))];
    SForm None true (FAssign (name "i") (ref1 "aa" (num "1")));
    SEndAssoc;
    SIfCall None true (EBin (EDes (DPart0 (s "aa") (DLastA (s "get") (name "i")))) (s " > ") (num "0")) (DLast0 (s "t"));
    SEndAssoc;
    SForm None true (FAssign (name "i") (ref1 "aa" (num "1"))) ].

Example exact_assoc_example :
  resolvable assoc_tb assoc_unit = true /\
  map render_stmt assoc_unit =
    [s "associate (aa => obj%inner, bb => f(i), cc => arr(1:3) + 1)"; s "call aa%run"; s "i = bb%get(g(2)) + cc(2)";
     s "associate(aa => aa%items)"; s "i = aa(1)"; s "end associate"; s "if (aa%get(i) > 0) call t"; s "end associate";
     s "i = aa(1)"] /\
  unit_raw_calls (map render_stmt assoc_unit) =
    Some [[s "f"]; [s "arr"]; [s "obj"; s "inner"; s "run"]; [s "f"; s "get"]; [s "g"]; [s "obj"; s "inner"; s "items"];
          [s "t"]; [s "obj"; s "inner"; s "get"]; [s "aa"]] /\
  recorded assoc_tb (map render_stmt assoc_unit) = Some [s "m.f"; s "m.ty.run"; s "m.ty.get"; s "m.g"; s "m.t"; s "aa"].
Proof. repeat match goal with |- _ /\ _ => split end; vm_compute; reflexivity. Qed.

(* repaired: a plain scalar followed by "(" is a function reference (the declaration gives the result
   type of an external function; inside a function, its own result variable) *)
Example fixed_typed_external :
  let tb := mk_symtab [(s "ef", EVar (s "integer") true true); (s "i", EVar (s "integer") true true);
                       (s "arr", EVar (s "integer") true false)] [] [(s "ef", s "@ef")] in
  recorded tb [s "i = ef(3) + arr(2)"] = Some [s "@ef"] /\
  (let tbf := mk_symtab [(s "fact", EFunc (s "@m.fact") (s "integer")); (s "n", EVar (s "integer") true false);
                         (s "fact", EVar (s "integer") true true)] [] [] in
   recorded tbf [s "fact = n * fact(n - 1)"] = Some [s "@m.fact"]).
Proof. cbv zeta. split; vm_compute; reflexivity. Qed.
