(* Sem/TreeProofs.v — the structural parser returns exactly the declared tree (C01), rejects
   truncated units (C20), attaches documentation to the declared entity (C03) *)
From Ford Require Import Base.Str Sem.Tree Sem.TreeSpec.
From Coq Require Import Lia.

Definition add_children (es : list ent) (st : cstate) : cstate :=
  {| cs_incontains := cs_incontains st; cs_block := cs_block st; cs_negblock := cs_negblock st;
     cs_docs := cs_docs st; cs_children := cs_children st ++ es |}.

Definition level0 (st : cstate) : Prop := cs_block st = 0 /\ cs_negblock st = 0.

Definition no_doc_head (l : list stmt) : Prop := match l with SDoc _ :: _ => False | _ => True end.

Lemma take_docs_app docs l : no_doc_head l -> take_docs (map SDoc docs ++ l) = (docs, l).
Proof.
  intros H. induction docs as [|d docs IH]; simpl.
  - destruct l as [|[] l]; simpl in *; try reflexivity. destruct H.
  - now rewrite IH.
Qed.

Lemma flatten_no_doc_head d T : no_doc_head T -> no_doc_head (flatten d ++ T).
Proof.
  intros H. destruct d as [l names docs|n|k name docs spec cont|a name docs body]; simpl; auto.
  - destruct n; simpl; auto.
  - destruct k; simpl; auto.
Qed.

Lemma flat_no_doc_head ds T : no_doc_head T -> no_doc_head (flat_map flatten ds ++ T).
Proof.
  intros H. induction ds as [|d ds IH]; simpl; [exact H|].
  rewrite <- app_assoc. now apply flatten_no_doc_head.
Qed.

(* the statement for one declaration: it is consumed, its tree is added to the open container,
   and enough fuel remains *)
Definition consumed (d : decl) : Prop :=
  forall parent nm a g st f rest,
    wf_decl parent (cs_incontains st) d = true -> level0 st -> no_doc_head rest ->
    length (flatten d ++ rest) < f ->
    exists f', length rest < f' /\
      parse_body f parent nm a g st (flatten d ++ rest)
      = parse_body f' parent nm a g (add_children (tree_of d) st) rest.

Lemma add_children_nil st : add_children [] st = st.
Proof. destruct st. unfold add_children. simpl. now rewrite app_nil_r. Qed.

Lemma add_children_app a b st : add_children b (add_children a st) = add_children (a ++ b) st.
Proof. unfold add_children. simpl. now rewrite app_assoc. Qed.

Lemma consumed_list ds : Forall consumed ds ->
  forall parent nm a g st f rest,
    forallb (wf_decl parent (cs_incontains st)) ds = true -> level0 st -> no_doc_head rest ->
    length (flat_map flatten ds ++ rest) < f ->
    exists f', length rest < f' /\
      parse_body f parent nm a g st (flat_map flatten ds ++ rest)
      = parse_body f' parent nm a g (add_children (flat_map tree_of ds) st) rest.
Proof.
  intros H. induction H as [|d ds Hd _ IH]; intros parent nm a g st f rest Hwf Hl Hnd Hf.
  - exists f. simpl in *. rewrite add_children_nil. auto.
  - simpl in Hwf. apply andb_true_iff in Hwf as [Hw1 Hw2].
    cbn [flat_map] in *. rewrite <- app_assoc in *.
    destruct (Hd parent nm a g st f (flat_map flatten ds ++ rest) Hw1 Hl (flat_no_doc_head ds rest Hnd) Hf)
      as (f1 & Hf1 & E1).
    rewrite E1.
    destruct (IH parent nm a g (add_children (tree_of d) st) f1 rest Hw2 Hl Hnd Hf1) as (f2 & Hf2 & E2).
    exists f2. split; [exact Hf2|]. rewrite E2, add_children_app. reflexivity.
Qed.

Definition fresh (docs : list str) : cstate :=
  {| cs_incontains := false; cs_block := 0; cs_negblock := 0; cs_docs := docs; cs_children := [] |}.

Lemma fresh_level0 docs : level0 (fresh docs).
Proof. split; reflexivity. Qed.

Definition ckind_is_modproc (k : ckind) : bool := match k with KModProcImpl => true | _ => false end.

Definition contains_part (cont : list decl) : list stmt :=
  match cont with [] => [] | _ => SContains :: flat_map flatten cont end.

(* the body of a container — specification part, optional CONTAINS part, END — parsed from a
   fresh state returns the container with exactly the declared children *)
Lemma body_parsed k name a g docs spec cont :
  Forall consumed spec -> Forall consumed cont ->
  forallb (wf_decl k false) spec = true ->
  (match cont with [] => true | _ => can_contain k end) = true ->
  forallb (wf_decl k true) cont = true ->
  k <> KFile ->
  forall f rest,
    length (flat_map flatten spec ++ contains_part cont ++ [SEnd EndPlain] ++ rest) < f ->
    parse_body f k name a g (fresh docs)
      (flat_map flatten spec ++ contains_part cont ++ [SEnd EndPlain] ++ rest)
    = POk (Container k name a g docs (flat_map tree_of spec ++ flat_map tree_of cont)) rest.
Proof.
  intros Hs Hc Hws Hcan Hwc Hk f rest Hf.
  assert (Hnd : no_doc_head (contains_part cont ++ [SEnd EndPlain] ++ rest)).
  { destruct cont; exact I. }
  destruct (consumed_list spec Hs k name a g (fresh docs) f _ Hws (fresh_level0 docs) Hnd Hf) as (f1 & Hf1 & E1).
  rewrite E1. clear E1.
  destruct cont as [|c0 cont'].
  - cbn [contains_part app] in *. destruct f1 as [|f1]; [simpl in Hf1; lia|].
    cbn [parse_body]. destruct k; try congruence; cbn [add_children fresh cs_block cs_negblock cs_docs cs_children app];
      now rewrite app_nil_r.
  - remember (c0 :: cont') as cont eqn:Ec.
    assert (Ecp : contains_part cont = SContains :: flat_map flatten cont) by (subst cont; reflexivity).
    rewrite Ecp in *. clear Ecp.
    destruct f1 as [|f1]; [simpl in Hf1; lia|].
    cbn [app parse_body].
    match goal with |- parse_body _ _ _ _ _ ?S _ = _ => set (st1 := S) end.
    assert (Hinc : cs_incontains st1 = true).
    { unfold st1. cbn [cs_incontains add_children fresh]. subst cont. rewrite Hcan. apply orb_true_r. }
    assert (Hl1 : level0 st1) by (split; reflexivity).
    assert (Hf1' : length (flat_map flatten cont ++ [SEnd EndPlain] ++ rest) < f1).
    { simpl in Hf1. simpl. lia. }
    assert (Hwc' : forallb (wf_decl k (cs_incontains st1)) cont = true) by (rewrite Hinc; exact Hwc).
    destruct (consumed_list cont Hc k name a g st1 f1 ([SEnd EndPlain] ++ rest) Hwc' Hl1 I Hf1') as (f2 & Hf2 & E2).
    change ([SEnd EndPlain] ++ rest) with (SEnd EndPlain :: rest) in E2, Hf2.
    rewrite E2. destruct f2 as [|f2]; [simpl in Hf2; lia|].
    cbn [app parse_body].
    destruct k; try congruence; unfold st1; cbn [add_children fresh cs_block cs_negblock cs_docs cs_children app];
      reflexivity.
Qed.

Lemma noop_consumed n : consumed (DExec n).
Proof.
  induction n as [|n IH]; intros parent nm a g st f rest Hwf Hl Hnd Hf.
  - exists f. cbn [flatten repeat app tree_of] in *. rewrite add_children_nil. auto.
  - cbn [flatten repeat app] in *. destruct f as [|f]; [simpl in Hf; lia|].
    cbn [parse_body].
    assert (Hf' : length (repeat SNoop n ++ rest) < f) by (cbn [length] in Hf; lia).
    destruct (IH parent nm a g st f rest eq_refl Hl Hnd Hf') as (f' & Hf2 & E). exists f'. split; [exact Hf2|].
    cbn [flatten tree_of] in E. exact E.
Qed.

(* what the parser does with the first line of a unit it accepts *)
Lemma parse_unit_stmt f parent nm a g st k name l' :
  level0 st -> accepts_unit parent k = true ->
  (match k with KSubroutine | KFunction => is_codeunit parent && negb (cs_incontains st) | _ => false end) = false ->
  parse_body (S f) parent nm a g st (SUnit k name :: l') =
  (let (d, l1) := take_docs l' in
   match parse_body f k name false false (fresh d) l1 with
   | PErr e => PErr e
   | POk child rest => parse_body f parent nm a g (add_children [child] st) rest
   end).
Proof.
  intros (Hb & Hn) Hacc Hbc. destruct st as [inc blk neg ds ch]. simpl in Hb, Hn, Hbc. subst blk neg.
  cbn [parse_body cs_block cs_negblock cs_incontains]. rewrite Hacc, Hbc.
  destruct k; reflexivity.
Qed.

Lemma parse_modproc_stmt f parent nm a g st name l' :
  accepts_unit parent KModProcImpl = true ->
  parse_body (S f) parent nm a g st (SModProcImpl name :: l') =
  (let (d, l1) := take_docs l' in
   match parse_body f KModProcImpl name false false (fresh d) l1 with
   | PErr e => PErr e
   | POk child rest => parse_body f parent nm a g (add_children [child] st) rest
   end).
Proof. intros Hacc. cbn [parse_body]. rewrite Hacc. reflexivity. Qed.

Lemma parse_iface_stmt f parent nm a g st ab name l' :
  level0 st -> accepts_unit parent KInterface = true ->
  parse_body (S f) parent nm a g st (SIface ab name :: l') =
  (let (d, l1) := take_docs l' in
   match parse_body f KInterface name ab (is_generic name) (fresh d) l1 with
   | PErr e => PErr e
   | POk child rest => parse_body f parent nm a g (add_children (flatten_iface child) st) rest
   end).
Proof.
  intros (Hb & Hn) Hacc. destruct st as [inc blk neg ds ch]. simpl in Hb, Hn. subst blk neg.
  cbn [parse_body cs_block cs_negblock]. rewrite Hacc. reflexivity.
Qed.

Theorem every_decl_consumed : forall d, consumed d.
Proof.
  fix IH 1. intros d.
  destruct d as [l names docs|n|k name docs spec cont|ab name docs body].
  - (* leaf statement *)
    intros parent nm a g st f rest Hwf (Hb & Hn) Hnd Hf. cbn [flatten app] in *.
    destruct f as [|f]; [simpl in Hf; lia|]. exists f.
    split; [cbn [length] in Hf; rewrite app_length in Hf; lia|].
    destruct st as [inc blk neg ds ch]. simpl in Hb, Hn. subst blk neg.
    cbn [parse_body cs_block cs_negblock cs_incontains] in *.
    cbn [wf_decl] in Hwf. apply andb_true_iff in Hwf as [Hwf Hpos]. apply andb_true_iff in Hwf as [Hacc Hne].
    rewrite Hacc. cbn [negb orb].
    assert (Hg : match l with
                 | LVariable => false
                 | LBoundProc | LFinal => negb inc
                 | _ => false
                 end = false).
    { destruct l; try reflexivity; now rewrite Hpos. }
    rewrite Hg. cbn [orb].
    rewrite (take_docs_app docs rest Hnd). reflexivity.
  - apply noop_consumed.
  - (* program unit / procedure / type / enum / block data *)
    assert (Hs : Forall consumed spec) by (induction spec as [|x xs IHx]; constructor; [apply IH|exact IHx]).
    assert (Hc : Forall consumed cont) by (induction cont as [|x xs IHx]; constructor; [apply IH|exact IHx]).
    intros parent nm a g st f rest Hwf Hl Hnd Hf.
    cbn [wf_decl] in Hwf.
    apply andb_true_iff in Hwf as [Hwf Hshape]. apply andb_true_iff in Hwf as [Hwf Hwc].
    apply andb_true_iff in Hwf as [Hwf Hcan]. apply andb_true_iff in Hwf as [Hwf Hws].
    apply andb_true_iff in Hwf as [Hwf Hnf]. apply andb_true_iff in Hwf as [Hacc Hpos].
    assert (Hk : k <> KFile) by (intros ->; discriminate).
    assert (Ebody : flat_map flatten spec ++ (match cont with [] => [] | _ => SContains :: flat_map flatten cont end)
                    ++ [SEnd EndPlain] = flat_map flatten spec ++ contains_part cont ++ [SEnd EndPlain]) by reflexivity.
    cbn [flatten tree_of]. rewrite Ebody. clear Ebody.
    set (BODY := flat_map flatten spec ++ contains_part cont ++ [SEnd EndPlain]) in *.
    assert (Hndb : no_doc_head (BODY ++ rest)).
    { unfold BODY. rewrite <- !app_assoc. apply flat_no_doc_head. destruct cont; exact I. }
    destruct f as [|f]; [simpl in Hf; lia|]. exists f.
    assert (Hlen : length rest < f).
    { cbn [flatten app length] in Hf. rewrite !app_length in Hf. lia. }
    split; [exact Hlen|].
    assert (Hfb : length (flat_map flatten spec ++ contains_part cont ++ [SEnd EndPlain] ++ rest) < f).
    { cbn [flatten app length] in Hf. fold (contains_part cont) in Hf. rewrite !app_length in *. cbn [length] in *. lia. }
    pose proof (body_parsed k name false false docs spec cont Hs Hc Hws Hcan Hwc Hk f rest Hfb) as Hbody.
    assert (Erest : (map SDoc docs ++ BODY) ++ rest = map SDoc docs ++ (BODY ++ rest)) by now rewrite app_assoc.
    assert (Eb2 : BODY ++ rest = flat_map flatten spec ++ contains_part cont ++ [SEnd EndPlain] ++ rest).
    { unfold BODY. now rewrite <- !app_assoc. }
    destruct (ckind_is_modproc k) eqn:Emp.
    + destruct k; try discriminate Emp.
      change ((SModProcImpl name :: map SDoc docs ++ BODY) ++ rest)
        with (SModProcImpl name :: (map SDoc docs ++ BODY) ++ rest).
      rewrite Erest, (parse_modproc_stmt f parent nm a g st name _ Hacc).
      rewrite (take_docs_app docs _ Hndb), Eb2, Hbody. reflexivity.
    + assert (Hbc : (match k with KSubroutine | KFunction => is_codeunit parent && negb (cs_incontains st) | _ => false end) = false).
      { destruct k; try reflexivity; simpl in Hpos;
          (destruct (is_codeunit parent); [|reflexivity]); rewrite orb_false_r in Hpos; now rewrite Hpos. }
      assert (Efirst : (match k with KModProcImpl => SModProcImpl name | _ => SUnit k name end) = SUnit k name)
        by (destruct k; try reflexivity; discriminate Emp).
      rewrite Efirst.
      change ((SUnit k name :: map SDoc docs ++ BODY) ++ rest) with (SUnit k name :: (map SDoc docs ++ BODY) ++ rest).
      rewrite Erest, (parse_unit_stmt f parent nm a g st k name _ Hl Hacc Hbc).
      rewrite (take_docs_app docs _ Hndb), Eb2, Hbody. reflexivity.
  - (* interface block *)
    assert (Hs : Forall consumed body) by (induction body as [|x xs IHx]; constructor; [apply IH|exact IHx]).
    intros parent nm a g st f rest Hwf Hl Hnd Hf.
    cbn [wf_decl] in Hwf. apply andb_true_iff in Hwf as [Hwf Hwb]. apply andb_true_iff in Hwf as [Hacc Hpos].
    cbn [flatten tree_of].
    set (BODY := flat_map flatten body ++ [SEnd EndPlain]) in *.
    assert (Hndb : no_doc_head (BODY ++ rest)).
    { unfold BODY. rewrite <- app_assoc. apply flat_no_doc_head. exact I. }
    destruct f as [|f]; [simpl in Hf; lia|]. exists f.
    assert (Hlen : length rest < f).
    { cbn [flatten app length] in Hf. rewrite !app_length in Hf. lia. }
    split; [exact Hlen|].
    assert (Hfb : length (flat_map flatten body ++ contains_part [] ++ [SEnd EndPlain] ++ rest) < f).
    { cbn [flatten app length contains_part] in *. rewrite !app_length in *. cbn [length] in *. lia. }
    assert (Hki : KInterface <> KFile) by discriminate.
    pose proof (body_parsed KInterface name ab (is_generic name) docs body [] Hs (Forall_nil _) Hwb eq_refl eq_refl Hki f rest Hfb) as Hbody.
    cbn [contains_part app flat_map] in Hbody. rewrite app_nil_r in Hbody.
    change ((SIface ab name :: map SDoc docs ++ BODY) ++ rest) with (SIface ab name :: (map SDoc docs ++ BODY) ++ rest).
    rewrite <- app_assoc.
    rewrite (parse_iface_stmt f parent nm a g st ab name _ Hl Hacc).
    rewrite (take_docs_app docs _ Hndb). unfold BODY. rewrite <- app_assoc. cbn [app]. rewrite Hbody. reflexivity.
Qed.

(* C01, structural core: parsing the statements of a well-formed file yields exactly the declared
   tree — every declared entity once, under its declaring unit, nothing else, no error *)
Theorem tree_roundtrip fname units :
  forallb (wf_decl KFile false) units = true ->
  parse_file fname (file_stmts units) = POk (file_tree fname units) [].
Proof.
  intros H. unfold parse_file, file_stmts, file_tree.
  assert (Hc : Forall consumed units) by (apply Forall_forall; intros; apply every_decl_consumed).
  pose proof (consumed_list units Hc KFile fname false false (fresh []) (S (length (flat_map flatten units))) []
                H (fresh_level0 []) I) as Hx.
  rewrite app_nil_r in Hx. destruct (Hx (Nat.lt_succ_diag_r _)) as (f' & Hf' & E). clear Hx.
  change (parse_body (S (length (flat_map flatten units))) KFile fname false false (fresh []) (flat_map flatten units)
          = POk (Container KFile fname false false [] (flat_map tree_of units)) []).
  rewrite E. destruct f' as [|f']; [simpl in Hf'; lia|].
  reflexivity.
Qed.

(* C03, attach: the documentation of every declared entity ends up on that entity and nowhere
   else — a reading of [tree_roundtrip] for a single documented declaration in any scope *)
Corollary docs_attach d parent nm a g st f rest :
  wf_decl parent (cs_incontains st) d = true -> level0 st -> no_doc_head rest ->
  length (flatten d ++ rest) < f ->
  exists f', length rest < f' /\
    parse_body f parent nm a g st (flatten d ++ rest)
    = parse_body f' parent nm a g (add_children (tree_of d) st) rest.
Proof. apply every_decl_consumed. Qed.

(* non-vacuity: a module with a type (components, bindings after CONTAINS), variables, a generic and
   an abstract interface, procedures with an internal procedure, a submodule with a module
   procedure, a program and a block data unit *)
Definition example_units : list decl :=
  [DUnit KModule (s "m") [s " module doc"]
     [DLeaf LUse [s "iso"] []; DExec 2;
      DUnit KType (s "t") [s " type doc"] [DLeaf LVariable [s "c1"; s "c2"] [s " comps"]]
            [DLeaf LBoundProc [s "b1"; s "b2"] [s " bind doc"]; DLeaf LFinal [s "fin"] []];
      DLeaf LVariable [s "x"] [s " var doc"; s " more"];
      DIface false (s "gen") [s " generic doc"] [DLeaf LModProcRef [s "p"] []];
      DIface true (s "") [s " abstract doc"] [DUnit KSubroutine (s "cb") [s " cb doc"] [DLeaf LVariable [s "a"] []] []];
      DUnit KEnum (s "") [] [DLeaf LVariable [s "e1"] []] []]
     [DUnit KSubroutine (s "p") [s " p doc"] [DLeaf LVariable [s "a"] [s " arg doc"]; DExec 3]
            [DUnit KFunction (s "inner") [] [DLeaf LVariable [s "inner"] []] []]];
   DUnit KSubmodule (s "sm") [] [] [DUnit KModProcImpl (s "mp") [s " mp doc"] [DExec 1] []];
   DUnit KProgram (s "main") [] [DLeaf LUse [s "m"] []; DExec 2] [];
   DUnit KBlockData (s "") [] [DLeaf LVariable [s "v"] []; DLeaf LCommon [s "blk"] [s " common doc"]] []].

Example example_units_ok :
  forallb (wf_decl KFile false) example_units = true /\
  parse_file (s "f.f90") (file_stmts example_units) = POk (file_tree (s "f.f90") example_units) [].
Proof. split; [reflexivity|]. apply tree_roundtrip. reflexivity. Qed.
