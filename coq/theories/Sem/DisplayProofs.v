(* Sem/DisplayProofs.v — proofs about Sem/Display.v (property C05). *)
From Ford Require Import Base.Str Base.StrFacts Sem.Access Sem.Display.
From Coq Require Import Lia.

Local Arguments Nat.div : simpl never.

(* ------------------------------------------------------------------ induction on entity trees *)

Fixpoint node_ind' (P : node -> Prop)
  (H : forall k a cs, Forall (fun lc => P (snd lc)) cs -> P (Node k a cs)) (n : node) : P n :=
  match n with
  | Node k a cs =>
      H k a cs ((fix go (cs : list (lname * node)) : Forall (fun lc => P (snd lc)) cs :=
                   match cs with
                   | [] => Forall_nil _
                   | lc :: r => Forall_cons lc (node_ind' P H (snd lc)) (go r)
                   end) cs)
  end.

(* ------------------------------------------------------------------ the nested recursions, unfolded *)

Definition ids (os : list out) : list nat := map (fun o => fst (fst o)) os.
Definition kept (os : list out) : list out := filter (fun o => snd (fst o)) os.

Lemma kept_app a b : kept (a ++ b) = kept a ++ kept b.
Proof. apply filter_app. Qed.
Lemma ids_app a b : ids (a ++ b) = ids a ++ ids b.
Proof. apply map_app. Qed.

Definition set_head_vis (v : bool) (os : list out) : list out :=
  match os with (i, kp, _) :: rest => (i, kp, v) :: rest | [] => [] end.

(* what prune() of a node of kind k (display d below it, hide = early return) does with one child *)
Definition child_out (c : cfg) (k : nkind) (d : list word) (hide : bool) (l : lname) (ch : node) : list out :=
  if hide then
    if lname_eqb l LNamelists then
      if should_display c d (node_attrs ch) then set_head_vis true (untouched c true l ch)
      else untouched c false l ch
    else untouched c (negb (in_lists l cleared)) l ch
  else if in_lists l (filtered k) && negb (shown c d l (node_attrs ch)) then untouched c false l ch
  else
    let v := init_visible c l || in_lists l (made_visible k) in
    if in_lists l (recursed k) then pruned c d v ch else set_head_vis v (untouched c true l ch).

Definition hides (c : cfg) (k : nkind) (a : attrs) : bool :=
  match k with NProc => negb (internals c a) | _ => false end.

Lemma pruned_unfold c pd vis k a cs :
  pruned c pd vis (Node k a cs) =
  (a_id a, true, vis)
  :: flat_map (fun lc => child_out c k (disp_of false pd (a_display a)) (hides c k a) (fst lc) (snd lc)) cs.
Proof.
  simpl. f_equal. induction cs as [|[l ch] r IH]; [reflexivity|].
  simpl flat_map. rewrite <- IH. unfold child_out, hides, set_head_vis. simpl fst. simpl snd.
  destruct (match k with NProc => negb (internals c a) | _ => false end).
  - destruct (lname_eqb l LNamelists); [|reflexivity].
    destruct (should_display c (disp_of false pd (a_display a)) (node_attrs ch)); reflexivity.
  - destruct (in_lists l (filtered k) && negb (shown c (disp_of false pd (a_display a)) l (node_attrs ch)));
      [reflexivity|].
    destruct (in_lists l (recursed k)); reflexivity.
Qed.

Lemma untouched_unfold c kp l k a cs :
  untouched c kp l (Node k a cs) =
  (a_id a, kp, init_visible c l) :: flat_map (fun lc => untouched c kp (fst lc) (snd lc)) cs.
Proof.
  simpl. f_equal. induction cs as [|[l' ch] r IH]; [reflexivity|]. simpl. now rewrite <- IH.
Qed.

Definition is_file_kind (k : nkind) : bool := match k with NFile => true | _ => false end.

Lemma sel_unfold c inh k a cs :
  sel c inh (Node k a cs) =
  a_id a
  :: flat_map (fun lc =>
       if child_selected c k a (spec_display (is_file_kind k) inh (a_display a)) (fst lc) (node_attrs (snd lc))
       then sel c (spec_display (is_file_kind k) inh (a_display a)) (snd lc) else []) cs.
Proof.
  simpl. f_equal. induction cs as [|[l ch] r IH]; [reflexivity|]. simpl. now rewrite <- IH.
Qed.

Lemma regular_unfold k a cs :
  regular (Node k a cs) =
  perm_eqb (a_perm a) (a_acc a)
  && forallb (fun lc => allowed_child k (fst lc) && doc2_ok (fst lc) (node_attrs (snd lc)) && regular (snd lc)) cs.
Proof.
  simpl. f_equal. induction cs as [|[l ch] r IH]; [reflexivity|]. simpl. now rewrite <- IH.
Qed.

Lemma well_kinded_unfold k a cs :
  well_kinded (Node k a cs) =
  forallb (fun lc => kind_fits (fst lc) (node_kind (snd lc)) && well_kinded (snd lc)) cs.
Proof.
  simpl. induction cs as [|[l ch] r IH]; [reflexivity|]. simpl. now rewrite <- IH.
Qed.

(* what regularity and well-kindedness say about one child *)
Lemma child_facts k a cs l ch :
  regular (Node k a cs) = true -> well_kinded (Node k a cs) = true -> In (l, ch) cs ->
  allowed_child k l = true /\ doc2_ok l (node_attrs ch) = true /\ regular ch = true /\
  kind_fits l (node_kind ch) = true /\ well_kinded ch = true.
Proof.
  rewrite regular_unfold, well_kinded_unfold. intros R W I.
  apply andb_true_iff in R as [_ R]. rewrite forallb_forall in R, W.
  specialize (R _ I). specialize (W _ I). simpl in R, W.
  apply andb_true_iff in R as [R1 RC]. apply andb_true_iff in R1 as [RA RD].
  apply andb_true_iff in W as [WK WC]. auto.
Qed.

Lemma perm_eqb_true a b : perm_eqb a b = true -> a = b.
Proof. destruct a, b; simpl; intros H; try discriminate; reflexivity. Qed.

Lemma regular_acc n : regular n = true -> a_perm (node_attrs n) = a_acc (node_attrs n).
Proof.
  destruct n as [k a cs]. rewrite regular_unfold. intros H. apply andb_true_iff in H as [H _].
  now apply perm_eqb_true.
Qed.

(* ------------------------------------------------------------------ display words vs display sets *)

(* `none` never stands beside a permission word in a display list FORD computes *)
Definition none_alone (d : list word) : Prop :=
  has_word WNone d = true -> forall p, has_word (word_of_perm p) d = false.

Lemma has_word_In w d : has_word w d = true <-> In w d.
Proof.
  unfold has_word. rewrite existsb_exists. split.
  - intros (x & I & E). destruct w, x; try discriminate; exact I.
  - intros I. exists w. split; auto. now destruct w.
Qed.

Lemma cfg_ok_none_alone c : cfg_ok c = true -> none_alone (c_display c).
Proof.
  unfold cfg_ok, none_alone. intros H N p. rewrite N in H. simpl in H.
  destruct (has_word (word_of_perm p) (c_display c)) eqn:E; auto.
  apply has_word_In in E. rewrite forallb_forall in H. specialize (H _ E). destruct p; discriminate.
Qed.

Lemma filter_no_none meta : has_word WNone (filter (fun w => negb (word_eqb w WNone)) meta) = false.
Proof.
  destruct (has_word WNone (filter (fun w => negb (word_eqb w WNone)) meta)) eqn:E; auto.
  apply has_word_In in E. apply filter_In in E as [_ E]. discriminate.
Qed.

Lemma disp_of_none_alone f pd meta : none_alone pd -> none_alone (disp_of f pd meta).
Proof.
  intros H. unfold disp_of.
  set (tmp := if f then filter (fun w => negb (word_eqb w WNone)) meta else meta).
  destruct tmp as [|w r] eqn:E; auto.
  destruct (has_word WNone (w :: r)) eqn:N.
  - intros _ p. reflexivity.
  - destruct (existsb is_known (w :: r)); auto. intros X. congruence.
Qed.

Lemma mem_dset d p : none_alone d -> has_word (word_of_perm p) d = dset_has (dset_of d) p.
Proof.
  intros H. unfold dset_of. destruct (has_word WNone d) eqn:N.
  - rewrite (H N p). now destruct p.
  - now destruct p.
Qed.

Lemma known_dset d : none_alone d -> existsb is_known d = dset_nonempty (dset_of d).
Proof.
  intros H. unfold dset_of, dset_nonempty. destruct (has_word WNone d) eqn:N.
  - simpl. destruct (existsb is_known d) eqn:E; auto. apply existsb_exists in E as (w & I & K).
    apply has_word_In in I.
    pose proof (H N Public) as X1. pose proof (H N Private) as X2. pose proof (H N Protected) as X3.
    simpl in X1, X2, X3. destruct w; try discriminate; congruence.
  - simpl. destruct (existsb is_known d) eqn:E.
    + apply existsb_exists in E as (w & I & K). apply has_word_In in I.
      destruct w; try discriminate; rewrite I; simpl; rewrite ?orb_true_r; reflexivity.
    + destruct (has_word WPublic d) eqn:E1; [|destruct (has_word WPrivate d) eqn:E2; [|destruct (has_word WProtected d) eqn:E3; auto]];
        exfalso; [apply has_word_In in E1 | apply has_word_In in E2 | apply has_word_In in E3];
        assert (existsb is_known d = true) by (apply existsb_exists; eexists; split; [eassumption|reflexivity]); congruence.
Qed.

(* C05_display_inherit: the list FORD filters with is the documented override rule; on a source file the
   word `none` is ignored *)
Lemma disp_spec f pd meta : dset_of (disp_of f pd meta) = spec_display f (dset_of pd) meta.
Proof.
  unfold disp_of, spec_display.
  set (tmp := if f then filter (fun w => negb (word_eqb w WNone)) meta else meta).
  destruct tmp as [|w r]; [reflexivity|].
  destruct (has_word WNone (w :: r)) eqn:N; [reflexivity|].
  destruct (existsb is_known (w :: r)); reflexivity.
Qed.

Lemma display_inherit f pd meta p :
  none_alone pd ->
  has_word (word_of_perm p) (disp_of f pd meta) = dset_has (spec_display f (dset_of pd) meta) p.
Proof. intros H. rewrite <- disp_spec. apply mem_dset. now apply disp_of_none_alone. Qed.

(* ------------------------------------------------------------------ untouched subtrees *)

Lemma ids_cons o r : ids (o :: r) = fst (fst o) :: ids r.
Proof. reflexivity. Qed.
Lemma kept_cons_true i v r : kept ((i, true, v) :: r) = (i, true, v) :: kept r.
Proof. reflexivity. Qed.
Lemma kept_cons_false i v r : kept ((i, false, v) :: r) = kept r.
Proof. reflexivity. Qed.

Lemma kept_untouched_false c l n : kept (untouched c false l n) = [].
Proof.
  revert l. induction n as [k a cs IH] using node_ind'. intros l.
  rewrite untouched_unfold, kept_cons_false. induction cs as [|[l' ch] r IHr]; [reflexivity|].
  simpl flat_map. rewrite kept_app. inversion IH as [|? ? H1 H2]; subst. simpl snd in H1.
  simpl fst. simpl snd. rewrite H1. simpl. apply IHr. exact H2.
Qed.

Lemma kept_untouched_true c l n : kept (untouched c true l n) = untouched c true l n.
Proof.
  revert l. induction n as [k a cs IH] using node_ind'. intros l.
  rewrite untouched_unfold, kept_cons_true. f_equal.
  induction cs as [|[l' ch] r IHr]; [reflexivity|].
  simpl flat_map. rewrite kept_app. inversion IH as [|? ? H1 H2]; subst. simpl snd in H1.
  simpl fst. simpl snd. rewrite H1. f_equal. apply IHr. exact H2.
Qed.

Lemma ids_set_head_vis v os : ids (set_head_vis v os) = ids os.
Proof. destruct os as [|[[i kp] v'] r]; reflexivity. Qed.

Lemma kept_set_head_vis c v l n :
  kept (set_head_vis v (untouched c true l n)) = set_head_vis v (untouched c true l n).
Proof.
  pose proof (kept_untouched_true c l n) as H. destruct n as [k a cs].
  rewrite untouched_unfold in *. simpl set_head_vis. rewrite kept_cons_true in *.
  injection H as H. now rewrite H.
Qed.

Lemma args_selected c k a d ch : child_selected c k a d LArgs ch = true.
Proof. reflexivity. Qed.

Definition plain (k : nkind) : bool := match k with NOther | NCommon => true | _ => false end.

Lemma plain_child_selected c k a d l ch :
  plain k = true -> allowed_child k l = true -> child_selected c k a d l ch = true.
Proof. destruct k, l; simpl; intros P A; try discriminate; reflexivity. Qed.

Lemma plain_child_kind k l kc : plain k = true -> allowed_child k l = true -> kind_fits l kc = true -> plain kc = true.
Proof. destruct k, l, kc; simpl; intros; try discriminate; reflexivity. Qed.

(* a node without a prune method (variable, interface, bound procedure, namelist, dummy argument, common
   block): everything below it is part of it, and all of it is selected with it *)
Lemma other_ids c n :
  forall d l, plain (node_kind n) = true -> regular n = true -> well_kinded n = true ->
  ids (untouched c true l n) = sel c d n.
Proof.
  induction n as [k a cs IH] using node_ind'. intros d l K R W. simpl in K.
  rewrite untouched_unfold, sel_unfold, ids_cons. simpl fst. f_equal.
  assert (F : forall lc, In lc cs -> In lc cs) by auto. revert F.
  generalize cs at 1 3 4. intros cs0 F.
  induction cs0 as [|[l' ch] r IHr]; [reflexivity|].
  destruct (child_facts k a cs l' ch R W (F _ (or_introl eq_refl))) as (RA & _ & RC & WK & WC).
  rewrite Forall_forall in IH.
  simpl flat_map. simpl fst. simpl snd. rewrite ids_app.
  rewrite (plain_child_selected c k a _ l' (node_attrs ch) K RA).
  pose proof (IH (l', ch) (F _ (or_introl eq_refl))) as IHc. simpl in IHc.
  rewrite (IHc (spec_display (is_file_kind k) d (a_display a)) l' (plain_child_kind k l' _ K RA WK) RC WC).
  f_equal. apply IHr. intros lc I. apply F. now right.
Qed.

(* ------------------------------------------------------------------ prune = Spec on regular trees *)

Definition prunable (k : nkind) : bool :=
  match k with NModule | NSubmodule | NProgram | NProc | NType | NBlockData | NEnum => true | _ => false end.

Lemma filtered_not_special k l :
  in_lists l (filtered k) = true -> is_unit_list l = false /\ lname_eqb l LArgs = false.
Proof. destruct k, l; simpl; intros H; try discriminate; auto. Qed.

Lemma regular_child_cases k l :
  prunable k = true -> allowed_child k l = true ->
  (in_lists l (filtered k) = true) \/ (l = LArgs /\ in_lists l (filtered k) = false).
Proof. destruct k, l; simpl; intros P H; try discriminate; auto. Qed.

Lemma args_not_recursed k : in_lists LArgs (recursed k) = false.
Proof. now destruct k. Qed.

Lemma filtered_proc_cases l :
  in_lists l (filtered NProc) = true -> l = LNamelists \/ (lname_eqb l LNamelists = false /\ in_lists l cleared = true).
Proof. destruct l; simpl; intros H; try discriminate; auto. Qed.

Lemma recursed_kind k l kc :
  prunable k = true -> in_lists l (recursed k) = true -> kind_fits l kc = true -> prunable kc = true.
Proof. destruct k, l, kc; simpl; intros; try discriminate; reflexivity. Qed.

Lemma not_recursed_kind k l kc :
  prunable k = true -> allowed_child k l = true -> in_lists l (recursed k) = false ->
  kind_fits l kc = true -> plain kc = true.
Proof. destruct k, l, kc; simpl; intros; try discriminate; reflexivity. Qed.

Lemma prunable_not_common k : prunable k = true -> forall c a d l ch,
  is_unit_list l = false -> lname_eqb l LArgs = false ->
  child_selected c k a d l ch =
  (if perm_free l then dset_nonempty d else dset_has d (a_acc ch))
  && (negb (c_hide_undoc c) || documented ch) && (lname_eqb l LNamelists || spec_internals c k a).
Proof. intros P c a d l ch U A. unfold child_selected. rewrite U, A. destruct k; try discriminate; reflexivity. Qed.

Lemma doc2_unscoped l a : doc2_ok l a = true -> unscoped l = true -> a_doc2 a = false.
Proof.
  unfold doc2_ok. intros H U. destruct (a_doc2 a); auto. simpl in H.
  destruct l; simpl in U, H; discriminate.
Qed.

(* the filter of prune() is the Spec's rule, when FORD's permission is Fortran's accessibility *)
Lemma shown_selected c k a pd l ch :
  none_alone pd -> prunable k = true -> in_lists l (filtered k) = true ->
  a_perm ch = a_acc ch -> doc2_ok l ch = true ->
  (lname_eqb l LNamelists || spec_internals c k a) = true ->
  shown c (disp_of false pd (a_display a)) l ch
  = child_selected c k a (spec_display false (dset_of pd) (a_display a)) l ch.
Proof.
  intros N P F E D2 I. destruct (filtered_not_special k l F) as (U & A).
  rewrite (prunable_not_common k P c a _ l ch U A), I, andb_true_r.
  unfold shown. change (perm_free l) with (unscoped l).
  pose proof (disp_of_none_alone false pd (a_display a) N) as Nd.
  destruct (unscoped l) eqn:Us.
  - unfold should_display_unscoped, documented. rewrite (doc2_unscoped l ch D2 Us), orb_false_r.
    rewrite (known_dset _ Nd), disp_spec.
    destruct (c_hide_undoc c), (a_doc ch); simpl; rewrite ?andb_true_r, ?andb_false_r; reflexivity.
  - unfold should_display, documented. rewrite (display_inherit false pd (a_display a) (a_perm ch) N), E.
    destruct (c_hide_undoc c), (a_doc ch || a_doc2 ch); simpl; rewrite ?andb_true_r, ?andb_false_r; reflexivity.
Qed.

Lemma hides_internals c k a : hides c k a = false -> spec_internals c k a = true.
Proof. unfold hides, spec_internals, internals. destruct k; auto. intros H. now apply negb_false_iff in H. Qed.
Lemma hides_internals_true c k a : hides c k a = true -> k = NProc /\ spec_internals c k a = false.
Proof.
  unfold hides, spec_internals, internals. destruct k; try discriminate. intros H. split; auto.
  now apply negb_true_iff in H.
Qed.

Lemma pruned_exact c n :
  forall pd vis, none_alone pd -> prunable (node_kind n) = true -> regular n = true -> well_kinded n = true ->
  ids (kept (pruned c pd vis n)) = sel c (dset_of pd) n.
Proof.
  induction n as [k a cs IH] using node_ind'. intros pd vis N P R W. simpl in P.
  rewrite pruned_unfold, sel_unfold, kept_cons_true, ids_cons. simpl fst.
  assert (is_file_kind k = false) as -> by (destruct k; try discriminate; reflexivity).
  f_equal.
  set (d := disp_of false pd (a_display a)).
  assert (Nd : none_alone d) by now apply disp_of_none_alone.
  assert (Ed : spec_display false (dset_of pd) (a_display a) = dset_of d) by (symmetry; apply disp_spec).
  rewrite Forall_forall in IH.
  assert (F : forall lc, In lc cs -> In lc cs) by auto. revert F.
  generalize cs at 1 3 4. intros cs0 F.
  induction cs0 as [|[l ch] r IHr]; [reflexivity|].
  destruct (child_facts k a cs l ch R W (F _ (or_introl eq_refl))) as (RA & RD & RC & WK & WC).
  pose proof (regular_acc ch RC) as Eacc.
  simpl flat_map. simpl fst. simpl snd. rewrite kept_app, ids_app.
  rewrite (IHr (fun lc I => F lc (or_intror I))). f_equal. clear IHr.
  unfold child_out.
  destruct (hides c k a) eqn:Hh.
  - (* the procedure hides its internals *)
    destruct (hides_internals_true c k a Hh) as [-> SI].
    destruct (regular_child_cases NProc l eq_refl RA) as [Fl|[-> Fl]].
    + destruct (filtered_not_special NProc l Fl) as (U & A).
      rewrite (prunable_not_common NProc eq_refl c a _ l (node_attrs ch) U A).
      destruct (filtered_proc_cases l Fl) as [->|[NL CL]].
      * (* namelists are filtered all the same *)
        simpl lname_eqb. cbv iota. rewrite orb_true_l, andb_true_r.
        assert (SD : should_display c d (node_attrs ch)
                     = dset_has (spec_display false (dset_of pd) (a_display a)) (a_acc (node_attrs ch))
                       && (negb (c_hide_undoc c) || documented (node_attrs ch))).
        { unfold should_display, documented. fold d.
          rewrite (mem_dset d (a_perm (node_attrs ch)) Nd), Eacc, Ed.
          destruct (c_hide_undoc c), (a_doc (node_attrs ch) || a_doc2 (node_attrs ch)); simpl;
            rewrite ?andb_true_r, ?andb_false_r; reflexivity. }
        change (perm_free LNamelists) with false. cbv iota. rewrite <- SD.
        destruct (should_display c d (node_attrs ch)).
        -- rewrite kept_set_head_vis, ids_set_head_vis.
           apply (other_ids c ch _ LNamelists); auto.
           destruct (node_kind ch); simpl in WK; try discriminate; reflexivity.
        -- now rewrite kept_untouched_false.
      * rewrite NL, CL. simpl negb. rewrite kept_untouched_false, SI. simpl orb. now rewrite andb_false_r.
    + simpl lname_eqb. simpl in_lists. simpl negb. cbv iota.
      rewrite kept_untouched_true, args_selected.
      apply (other_ids c ch _ LArgs); auto.
      destruct (node_kind ch); simpl in WK; try discriminate; reflexivity.
  - pose proof (hides_internals c k a Hh) as SI.
    destruct (regular_child_cases k l P RA) as [Fl|[-> Fl]].
    + rewrite Fl. simpl andb.
      assert (SI' : (lname_eqb l LNamelists || spec_internals c k a) = true) by (rewrite SI; apply orb_true_r).
      rewrite <- (shown_selected c k a pd l (node_attrs ch) N P Fl Eacc RD SI').
      fold d. destruct (shown c d l (node_attrs ch)); simpl negb; cbv iota.
      * rewrite Ed. destruct (in_lists l (recursed k)) eqn:Rec.
        -- apply (IH _ (F _ (or_introl eq_refl))); auto. exact (recursed_kind k l _ P Rec WK).
        -- rewrite kept_set_head_vis, ids_set_head_vis.
           apply (other_ids c ch _ l (not_recursed_kind k l _ P RA Rec WK) RC WC).
      * now rewrite kept_untouched_false.
    + rewrite Fl, args_not_recursed. simpl andb. cbv iota.
      rewrite kept_set_head_vis, ids_set_head_vis, args_selected.
      apply (other_ids c ch _ LArgs); auto.
      destruct (node_kind ch); simpl in WK; try discriminate; reflexivity.
Qed.

Definition C05_full_statement : Prop :=
  forall c t, cfg_ok c = true -> is_file t = true -> well_kinded t = true -> regular t = true ->
              kept_ids c t = selected c t.

Lemma unit_kind l kc : is_unit_list l = true -> kind_fits l kc = true -> prunable kc = true.
Proof. destruct l, kc; simpl; intros; try discriminate; reflexivity. Qed.

Theorem prune_exact : C05_full_statement.
Proof.
  intros c [k a cs] C Fi W R. unfold is_file in Fi. simpl in Fi.
  assert (k = NFile) as -> by (destruct k; try discriminate; reflexivity).
  unfold kept_ids, selected. fold (kept (run c (Node NFile a cs))). fold (ids (kept (run c (Node NFile a cs)))).
  rewrite sel_unfold. simpl is_file_kind.
  pose proof (cfg_ok_none_alone c C) as N.
  unfold run. rewrite kept_cons_true, ids_cons. simpl fst. f_equal.
  unfold file_display. simpl node_attrs.
  rewrite <- disp_spec.
  pose proof (disp_of_none_alone true (c_display c) (a_display a) N) as Nf.
  set (fd := disp_of true (c_display c) (a_display a)) in *.
  assert (F : forall lc, In lc cs -> In lc cs) by auto. revert F.
  generalize cs at 1 3 4. intros cs0 F.
  induction cs0 as [|[l ch] r IHr]; [reflexivity|].
  destruct (child_facts NFile a cs l ch R W (F _ (or_introl eq_refl))) as (RA & _ & RC & WK & WC).
  simpl flat_map. simpl fst. simpl snd. rewrite kept_app, ids_app, (IHr (fun lc I => F lc (or_intror I))). f_equal.
  unfold child_selected. simpl in RA. rewrite RA.
  apply (pruned_exact c ch fd (init_visible c l) Nf (unit_kind l _ RA WK) RC WC).
Qed.

(* ------------------------------------------------------------------ visible flags *)

Lemma untouched_kept_flag c kp l n o : In o (untouched c kp l n) -> snd (fst o) = kp.
Proof.
  revert l. induction n as [k a cs IH] using node_ind'. intros l. rewrite untouched_unfold.
  intros [<-|I]; [reflexivity|]. apply in_flat_map in I as ([l' ch] & Ic & Io).
  rewrite Forall_forall in IH. exact (IH _ Ic _ Io).
Qed.

Lemma allowed_invisible c k l : k <> NFile -> allowed_child k l = true -> init_visible c l = false.
Proof. destruct k, l; simpl; intros N H; try discriminate; try reflexivity; congruence. Qed.

Lemma kind_fits_not_file l k : kind_fits l k = true -> k <> NFile.
Proof. destruct l, k; simpl; intros H; try discriminate; intros X; discriminate. Qed.

Lemma untouched_invisible c kp n :
  forall l o, node_kind n <> NFile -> regular n = true -> well_kinded n = true ->
  init_visible c l = false -> In o (untouched c kp l n) -> snd o = false.
Proof.
  induction n as [k a cs IH] using node_ind'. intros l o K R W V. simpl in K.
  rewrite untouched_unfold. rewrite Forall_forall in IH.
  intros [<-|I]; [exact V|]. apply in_flat_map in I as ([l' ch] & Ic & Io).
  destruct (child_facts k a cs l' ch R W Ic) as (RA & _ & RC & WK & WC).
  exact (IH _ Ic l' o (kind_fits_not_file _ _ WK) RC WC (allowed_invisible c k l' K RA) Io).
Qed.

Lemma set_head_vis_kept v os o : In o (set_head_vis v os) -> exists o', In o' os /\ snd (fst o') = snd (fst o).
Proof.
  destruct os as [|[[i kp] v'] r]; simpl; [contradiction|].
  intros [<-|I]; [exists (i, kp, v'); auto | exists o; auto].
Qed.

Lemma prunable_not_file k : prunable k = true -> k <> NFile.
Proof. destruct k; simpl; intros H; try discriminate; intros X; discriminate. Qed.

(* in a regular tree, whatever ends up visible has been kept *)
Lemma pruned_visible_kept c n :
  forall pd vis o, prunable (node_kind n) = true -> regular n = true -> well_kinded n = true ->
  In o (pruned c pd vis n) -> snd o = true -> snd (fst o) = true.
Proof.
  induction n as [k a cs IH] using node_ind'. intros pd vis o P R W. simpl in P.
  rewrite pruned_unfold. rewrite Forall_forall in IH.
  intros [<-|I] V; [reflexivity|]. apply in_flat_map in I as ([l ch] & Ic & Io).
  destruct (child_facts k a cs l ch R W Ic) as (RA & _ & RC & WK & WC). simpl in Io.
  pose proof (allowed_invisible c k l (prunable_not_file k P) RA) as Inv.
  pose proof (kind_fits_not_file _ _ WK) as NF.
  unfold child_out in Io.
  destruct (hides c k a).
  - destruct (lname_eqb l LNamelists).
    + destruct (should_display c (disp_of false pd (a_display a)) (node_attrs ch)).
      * apply set_head_vis_kept in Io as (o' & Io' & <-). exact (untouched_kept_flag c true l ch o' Io').
      * rewrite (untouched_invisible c false ch l o NF RC WC Inv Io) in V. discriminate.
    + destruct (negb (in_lists l cleared)) eqn:E.
      * exact (untouched_kept_flag c true l ch o Io).
      * rewrite (untouched_invisible c false ch l o NF RC WC Inv Io) in V. discriminate.
  - destruct (in_lists l (filtered k) && negb (shown c (disp_of false pd (a_display a)) l (node_attrs ch))).
    + rewrite (untouched_invisible c false ch l o NF RC WC Inv Io) in V. discriminate.
    + destruct (in_lists l (recursed k)) eqn:Rec.
      * exact (IH _ Ic _ _ o (recursed_kind k l _ P Rec WK) RC WC Io V).
      * apply set_head_vis_kept in Io as (o' & Io' & <-).
        exact (untouched_kept_flag c true l ch o' Io').
Qed.

Theorem visible_sound : forall c t i,
  cfg_ok c = true -> is_file t = true -> well_kinded t = true -> regular t = true ->
  In i (visible_ids c t) -> In i (selected c t).
Proof.
  intros c t i C Fi W R I. rewrite <- (prune_exact c t C Fi W R).
  unfold visible_ids, kept_ids in *. apply in_map_iff in I as (o & <- & Io).
  apply filter_In in Io as [Io V]. apply in_map_iff. exists o. split; auto.
  apply filter_In. split; auto.
  destruct t as [k a cs]. unfold is_file in Fi. simpl in Fi.
  assert (k = NFile) as -> by (destruct k; try discriminate; reflexivity).
  unfold run in Io. destruct Io as [<-|Io]; [reflexivity|].
  apply in_flat_map in Io as ([l ch] & Ic & Io).
  destruct (child_facts NFile a cs l ch R W Ic) as (RA & _ & RC & WK & WC). simpl in Io.
  exact (pruned_visible_kept c ch _ _ o (unit_kind l _ RA WK) RC WC Io V).
Qed.

(* ------------------------------------------------------------------ pages *)

Lemma flat_map_ext_in {A B} (f g : A -> list B) l :
  (forall x, In x l -> f x = g x) -> flat_map f l = flat_map g l.
Proof.
  induction l as [|x l IH]; intros H; [reflexivity|]. simpl.
  rewrite (H x) by now left. f_equal. apply IH. intros y I. apply H. now right.
Qed.

Lemma should_display_namelist c k a pd ch :
  none_alone pd -> prunable k = true -> a_perm ch = a_acc ch ->
  should_display c (disp_of false pd (a_display a)) ch
  = child_selected c k a (spec_display false (dset_of pd) (a_display a)) LNamelists ch.
Proof.
  intros N P E. rewrite (prunable_not_common k P c a _ LNamelists ch eq_refl eq_refl).
  change (perm_free LNamelists) with false. simpl lname_eqb. rewrite orb_true_l, andb_true_r.
  unfold should_display, documented. rewrite (display_inherit false pd (a_display a) (a_perm ch) N), E.
  destruct (c_hide_undoc c), (a_doc ch || a_doc2 ch); simpl; rewrite ?andb_true_r, ?andb_false_r; reflexivity.
Qed.

(* the namelists of a pruned procedure / program that keep their page *)
Lemma namelist_pages_exact c pd k a cs :
  none_alone pd -> prunable k = true -> regular (Node k a cs) = true -> well_kinded (Node k a cs) = true ->
  namelist_pages c (disp_of false pd (a_display a)) (Node k a cs)
  = spec_namelists c k a (spec_display false (dset_of pd) (a_display a)) (Node k a cs).
Proof.
  intros N P R W. unfold namelist_pages, spec_namelists. simpl node_children.
  apply flat_map_ext_in. intros [l ch] Ic.
  destruct (child_facts k a cs l ch R W Ic) as (_ & _ & RC & _ & _). simpl fst. simpl snd.
  destruct (lname_eqb l LNamelists); [|reflexivity]. simpl andb.
  now rewrite (should_display_namelist c k a pd (node_attrs ch) N P (regular_acc ch RC)).
Qed.

Lemma routine_kind l kc : is_routine_list l = true -> kind_fits l kc = true -> kc = NProc.
Proof. destruct l, kc; simpl; intros; try discriminate; reflexivity. Qed.

Lemma unit_pages_exact c pd u :
  none_alone pd -> prunable (node_kind u) = true -> regular u = true -> well_kinded u = true ->
  unit_pages c pd u = spec_pages_unit c (dset_of pd) u.
Proof.
  intros N P R W. destruct u as [k a cs]. simpl in P. unfold unit_pages, spec_pages_unit. cbv zeta. f_equal.
  set (d := disp_of false pd (a_display a)).
  assert (Nd : none_alone d) by now apply disp_of_none_alone.
  assert (Ed : spec_display false (dset_of pd) (a_display a) = dset_of d) by (symmetry; apply disp_spec).
  f_equal.
  - destruct k; try reflexivity; apply namelist_pages_exact; auto.
  - apply flat_map_ext_in. intros [l ch] Ic.
    destruct (child_facts k a cs l ch R W Ic) as (RA & RD & RC & WK & WC). simpl fst. simpl snd.
    assert (core : hides c k a = false ->
      negb (in_lists l (filtered k) && negb (shown c d l (node_attrs ch)))
      = child_selected c k a (spec_display false (dset_of pd) (a_display a)) l (node_attrs ch)).
    { intros Hh. destruct (regular_child_cases k l P RA) as [Fl|[-> Fl]].
      - rewrite Fl. simpl andb. rewrite negb_involutive.
        apply (shown_selected c k a pd l (node_attrs ch) N P Fl (regular_acc ch RC) RD).
        rewrite (hides_internals c k a Hh). apply orb_true_r.
      - rewrite Fl. reflexivity. }
    assert (nl : is_routine_list l = true ->
      namelist_pages c (disp_of false d (a_display (node_attrs ch))) ch
      = spec_namelists c (node_kind ch) (node_attrs ch)
          (spec_display false (spec_display false (dset_of pd) (a_display a)) (a_display (node_attrs ch))) ch).
    { intros Rl. pose proof (routine_kind l _ Rl WK) as Kc. destruct ch as [kc ac ccs]. simpl in Kc. subst kc.
      simpl node_kind. simpl node_attrs. rewrite Ed.
      apply (namelist_pages_exact c d NProc ac ccs Nd eq_refl RC WC). }
    destruct k; try reflexivity; rewrite (core eq_refl);
      destruct (child_selected c _ a (spec_display false (dset_of pd) (a_display a)) l (node_attrs ch)); try reflexivity;
      f_equal; destruct (is_routine_list l) eqn:Rl; try reflexivity; apply nl; reflexivity.
Qed.

Theorem pages_exact : forall c t,
  cfg_ok c = true -> is_file t = true -> well_kinded t = true -> regular t = true ->
  pages c t = spec_pages c t.
Proof.
  intros c [k a cs] C Fi W R. unfold is_file in Fi. simpl in Fi.
  assert (k = NFile) as -> by (destruct k; try discriminate; reflexivity).
  unfold pages, spec_pages. simpl node_children. cbv zeta.
  unfold file_display. simpl node_attrs. rewrite <- disp_spec.
  pose proof (disp_of_none_alone true (c_display c) (a_display a) (cfg_ok_none_alone c C)) as N.
  apply flat_map_ext_in. intros [l ch] Ic.
  destruct (child_facts NFile a cs l ch R W Ic) as (RA & _ & RC & WK & WC). simpl snd.
  apply unit_pages_exact; auto. exact (unit_kind l _ RA WK).
Qed.

(* ------------------------------------------------------------------ former witnesses (repaired defects) *)
(* kept as regression inputs: the harness replays each on the implementation on every run *)

Definition at_ (i : nat) (p : perm) (doc : bool) : attrs := mk_attrs i p p doc false [] None.
Definition leaf (l : lname) (i : nat) (p : perm) (doc : bool) : lname * node := (l, Node NOther (at_ i p doc) []).
Definition file_of (meta : list word) (units : list (lname * node)) : node :=
  Node NFile (mk_attrs 1 Public Public false false meta None) units.
Definition cfg_of (d : list word) (internals hide : bool) : cfg := mk_cfg d internals hide true.

Definition w_enum : node :=
  file_of [] [(LModules, Node NModule (at_ 2 Private true)
     [(LEnums, Node NEnum (at_ 3 Private true) [leaf LVariables 4 Private true])])].
Definition w_common : node :=
  file_of [] [(LModules, Node NModule (mk_attrs 2 Public Public true false [WNone] None)
     [(LCommon, Node NCommon (at_ 3 Public true) [leaf LVariables 4 Public false])])].
Definition w_namelist : node :=
  file_of [] [(LModules, Node NModule (at_ 2 Private true)
     [(LSubroutines, Node NProc (at_ 3 Private true) [leaf LVariables 4 Private true; leaf LNamelists 5 Private false])])].
Definition w_namelist_module : node :=
  file_of [] [(LModules, Node NModule (at_ 2 Private true)
     [leaf LVariables 3 Private true; leaf LNamelists 4 Private false])].
Definition w_final : node :=
  file_of [] [(LModules, Node NModule (at_ 2 Public true)
     [(LTypes, Node NType (at_ 3 Public true) [leaf LFinalProcs 4 Public false])])].
Definition w_file : node :=
  file_of [WPrivate] [(LModules, Node NModule (at_ 2 Public true) [leaf LVariables 3 Private true])].
Definition w_docplace : node :=
  file_of [] [(LModules, Node NModule (at_ 2 Public true)
     [(LAbsInterfaces, Node NOther (mk_attrs 3 Public Public false true [] None) [])])].
Definition w_internals : node :=
  file_of [] [(LModules, Node NModule (at_ 2 Public true)
     [(LSubroutines, Node NProc (at_ 3 Public true)
        [leaf LVariables 4 Public true; (LEnums, Node NEnum (at_ 5 Public true) [leaf LVariables 6 Public true])])])].

(* private module: the implementation of a separate module procedure written in the module itself *)
Definition w_modproc : node :=
  file_of [] [(LModules, Node NModule (at_ 2 Private true)
     [leaf LInterfaces 3 Private true; (LModProcedures, Node NProc (at_ 4 Private true) [leaf LVariables 5 Private true])])].

(* the configuration and tree satisfy the hypotheses of the theorems, and FORD's lists are the Spec's *)
Definition agrees (c : cfg) (t : node) : Prop :=
  cfg_ok c = true /\ is_file t = true /\ well_kinded t = true /\ regular t = true /\
  kept_ids c t = selected c t /\ pages c t = spec_pages c t.

Example fixed_enum : agrees (cfg_of [WPublic] true false) w_enum /\ kept_ids (cfg_of [WPublic] true false) w_enum = [1; 2].
Proof. repeat split. Qed.
Example fixed_internals_enum :
  agrees (cfg_of [WPublic] false false) w_internals /\ kept_ids (cfg_of [WPublic] false false) w_internals = [1; 2; 3].
Proof. repeat split. Qed.
Example fixed_common :
  agrees (cfg_of [WPublic; WProtected] true false) w_common /\ kept_ids (cfg_of [WPublic; WProtected] true false) w_common = [1; 2].
Proof. repeat split. Qed.
Example fixed_namelist :
  agrees (cfg_of [WPublic] true false) w_namelist_module /\ agrees (cfg_of [WPublic] true false) w_namelist /\
  pages (cfg_of [WPublic] true false) w_namelist = [2] /\ visible_ids (cfg_of [WPublic] true false) w_namelist = [1; 2].
Proof. repeat split. Qed.
Example fixed_final : agrees (cfg_of [WPublic] true true) w_final /\ kept_ids (cfg_of [WPublic] true true) w_final = [1; 2; 3].
Proof. repeat split. Qed.
Example fixed_file_display :
  agrees (cfg_of [WPublic] true false) w_file /\ kept_ids (cfg_of [WPublic] true false) w_file = [1; 2; 3].
Proof. repeat split. Qed.
Example fixed_doc_place :
  agrees (cfg_of [WPublic] true true) w_docplace /\ kept_ids (cfg_of [WPublic] true true) w_docplace = [1; 2; 3].
Proof. repeat split. Qed.

Example fixed_module_modprocedure :
  agrees (cfg_of [WPublic] true false) w_modproc /\ kept_ids (cfg_of [WPublic] true false) w_modproc = [1; 2] /\
  pages (cfg_of [WPublic] true false) w_modproc = [2].
Proof. repeat split. Qed.

(* a constructor interface whose permission is not its type's accessibility: the tree is not regular, and
   FORD's lists differ from the Spec's — what the judge reports as a failing input *)
Definition w_constructor : node :=
  file_of [] [(LModules, Node NModule (at_ 2 Public true)
     [(LTypes, Node NType (at_ 3 Private true) []);
      (LInterfaces, Node NOther (mk_attrs 4 Public Private true false [] None) [])])].
Example constructor_permission_matters :
  regular w_constructor = false /\
  kept_ids (cfg_of [WPublic] true false) w_constructor = [1; 2; 4] /\
  selected (cfg_of [WPublic] true false) w_constructor = [1; 2].
Proof. repeat split. Qed.

(* ------------------------------------------------------------------ non-vacuity *)

Definition ex_tree : node :=
  file_of [WPublic; WProtected; WNone]
    [(LModules, Node NModule (mk_attrs 2 Private Private true false [WPublic; WPrivate] None)
       [(LTypes, Node NType (mk_attrs 3 Public Public true false [WPublic] None)
           [leaf LVariables 4 Public true; leaf LVariables 5 Private true; leaf LBoundProcs 6 Public false;
            leaf LFinalProcs 30 Public true]);
        (LInterfaces, Node NOther (at_ 7 Private true) [leaf LArgs 8 Private false]);
        (LAbsInterfaces, Node NOther (mk_attrs 31 Public Public false true [] None) []);
        leaf LVariables 9 Protected true;
        (LEnums, Node NEnum (at_ 32 Private true) [leaf LVariables 33 Private true; leaf LVariables 34 Private false]);
        (LCommon, Node NCommon (at_ 35 Public true) [leaf LVariables 36 Public false]);
        (LSubroutines, Node NProc (mk_attrs 10 Public Public true false [] (Some false))
           [leaf LArgs 11 Private true; leaf LVariables 12 Private true; leaf LNamelists 37 Private true;
            (LEnums, Node NEnum (at_ 38 Private true) [])]);
        (LFunctions, Node NProc (at_ 13 Private true)
           [leaf LVariables 14 Private true; (LSubroutines, Node NProc (at_ 15 Private true) [leaf LVariables 16 Private false])])]);
     (LProcs, Node NProc (mk_attrs 17 Public Public false false [WNone] None) [leaf LArgs 18 Public false; leaf LVariables 19 Public true]);
     (LPrograms, Node NProgram (at_ 20 Public true) [leaf LVariables 21 Public true; leaf LNamelists 39 Public true])].

Example ex_prune_exact :
  let c := cfg_of [WPrivate] true true in
  cfg_ok c = true /\ is_file ex_tree = true /\ well_kinded ex_tree = true /\ regular ex_tree = true /\
  kept_ids c ex_tree = [1; 2; 3; 4; 30; 7; 8; 31; 32; 33; 35; 36; 10; 11; 37; 13; 14; 15; 17; 18; 20; 21; 39] /\
  visible_ids c ex_tree = [1; 2; 3; 4; 7; 31; 35; 10; 37; 13; 15; 17; 20; 39] /\
  pages c ex_tree = [2; 3; 7; 31; 10; 37; 13; 17; 20; 39].
Proof. repeat split; vm_compute; reflexivity. Qed.

Example ex_display_inherit :
  none_alone [WPublic; WProtected] /\
  disp_of false [WPublic; WProtected] [WPrivate; WOther] = [WPrivate; WOther] /\
  disp_of false [WPublic; WProtected] [WOther] = [WPublic; WProtected] /\
  disp_of false [WPublic; WProtected] [WPublic; WNone] = [] /\
  disp_of true [WPublic] [WNone] = [WPublic] /\ disp_of true [WPublic] [WNone; WPrivate] = [WPrivate].
Proof. split; [intros H; discriminate | repeat split; reflexivity]. Qed.
